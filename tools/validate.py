#!/opt/veriftools/pyvenv/bin/python
import json, jsonschema, glob, sys
ok = True
try:
    jsonschema.validate(json.load(open('/verif/MANIFEST.json')), json.load(open('/root/.vp/MANIFEST.schema.json')))
except Exception as e:
    ok = False; print("MANIFEST invalid:", str(e)[:300])
es = json.load(open('/root/.vp/EVIDENCE.schema.json'))
m = json.load(open('/verif/MANIFEST.json'))
for c in m['checks']:
    f = c['evidence_file']
    try:
        e = json.load(open(f)); jsonschema.validate(e, es)
        assert e['level'] == c['level_claimed']['category'], "level mismatch %s vs %s" % (e['level'], c['level_claimed']['category'])
        assert e['property_id'] == c['property_id']
    except Exception as ex:
        ok = False; print(f, "invalid:", str(ex)[:300])
print("validation", "OK" if ok else "FAILED", "-", len(m['checks']), "checks,", len(m.get('not_applicable', [])), "n/a")
sys.exit(0 if ok else 1)
