#!/bin/bash
# Runs the repository's baseline test suite (guard off) in DIR (default /repo) and compares with BASELINE.json's stable_pass.
DIR=${1:-/repo}
export GOFLAGS=-mod=mod GOPROXY=off GOSUMDB=off GOTOOLCHAIN=local; unset GOWORK
cd "$DIR" || exit 2
go test -json -vet=off -count=1 -timeout 25m ./... 2>/dev/null > /tmp/baseline.$$.json
python3 - "$$" <<'PY'
import json,sys
base=json.load(open('/root/.vp/BASELINE.json'))
want=set(base['stable_pass'])
got=set()
for l in open('/tmp/baseline.%s.json'%sys.argv[1]):
    try: e=json.loads(l)
    except: continue
    if e.get('Action')=='pass' and e.get('Test'):
        got.add(e['Package']+'::'+e['Test'])
missing=sorted(want-got)
print("baseline: %d/%d stable tests pass"%(len(want&got),len(want)))
for m in missing: print("  MISSING/FAILED:",m)
sys.exit(1 if missing else 0)
PY
rc=$?
rm -f /tmp/baseline.$$.json
exit $rc
