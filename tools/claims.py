# Claim table used by gen_manifest.py. claim(pid, category, technique, text, note, design_ref)

claim("C13", "proof", "lock-order and blocking-under-lock analysis (must-hold lock sets over SSA + VTA call graph)",
      "Sufficient condition for deadlock freedom decided for all call paths and schedules at once: the lock-order graph over every mutex class of the module "
      "(edges found through the call graph including function-valued fields and callbacks) is acyclic, no channel operation / blocking select / WaitGroup or Cond wait "
      "runs while a mutex is held, and no function leaves a mutex locked at return. Mutex waits are then the only blocking operations on Listen/Close paths and they are "
      "well ordered, so every call returns. This is a proof of the structural condition, not of liveness of syscalls.",
      "Assumes: VTA call graph sound for this program (no reflection/unsafe on these paths); lock classes merge all instances of a struct type (conservative); "
      "net.Listen*/Close syscalls return; Go mutexes are starvation-free.", "DESIGN.md §4 C13")

claim("C10", "other", "CFG cut / must-pass-through queries and error-discipline analysis on SSA",
      "Decides the control-flow skeleton of all-or-nothing reload on every path: start is cut by the success edges of read/parse/validate and starts the validated config; the old config is stopped and the "
      "stop-function field overwritten only on the start-success edge and with start's own result; every fallible call in the start code has its error tested on an edge that returns non-nil (no failure is skipped); "
      "the goroutine owning a generation's listener set closes it on the start-failure edge before it can block; the stop function signals that goroutine and awaits its close. Structural necessary conditions, not the run-time state after a reload.",
      "Anchors found by role (the goroutine literal that allocates the listenerSet, its callers). Not decided: OS bind behaviour, YAML decoding, actual goroutine termination times.", "DESIGN.md §4 C10")
claim("C11", "other", "CFG dominance/cut queries, reference-count pairing, reachability in the call graph",
      "Decides on all paths: new config started before (and old stopped only after success of) start; in each shared-listener Acquire the socket is created only when absent, the handle count is incremented exactly once on success returns and never on failure returns, "
      "count/socket are only accessed under the listener mutex, the socket is closed only on the count==0 edge after the decrement; and nothing reachable from the stream handler reacts to context cancellation, so cancelling the serve context at shutdown cannot interrupt relaying connections.",
      "Not decided: kernel accept-queue behaviour during the overlap, timing, which generation handles a given connection at run time.", "DESIGN.md §4 C11")
claim("C12", "other", "channel/select shape analysis of pump goroutines and handle methods; sibling agreement between handle types",
      "Decides the structure that exactly-once delivery depends on, for every interleaving: one reader goroutine per socket creation; every blocking channel operation of a reader goroutine is a select arm next to a receive on a channel the last release closes (and the cancel arm closes a pending connection); "
      "a reader answers a taken read request without another blocking socket call; on count==0 the socket is closed, the reader signalled and the manager callback run at most once; every handle method that blocks on the shared channel also waits on its close channel and excludes the closed state first.",
      "Not decided: which handle receives which datagram under a schedule, OS-level re-bindability, select fairness.", "DESIGN.md §4 C12")

claim("C19", "other", "lock-set (guarded-by) analysis with immutability, confinement and write-once classification; single-critical-section rule",
      "Decides a lock discipline that implies race freedom for the shared components, for every access on every call path: each field is immutable after construction, guarded by one lock class on all accesses (exclusively for writes, including in-place map/list mutation), "
      "confined to the one goroutine kind that creates the object, a sync primitive, or write-once before the go statement that publishes it; and every function takes a guarding lock at most once (no check-then-act across an unlock).",
      "Entry lock sets are intersected over in-repo call sites (external callers force the empty set). Not decided: linearizability of results; races inside Prometheus/SDK; per-connection objects that are not shared.", "DESIGN.md §4 C19")
claim("C17", "other", "lock-set analysis at clock reads with forward value flow; who-may-call; CFG must-pass and value-identity checks",
      "Decides the structural conditions of exact tunnel-time accounting on all paths: every clock read that flows into a start time or a duration is made under the collector mutex; tunnels are started/stopped only from the authentication/close reports and the UDP entry constructor/removal, "
      "with keys derived by one function from the same two fields and the TCP stop cut by accessKey != \"\"; the report adds one and the same duration to both counters and then stores the same clock value as the new start; last-close reports before deleting, both only on connCount <= 0; counts change exactly once per call.",
      "Not decided: the arithmetic identity over histories and scrapes; per-connection balance of start/stop calls (C15/C16 call discipline).", "DESIGN.md §4 C17")

claim("C14", "other", "CFG must-pass / path-count queries, who-may-mutate queries, dominance checks on the deadline hooks",
      "Decides the reclamation structure of UDP associations on all paths: removal reported exactly once after the reply loop, entry deleted and the returned socket closed, the reply loop left only via the Timeout() classification; "
      "table entries inserted/removed only by the helpers owned by Add and the association goroutine; every write through an association extends the deadline before the send; derived deadlines installed only on the After(readDeadline) edge and recorded, "
      "immediate expiry only inside the sync.Once fast-close reached from the read side; the datagram loop defers the table's Close, which visits every entry under the write lock; the DNS timeout is 17 s decided from port 53 of the written address.",
      "Not decided: every 'at least / within bounded time' clause; kernel deadline behaviour.", "DESIGN.md §4 C14")
claim("C18", "other", "goroutine-region analysis with recover frames; panic-obligation discharge (bounds D1-D4, channel close, library preconditions); CFG pairing rules for WaitGroup, loop exits, Close and goroutine joins",
      "Decides, over every path of every goroutine that handles network input: recover frames dominate all per-connection and per-datagram work; in the regions outside any recover frame every potential panic site (non-constant slice/index bounds, panicking type assertions, explicit panics, channel close, "
      "WithLabelValues arity, Counter.Add sign, in-place Pack alignment) is discharged by a named procedure or reported; WaitGroup Add/Done/Wait pairing; the serve loops exit only on net.ErrClosed; client, target and association sockets are closed on every exit of their owner; "
      "the relay joins its helper goroutine; reader goroutines are cancellable.",
      "Bounds discharge D4 shows a bound exists on every untrusted length, not numeric sufficiency. Not decided: panics inside stdlib/third-party code, nil dereferences, resource exhaustion.", "DESIGN.md §4 C18")

claim("C01", "other", "effect analysis of the pre-authentication call region (call graph) + CFG cut/must-pass queries + loop-shape and value-provenance checks + constant-table agreement",
      "Decides on all paths and for every key-list shape: no write/close/dial/listen is reachable before the authentication result is known (handler and the whole authenticator call region; every callee effect-free by list, resolved into the repo, or reported) and the failure edge drains first; "
      "the trial-decryption loops range over the whole snapshot, leave only when exhausted or on Unpack's success edge, and size the ciphertext prefix per key with that key's own salt/tag size; salt+2+tag <= bytesForKeyFinding <= salt+2+2*tag for every SDK cipher spec; "
      "id, reader/writer keys, salt, generator, replay key and usage mark all derive from the one matched entry; Update replaces the list wholesale.",
      "Effect-free list and SDK semantics are trusted. Not decided: AEAD correctness, MRU ordering effects, concurrent Update vs lookup results.", "DESIGN.md §4 C01")
claim("C06", "other", "effect analysis + CFG must-pass-before queries (drain before close) + value provenance of deadlines",
      "Decides probe-resistance structure on all paths: nothing written/closed/dialed before authentication; every failure point (authentication failure of any status incl. replays, address-read failure, client-to-target copy error) drains the client connection itself, unbounded, before any close; "
      "the pre-authentication deadline depends only on time.Now, the handler timeout and the context deadline; no deadline change on the failure path and the deadline is cleared only after authentication; no SetLinger; the key finder reads exactly bytesForKeyFinding bytes with io.ReadFull before deciding; "
      "replay and reflected-salt tests gate success unconditionally.",
      "Not decided: that the close happens at the deadline within a time bound; FIN vs RST on the wire.", "DESIGN.md §4 C06")
claim("C07", "other", "who-may-call / value-provenance (single replay history), CFG cut (replay gate), lock-set (single critical section)",
      "Decides: exactly one replay history is created in the server command, its field is never replaced, and every service of every generation gets a pointer to that very field; every success return of the authenticator is cut by ReplayCache.Add(matched id, this handshake's salt) == true with no bypass, "
      "the salt being firstBytes[:SaltSize(matched key)]; refused replays take the silent failure path; ReplayCache.Add does lookup, rotation and insert in one critical section.",
      "Not decided: the most-recent-N arithmetic of rotation and resizing (a seeded change to Resize's archive test is out of reach), the 32-bit collision rate.", "DESIGN.md §4 C07")
claim("C08", "other", "constant-table agreement, CFG cut/must-pass, who-may-construct, sibling agreement between GetSalt and IsServerSalt",
      "Decides: the marking generator is selected exactly for salt sizes >= 20 (constants and the SDK's cipher specs); cipher entries are only built by MakeCipherEntry and never modified; every success return has installed the matched entry's generator on the writer the returned connection writes through; "
      "success is cut by IsServerSalt == false, unconditionally and before the replay history, on firstBytes[:SaltSize(matched key)]; GetSalt/IsServerSalt share the split and tag helpers with the same mark length, compute tags on per-call hash state, and draw randomness from crypto/rand.",
      "Not decided: pairwise salt uniqueness, HMAC unforgeability.", "DESIGN.md §4 C08")

claim("C03", "other", "CFG cut queries on the per-datagram function (both branches), value provenance of payload/address/key/buffers, loop-shape check of the key search",
      "Decides on every path of the per-datagram function: every target send, socket creation and association creation is cut by a decryption success edge and by a destination-validation success edge; payload and address sent are the validation's own results on this datagram's plaintext; "
      "existing associations decrypt with the immutable key bound to the entry found, Add binds the matching key, replies are packed with the association's key; trial decryption uses distinct, loop-owned buffers and reply buffers are per association; each reply carries ParseAddr(String()) of this iteration's source and goes, as packed, to the association's client; the key search tries every key.",
      "Not decided: AEAD correctness, salt freshness inside SDK Pack, byte equality of payloads.", "DESIGN.md §4 C03")
claim("C04", "other", "value provenance of NAT keys and sockets, CFG cut on the Get == nil edge, who-may-mutate the table, goroutine binding checks",
      "Decides: the table is keyed by String() of the whole datagram source (lookup) and of Add's client address (insert/delete); the socket created for a new client flows only into one natmap.Add; sockets and associations are created only on the Get == nil edge and only after authentication and destination validation; "
      "Add starts exactly one reply goroutine bound to its own client address, listener and entry; reply buffers are per association and replies go only to the association's client; an entry is removed only by its own goroutine under the key it was inserted with.",
      "Not decided: kernel source-address selection, expiry races at run time.", "DESIGN.md §4 C04")
claim("C05", "other", "who-may-dial query, guard placement (CFG cut), constant-table containment against the special-purpose registry",
      "Decides: stream dials happen only through the handler's dialer field, which only the constructor (package default) and SetTargetDialer set; the default is the validating dialer built with RequirePublicIP whose Control hook returns the validator's verdict on the IP parsed from the address being connected on every return; no other net dial exists; "
      "every UDP datagram's destination is validated on the resolved IP that is then used; the private CIDR literals parse canonically, cover RFC 1918, CGNAT and ULA and each lies inside a special-purpose block; RequirePublicIP accepts only on IsGlobalUnicast(ip) && !IsPrivateAddress(ip); the server never overrides the policy.",
      "Trusts net.IP.IsGlobalUnicast / IPNet.Contains and the embedded special-purpose list. Not decided: DNS answers, kernel routing, NAT64/6to4 embeddings.", "DESIGN.md §4 C05")
claim("C16", "other", "path counting and value provenance of metric-call arguments; per-iteration variable check; label-arity and direction tables",
      "Decides the call discipline of UDP metrics on all paths: association added exactly once with the authenticating key id and removed exactly once; the client packet reported at most once per iteration, only when an association exists, with this iteration's read size and this iteration's target write size held in per-iteration variables; "
      "the target packet reported exactly once per non-expiry iteration with this iteration's read size and the byte count returned by the client write; statuses are \"OK\" or the error's status; every WithLabelValues has the vector's arity; sizes map to the right direction labels.",
      "Not decided: numeric equality of per-key sums with bytes on the sockets.", "DESIGN.md §4 C16")

claim("C02", "other", "CFG must-pass / dominance queries on the relay functions, value provenance of the replaying reader, wrapper-transparency check",
      "Decides on all paths: each relay copy is followed by CloseWrite of its own destination and CloseRead of its own source, and neither is applied to a connection whose copy runs in the other goroutine (a FIN only after all data of that direction); the relay joins its helper goroutine before returning and closes the target by a deferred Close; "
      "the decrypting reader reads io.MultiReader(bytes.NewReader(B), R) with B the freshly allocated buffer io.ReadFull(R, B) filled from the same R; the handshake deadline is cleared before the relay starts; every method of the measuring wrapper delegates exactly once with unchanged arguments and results.",
      "Not decided: byte equality, chunking, ordering inside SDK reader/writer and io.Copy.", "DESIGN.md §4 C02")
claim("C15", "other", "path counting, CFG cut/must-pass on the authentication edges, value provenance of status and counters, wrapper-transparency and label tables",
      "Decides the call discipline of TCP metrics on all paths: open reported at most once (exactly once with metrics configured) and its metrics object handed to the handler; AddClosed exactly once on every path before the client Close, with status \"OK\" only on the nil edge and otherwise the handler error's Status, carrying this connection's counters; "
      "AddAuthenticated only on the success edge, on every path from it, at most once, with the authenticator's id, before further processing; AddProbe exactly once per authentication failure with the byte counter read after the drain; connections measured into the right counter pairs; the wrapper counts exactly the returned counts; label arity and direction mapping agree.",
      "Not decided: numeric equality of counters with bytes on the wire.", "DESIGN.md §4 C15")

claim("C09", "other", "value provenance with loop-iteration identity (range sources), CFG cut on the duplicate test, loop-shape check of the key search",
      "Decides for the configuration start code: every serving goroutine pairs a listener and a service created in the same iteration of the configuration loop, whose address and key material derive from the same range element (same services entry / same legacy (port, list) tuple); every key list is created per iteration and reaches exactly one WithCiphers; each listener is served once; "
      "the per-service list is built by a forward range that skips a key exactly when (Cipher, Secret) is already in a per-call set, pushes in order, records the pair after pushing and builds the entry from the same key element; legacy keys are filed under their own port; the trial decryption tries every key with that key's own header size.",
      "Not decided: YAML decoding, run-time authentication results (C01/C03).", "DESIGN.md §4 C09")
claim("C20", "other", "whole-module forward string taint (field-based, interprocedural over the call graph) + CFG cut/must-pass on the classification edges",
      "Decides: no string derived from an address (String() of address types unless provably LocalAddr(), SplitHostPort/JoinHostPort, formatting of address or error values) or from an error text reaches a label value, metric name or help of any Prometheus call, following def-use, fields, cells, varargs, parameters and results over resolved call edges; every connection-error status is a constant; "
      "the location database is consulted only on the enabled / parsed / global-unicast edges, XL, XD, ZZ and XA are assigned on every path of exactly their edges, nothing is assigned when disabled, and the address helper parses before any lookup; label arity agrees with the vectors.",
      "Not decided: contents of database answers; taint carried by non-string values formatted outside the module.", "DESIGN.md §4 C20")
