# Claim table used by gen_manifest.py. claim(pid, category, technique, text, note, design_ref)

claim("C13", "proof", "lock-order and blocking-under-lock analysis (must-hold lock sets over SSA + VTA call graph)",
      "Sufficient condition for deadlock freedom decided for all call paths and schedules at once: the lock-order graph over every mutex class of the module "
      "(edges found through the call graph including function-valued fields and callbacks) is acyclic, no channel operation / blocking select / WaitGroup or Cond wait "
      "runs while a mutex is held, and no function leaves a mutex locked at return. Mutex waits are then the only blocking operations on Listen/Close paths and they are "
      "well ordered, so every call returns. This is a proof of the structural condition, not of liveness of syscalls.",
      "Assumes: VTA call graph sound for this program (no reflection/unsafe on these paths); lock classes merge all instances of a struct type (conservative); "
      "net.Listen*/Close syscalls return; Go mutexes are starvation-free.", "DESIGN.md §4 C13")
