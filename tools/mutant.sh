#!/bin/bash
# tools/mutant.sh <patch> <property>... : apply a patch to a scratch copy of /repo and run the property checks on it.
# Evidence for /repo is not touched (uses a throw-away -verif dir for output).
patch=$(realpath "$1"); shift
export GOFLAGS=-mod=mod GOPROXY=off GOSUMDB=off GOTOOLCHAIN=local CGO_ENABLED=0; unset GOWORK
d=$(mktemp -d /tmp/mut.XXXXXX); v=$(mktemp -d /tmp/mutv.XXXXXX)
trap 'rm -rf "$d" "$v"' EXIT
rsync -a --exclude .git /repo/ "$d"/
(cd "$d" && patch -p1 -s -f --no-backup-if-mismatch -i "$patch") || { echo "PATCH DOES NOT APPLY"; exit 3; }
cp /verif/known_findings.json "$v"/ 2>/dev/null
rc=0
for p in "$@"; do
  /verif/bin/sscheck -property "$p" -repo "$d" -verif "$v" ${MUT_FLAGS} | sed -e "s#$d/##g" | grep -v '^VIOLATION' ; r=${PIPESTATUS[0]}; echo "  -> $p exit=$r"; [ $r -ne 0 ] && rc=1
done
exit $rc
