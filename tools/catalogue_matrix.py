#!/usr/bin/env python3
"""Run each catalogued mutant (mutants/C*/...) against the properties it is registered for."""
import json, os, subprocess, sys, tempfile, shutil, concurrent.futures as cf
env = dict(os.environ, GOFLAGS="-mod=mod", GOPROXY="off", GOSUMDB="off", GOTOOLCHAIN="local", CGO_ENABLED="0"); env.pop("GOWORK", None)
idx=[e for e in json.load(open('/verif/mutants/index.json')) if e['patch'].startswith('mutants/C')]
def run(e):
    out=[]
    d = tempfile.mkdtemp(prefix="cm.")
    try:
        subprocess.check_call(["rsync", "-a", "--exclude", ".git", "/repo/", d + "/"])
        if subprocess.run(["patch", "-p1", "-s", "-f", "--no-backup-if-mismatch", "-i", "/verif/"+e['patch']], cwd=d, capture_output=True).returncode != 0:
            return e['patch'], ["PATCH DOES NOT APPLY"]
        for p in e['properties']:
            v = tempfile.mkdtemp(prefix="cmv.")
            shutil.copy("/verif/known_findings.json", v)
            r = subprocess.run(["/verif/bin/sscheck", "-property", p, "-repo", d, "-verif", v], capture_output=True, text=True, env=env)
            shutil.rmtree(v, ignore_errors=True)
            out.append("%s exit=%d" % (p, r.returncode))
        return e['patch'], out
    finally: shutil.rmtree(d, ignore_errors=True)
with cf.ThreadPoolExecutor(8) as ex:
    for patch,out in ex.map(run, idx): print(patch, " ".join(out))
