#!/bin/bash
# tools/runall.sh [quick|thorough] : run every registered check against /repo; print one line per property.
tier=${1:-quick}; cd /verif; rc=0
for p in $(python3 -c "import json;print(' '.join(c['property_id'] for c in json.load(open('MANIFEST.json'))['checks']))"); do
  out=$(./check $p $tier 2>&1); r=$?
  echo "$p exit=$r $(echo "$out" | head -1 | cut -c1-160)"
  [ $r -ne 0 ] && { rc=1; echo "$out" | grep -E "^(violated|UNDECIDED|VIOLATION|KNOWN)" | cut -c1-300; }
done
exit $rc
