#!/usr/bin/env python3
"""Run each seeded mutant (and each reverted fix) against the check of the property it breaks; update meta.json detected_by;
print a table. Scratch copies live under /tmp and are removed."""
import json, os, subprocess, sys, tempfile, shutil, glob, concurrent.futures as cf
env = dict(os.environ, GOFLAGS="-mod=mod", GOPROXY="off", GOSUMDB="off", GOTOOLCHAIN="local", CGO_ENABLED="0"); env.pop("GOWORK", None)
def run(patch, prop):
    d = tempfile.mkdtemp(prefix="sm."); v = tempfile.mkdtemp(prefix="smv.")
    try:
        subprocess.check_call(["rsync", "-a", "--exclude", ".git", "/repo/", d + "/"])
        if subprocess.run(["patch", "-p1", "-s", "-f", "--no-backup-if-mismatch", "-i", patch], cwd=d, capture_output=True).returncode != 0:
            return prop, None, ["PATCH DOES NOT APPLY"]
        shutil.copy("/verif/known_findings.json", v)
        r = subprocess.run([os.environ.get("SSCHECK", "/verif/bin/sscheck"), "-property", prop, "-repo", d, "-verif", v], capture_output=True, text=True, env=env)
        fired = sorted({l.split(" at ")[0].split()[1] for l in r.stdout.splitlines() if l.startswith(("violated", "UNDECIDED"))})
        return prop, r.returncode, fired
    finally:
        shutil.rmtree(d, ignore_errors=True); shutil.rmtree(v, ignore_errors=True)
jobs = []
for m in sorted(glob.glob("/verif/seeded/*/meta.json")):
    meta = json.load(open(m)); jobs.append((os.path.dirname(m) + "/patch.diff", meta["breaks_property"], m))
extra = {"F1_runconfig_release": ["C10"], "F2_F8_stream_pump": ["C12", "C18", "C19"], "F3_packet_closed_read": ["C12"], "F4_lock_order": ["C13"],
         "F5_collect_clock": ["C17", "C18"], "F6_timedcopy_bound": ["C18"], "F7_replay_capacity": ["C19", "C07"]}
for n, props in extra.items():
    for p in props: jobs.append(("/verif/mutants/findings/%s.patch" % n, p, None))
flt = sys.argv[1:]
if flt: jobs = [j for j in jobs if any(f in j[0] or f == j[1] for f in flt)]
res = []
with cf.ThreadPoolExecutor(8) as ex:
    futs = {ex.submit(run, j[0], j[1]): j for j in jobs}
    for f in cf.as_completed(futs):
        j = futs[f]; prop, rc, fired = f.result(); res.append((j, rc, fired))
res.sort(key=lambda r: r[0][0])
miss = 0
for (patch, prop, meta), rc, fired in res:
    name = patch.replace("/verif/", "")
    print("%-45s %s exit=%s %s" % (name, prop, rc, " ".join(fired)))
    if rc != 1: miss += 1
    if meta:
        m = json.load(open(meta)); m["detected_by"] = fired if rc == 1 else []; m["check_exit"] = rc
        json.dump(m, open(meta, "w"), indent=1)
print("missed:", miss, "of", len(res))
