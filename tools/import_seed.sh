#!/bin/bash
# tools/import_seed.sh <Cxx> <m1|m2> : verify a sub-agent's seeded change in scratch copies of /repo and, if it
# (1) applies, builds and passes the 93 baseline tests, (2) makes its demo fail, (3) demo passes without it,
# store it under /verif/seeded/<Cxx>-<mN>/ (patch.diff, demo, notes.md, meta.json).
P=$1; M=$2; SRC=/tmp/seed_out/$P/$M
export GOFLAGS=-mod=mod GOPROXY=off GOSUMDB=off GOTOOLCHAIN=local; unset GOWORK
[ -f $SRC/patch.diff ] || { echo "no patch in $SRC"; exit 2; }
demo=$(ls $SRC/*_test.go 2>/dev/null | head -1)
[ -n "$demo" ] || { echo "no demo test in $SRC"; exit 2; }
pkg=$(grep -m1 '^package ' $demo | awk '{print $2}')
case $pkg in
  service|service_test) dir=service;; net_test) dir=net;; main) dir=cmd/outline-ss-server;; net) dir=net;; prometheus) dir=prometheus;; ipinfo) dir=ipinfo;; metrics) dir=service/metrics;; integration_test) dir=internal/integration_test;;
  *) echo "unknown demo package $pkg"; exit 2;;
esac
a=$(mktemp -d /tmp/seedA.XXXX); b=$(mktemp -d /tmp/seedB.XXXX)
trap 'rm -rf "$a" "$b" "$a.log" "$b.log"' EXIT
rsync -a --exclude .git /repo/ $a/; rsync -a --exclude .git /repo/ $b/
(cd $b && patch -p1 -s -f --no-backup-if-mismatch -i $SRC/patch.diff) || { echo "FAIL: patch does not apply"; exit 1; }
(cd $b && go build ./...) || { echo "FAIL: does not build"; exit 1; }
/verif/tools/baseline.sh $b || /verif/tools/baseline.sh $b || { echo "FAIL: baseline tests fail with the patch"; exit 1; }
cp $demo $a/$dir/zz_seed_demo_test.go; cp $demo $b/$dir/zz_seed_demo_test.go
names=$(grep -o '^func Test[A-Za-z0-9_]*' $demo | sed 's/func //' | paste -sd'|')
(cd $a && timeout 600 go test -vet=off -count=1 -run "^($names)\$" ./$dir/ >$a.log 2>&1); ra=$?
(cd $b && timeout 600 go test -vet=off -count=1 -run "^($names)\$" ./$dir/ >$b.log 2>&1); rb=$?
echo "demo without patch: exit $ra; with patch: exit $rb"
if [ $ra -ne 0 ] || [ $rb -eq 0 ]; then echo "FAIL: demo does not discriminate"; tail -5 $a.log $b.log; exit 1; fi
out=/verif/seeded/$P-$M; mkdir -p $out
cp $SRC/patch.diff $out/patch.diff; cp $demo $out/$(basename $demo); cp $SRC/notes.md $out/notes.md 2>/dev/null
python3 - "$P" "$M" "$dir" "$names" <<'PY'
import json,sys,re
P,M,d,names=sys.argv[1:5]
notes=open('/verif/seeded/%s-%s/notes.md'%(P,M)).read() if True else ''
first=[l.strip() for l in notes.splitlines() if l.strip() and not l.startswith('#')]
json.dump({"id":"%s-%s"%(P,M),"breaks_property":P,"source":"independent sub-agent given only the property text and a scratch worktree",
 "summary":(first[0] if first else "")[:400],
 "needs_to_manifest":"see notes.md",
 "demo":{"package_dir":d,"tests":names},
 "verified":["patch applies to /repo HEAD and `go build ./...` succeeds","tools/baseline.sh: 93/93 baseline tests pass with the patch","demo passes without the patch (exit 0) and fails with it (non-zero)"],
 "detected_by":[]}, open('/verif/seeded/%s-%s/meta.json'%(P,M),'w'), indent=1)
PY
echo "IMPORTED $out"
