#!/usr/bin/env python3
"""Create a catalogued mutant: tools/mkmut.py <dir/name> <props,comma> <what> <file> <old> <new> [<file> <old> <new> ...]
Applies exact-string replacements to a scratch copy of /repo, checks it builds and still passes the 93 baseline
tests, writes /verif/mutants/<dir>/<name>.patch and registers it in /verif/mutants/index.json."""
import json, os, subprocess, sys, tempfile, shutil

name, props, what = sys.argv[1], sys.argv[2].split(","), sys.argv[3]
edits = sys.argv[4:]
assert len(edits) % 3 == 0 and edits
env = dict(os.environ, GOFLAGS="-mod=mod", GOPROXY="off", GOSUMDB="off", GOTOOLCHAIN="local")
env.pop("GOWORK", None)
d = tempfile.mkdtemp(prefix="mkmut.")
try:
    subprocess.check_call(["rsync", "-a", "--exclude", ".git", "/repo/", d + "/a/"])
    subprocess.check_call(["rsync", "-a", "--exclude", ".git", "/repo/", d + "/b/"])
    for i in range(0, len(edits), 3):
        f, old, new = edits[i:i + 3]
        p = os.path.join(d, "b", f)
        s = open(p).read()
        if s.count(old) != 1:
            sys.exit("edit %d: old string occurs %d times in %s" % (i // 3, s.count(old), f))
        open(p, "w").write(s.replace(old, new))
    r = subprocess.run(["go", "build", "./..."], cwd=d + "/b", env=env, capture_output=True, text=True)
    if r.returncode != 0:
        sys.exit("mutant does not build:\n" + r.stderr[:2000])
    if os.environ.get("MKMUT_NOTEST") != "1":
        r = subprocess.run(["/verif/tools/baseline.sh", d + "/b"], capture_output=True, text=True)
        print(r.stdout.strip())
        if r.returncode != 0:
            sys.exit("mutant fails the baseline suite (kept nothing)")
    diff = subprocess.run(["diff", "-ruN", "a", "b"], cwd=d, capture_output=True, text=True).stdout
    out = "/verif/mutants/%s.patch" % name
    os.makedirs(os.path.dirname(out), exist_ok=True)
    open(out, "w").write(diff)
    idxp = "/verif/mutants/index.json"
    idx = json.load(open(idxp)) if os.path.exists(idxp) else []
    idx = [e for e in idx if e["patch"] != "mutants/%s.patch" % name]
    idx.append({"patch": "mutants/%s.patch" % name, "properties": props, "what": what})
    idx.sort(key=lambda e: e["patch"])
    json.dump(idx, open(idxp, "w"), indent=1)
    print("wrote", out)
finally:
    shutil.rmtree(d)
