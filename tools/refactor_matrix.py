#!/usr/bin/env python3
"""Run ALL property checks against each behaviour-preserving refactoring patch (/tmp/seed_out/*/r*/patch.diff or benign/*/patch.diff);
any alarm is a false alarm of the machinery."""
import json, os, subprocess, sys, tempfile, shutil, glob, concurrent.futures as cf
env = dict(os.environ, GOFLAGS="-mod=mod", GOPROXY="off", GOSUMDB="off", GOTOOLCHAIN="local", CGO_ENABLED="0"); env.pop("GOWORK", None)
props = [c['property_id'] for c in json.load(open('/verif/MANIFEST.json'))['checks']]
if os.environ.get('PROPS'): props = os.environ['PROPS'].split(',')
patches = sorted([os.path.abspath(x) for x in sys.argv[1:]] or glob.glob('/verif/benign/*/patch.diff'))
def run(patch):
    d = tempfile.mkdtemp(prefix="rm."); out = []
    try:
        subprocess.check_call(["rsync", "-a", "--exclude", ".git", "/repo/", d + "/"])
        r = subprocess.run(["git", "apply", "--directory", d.lstrip('/'), "--unsafe-paths", patch], cwd="/", capture_output=True, text=True)
        if r.returncode != 0:
            r = subprocess.run(["patch", "-p1", "-s", "-f", "--no-backup-if-mismatch", "-i", patch], cwd=d, capture_output=True, text=True)
            if r.returncode != 0: return patch, ["PATCH DOES NOT APPLY: " + r.stdout[:200] + r.stderr[:200]]
        for p in props:
            v = tempfile.mkdtemp(prefix="rmv.")
            try:
                shutil.copy("/verif/known_findings.json", v)
                rr = subprocess.run([os.environ.get("SSCHECK", "/verif/bin/sscheck"), "-property", p, "-repo", d, "-verif", v], capture_output=True, text=True, env=env)
                if rr.returncode != 0:
                    for l in rr.stdout.splitlines() + rr.stderr.splitlines():
                        if l.startswith(("violated", "UNDECIDED", "sscheck:")): out.append(l.replace(d + "/", "")[:420])
            finally: shutil.rmtree(v, ignore_errors=True)
        return patch, out
    finally: shutil.rmtree(d, ignore_errors=True)
bad = 0
with cf.ThreadPoolExecutor(int(os.environ.get("JOBS", "4"))) as ex:
    for patch, out in ex.map(run, patches):
        print("== %s: %s" % (patch, "clean" if not out else "%d ALARMS" % len(out)))
        for l in out: print("   ", l)
        bad += bool(out)
print("patches with alarms: %d of %d" % (bad, len(patches)))
