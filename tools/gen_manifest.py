#!/usr/bin/env python3
"""Regenerates /verif/MANIFEST.json from the claim table below (one place to keep texts consistent)."""
import json, os, subprocess, sys

ENV = "GOFLAGS=-mod=mod GOPROXY=off GOSUMDB=off GOTOOLCHAIN=local CGO_ENABLED=0"

# property id -> (category, technique, text, note, design_ref)
CLAIMS = {}
# property id -> reason
NOT_APPLICABLE = {}

def claim(pid, category, technique, text, note, ref):
    CLAIMS[pid] = (category, technique, text, note, ref)

exec(open(os.path.join(os.path.dirname(__file__), "claims.py")).read())

props = [json.loads(l)["id"] for l in open("/verif/properties.jsonl")]
checks = []
for pid in props:
    if pid in CLAIMS:
        cat, tech, text, note, ref = CLAIMS[pid]
        checks.append({
            "property_id": pid,
            "quick_cmd": "./check %s quick" % pid,
            "thorough_cmd": "./check %s thorough" % pid,
            "evidence_file": "/verif/evidence/%s.json" % pid,
            "replay_cmd_template": "bin/sscheck -explain {path}",
            "engine": "sscheck",
            "level_claimed": {"category": cat, "text": text, "design_ref": ref},
            "level_note": note,
            "technique": tech,
        })
na = [{"property_id": p, "reason": NOT_APPLICABLE.get(p, "check not built yet in this revision; see DESIGN.md §4 for the planned structural clauses")}
      for p in props if p not in CLAIMS]
fixes = subprocess.run(["git", "-C", "/repo", "log", "--format=%h %s", "--grep=^fix:"], capture_output=True, text=True).stdout.strip().splitlines()
m = {
    "version": 1,
    "setup_cmd": "cd /verif && %s go build -o bin/sscheck ./cmd/sscheck" % ENV,
    "hooks": {
        "guard": "verif",
        "enable": "no hooks: the checker reads /repo's source with go/packages; nothing in /repo is instrumented (build tag 'verif' is reserved and unused)",
        "baseline_off_cmd": "/verif/tools/baseline.sh /repo",
        "source_commits": [],
        "add_only": True,
    },
    "engines": [{
        "name": "sscheck",
        "path": "/verif/cmd/sscheck",
        "serves_properties": sorted(CLAIMS),
        "kind_free_text": "custom static analyser: go/packages type-checked program of /repo's working tree, go/ssa, VTA call graph; "
                          "CFG cut/must-pass queries, value provenance, who-may queries, lock sets and lock order, goroutine regions, panic obligations, constant tables",
    }],
    "checks": checks,
    "not_applicable": na,
    "notes": "Technique family: static analysis only; no registered check executes repository code. Every claim is for named structural clauses "
             "(necessary conditions) of the property, listed with what is not decided in DESIGN.md §4 and in each evidence file. "
             "Genuine defects repaired in /repo as unguarded 'fix:' commits (recorded in known_findings.json): " + "; ".join(fixes),
}
json.dump(m, open("/verif/MANIFEST.json", "w"), indent=1)
print("MANIFEST.json: %d checks, %d not_applicable" % (len(checks), len(na)))
