#!/bin/bash
# tools/import_benign.sh <Cxx> <rN> : verify a behaviour-preserving refactoring from a sub-agent (applies, builds, vets,
# 93 baseline tests pass) in a scratch copy of /repo and store it under /verif/benign/<Cxx>-<rN>/.
P=$1; M=$2; SRC=/tmp/seed_out/$P/$M
export GOFLAGS=-mod=mod GOPROXY=off GOSUMDB=off GOTOOLCHAIN=local; unset GOWORK
[ -f $SRC/patch.diff ] || { echo "no patch in $SRC"; exit 2; }
b=$(mktemp -d /tmp/benB.XXXX); trap 'rm -rf "$b"' EXIT
rsync -a --exclude .git /repo/ $b/
(cd $b && patch -p1 -s -f --no-backup-if-mismatch -i $SRC/patch.diff) || { echo "FAIL $P-$M: patch does not apply"; exit 1; }
(cd $b && go build ./... && go vet ./... >/dev/null 2>&1) || { echo "FAIL $P-$M: does not build/vet"; exit 1; }
/verif/tools/baseline.sh $b || { /verif/tools/baseline.sh $b || { echo "FAIL $P-$M: baseline tests fail with the patch"; exit 1; }; }
out=/verif/benign/$P-$M; mkdir -p $out
cp $SRC/patch.diff $out/patch.diff; cp $SRC/notes.md $out/notes.md 2>/dev/null
echo "IMPORTED $out"
