package service

import (
	"net"
	"testing"
	"time"
)

// Re-acquisition of a shared packet listener after full release (same MultiListener object, no manager callback).
func TestF9PacketReacquireAfterFullRelease(t *testing.T) {
	ml := NewMultiPacketListener("127.0.0.1:0", nil)
	pc1, err := ml.Acquire()
	if err != nil {
		t.Fatal(err)
	}
	if err := pc1.Close(); err != nil {
		t.Fatal(err)
	}
	pc2, err := ml.Acquire()
	if err != nil {
		t.Fatal(err)
	}
	defer pc2.Close()
	// the re-acquired handle must be backed by an open socket: a datagram sent to it is received
	dst := pc2.LocalAddr()
	c, err := net.Dial("udp", dst.String())
	if err != nil {
		t.Fatal(err)
	}
	defer c.Close()
	c.Write([]byte("hello"))
	pc2.SetReadDeadline(time.Now().Add(2 * time.Second))
	buf := make([]byte, 16)
	n, _, err := pc2.ReadFrom(buf)
	if err != nil {
		t.Fatalf("read on re-acquired handle failed: %v", err)
	}
	if string(buf[:n]) != "hello" {
		t.Fatalf("got %q", buf[:n])
	}
}

// control: the stream variant re-acquires fine
func TestF9StreamReacquireAfterFullRelease(t *testing.T) {
	ml := NewMultiStreamListener("127.0.0.1:0", nil)
	l1, err := ml.Acquire()
	if err != nil {
		t.Fatal(err)
	}
	l1.Close()
	l2, err := ml.Acquire()
	if err != nil {
		t.Fatal(err)
	}
	defer l2.Close()
	c, err := net.DialTimeout("tcp", l2.Addr().String(), 2*time.Second)
	if err != nil {
		t.Fatalf("connect to re-acquired stream listener failed: %v", err)
	}
	c.Close()
}
