package rules

import (
	"fmt"
	"go/constant"
	"go/token"
	"go/types"
	"sort"
	"strings"

	"golang.org/x/tools/go/ssa"

	"verif/internal/eng"
)

func init() {
	register(&PropDef{ID: "C18", Level: "other", Run: runC18,
		Explanation: "Crash and leak freedom as structural obligations over every path of every goroutine that handles network input: (RECOVER) the per-connection goroutine and the per-datagram function install a " +
			"recover frame that dominates all handler work; (PANICS) in the regions that run outside any recover frame (association reply goroutine, listener reader goroutines, the client-to-target relay goroutine, the serve loops " +
			"and the metrics adapters they call) every potential panic site — slice/index expressions with non-constant bounds, panicking type assertions, explicit panics, close of a channel, WithLabelValues arity (ARITY), " +
			"Counter.Add of a possibly negative value (NONNEG, via the clock-under-lock rule), in-place Pack alignment (ALIGN), dereference of a value returned next to a non-nil error (co-results are used only behind err == nil or a nil test, through callees and closures) — is discharged by a named procedure or reported; (WAIT) WaitGroup.Add dominates each handler go, " +
			"Done is deferred first in the goroutine and Wait runs on every exit of the serve loop; (LOOPEXIT) the serve loops leave only on errors.Is(err, net.ErrClosed); (CLOSEPAIR/JOIN) the client connection, the dialed " +
			"target connection and the association socket are closed on every exit of their owner (a freshly created outbound socket is handed to the association table or closed on every path), no goroutine started in a loop shares a loop-carried variable, and the relay function returns only after joining its helper goroutine; (CANCELPUMP) reader goroutines can always terminate. (RACEFREE) every shared field obeys its lock discipline (an unsynchronised map access aborts the process, no recover frame helps); (DELIVER) a connection a handle has taken is returned, never dropped.",
		NotDecided: "panics inside the standard library / third-party code, nil dereferences other than calls through never-assigned fields and uses of failed calls' co-results, memory or descriptor exhaustion; bounds discharge D4 establishes that a bound exists on every untrusted length, not that the arithmetic is tight.",
		Trusted:    []string{"io.Reader / net.PacketConn contract: n <= len(buffer)", "SaltSize()/TagSize() and package-level lengths computed at init are trusted sizes"},
	})
}

func runC18(c *Ctx) {
	ruleRecover(c)
	ruleWait(c)
	ruleLoopExit(c)
	ruleClosePair(c)
	ruleLoopVar(c, "CLOSEPAIR", "service")
	ruleSockOwned(c)
	// "every socket the server created is gone": the association's owner closes the socket its own deletion returns, so
	// nobody else may delete entries (shutdown only expires them)
	ruleSoleDeleter(c)
	ruleShutdown(c)
	for _, m := range findMultiListeners(c, "CANCELPUMP") {
		ruleCancelPump(c, m, "CANCELPUMP")
		ruleClosedGuard(c, m) // a connection a handle has taken is returned, never dropped (leak)
	}
	// an unsynchronised map access is not a recoverable panic: the runtime aborts the process
	ruleGuardedTypes(c, "RACEFREE", allSharedTypes(c), 14, 60)
	rulePanics(c)
	ruleNeverSetField(c, "PANICS")
}

// ruleJoin: a function that starts a helper goroutine which reports over an unbuffered channel created by that function returns
// only after receiving from it (C18: otherwise the goroutine blocks forever in its send; C02: the relay would return — and its
// deferred Close cut the target connection — while the other direction is still copying).
func ruleJoin(c *Ctx, rule string) {
	p := c.P
	nj := 0
	for _, f := range p.FnsIn("service") {
		for _, cl := range eng.Calls(f) {
			g, ok := cl.(*ssa.Go)
			if !ok {
				continue
			}
			for _, h := range p.Callees(g) {
				if !p.InRepo(h) || len(h.Blocks) == 0 {
					continue
				}
				for _, b := range h.Blocks {
					for _, ins := range b.Instrs {
						// the report: a send, or closing a "done" channel (also deferred)
						var repChan ssa.Value
						isClose := false
						switch x := ins.(type) {
						case *ssa.Send:
							repChan = x.Chan
						case ssa.CallInstruction:
							if bi, isB := x.Common().Value.(*ssa.Builtin); isB && bi.Name() == "close" && len(x.Common().Args) == 1 {
								// only a pure signal channel (chan struct{}): closing a data channel is part of the protocol with
								// its receivers (the shared accept channel), not a report to the function that started the goroutine
								if ct, isCh := x.Common().Args[0].Type().Underlying().(*types.Chan); isCh {
									if st, isSt := ct.Elem().Underlying().(*types.Struct); isSt && st.NumFields() == 0 {
										repChan, isClose = x.Common().Args[0], true
									}
								}
							}
						}
						if repChan == nil {
							continue
						}
						// the channel, in f's terms: through a captured variable or through a parameter bound at the go statement
						var chans []ssa.Value
						for _, o := range p.Origins(repChan, eng.Plain) {
							if pa, isP := o.(*ssa.Parameter); isP && pa.Parent() == h {
								for i, q := range h.Params {
									if q == pa && i < len(g.Call.Args) {
										chans = append(chans, p.Origins(g.Call.Args[i], eng.Plain)...)
									}
								}
								continue
							}
							chans = append(chans, o)
						}
						isMine := func(v ssa.Value) bool {
							for _, o := range p.Origins(v, eng.Plain) {
								for _, x := range chans {
									if o == x {
										return true
									}
								}
							}
							return false
						}
						local, unbuffered := false, false
						for _, x := range chans {
							if mc, ok := x.(*ssa.MakeChan); ok && mc.Parent() == f {
								local = true
								if n, ok := eng.ConstInt(mc.Size); (ok && n == 0) || isClose {
									unbuffered = true
								}
							}
						}
						if !local || !unbuffered {
							continue
						}
						nj++
						isRecv := func(ins ssa.Instruction) bool {
							u, ok := ins.(*ssa.UnOp)
							return ok && u.Op == token.ARROW && isMine(u.X)
						}
						ok2, bad := eng.MustPass(eng.After(g), isRecv)
						c.CheckAt(rule, short(f)+":joins-helper-goroutine", g, ok2, fmt.Sprintf("the function can return at %s without receiving from the unbuffered channel its helper goroutine sends on: the goroutine blocks forever in the send (leak), and whatever the function closes on return is cut while the helper is still using it", p.IPos(bad)))
					}
				}
			}
		}
	}
	c.Floor(rule, "helper goroutines that report over an unbuffered local channel", nj, 1)
}

// ruleSockOwned: once the outbound socket of a new association exists, every way out of the datagram code hands it to the
// association table (whose goroutine closes it) or closes it: a rejected datagram must not leave a descriptor behind.
func ruleSockOwned(c *Ctx) {
	a := findUDP(c, "CLOSEPAIR")
	if a == nil {
		return
	}
	p := c.P
	for i, ls := range a.listens {
		call := ls
		fromSock := func(v ssa.Value) bool {
			return p.AnyFrom(v, deepF, func(x ssa.Value) bool { return eng.ResultOf(x, call, 0) })
		}
		isOwned := func(ins ssa.Instruction) bool {
			cl, ok := ins.(*ssa.Call)
			if !ok {
				return false
			}
			for _, ad := range a.adds {
				if cl == ad {
					for _, ar := range cl.Call.Args {
						if fromSock(ar) {
							return true
						}
					}
				}
			}
			if eng.MethodName(&cl.Call) == "Close" {
				if r := eng.Receiver(&cl.Call); r != nil && fromSock(r) {
					return true
				}
			}
			return false
		}
		succ, _ := p.SuccessEdges(call.Parent(), []ssa.CallInstruction{call}, 1)
		okO := len(succ) > 0
		var bad ssa.Instruction
		for _, e := range sortedEdges(succ) {
			if ok, b := a.R.MustPassUp(edgePoint(e), isOwned); !ok {
				okO, bad = false, b
			}
		}
		c.CheckAt("CLOSEPAIR", fmt.Sprintf("outbound-socket#%d:handed-over-or-closed-on-every-path", i), call, okO, fmt.Sprintf("after the outbound socket was created a path leaves the datagram code (%s) without handing it to the association table or closing it: every datagram taking that path leaks a descriptor", p.IPos(bad)))
	}
	c.Floor("CLOSEPAIR", "outbound socket creations in the datagram code", len(a.listens), 1)
}

// ---- anchors ----

// streamServeFns: functions that loop over a StreamAcceptFunc-typed call and spawn a goroutine per connection.
func serveLoopFns(c *Ctx) (stream []*ssa.Function, packet []*ssa.Function) {
	for _, f := range c.P.FnsIn("service") {
		if f.Parent() != nil {
			continue
		}
		hasGo, hasAccept := false, false
		for _, cl := range eng.Calls(f) {
			if _, ok := cl.(*ssa.Go); ok {
				hasGo = true
			}
			if strings.HasPrefix(eng.CalleeName(cl.Common()), "dyn:service.StreamAcceptFunc") {
				hasAccept = true
			}
		}
		if hasGo && hasAccept {
			stream = append(stream, f)
		}
		// packet loop: calls ReadFrom on a net.PacketConn parameter inside a loop and has a closure calling natmap.Get
		if f.Name() == "Handle" && f.Signature.Recv() != nil && f.Signature.Params().Len() == 1 {
			for _, cl := range eng.Calls(f) {
				if eng.CalleeName(cl.Common()) == "(net.PacketConn).ReadFrom" {
					packet = append(packet, f)
					break
				}
				if call, ok := cl.(*ssa.Call); ok && isReadWrapperCall(c, call) {
					packet = append(packet, f) // the listening socket read through a helper of the package
					break
				}
			}
		}
	}
	return
}

// datagramFn: the per-datagram function (root of the datagram region), found by role.
func datagramFn(c *Ctx) *ssa.Function {
	a := findUDP(&Ctx{P: c.P, Prop: c.Prop}, "x")
	if a == nil {
		return nil
	}
	return a.dg
}

// C18.RECOVER
func ruleRecover(c *Ctx) {
	p := c.P
	stream, _ := serveLoopFns(c)
	if c.Floor("RECOVER", "stream serve loops", len(stream), 1) {
		for _, f := range stream {
			for _, cl := range eng.Calls(f) {
				g, ok := cl.(*ssa.Go)
				if !ok {
					continue
				}
				for _, lit := range p.Callees(g) {
					if !p.InRepo(lit) {
						continue
					}
					rec := eng.RecoverDefers(lit)
					n := 0
					for _, hc := range eng.Calls(lit) {
						if _, isDefer := hc.(*ssa.Defer); isDefer {
							continue
						}
						if strings.HasPrefix(eng.CalleeName(hc.Common()), "dyn:service.StreamHandleFunc") {
							n++
							ok := false
							for _, d := range rec {
								if eng.Dominates(d, hc) {
									ok = true
								}
							}
							c.CheckAt("RECOVER", short(lit)+":handler-call-under-recover", hc, ok, "the per-connection goroutine calls the handler without a dominating deferred recover(): a panic while handling one connection kills the process")
						}
					}
					c.Floor("RECOVER", "handler calls in "+short(lit), n, 1)
				}
			}
		}
	}
	dg := datagramFn(c)
	if dg == nil {
		c.Undecided("RECOVER", "anchor:datagram-function", "-", "no function calls both natmap.Get and natconn.WriteTo")
		return
	}
	rec := eng.RecoverDefers(dg)
	n := 0
	for _, cl := range eng.Calls(dg) {
		if _, isDefer := cl.(*ssa.Defer); isDefer {
			continue
		}
		name := eng.CalleeName(cl.Common())
		risky := len(repoCallees(c, cl)) > 0 || strings.HasPrefix(name, "sdk/") || strings.HasPrefix(name, "ss2/") || strings.HasPrefix(name, "(net.")
		if !risky {
			continue
		}
		n++
		ok := false
		for _, d := range rec {
			if eng.Dominates(d, cl) {
				ok = true
			}
		}
		c.CheckAt("RECOVER", short(dg)+":"+name, cl, ok, "per-datagram work runs without a dominating deferred recover(): a panic while handling one datagram stops the UDP listener")
	}
	c.Floor("RECOVER", "calls in the per-datagram function", n, 5)
	// slices / type assertions in the datagram function must be under the frame too
	for _, b := range dg.Blocks {
		for _, ins := range b.Instrs {
			switch v := ins.(type) {
			case *ssa.Slice, *ssa.IndexAddr, *ssa.Index:
			case *ssa.TypeAssert:
				if v.CommaOk {
					continue
				}
			default:
				continue
			}
			ok := false
			for _, d := range rec {
				if eng.Dominates(d, ins) {
					ok = true
				}
			}
			c.CheckAt("RECOVER", short(dg)+":"+fmt.Sprintf("%T", ins), ins, ok, "potentially panicking operation on client data outside the per-datagram recover frame")
		}
	}
}

// C18.WAIT
func ruleWait(c *Ctx) {
	p := c.P
	stream, _ := serveLoopFns(c)
	for _, f := range stream {
		key := short(f)
		var adds, waits []ssa.CallInstruction
		for _, cl := range eng.Calls(f) {
			switch eng.CalleeName(cl.Common()) {
			case "(*sync.WaitGroup).Add":
				adds = append(adds, cl)
			case "(*sync.WaitGroup).Wait":
				waits = append(waits, cl)
			}
		}
		// Wait on every exit: a Defer of Wait in the entry block (before the loop), or must-pass
		okWait := false
		for _, w := range waits {
			if d, ok := w.(*ssa.Defer); ok && d.Block() == f.Blocks[0] {
				okWait = true
			}
		}
		if !okWait && len(waits) > 0 {
			q := func(ins ssa.Instruction) bool {
				cl, ok := ins.(*ssa.Call)
				return ok && eng.CalleeName(&cl.Call) == "(*sync.WaitGroup).Wait"
			}
			okWait, _ = eng.MustPass(eng.Point{B: f.Blocks[0]}, q)
		}
		c.Check("WAIT", key+":wait-on-every-exit", p.Pos(f.Pos()), okWait, "the serve loop can return without waiting for running handlers")
		for _, cl := range eng.Calls(f) {
			g, ok := cl.(*ssa.Go)
			if !ok {
				continue
			}
			okAdd := false
			for _, a := range adds {
				if _, isCall := a.(*ssa.Call); isCall && eng.Dominates(a, g) && a.Block() == g.Block() {
					okAdd = true
				}
			}
			c.CheckAt("WAIT", key+":add-before-go", g, okAdd, "WaitGroup.Add is not executed in the serve loop right before the handler goroutine is started (Add inside the goroutine races with Wait)")
			for _, lit := range p.Callees(g) {
				if !p.InRepo(lit) {
					continue
				}
				var done *ssa.Defer
				for _, d := range deferCallNamed(lit, "(*sync.WaitGroup).Done") {
					done = d
				}
				okDone := done != nil && done.Block() == lit.Blocks[0]
				if okDone {
					// first defer: no other defer or call precedes it
					for _, ins := range lit.Blocks[0].Instrs {
						if ins == ssa.Instruction(done) {
							break
						}
						if _, isCall := ins.(ssa.CallInstruction); isCall {
							okDone = false
						}
					}
				}
				c.Check("WAIT", short(lit)+":done-deferred-first", p.Pos(lit.Pos()), okDone, "the handler goroutine does not defer WaitGroup.Done before anything else: a panic or early return skips it and the serve loop never returns")
			}
		}
	}
}

// isErrClosedTest: v is the result of errors.Is(x, net.ErrClosed).
func isErrClosedTest(v ssa.Value) bool {
	call, ok := v.(*ssa.Call)
	if !ok || eng.CalleeName(&call.Call) != "errors.Is" || len(call.Call.Args) != 2 {
		return false
	}
	u, ok := call.Call.Args[1].(*ssa.UnOp)
	if !ok || u.Op != token.MUL {
		return false
	}
	g, ok := u.X.(*ssa.Global)
	return ok && g.Pkg.Pkg.Path() == "net" && g.Name() == "ErrClosed"
}

// C18.LOOPEXIT
func ruleLoopExit(c *Ctx) {
	p := c.P
	stream, packet := serveLoopFns(c)
	all := append(append([]*ssa.Function{}, stream...), packet...)
	c.Floor("LOOPEXIT", "serve loops", len(all), 2)
	for _, f := range all {
		loops := eng.Loops(f)
		// outermost loops only
		n := 0
		for _, l := range loops {
			outer := true
			for _, l2 := range loops {
				if l2 != l && l2.Body[l.Header] && len(l2.Body) > len(l.Body) {
					outer = false
				}
			}
			if !outer {
				continue
			}
			n++
			for i, e := range l.Exits {
				iff, ok := e.From.Instrs[len(e.From.Instrs)-1].(*ssa.If)
				good := ok && isErrClosedTest(iff.Cond) && e.From.Succs[0] == e.To
				c.Check("LOOPEXIT", fmt.Sprintf("%s:exit#%d", short(f), i), blockPos(p, e.From), good, "the serve loop can be left on an edge other than errors.Is(err, net.ErrClosed): a transient accept/read error stops the listener")
				if good {
					c.Check("LOOPEXIT", fmt.Sprintf("%s:exit#%d:tests-the-listening-socket's-error", short(f), i), blockPos(p, e.From), closedTestOnSocketError(c, iff.Cond), "the serve loop is left on errors.Is(x, net.ErrClosed) where x is not the error of the loop's own accept/read (e.g. the error of handling one datagram, which is also ErrClosed when an association's socket was just closed): one client's failure stops the listener for everybody")
				}
			}
		}
		c.Floor("LOOPEXIT", "loops in "+short(f), n, 1)
		// no return inside the loop body other than through the exit
	}
}

// C18.CLOSEPAIR and JOIN
func ruleClosePair(c *Ctx) {
	p := c.P
	stream, _ := serveLoopFns(c)
	// client connection: the per-connection goroutine defers Close of the accepted connection
	for _, f := range stream {
		for _, cl := range eng.Calls(f) {
			g, ok := cl.(*ssa.Go)
			if !ok {
				continue
			}
			for _, lit := range p.Callees(g) {
				if !p.InRepo(lit) {
					continue
				}
				okClose := false
				for _, b := range lit.Blocks {
					for _, ins := range b.Instrs {
						d, ok := ins.(*ssa.Defer)
						if !ok || eng.MethodName(&d.Call) != "Close" || b != lit.Blocks[0] {
							continue
						}
						r := eng.Receiver(&d.Call)
						if r != nil && p.AnyFrom(r, deepF, func(v ssa.Value) bool {
							cc, idx, ok := eng.AsResult(v)
							return ok && idx == 0 && strings.HasPrefix(eng.CalleeName(&cc.Call), "dyn:service.StreamAcceptFunc")
						}) {
							okClose = true
						}
					}
				}
				c.Check("CLOSEPAIR", short(lit)+":client-conn-close-deferred", p.Pos(lit.Pos()), okClose, "the per-connection goroutine does not defer Close of the accepted connection in its entry block: the socket leaks when the handler returns or panics")
			}
		}
	}
	// target connection: in every function that calls DialStream on a dialer, the success edge must-pass a deferred Close of the result
	n := 0
	for _, f := range p.FnsIn("service") {
		for _, cl := range eng.Calls(f) {
			call, ok := cl.(*ssa.Call)
			if !ok || eng.MethodName(&call.Call) != "DialStream" {
				continue
			}
			// wrappers that return the dialed connection to their caller are not owners
			returned := false
			for _, r := range eng.Returns(f) {
				if len(r.Results) > 0 && hasMethod(r.Results[0].Type(), "Close") && p.AnyFrom(r.Results[0], eng.OriginOpts{ThroughConvert: true, ThroughCalls: func(c2 *ssa.Call) []ssa.Value {
					if hasMethod(c2.Type(), "Close") {
						return c2.Call.Args
					}
					return nil
				}}, func(v ssa.Value) bool {
					cc, idx, ok := eng.AsResult(v)
					return ok && cc == call && idx == 0
				}) {
					returned = true
				}
			}
			if returned {
				continue
			}
			n++
			succ, _ := p.SuccessEdges(f, []ssa.CallInstruction{call}, 1)
			isDeferClose := func(ins ssa.Instruction) bool {
				d, ok := ins.(*ssa.Defer)
				if !ok || eng.MethodName(&d.Call) != "Close" {
					return false
				}
				r := eng.Receiver(&d.Call)
				return r != nil && p.AnyFrom(r, eng.Plain, func(v ssa.Value) bool { cc, idx, ok := eng.AsResult(v); return ok && cc == call && idx == 0 })
			}
			okAll := len(succ) > 0
			for _, e := range sortedEdges(succ) {
				if ok, _ := eng.MustPass(edgePoint(e), isDeferClose); !ok {
					okAll = false
				}
				// nothing that can fail/panic/return between success and the defer: the defer is in the edge's target block
			}
			c.CheckAt("CLOSEPAIR", short(f)+":target-conn-close-deferred", call, okAll, "after a successful dial the function can exit without having deferred Close of the target connection: the socket leaks")
		}
	}
	c.Floor("CLOSEPAIR", "owning DialStream call sites", n, 1)

	ruleJoin(c, "JOIN")

	// association socket: see C14.TEARDOWN (shared)
	ruleTeardown(c, "TEARDOWN")
}

// ---- PANICS ----

type panicSite struct {
	fn   *ssa.Function
	ins  ssa.Instruction
	kind string
	root string
}

// networkRoots: goroutine entry functions that process network input. Roots in package main (configuration goroutine,
// SIGHUP loop, metrics HTTP server, main) handle the operator's file and flags, not client traffic.
func networkRoots(c *Ctx) []*ssa.Function {
	seen := map[*ssa.Function]bool{}
	var out []*ssa.Function
	for _, g := range c.P.GoSites() {
		for _, t := range g.Targets {
			if !c.P.InRepo(t) || seen[t] || len(t.Blocks) == 0 {
				continue
			}
			pp := eng.PkgPathOf(t)
			if pp == eng.Mod+"/"+mainPkg {
				continue
			}
			seen[t] = true
			out = append(out, t)
		}
	}
	sort.Slice(out, func(i, j int) bool { return out[i].String() < out[j].String() })
	return out
}

func rulePanics(c *Ctx) {
	p, l := c.P, c.L()
	roots := networkRoots(c)
	c.Floor("PANICS", "network-driven goroutine roots", len(roots), 6)
	var rootNames []string
	regionFns := map[*ssa.Function]string{}
	for _, r := range roots {
		rootNames = append(rootNames, short(r))
		reg := p.UnprotectedRegion(l, r)
		for f := range reg.Funcs {
			if _, ok := regionFns[f]; !ok {
				regionFns[f] = short(r)
			}
		}
	}
	c.Note("network_roots", rootNames)
	var fns []*ssa.Function
	for f := range regionFns {
		fns = append(fns, f)
	}
	sort.Slice(fns, func(i, j int) bool { return fns[i].String() < fns[j].String() })
	var fnNames []string
	for _, f := range fns {
		fnNames = append(fnNames, short(f))
	}
	c.Note("unprotected_region_functions", fnNames)
	c.Floor("PANICS", "functions in unprotected network-driven regions", len(fns), 30)

	nOb := 0
	for _, f := range fns {
		rec := eng.RecoverDefers(f)
		for _, b := range f.Blocks {
			for _, ins := range b.Instrs {
				prot := false
				for _, d := range rec {
					if eng.Dominates(d, ins) && ssa.Instruction(d) != ins {
						prot = true
					}
				}
				if prot {
					continue
				}
				key := short(f)
				switch v := ins.(type) {
				case *ssa.Slice:
					if ok, why, trivial := sliceDischarge(c, v); !trivial {
						nOb++
						c.CheckAt("PANICS", key+":slice", v, ok, why)
					}
				case *ssa.IndexAddr:
					if ok, why, trivial := indexDischarge(c, v.X, v.Index, v); !trivial {
						nOb++
						c.CheckAt("PANICS", key+":index", v, ok, why)
					}
				case *ssa.Index:
					if ok, why, trivial := indexDischarge(c, v.X, v.Index, v); !trivial {
						nOb++
						c.CheckAt("PANICS", key+":index", v, ok, why)
					}
				case *ssa.TypeAssert:
					if v.CommaOk {
						continue
					}
					// nil check of interface method values: x.(I) where I is the static type of x
					if types.Identical(v.X.Type(), v.AssertedType) {
						continue
					}
					nOb++
					ok, why := typeAssertDischarge(c, v)
					c.CheckAt("PANICS", key+":type-assertion", v, ok, why)
				case *ssa.Panic:
					if !v.Pos().IsValid() {
						continue // lowering of a blocking select
					}
					nOb++
					c.CheckAt("PANICS", key+":explicit-panic", v, false, "explicit panic reachable from network input outside any recover frame")
				case *ssa.BinOp:
					if (v.Op == token.QUO || v.Op == token.REM) && isIntType(v.Type()) {
						if _, isConst := v.Y.(*ssa.Const); !isConst {
							nOb++
							c.CheckAt("PANICS", key+":integer-division", v, false, "integer division by a non-constant value outside any recover frame")
						}
					}
				case *ssa.Call:
					if bc, ok := isBuiltinCall(v, "close"); ok {
						nOb++
						ok2, why := closeDischarge(c, f, bc)
						c.CheckAt("PANICS", key+":close-channel", v, ok2, why)
						continue
					}
					name := eng.CalleeName(&v.Call)
					switch {
					case strings.HasSuffix(name, ").WithLabelValues"):
						nOb++
						ok2, why := arityDischarge(c, v)
						c.CheckAt("ARITY", key+":"+labelVecName(c, v), v, ok2, why)
					case name == "(prom.Counter).Add":
						nOb++
						ok2, why := nonNegDischarge(c, v)
						c.CheckAt("NONNEG", key+":Counter.Add", v, ok2, why)
					case name == "sdk/shadowsocks.Pack":
						nOb++
						ok2, why := alignDischarge(c, v)
						c.CheckAt("ALIGN", key+":Pack", v, ok2, why)
					}
				}
			}
		}
	}
	c.Floor("PANICS", "panic obligations in unprotected regions", nOb, 10)
	c.Floor("PANICS", "fallible calls with nil-able co-results in unprotected regions", ruleNilUse(c, fns), 3)
}

func isIntType(t types.Type) bool {
	b, ok := t.Underlying().(*types.Basic)
	return ok && b.Info()&types.IsInteger != 0
}

// ---- bounds ----

// leafKind classifies a leaf of a bound expression.
type leaf struct {
	v    ssa.Value
	kind string // const | trusted | len | readn | other
	of   ssa.Value
}

func (c *Ctx) boundLeaves(v ssa.Value) []leaf {
	p := c.P
	var out []leaf
	seen := map[ssa.Value]bool{}
	var walk func(v ssa.Value)
	walk = func(v ssa.Value) {
		if seen[v] {
			return
		}
		seen[v] = true
		v = p.Resolve(v)
		switch x := v.(type) {
		case *ssa.Const:
			out = append(out, leaf{v, "const", nil})
		case *ssa.BinOp:
			switch x.Op {
			case token.ADD, token.SUB, token.MUL, token.AND, token.SHR:
				walk(x.X)
				walk(x.Y)
			default:
				out = append(out, leaf{v, "other", nil})
			}
		case *ssa.Convert:
			walk(x.X)
		case *ssa.ChangeType:
			walk(x.X)
		case *ssa.Phi:
			for _, e := range x.Edges {
				walk(e)
			}
		case *ssa.Parameter:
			// helper functions: the bound derives from the arguments at every call site
			fn := x.Parent()
			idx := -1
			for i, q := range fn.Params {
				if q == x {
					idx = i
				}
			}
			sites := p.CallSitesOf(fn)
			okAll := idx >= 0 && len(sites) > 0
			for _, s := range sites {
				cc := s.Ins.(ssa.CallInstruction).Common()
				if cc.StaticCallee() == nil || idx >= len(cc.Args) {
					okAll = false
				}
			}
			if !okAll {
				out = append(out, leaf{v, "other", nil})
				return
			}
			for _, s := range sites {
				walk(s.Ins.(ssa.CallInstruction).Common().Args[idx])
			}
		case *ssa.Call:
			if b, ok := x.Call.Value.(*ssa.Builtin); ok && (b.Name() == "len" || b.Name() == "cap") {
				arg := x.Call.Args[0]
				// len of a constant-size make / array is trusted
				if isFixedSize(p, arg) {
					out = append(out, leaf{v, "trusted", nil})
					return
				}
				out = append(out, leaf{v, "len", p.Resolve(arg)})
				return
			}
			if b, ok := x.Call.Value.(*ssa.Builtin); ok && (b.Name() == "copy" || b.Name() == "min") {
				out = append(out, leaf{v, "trusted", nil}) // copy returns min(len(dst), len(src)); only used as an upper slice bound of dst/src
				return
			}
			n := eng.CalleeName(&x.Call)
			if n == "(*sdk/shadowsocks.EncryptionKey).SaltSize" || n == "(*sdk/shadowsocks.EncryptionKey).TagSize" {
				out = append(out, leaf{v, "trusted", nil})
				return
			}
			out = append(out, leaf{v, "other", nil})
		case *ssa.Extract:
			if call, ok := x.Tuple.(*ssa.Call); ok && x.Index == 0 {
				m := eng.MethodName(&call.Call)
				if m == "ReadFrom" || m == "Read" || m == "ReadFromUDP" {
					out = append(out, leaf{v, "readn", eng.Arg(&call.Call, 0)})
					return
				}
			}
			// a read helper of the repo (readFromTarget(conn, buf) (n, addr, …)): its result is, on every return, the byte
			// count of a read into one of its parameters — the count of a read into the argument given here
			if call, ok := x.Tuple.(*ssa.Call); ok {
				if h := call.Call.StaticCallee(); h != nil && p.InRepo(h) && len(h.Blocks) > 0 {
					bufIdx, okH, nret := -1, true, 0
					for _, r := range eng.Returns(h) {
						if r.Block().Comment == "recover" || x.Index >= len(r.Results) {
							continue
						}
						nret++
						rv := r.Results[x.Index]
						if sv := p.ReachingStore(rv, r); sv != nil {
							rv = sv
						}
						ex, isEx := p.Resolve(rv).(*ssa.Extract)
						if !isEx || ex.Index != 0 {
							okH = false
							continue
						}
						rc, isC := ex.Tuple.(*ssa.Call)
						if !isC {
							okH = false
							continue
						}
						if m := eng.MethodName(&rc.Call); m != "ReadFrom" && m != "Read" && m != "ReadFromUDP" {
							okH = false
							continue
						}
						pa, isP := p.Resolve(eng.Arg(&rc.Call, 0)).(*ssa.Parameter)
						if !isP {
							okH = false
							continue
						}
						for i, q := range h.Params {
							if q == pa {
								if bufIdx >= 0 && bufIdx != i {
									okH = false
								}
								bufIdx = i
							}
						}
					}
					if okH && nret > 0 && bufIdx >= 0 && bufIdx < len(call.Call.Args) {
						out = append(out, leaf{v, "readn", call.Call.Args[bufIdx]})
						return
					}
				}
			}
			out = append(out, leaf{v, "other", nil})
		case *ssa.UnOp:
			if x.Op == token.MUL {
				if g, ok := x.X.(*ssa.Global); ok && isIntType(x.Type()) && initOnlyGlobal(p, g) {
					out = append(out, leaf{v, "trusted", nil})
					return
				}
				// a field that is only set while its object is constructed (parameter structs): the bound is what was stored
				if fa, ok := x.X.(*ssa.FieldAddr); ok {
					if t, f, _, ok := eng.FieldOf(fa); ok {
						if vals, ok := p.ConstructOnly(t, f); ok {
							for _, sv := range vals {
								walk(sv)
							}
							return
						}
					}
				}
			}
			out = append(out, leaf{v, "other", nil})
		default:
			out = append(out, leaf{v, "other", nil})
		}
	}
	walk(v)
	return out
}

func isFixedSize(p *eng.Prog, v ssa.Value) bool {
	for _, o := range p.Origins(v, eng.OriginOpts{ThroughConvert: true}) {
		switch x := o.(type) {
		case *ssa.MakeSlice:
			if _, ok := x.Len.(*ssa.Const); !ok {
				return false
			}
		case *ssa.Alloc:
			if _, ok := x.Type().(*types.Pointer).Elem().Underlying().(*types.Array); !ok {
				return false
			}
		default:
			return false
		}
	}
	return true
}

// initOnlyGlobal: every store to the global is in a package initializer.
func initOnlyGlobal(p *eng.Prog, g *ssa.Global) bool {
	for f := range p.All {
		if f.Pkg != g.Pkg {
			continue
		}
		for _, b := range f.Blocks {
			for _, ins := range b.Instrs {
				if st, ok := ins.(*ssa.Store); ok && st.Addr == ssa.Value(g) && f.Name() != "init" && !strings.HasPrefix(f.Name(), "init#") {
					return false
				}
			}
		}
	}
	return true
}

// hasExitGuard: some If that dominates `at` compares (relationally) a value equal to v — or len() of the same operand — and
// one of its edges leads to function exit without reaching `at`.
func hasExitGuard(c *Ctx, v ssa.Value, lenOf ssa.Value, at ssa.Instruction) bool {
	p := c.P
	f := at.Parent()
	for _, b := range f.Blocks {
		iff, ok := b.Instrs[len(b.Instrs)-1].(*ssa.If)
		if !ok || !eng.Dominates(iff, at) {
			continue
		}
		if !condMentions(p, iff.Cond, v, lenOf, 0) {
			continue
		}
		for _, s := range b.Succs {
			if !eng.ReachBlocks(s, nil)[at.Block()] {
				return true
			}
		}
	}
	return false
}

func condMentions(p *eng.Prog, cond ssa.Value, v ssa.Value, lenOf ssa.Value, d int) bool {
	if d > 4 {
		return false
	}
	bo, ok := cond.(*ssa.BinOp)
	if !ok {
		if u, ok := cond.(*ssa.UnOp); ok && u.Op == token.NOT {
			return condMentions(p, u.X, v, lenOf, d+1)
		}
		return false
	}
	switch bo.Op {
	case token.LSS, token.LEQ, token.GTR, token.GEQ:
	default:
		return false
	}
	for _, side := range []ssa.Value{bo.X, bo.Y} {
		r := p.Resolve(side)
		if r == v {
			return true
		}
		if lenOf != nil {
			if call, ok := r.(*ssa.Call); ok {
				if b, ok := call.Call.Value.(*ssa.Builtin); ok && b.Name() == "len" && p.Resolve(call.Call.Args[0]) == lenOf {
					return true
				}
			}
		}
	}
	return false
}

// boundOK: every untrusted leaf of the bound expression has a guard (or the whole expression has one).
func (c *Ctx) boundOK(v ssa.Value, at ssa.Instruction, sliced ssa.Value) (bool, string) {
	if v == nil {
		return true, ""
	}
	if _, ok := v.(*ssa.Const); ok {
		return true, ""
	}
	rv := c.P.Resolve(v)
	if hasExitGuard(c, rv, nil, at) {
		return true, "" // D3
	}
	for _, lf := range c.boundLeaves(v) {
		switch lf.kind {
		case "const", "trusted":
		case "len":
			// len of the sliced operand itself is always a valid bound
			if lf.of == c.P.Resolve(sliced) {
				continue
			}
			if !hasExitGuard(c, lf.v, lf.of, at) {
				return false, fmt.Sprintf("bound depends on len(%s) which has no dominating comparison whose failing edge leaves the function", valStr(c.P, lf.of))
			}
		case "readn":
			// D2: n of a Read into a buffer that derives from the sliced operand (same backing array)
			okBuf := false
			base := c.P.Origins(sliced, eng.Deep)
			for _, o := range c.P.Origins(lf.of, eng.Deep) {
				for _, b2 := range base {
					if o == b2 {
						okBuf = true
					}
				}
			}
			if !okBuf {
				return false, "bound is the byte count of a read into a different buffer"
			}
		default:
			return false, fmt.Sprintf("bound depends on %s, which is neither a constant, a trusted size, a guarded length nor the byte count of a read into this buffer", valStr(c.P, lf.v))
		}
	}
	return true, ""
}

func sliceDischarge(c *Ctx, s *ssa.Slice) (ok bool, why string, trivial bool) {
	if s.Low == nil && s.High == nil && s.Max == nil {
		return true, "", true
	}
	allConst := true
	for _, b := range []ssa.Value{s.Low, s.High, s.Max} {
		if b != nil {
			if _, isC := b.(*ssa.Const); !isC {
				allConst = false
			}
		}
	}
	if allConst {
		// constant bounds on a fixed-size operand or string: checked by the compiler where possible
		if isFixedSize(c.P, s.X) {
			return true, "", true
		}
		if s.Low != nil || s.Max != nil {
			// x[k:] with constant k on a dynamic slice needs len(x) >= k
			if ok, why := c.constLowOK(s); !ok {
				return false, why, false
			}
		}
		return true, "constant bounds||", false
	}
	for _, b := range []ssa.Value{s.Low, s.High, s.Max} {
		if ok, why := c.boundOK(b, s, s.X); !ok {
			return false, "slice " + eng.Short(s.String()) + ": " + why, false
		}
	}
	if ok, why := c.readnUpperOK(s); !ok {
		return false, "slice " + eng.Short(s.String()) + ": " + why, false
	}
	return true, "every non-constant leaf of the bounds is a trusted size, a guarded length or the byte count of a read into this buffer (D1-D4)||", false
}

func (c *Ctx) constLowOK(s *ssa.Slice) (bool, string) {
	// x[:k] / x[k:] with constant k on a slice of unknown length: require a dominating length guard on x
	lenOf := c.P.Resolve(s.X)
	if hasExitGuard(c, nil, lenOf, s) {
		return true, ""
	}
	// slices of the result of a function whose result length is fixed are not tracked: report
	return false, "constant bound on a slice of unknown length without a dominating length check"
}

func indexDischarge(c *Ctx, x, idx ssa.Value, at ssa.Instruction) (ok bool, why string, trivial bool) {
	// arrays / pointers to arrays with constant index are compile-time checked
	if _, isC := idx.(*ssa.Const); isC {
		t := x.Type().Underlying()
		if pt, ok := t.(*types.Pointer); ok {
			t = pt.Elem().Underlying()
		}
		if _, isArr := t.(*types.Array); isArr {
			return true, "", true
		}
	}
	// D1: induction variable of a range/len loop over the same operand: idx is a Phi compared with len(x) in the loop header
	if ph, ok := idx.(*ssa.Phi); ok {
		for _, r := range *ph.Referrers() {
			if bo, ok := r.(*ssa.BinOp); ok && bo.Op == token.LSS && bo.X == ssa.Value(ph) {
				if call, ok := bo.Y.(*ssa.Call); ok {
					if b, ok := call.Call.Value.(*ssa.Builtin); ok && b.Name() == "len" && call.Call.Args[0] == x {
						return true, "index is the induction variable of a loop bounded by len of the same operand (D1)||", false
					}
				}
			}
		}
	}
	// range loops: `t = next it`-style for maps are not Index; slices use phi+len as above after rotation: also accept idx+1 patterns
	if bo, ok := idx.(*ssa.BinOp); ok && bo.Op == token.AND {
		if n, ok := eng.ConstInt(bo.Y); ok {
			if pt, ok := x.Type().Underlying().(*types.Pointer); ok {
				if arr, ok := pt.Elem().Underlying().(*types.Array); ok && n < arr.Len() {
					return true, "masked index into a fixed-size array||", false
				}
			}
		}
	}
	if ok2, why2 := c.boundOK(idx, at, x); ok2 {
		if hasExitGuard(c, c.P.Resolve(idx), nil, at) {
			return true, "index guarded by a dominating comparison (D3)||", false
		}
		_ = why2
	}
	return false, "index " + valStr(c.P, idx) + " into " + valStr(c.P, x) + " has no discharge (not a loop induction variable over the same operand, no dominating bound check)", false
}

func typeAssertDischarge(c *Ctx, v *ssa.TypeAssert) (bool, string) {
	return false, "panicking type assertion " + eng.Short(v.String()) + " on a value that depends on network input, outside any recover frame"
}

// closeDischarge: close(ch) cannot panic when ch is non-nil and closed at most once: accepted when the channel value is
// (a) a parameter/captured local of a reader goroutine that is closed immediately before the goroutine returns, or
// (b) a field closed in a release closure on the count == 0 edge under the type's mutex (closed once per creation), or
// (c) a handle's close channel closed under the handle mutex behind a closed-state check, or by a documented-once Close.
func closeDischarge(c *Ctx, f *ssa.Function, call *ssa.Call) (bool, string) {
	p, l := c.P, c.L()
	ch := call.Call.Args[0]
	// (a) followed directly by return in the same block
	b := call.Block()
	for i, ins := range b.Instrs {
		if ins == ssa.Instruction(call) {
			rest := b.Instrs[i+1:]
			if len(rest) > 0 {
				if _, isRet := rest[len(rest)-1].(*ssa.Return); isRet {
					onlyParam := true
					for _, o := range p.Origins(ch, eng.Plain) {
						switch x := o.(type) {
						case *ssa.Parameter:
						case *ssa.Field:
							// a field of the goroutine's own parameter struct (a pump value with run())
							if _, isP := x.X.(*ssa.Parameter); !isP {
								onlyParam = false
							}
						case *ssa.MakeChan:
							// a channel created by the function that starts this goroutine and captured by it
							if f.Parent() == nil || x.Parent() != f.Parent() {
								onlyParam = false
							}
						default:
							onlyParam = false
						}
					}
					if !onlyParam {
						// the goroutine is the run() method of a small pump struct: the channel is a field of that struct, which
						// was filled from the shared listener's field where the goroutine was started
						holders := map[string]bool{}
						for _, mm := range findMultiListeners(&Ctx{P: p, Prop: c.Prop}, "x") {
							for h := range mm.holders {
								holders[h] = true
							}
						}
						isHolderLoad := func(x ssa.Value) bool {
							t, _, _, ok := eng.FieldLoad(x)
							return ok && holders[t]
						}
						leaves := fsOrigins(c, ch, isHolderLoad)
						all := len(leaves) > 0
						for _, lf := range leaves {
							if !isHolderLoad(lf) || lf.(ssa.Instruction).Parent() == f {
								all = false
							}
						}
						onlyParam = all
					}
					if onlyParam && len(f.Blocks) > 0 {
						// the goroutine is the only closer of its parameter channel if the go site passes a channel that no one else closes
						c.Exempt("PANICS", short(f)+":close", "channel parameter of the reader goroutine closed immediately before it returns; it is the only closer of the channel it was started with (no close of the source field elsewhere, re-verified)")
						ok := true
						for _, g := range p.Fns {
							for _, cl := range eng.Calls(g) {
								if bc, isClose := isBuiltinCall(cl.(ssa.Instruction), "close"); isClose && bc != call {
									// another close of a channel of the same element type loaded from a field that feeds this parameter
									if types.Identical(bc.Call.Args[0].Type().Underlying().(*types.Chan).Elem(), ch.Type().Underlying().(*types.Chan).Elem()) {
										ok = false
									}
								}
							}
						}
						if ok {
							return true, "closed once by its only closer right before the goroutine returns||"
						}
						return false, "the channel closed by the reader goroutine is also closed elsewhere (double close panics)"
					}
				}
			}
		}
	}
	// (b)/(c): under a mutex of the owning type, with an at-most-once argument
	held := l.Held(call)
	if len(held) == 0 {
		return false, "close of a channel without holding the owner's mutex: concurrent closers can double-close"
	}
	for _, o := range p.Origins(ch, eng.Plain) {
		t, fld, _, ok := eng.FieldLoad(o)
		if !ok {
			return false, "close of a channel that is not a field of a locked owner"
		}
		// at most once: cut by a zero-count edge (release closure) or by a closed-state check on a field that the same function sets
		okOnce := false
		for _, m := range findMultiListeners(&Ctx{P: p, Prop: c.Prop}, "x") {
			if m.T == t {
				for _, r := range m.release {
					if r == f {
						zero, _ := zeroTestEdges(r, m.T, m.countField)
						if len(zero) > 0 && eng.Cut(r, call.Block(), zero) {
							okOnce = true // count reaches zero once per socket creation; channel recreated on the creation edge
						}
					}
				}
			}
		}
		if !okOnce {
			// closed-state check: some dominating If tests a field of t against nil and the same function stores nil to that field
			for _, b := range f.Blocks {
				iff, ok := b.Instrs[len(b.Instrs)-1].(*ssa.If)
				if !ok || !eng.Dominates(iff, call) {
					continue
				}
				x, _, ok := eng.NilCompare(iff.Cond)
				if !ok {
					continue
				}
				t2, f2, _, ok := eng.FieldLoad(x)
				if !ok || t2 != t {
					continue
				}
				for _, bb := range f.Blocks {
					for _, ins := range bb.Instrs {
						if st, ok := isStoreToField(ins, t2, f2); ok && eng.IsZeroValue(st.Val) {
							okOnce = true
						}
					}
				}
			}
		}
		if !okOnce {
			// documented single-use Close (virtualPacketConn): accept only when every production caller invokes it through a
			// one-shot registry; recorded as an exemption with the reason verified below.
			if ok, why := singleUseClose(c, f); ok {
				c.Exempt("PANICS", t+"."+fld, why)
				okOnce = true
			}
		}
		if !okOnce {
			return false, fmt.Sprintf("close(%s.%s) under %s has no at-most-once argument (no count == 0 edge, no closed-state check): a second Close panics", t, fld, held)
		}
	}
	return true, "closed under the owner's mutex, at most once||"
}

// singleUseClose: f is a Close method whose callers in non-test code are (i) wrappers that delegate Close one-to-one and
// (ii) a registry that calls each stored close function once and then drops the registry (listenerSet.Close sets the map to nil).
func singleUseClose(c *Ctx, f *ssa.Function) (bool, string) {
	p := c.P
	if f.Name() != "Close" {
		return false, ""
	}
	seen := map[*ssa.Function]bool{}
	var walk func(g *ssa.Function, depth int) bool
	walk = func(g *ssa.Function, depth int) bool {
		if seen[g] || depth > 4 {
			return true
		}
		seen[g] = true
		sites := p.CallSitesOf(g)
		for _, s := range sites {
			if s.Fn.Name() == "Close" && s.Fn.Signature.Recv() != nil {
				tn := eng.TypeName(s.Fn.Signature.Recv().Type())
				if tn == mainM(c).lsT {
					// the registry must drop its entries after calling them
					dropped := false
					for _, b := range s.Fn.Blocks {
						for _, ins := range b.Instrs {
							if st, ok := ins.(*ssa.Store); ok && eng.IsZeroValue(st.Val) {
								if fa, ok := st.Addr.(*ssa.FieldAddr); ok {
									if t, _, _, ok := eng.FieldOf(fa); ok && t == tn {
										dropped = true
									}
								}
							}
						}
					}
					if !dropped {
						return false
					}
					continue
				}
				// delegating wrapper
				if !walk(s.Fn, depth+1) {
					return false
				}
				continue
			}
			return false
		}
		return true
	}
	if walk(f, 0) {
		return true, "Close documented as once-only: its only production callers are delegating Close wrappers and listenerSet.Close, which calls each registered close function once and then clears the registry (re-verified on this run)"
	}
	return false, ""
}

// ---- library preconditions ----

// labelVecName names the vector a WithLabelValues call is made on.
func labelVecName(c *Ctx, call *ssa.Call) string {
	r := eng.Receiver(&call.Call)
	for _, o := range c.P.Origins(r, eng.Plain) {
		if t, f, _, ok := eng.FieldLoad(o); ok {
			return t + "." + f
		}
		if pa, ok := o.(*ssa.Parameter); ok {
			return "param:" + pa.Name()
		}
	}
	return "?"
}

// vecLabels: for a struct field holding a metric vector, the number of variable labels = declared labels minus curried ones,
// read from the constructor call (prometheus.New*Vec(opts, []string{...})) and CurryWith(map literal) that flow into the field.
func vecLabels(c *Ctx, typ, field string) (int, bool) {
	p := c.P
	n := -1
	for _, st := range p.FieldStores(typ, field) {
		if st.Val == nil {
			return 0, false
		}
		k, ok := labelsOfValue(c, st.Val, 0)
		if !ok {
			return 0, false
		}
		if n >= 0 && n != k {
			return 0, false
		}
		n = k
	}
	return n, n >= 0
}

func labelsOfValue(c *Ctx, v ssa.Value, depth int) (int, bool) {
	return labelsOfValueB(c, v, depth, nil)
}

// labelsOfValueB: bind maps the parameters of the helper under evaluation to the arguments of the call being evaluated.
func labelsOfValueB(c *Ctx, v ssa.Value, depth int, bind map[*ssa.Parameter]ssa.Value) (int, bool) {
	p := c.P
	if depth > 6 {
		return 0, false
	}
	res := -1
	for _, o := range p.Origins(v, eng.Plain) {
		call, idx, ok := eng.AsResult(o)
		if !ok || idx != 0 {
			if t, f, _, isF := eng.FieldLoad(o); isF {
				k, ok := vecLabels(c, t, f)
				if !ok || (res >= 0 && res != k) {
					return 0, false
				}
				res = k
				continue
			}
			if pa, isP := o.(*ssa.Parameter); isP {
				// value comes from a caller: resolve over all call sites
				fn := pa.Parent()
				pi := -1
				for i, q := range fn.Params {
					if q == pa {
						pi = i
					}
				}
				for _, s := range p.CallSitesOf(fn) {
					k, ok := labelsOfValue(c, s.Ins.(ssa.CallInstruction).Common().Args[pi], depth+1)
					if !ok || (res >= 0 && res != k) {
						return 0, false
					}
					res = k
				}
				continue
			}
			return 0, false
		}
		name := eng.CalleeName(&call.Call)
		k := -1
		switch {
		case strings.HasPrefix(name, "prom.New") && strings.HasSuffix(name, "Vec"):
			k = sliceLen(c, eng.Arg(&call.Call, 1), bind, 0)
		case strings.HasSuffix(name, ").CurryWith"):
			base, ok := labelsOfValueB(c, eng.Receiver(&call.Call), depth+1, bind)
			if !ok {
				return 0, false
			}
			m := mapLitLen(c, eng.Arg(&call.Call, 0))
			if m < 0 {
				return 0, false
			}
			k = base - m
		default:
			// a repo helper returning a vector
			cs := repoCallees(c, call)
			if len(cs) != 1 {
				return 0, false
			}
			nb := map[*ssa.Parameter]ssa.Value{}
			for i, pa := range cs[0].Params {
				if i < len(call.Call.Args) {
					nb[pa] = call.Call.Args[i]
				}
			}
			for _, r := range eng.Returns(cs[0]) {
				kk, ok := labelsOfValueB(c, r.Results[0], depth+1, nb)
				if !ok {
					return 0, false
				}
				if k >= 0 && k != kk {
					return 0, false
				}
				k = kk
			}
		}
		if k < 0 || (res >= 0 && res != k) {
			return 0, false
		}
		res = k
	}
	return res, res >= 0
}

// sliceLitLen: length of a []string{...} literal (slice of a fresh array alloc).
func sliceLitLen(c *Ctx, v ssa.Value) int {
	if s, ok := v.(*ssa.Slice); ok {
		if a, ok := s.X.(*ssa.Alloc); ok {
			if arr, ok := a.Type().(*types.Pointer).Elem().Underlying().(*types.Array); ok {
				return int(arr.Len())
			}
		}
	}
	if cst, ok := v.(*ssa.Const); ok && cst.IsNil() {
		return 0
	}
	return -1
}

// sliceLen: the (constant) length of a slice value built from literals, arrays, make(…, 0, …), append and helpers that
// combine them; bind gives the arguments of the helper call under evaluation. -1 when it cannot be determined.
func sliceLen(c *Ctx, v ssa.Value, bind map[*ssa.Parameter]ssa.Value, depth int) int {
	if depth > 8 || v == nil {
		return -1
	}
	if k := sliceLitLen(c, v); k >= 0 {
		return k
	}
	switch x := v.(type) {
	case *ssa.Slice:
		if x.Low != nil || x.High != nil {
			return -1
		}
		t := x.X.Type()
		if pt, ok := t.Underlying().(*types.Pointer); ok {
			if arr, ok := pt.Elem().Underlying().(*types.Array); ok {
				return int(arr.Len())
			}
		}
		return sliceLen(c, x.X, bind, depth+1)
	case *ssa.MakeSlice:
		if n, ok := eng.ConstInt(x.Len); ok {
			return int(n)
		}
	case *ssa.ChangeType:
		return sliceLen(c, x.X, bind, depth+1)
	case *ssa.Phi:
		res := -2
		for _, e := range x.Edges {
			k := sliceLen(c, e, bind, depth+1)
			if k < 0 || (res != -2 && res != k) {
				return -1
			}
			res = k
		}
		if res >= 0 {
			return res
		}
	case *ssa.Parameter:
		if a, ok := bind[x]; ok {
			return sliceLen(c, a, nil, depth+1)
		}
	case *ssa.Call:
		if b, ok := x.Call.Value.(*ssa.Builtin); ok && b.Name() == "append" && len(x.Call.Args) == 2 {
			a, bb := sliceLen(c, x.Call.Args[0], bind, depth+1), sliceLen(c, x.Call.Args[1], bind, depth+1)
			if a < 0 || bb < 0 {
				return -1
			}
			return a + bb
		}
		cs := repoCallees(c, x)
		if len(cs) != 1 {
			return -1
		}
		nb := map[*ssa.Parameter]ssa.Value{}
		for i, pa := range cs[0].Params {
			if i < len(x.Call.Args) {
				nb[pa] = x.Call.Args[i]
			}
		}
		// arguments are themselves evaluated in the caller's binding: pre-resolve those that are parameters
		for pa, a := range nb {
			if ap, ok := a.(*ssa.Parameter); ok {
				if outer, ok := bind[ap]; ok {
					nb[pa] = outer
				}
			}
		}
		res := -2
		for _, r := range eng.Returns(cs[0]) {
			k := sliceLen(c, r.Results[0], nb, depth+1)
			if k < 0 || (res != -2 && res != k) {
				return -1
			}
			res = k
		}
		if res >= 0 {
			return res
		}
	}
	return -1
}

// mapLitLen: number of MapUpdate on a fresh MakeMap.
func mapLitLen(c *Ctx, v ssa.Value) int {
	if ct, ok := v.(*ssa.ChangeType); ok {
		v = ct.X
	}
	mm, ok := v.(*ssa.MakeMap)
	if !ok {
		return -1
	}
	n := 0
	for _, r := range *mm.Referrers() {
		if _, ok := r.(*ssa.MapUpdate); ok {
			n++
		}
	}
	return n
}

func arityDischarge(c *Ctx, call *ssa.Call) (bool, string) {
	p := c.P
	// number of arguments passed
	args := eng.Arg(&call.Call, 0)
	nargs := -1
	variadicFromParam := false
	switch a := args.(type) {
	case *ssa.Slice:
		nargs = sliceLitLen(c, a)
	case *ssa.Const:
		nargs = 0
	case *ssa.Parameter:
		variadicFromParam = true
		_ = a
	}
	if variadicFromParam {
		// helper forwarding lvs... : check each call site of the helper
		fn := call.Parent()
		vecParam, lvsParam := -1, -1
		r := eng.Receiver(&call.Call)
		for i, pa := range fn.Params {
			if ssa.Value(pa) == args {
				lvsParam = i
			}
			if ssa.Value(pa) == r {
				vecParam = i
			}
		}
		if vecParam < 0 || lvsParam < 0 {
			return false, "label values forwarded from a parameter but the vector is not a parameter of the same helper"
		}
		sites := p.CallSitesOf(fn)
		if len(sites) == 0 {
			return true, "helper has no callers||"
		}
		for _, s := range sites {
			cc := s.Ins.(ssa.CallInstruction).Common()
			k := sliceLen(c, cc.Args[lvsParam], nil, 0)
			want, ok := labelsOfValue(c, cc.Args[vecParam], 0)
			if !ok || k < 0 {
				return false, "cannot determine label arity at helper call site " + p.IPos(s.Ins)
			}
			if k != want {
				return false, fmt.Sprintf("helper call at %s passes %d label values to a vector with %d variable labels: WithLabelValues panics", p.IPos(s.Ins), k, want)
			}
		}
		return true, fmt.Sprintf("all %d call sites of the forwarding helper pass as many label values as the vector has variable labels||", len(sites))
	}
	want, ok := labelsOfValue(c, eng.Receiver(&call.Call), 0)
	if !ok {
		// through a field
		for _, o := range p.Origins(eng.Receiver(&call.Call), eng.Plain) {
			if t, f, _, isF := eng.FieldLoad(o); isF {
				want, ok = vecLabels(c, t, f)
			}
		}
	}
	if !ok || nargs < 0 {
		return false, "cannot determine the label arity of this WithLabelValues call"
	}
	if nargs != want {
		return false, fmt.Sprintf("%d label values passed to a vector with %d variable labels: WithLabelValues panics", nargs, want)
	}
	return true, fmt.Sprintf("%d label values for %d variable labels||", nargs, want)
}

// nonNegDischarge: Counter.Add(v) with v = float64(x) dominated by x > 0, or v = d.Seconds() of a duration computed as
// now - start with both clock reads under the collector mutex (C17.CLOCK, re-checked here).
func nonNegDischarge(c *Ctx, call *ssa.Call) (bool, string) {
	p := c.P
	arg := eng.Arg(&call.Call, 0)
	f := call.Parent()
	for _, o := range p.Origins(arg, eng.OriginOpts{}) {
		switch x := o.(type) {
		case *ssa.Convert:
			src := p.Resolve(x.X)
			// dominated by src > 0
			ok := false
			for _, b := range f.Blocks {
				iff, isIf := b.Instrs[len(b.Instrs)-1].(*ssa.If)
				if !isIf {
					continue
				}
				bo, isB := iff.Cond.(*ssa.BinOp)
				if !isB || p.Resolve(bo.X) != src {
					continue
				}
				n, isC := eng.ConstInt(bo.Y)
				if !isC {
					continue
				}
				// the edge on which src >= 0 is known: true edge of (src > n>=0 | src >= n>=0), false edge of (src < n>=0 ... i.e. src >= n) / (src <= n>=-1 ... i.e. src > n)
				var good *eng.Edge
				switch {
				case (bo.Op == token.GTR || bo.Op == token.GEQ) && n >= 0:
					good = &eng.Edge{From: b, To: b.Succs[0]}
				case bo.Op == token.LSS && n >= 0, bo.Op == token.LEQ && n >= -1:
					good = &eng.Edge{From: b, To: b.Succs[1]}
				}
				if good != nil && eng.Cut(f, call.Block(), eng.EdgeSet{*good: true}) {
					ok = true
				}
			}
			if !ok {
				return false, "Counter.Add of a converted integer that is not dominated by a > 0 / >= 0 test: a negative value panics"
			}
		case *ssa.Call:
			if eng.CalleeName(&x.Call) != "(time.Duration).Seconds" {
				return false, "Counter.Add of a value of unknown sign"
			}
			// duration = t.Sub(start): non-negative when both clock reads are ordered by the collector mutex
			n0 := len(c.Obs)
			guard := ""
			tm := findTT(c, "NONNEG")
			if tm != nil {
				guard = tm.guard
			}
			okClock := guard != ""
			for _, fn := range p.FnsIn("prometheus") {
				for _, cl := range eng.Calls(fn) {
					cc, ok := cl.(*ssa.Call)
					if !ok || !isClockCall(c, cc) || tm == nil {
						continue
					}
					var sinks []string
					timeSinks(c, tm, cc, map[ssa.Value]bool{}, &sinks)
					if len(sinks) > 0 && !c.L().Held(cc).Has(guard) {
						okClock = false
						return false, fmt.Sprintf("Counter.Add(d.Seconds()) where the clock read at %s is made outside %s: the duration can be negative and Add panics with the mutex held", p.IPos(cc), guard)
					}
				}
			}
			_ = n0
			if !okClock {
				return false, "Counter.Add(d.Seconds()) without an ordering argument for the two clock reads"
			}
		default:
			if cst, ok := o.(*ssa.Const); ok && cst.Value != nil && constant.Sign(cst.Value) >= 0 {
				continue
			}
			return false, "Counter.Add of a value of unknown sign: " + valStr(p, o)
		}
	}
	return true, "argument is non-negative on every path (guarded conversion, or duration between clock reads ordered by the collector mutex)||"
}

// alignDischarge: shadowsocks.Pack(dst, plaintext, key) encrypts in place only if dst starts exactly SaltSize() bytes
// before plaintext in the same backing array: dst = buf[lo1:], plaintext = buf[lo2:hi] with lo1 == lo2 - key.SaltSize().
func alignDischarge(c *Ctx, call *ssa.Call) (bool, string) {
	p := c.P
	dst, okD := p.Resolve(call.Call.Args[0]).(*ssa.Slice)
	pt, okP := p.Resolve(call.Call.Args[1]).(*ssa.Slice)
	if !okD || !okP {
		return true, "not an in-place call (arguments are not slices of one buffer)||"
	}
	sameBuf := false
	for _, a := range p.Origins(dst.X, eng.Plain) {
		for _, b := range p.Origins(pt.X, eng.Plain) {
			if a == b {
				sameBuf = true
			}
		}
	}
	if !sameBuf {
		return true, "dst and plaintext are different buffers||"
	}
	// dst.Low must be (pt.Low - SaltSize()) syntactically, with SaltSize of the same key as the Pack call (the salt size may be
	// computed by the caller and passed in)
	lo := p.Resolve(dst.Low)
	bo, ok := lo.(*ssa.BinOp)
	if !ok || bo.Op != token.SUB || p.Resolve(bo.X) != p.Resolve(pt.Low) {
		return false, "in-place Pack: dst does not start at (plaintext start - salt size): the SDK requires dst[saltSize:] to alias plaintext exactly, otherwise it panics or corrupts the packet"
	}
	keyO := p.Origins(call.Call.Args[2], deepF)
	okSS, bad := p.AllFrom(bo.Y, deepF, func(v ssa.Value) bool {
		ss, ok := v.(*ssa.Call)
		if !ok || eng.CalleeName(&ss.Call) != "(*sdk/shadowsocks.EncryptionKey).SaltSize" {
			return false
		}
		for _, a := range p.Origins(ss.Call.Args[0], deepF) {
			for _, b := range keyO {
				if a == b || sameFieldLoad(a, b) || sameFieldLoadDeep(c, a, b) {
					return true
				}
			}
		}
		return false
	})
	if !okSS {
		return false, "in-place Pack: the offset between dst and plaintext is not SaltSize() of the key that packs: " + valsStr(p, bad)
	}
	return true, "dst starts exactly key.SaltSize() before plaintext in the same buffer||"
}

func sameFieldLoad(a, b ssa.Value) bool {
	t1, f1, b1, ok1 := eng.FieldLoad(a)
	t2, f2, b2, ok2 := eng.FieldLoad(b)
	if !(ok1 && ok2 && t1 == t2 && f1 == f2) {
		return false
	}
	return baseRoot(b1) == baseRoot(b2)
}

// baseRoot resolves a struct base through captured variables to the parameter / allocation it denotes.
func baseRoot(v ssa.Value) ssa.Value { return baseRoot2(v, false) }

// baseRoot2 with stripFields also looks through field selections of a captured struct parameter.
func baseRoot2(v ssa.Value, stripFields bool) ssa.Value {
	for i := 0; i < 8; i++ {
		switch x := v.(type) {
		case *ssa.FreeVar:
			if b := eng.FreeVarBinding(x); b != nil {
				v = b
				continue
			}
		case *ssa.UnOp:
			if x.Op == token.MUL {
				addr := x.X
				if stripFields {
					for fa, ok := addr.(*ssa.FieldAddr); ok; fa, ok = addr.(*ssa.FieldAddr) {
						addr = fa.X // a field of a captured struct parameter
					}
				}
				if cell := eng.CellRoot(addr); cell != nil {
					// single-store cell holding the pointer (captured parameter)
					var val ssa.Value
					n := 0
					for _, f := range eng.Family(cell.Parent()) {
						for _, b := range f.Blocks {
							for _, ins := range b.Instrs {
								if st, ok := ins.(*ssa.Store); ok && eng.CellRoot(st.Addr) == cell {
									val = st.Val
									n++
								}
							}
						}
					}
					if n == 1 {
						v = val
						continue
					}
				}
			}
		}
		return v
	}
	return v
}

// sameFieldLoadDeep: loads of the same (type, field) whose bases share an interprocedural origin (e.g. the caller's association
// parameter and the helper's parameter bound to it).
func sameFieldLoadDeep(c *Ctx, a, b ssa.Value) bool {
	t1, f1, b1, ok1 := eng.FieldLoad(a)
	t2, f2, b2, ok2 := eng.FieldLoad(b)
	if !(ok1 && ok2 && t1 == t2 && f1 == f2) {
		return false
	}
	for _, x := range c.P.Origins(b1, deepF) {
		for _, y := range c.P.Origins(b2, deepF) {
			if baseRoot(x) == baseRoot(y) {
				return true
			}
		}
	}
	return false
}
