package rules

import (
	"fmt"
	"go/token"
	"go/types"
	"sort"
	"strings"

	"golang.org/x/tools/go/ssa"

	"verif/internal/eng"
)

// isCall matches plain call instructions (not go/defer) whose callee name is one of names.
func isCall(names ...string) func(ssa.Instruction) bool {
	return func(ins ssa.Instruction) bool {
		c, ok := ins.(*ssa.Call)
		if !ok {
			return false
		}
		n := eng.CalleeName(&c.Call)
		for _, x := range names {
			if n == x {
				return true
			}
		}
		return false
	}
}

// bodyHas reports whether the function's own body (not callees) contains an instruction matching q.
func bodyHas(f *ssa.Function, q func(ssa.Instruction) bool) bool {
	for _, b := range f.Blocks {
		for _, ins := range b.Instrs {
			if q(ins) {
				return true
			}
		}
	}
	return false
}

// reaches reports whether executing f may reach an instruction matching q through repo callees (memoised, synchronous calls).
func reaches(c *Ctx, f *ssa.Function, q func(ssa.Instruction) bool, memo map[*ssa.Function]int) bool {
	switch memo[f] {
	case 1:
		return true
	case 2, 3:
		return false
	}
	memo[f] = 3 // in progress
	if bodyHas(f, q) {
		memo[f] = 1
		return true
	}
	for _, cl := range eng.Calls(f) {
		for _, callee := range c.L().SyncCallees(cl) {
			if reaches(c, callee, q, memo) {
				memo[f] = 1
				return true
			}
		}
	}
	memo[f] = 2
	return false
}

// orDeferred extends q so that a RunDefers instruction of fn counts as q when fn registers a deferred call that
// matches q directly or whose deferred function literal contains a match, and that Defer dominates `from`.
func orDeferred(fn *ssa.Function, from ssa.Instruction, q func(ssa.Instruction) bool) func(ssa.Instruction) bool {
	has := false
	for _, b := range fn.Blocks {
		for _, ins := range b.Instrs {
			d, ok := ins.(*ssa.Defer)
			if !ok {
				continue
			}
			if from != nil && !eng.Dominates(d, from) {
				continue
			}
			// direct
			fake := &ssa.Call{Call: d.Call}
			_ = fake
			if qDefer(d, q) {
				has = true
			}
		}
	}
	return func(ins ssa.Instruction) bool {
		if q(ins) {
			return true
		}
		if _, ok := ins.(*ssa.RunDefers); ok && has {
			return true
		}
		return false
	}
}

// qDefer: does the deferred call match q (by treating its literal's body as executed)?
func qDefer(d *ssa.Defer, q func(ssa.Instruction) bool) bool {
	switch v := d.Call.Value.(type) {
	case *ssa.MakeClosure:
		if lit, ok := v.Fn.(*ssa.Function); ok && bodyHas(lit, q) {
			return true
		}
	case *ssa.Function:
		if len(v.Blocks) > 0 && bodyHas(v, q) {
			return true
		}
	}
	return false
}

// deferCallNamed reports Defer instructions in fn whose callee name is one of names.
func deferCallNamed(fn *ssa.Function, names ...string) []*ssa.Defer {
	var out []*ssa.Defer
	for _, b := range fn.Blocks {
		for _, ins := range b.Instrs {
			if d, ok := ins.(*ssa.Defer); ok {
				n := eng.CalleeName(&d.Call)
				for _, x := range names {
					if n == x {
						out = append(out, d)
					}
				}
			}
		}
	}
	return out
}

func edgePoint(e eng.Edge) eng.Point { return eng.Point{B: e.To, Idx: 0} }

func sortedEdges(s eng.EdgeSet) []eng.Edge {
	var out []eng.Edge
	for e := range s {
		out = append(out, e)
	}
	sort.Slice(out, func(i, j int) bool {
		if out[i].From.Index != out[j].From.Index {
			return out[i].From.Index < out[j].From.Index
		}
		return out[i].To.Index < out[j].To.Index
	})
	return out
}

// blockPos gives a printable position for a block.
func blockPos(p *eng.Prog, b *ssa.BasicBlock) string {
	for _, ins := range b.Instrs {
		if ins.Pos().IsValid() {
			return p.Pos(ins.Pos())
		}
	}
	if len(b.Instrs) > 0 {
		return p.IPos(b.Instrs[0])
	}
	return "-"
}

// isRecv matches a blocking channel receive or blocking select.
func isBlockingRecv(ins ssa.Instruction) bool {
	switch v := ins.(type) {
	case *ssa.UnOp:
		return v.Op == token.ARROW
	case *ssa.Select:
		return v.Blocking
	}
	return false
}

// hasErrorResult reports whether the last result of sig is the error type, and its index.
func errorResultIndex(sig *types.Signature) int {
	n := sig.Results().Len()
	if n == 0 {
		return -1
	}
	if types.Identical(sig.Results().At(n-1).Type(), types.Universe.Lookup("error").Type()) {
		return n - 1
	}
	return -1
}

// calleeFns are the source-level repo functions a call may invoke.
func repoCallees(c *Ctx, call ssa.CallInstruction) []*ssa.Function {
	var out []*ssa.Function
	for _, f := range c.P.Callees(call) {
		if c.P.InRepo(f) && len(f.Blocks) > 0 {
			out = append(out, f)
		}
	}
	return out
}

func names(fs []*ssa.Function) string {
	var s []string
	for _, f := range fs {
		s = append(s, short(f))
	}
	sort.Strings(s)
	return strings.Join(s, ", ")
}

func fmtEdge(p *eng.Prog, e eng.Edge) string {
	return fmt.Sprintf("b%d->b%d(%s)", e.From.Index, e.To.Index, blockPos(p, e.To))
}

// callsIn returns plain/defer/go call instructions in f matching names.
func callsNamed(f *ssa.Function, names ...string) []ssa.CallInstruction {
	return eng.CallsMatching(f, eng.Named(names...))
}

// onlyCalls filters to *ssa.Call.
func onlyCalls(cs []ssa.CallInstruction) []*ssa.Call {
	var out []*ssa.Call
	for _, c := range cs {
		if v, ok := c.(*ssa.Call); ok {
			out = append(out, v)
		}
	}
	return out
}
