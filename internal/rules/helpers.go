package rules

import (
	"fmt"
	"go/token"
	"go/types"
	"sort"
	"strings"

	"golang.org/x/tools/go/ssa"

	"verif/internal/eng"
)

// isCall matches plain call instructions (not go/defer) whose callee name is one of names.
func isCall(names ...string) func(ssa.Instruction) bool {
	return func(ins ssa.Instruction) bool {
		c, ok := ins.(*ssa.Call)
		if !ok {
			return false
		}
		n := eng.CalleeName(&c.Call)
		for _, x := range names {
			if n == x {
				return true
			}
		}
		return false
	}
}

// bodyHas reports whether the function's own body (not callees) contains an instruction matching q.
func bodyHas(f *ssa.Function, q func(ssa.Instruction) bool) bool {
	for _, b := range f.Blocks {
		for _, ins := range b.Instrs {
			if q(ins) {
				return true
			}
		}
	}
	return false
}

// reaches reports whether executing f may reach an instruction matching q through repo callees (memoised, synchronous calls).
func reaches(c *Ctx, f *ssa.Function, q func(ssa.Instruction) bool, memo map[*ssa.Function]int) bool {
	switch memo[f] {
	case 1:
		return true
	case 2, 3:
		return false
	}
	memo[f] = 3 // in progress
	if bodyHas(f, q) {
		memo[f] = 1
		return true
	}
	for _, cl := range eng.Calls(f) {
		for _, callee := range c.L().SyncCallees(cl) {
			if reaches(c, callee, q, memo) {
				memo[f] = 1
				return true
			}
		}
	}
	memo[f] = 2
	return false
}

// orDeferred extends q so that a RunDefers instruction of fn counts as q when fn registers a deferred call that
// matches q directly or whose deferred function literal contains a match, and that Defer dominates `from`.
func orDeferred(fn *ssa.Function, from ssa.Instruction, q func(ssa.Instruction) bool) func(ssa.Instruction) bool {
	has := false
	for _, b := range fn.Blocks {
		for _, ins := range b.Instrs {
			d, ok := ins.(*ssa.Defer)
			if !ok {
				continue
			}
			if from != nil && !eng.Dominates(d, from) {
				continue
			}
			// direct
			fake := &ssa.Call{Call: d.Call}
			_ = fake
			if qDefer(d, q) {
				has = true
			}
		}
	}
	return func(ins ssa.Instruction) bool {
		if q(ins) {
			return true
		}
		if _, ok := ins.(*ssa.RunDefers); ok && has {
			return true
		}
		return false
	}
}

// qDefer: does the deferred call match q (by treating its literal's body as executed)?
func qDefer(d *ssa.Defer, q func(ssa.Instruction) bool) bool {
	switch v := d.Call.Value.(type) {
	case *ssa.MakeClosure:
		if lit, ok := v.Fn.(*ssa.Function); ok && bodyHas(lit, q) {
			return true
		}
	case *ssa.Function:
		if len(v.Blocks) > 0 && bodyHas(v, q) {
			return true
		}
	}
	return false
}

// deferCallNamed reports Defer instructions in fn whose callee name is one of names.
func deferCallNamed(fn *ssa.Function, names ...string) []*ssa.Defer {
	var out []*ssa.Defer
	for _, b := range fn.Blocks {
		for _, ins := range b.Instrs {
			if d, ok := ins.(*ssa.Defer); ok {
				n := eng.CalleeName(&d.Call)
				for _, x := range names {
					if n == x {
						out = append(out, d)
					}
				}
			}
		}
	}
	return out
}

func edgePoint(e eng.Edge) eng.Point { return eng.Point{B: e.To, Idx: 0} }

func sortedEdges(s eng.EdgeSet) []eng.Edge {
	var out []eng.Edge
	for e := range s {
		out = append(out, e)
	}
	sort.Slice(out, func(i, j int) bool {
		if out[i].From.Index != out[j].From.Index {
			return out[i].From.Index < out[j].From.Index
		}
		return out[i].To.Index < out[j].To.Index
	})
	return out
}

// blockPos gives a printable position for a block.
func blockPos(p *eng.Prog, b *ssa.BasicBlock) string {
	for _, ins := range b.Instrs {
		if ins.Pos().IsValid() {
			return p.Pos(ins.Pos())
		}
	}
	if len(b.Instrs) > 0 {
		return p.IPos(b.Instrs[0])
	}
	return "-"
}

// isRecv matches a blocking channel receive or blocking select.
func isBlockingRecv(ins ssa.Instruction) bool {
	switch v := ins.(type) {
	case *ssa.UnOp:
		return v.Op == token.ARROW
	case *ssa.Select:
		return v.Blocking
	}
	return false
}

// hasErrorResult reports whether the last result of sig is the error type, and its index.
func errorResultIndex(sig *types.Signature) int {
	n := sig.Results().Len()
	if n == 0 {
		return -1
	}
	if types.Identical(sig.Results().At(n-1).Type(), types.Universe.Lookup("error").Type()) {
		return n - 1
	}
	return -1
}

// calleeFns are the source-level repo functions a call may invoke.
func repoCallees(c *Ctx, call ssa.CallInstruction) []*ssa.Function {
	var out []*ssa.Function
	for _, f := range c.P.Callees(call) {
		if c.P.InRepo(f) && len(f.Blocks) > 0 {
			out = append(out, f)
		}
	}
	return out
}

func names(fs []*ssa.Function) string {
	var s []string
	for _, f := range fs {
		s = append(s, short(f))
	}
	sort.Strings(s)
	return strings.Join(s, ", ")
}

func fmtEdge(p *eng.Prog, e eng.Edge) string {
	return fmt.Sprintf("b%d->b%d(%s)", e.From.Index, e.To.Index, blockPos(p, e.To))
}

// callsIn returns plain/defer/go call instructions in f matching names.
func callsNamed(f *ssa.Function, names ...string) []ssa.CallInstruction {
	return eng.CallsMatching(f, eng.Named(names...))
}

// onlyCalls filters to *ssa.Call.
func onlyCalls(cs []ssa.CallInstruction) []*ssa.Call {
	var out []*ssa.Call
	for _, c := range cs {
		if v, ok := c.(*ssa.Call); ok {
			out = append(out, v)
		}
	}
	return out
}

// ---------------------------------------------------------------------------------------------
// Interprocedural lifting of control-flow queries, so that rules are insensitive to helper extraction.
// ---------------------------------------------------------------------------------------------

// singleRepoCallee returns the unique repo function a plain call invokes (static, or a dynamic/interface call the call
// graph resolves to exactly one repo function), or nil.
func singleRepoCallee(c *Ctx, ins ssa.Instruction) *ssa.Function {
	call, ok := ins.(*ssa.Call)
	if !ok {
		return nil
	}
	cs := c.P.Callees(call)
	if len(cs) != 1 || !c.P.InRepo(cs[0]) || len(cs[0].Blocks) == 0 {
		return nil
	}
	return cs[0]
}

// liftMust lifts an instruction matcher q through helper calls: a call to a repo helper matches when every path through the
// helper executes a (lifted) match before any (lifted) stop instruction and before returning.
func liftMust(c *Ctx, q, stop func(ssa.Instruction) bool) func(ssa.Instruction) bool {
	memo := map[*ssa.Function]int{} // 0 unknown, 1 yes, 2 no, 3 in progress
	var lifted func(ssa.Instruction) bool
	var lstop func(ssa.Instruction) bool
	lstop = func(ins ssa.Instruction) bool {
		if stop == nil {
			return false
		}
		if stop(ins) {
			return true
		}
		return false
	}
	lifted = func(ins ssa.Instruction) bool {
		if q(ins) {
			return true
		}
		h := singleRepoCallee(c, ins)
		if h == nil {
			return false
		}
		switch memo[h] {
		case 1:
			return true
		case 2, 3:
			return false
		}
		memo[h] = 3
		ok, _ := eng.MustPass(eng.Point{B: h.Blocks[0]}, lifted)
		if ok && stop != nil {
			ok, _ = eng.MustPassBefore(eng.Point{B: h.Blocks[0]}, lifted, lstop)
		}
		if ok {
			memo[h] = 1
		} else {
			memo[h] = 2
		}
		return ok
	}
	return lifted
}

// liftMay lifts q through helper calls for reachability: a call to a repo helper matches when the helper may execute a match.
func liftMay(c *Ctx, q func(ssa.Instruction) bool) func(ssa.Instruction) bool {
	memo := map[*ssa.Function]int{}
	return func(ins ssa.Instruction) bool {
		if q(ins) {
			return true
		}
		cl, ok := ins.(*ssa.Call)
		if !ok {
			return false
		}
		for _, h := range repoCallees(c, cl) {
			if reaches(c, h, q, memo) {
				return true
			}
		}
		return false
	}
}

// lastResultNilIndex: index of the last result if it is error-like (error or a pointer to a type implementing error), else -1.
func errLikeResultIndex(sig *types.Signature) int {
	n := sig.Results().Len()
	if n == 0 {
		return -1
	}
	t := sig.Results().At(n - 1).Type()
	if types.Identical(t, types.Universe.Lookup("error").Type()) {
		return n - 1
	}
	if _, isPtr := t.(*types.Pointer); isPtr && hasMethodNamed(t, "Error") {
		return n - 1
	}
	return -1
}

func hasMethodNamed(t types.Type, name string) bool {
	ms := types.NewMethodSet(t)
	for i := 0; i < ms.Len(); i++ {
		if ms.At(i).Obj().Name() == name {
			return true
		}
	}
	return false
}

// deepGuard computes, in fn, the edges on which a guard is known to have succeeded: success edges of direct guard calls
// (isGuard gives the index of the error-like result), plus success edges of calls to repo helpers all of whose success
// returns are cut, inside the helper, by its own (deep) guard edges.
type deepGuard struct {
	c       *Ctx
	isGuard func(call *ssa.Call) (errIdx int, ok bool)
	memo    map[*ssa.Function]int
}

func newDeepGuard(c *Ctx, isGuard func(call *ssa.Call) (int, bool)) *deepGuard {
	return &deepGuard{c: c, isGuard: isGuard, memo: map[*ssa.Function]int{}}
}

// establishes: every success return of helper h lies behind the guard.
func (g *deepGuard) establishes(h *ssa.Function) bool {
	switch g.memo[h] {
	case 1:
		return true
	case 2, 3:
		return false
	}
	g.memo[h] = 3
	ei := errLikeResultIndex(h.Signature)
	ok := ei >= 0
	if ok {
		edges := g.edges(h)
		if len(edges) == 0 {
			ok = false
		}
		n := 0
		for _, r := range eng.Returns(h) {
			if r.Block().Comment == "recover" {
				continue
			}
			kind := returnKind(g.c.P, r)
			if kind == "failure" {
				continue
			}
			n++
			if !eng.Cut(h, r.Block(), edges) {
				ok = false
			}
		}
		if n == 0 {
			ok = false
		}
	}
	if ok {
		g.memo[h] = 1
	} else {
		g.memo[h] = 2
	}
	return ok
}

func (g *deepGuard) edges(fn *ssa.Function) eng.EdgeSet {
	out := eng.EdgeSet{}
	for _, cl := range eng.Calls(fn) {
		call, ok := cl.(*ssa.Call)
		if !ok {
			continue
		}
		if ei, ok := g.isGuard(call); ok {
			s, _ := g.c.P.SuccessEdges(fn, []ssa.CallInstruction{call}, ei)
			out = eng.Union(out, s)
			continue
		}
		if h := singleRepoCallee(g.c, call); h != nil && h != fn {
			if ei := errLikeResultIndex(h.Signature); ei >= 0 && g.establishes(h) {
				s, _ := g.c.P.SuccessEdges(fn, []ssa.CallInstruction{call}, ei)
				out = eng.Union(out, s)
			}
		}
	}
	return out
}

// regionFns: fn and the repo functions of the same package it calls synchronously (transitively, bounded), excluding `exclude`.
func regionFns(c *Ctx, root *ssa.Function, exclude map[*ssa.Function]bool, depth int) []*ssa.Function {
	seen := map[*ssa.Function]bool{root: true}
	out := []*ssa.Function{root}
	var walk func(f *ssa.Function, d int)
	walk = func(f *ssa.Function, d int) {
		if d >= depth {
			return
		}
		for _, cl := range eng.Calls(f) {
			if _, isGo := cl.(*ssa.Go); isGo {
				continue
			}
			for _, h := range repoCallees(c, cl) {
				if seen[h] || exclude[h] || eng.PkgPathOf(h) != eng.PkgPathOf(root) || c.P.IsTestSupport(h) {
					continue
				}
				seen[h] = true
				out = append(out, h)
				walk(h, d+1)
			}
		}
		for _, a := range f.AnonFuncs {
			if !seen[a] {
				// closures invoked in place
				for _, cl := range eng.Calls(f) {
					if mc, ok := cl.Common().Value.(*ssa.MakeClosure); ok && mc.Fn == ssa.Value(a) {
						seen[a] = true
						out = append(out, a)
						walk(a, d+1)
					}
				}
			}
		}
	}
	walk(root, 0)
	return out
}

// ruleLoopVar: no goroutine started in a loop shares a loop-carried variable with later iterations (C15: a handler would
// report and serve the next connection instead of its own; C18: the skipped connection is never closed; C19: a data race).
func ruleLoopVar(c *Ctx, rule string, pkgs ...string) {
	n := 0
	for _, f := range c.P.Fns {
		if c.P.IsTestSupport(f) {
			continue
		}
		okPkg := len(pkgs) == 0
		for _, pk := range pkgs {
			if eng.PkgPathOf(f) == eng.Mod+"/"+pk {
				okPkg = true
			}
		}
		if !okPkg {
			continue
		}
		inLoop := false
		loops := eng.Loops(f)
		for _, b := range f.Blocks {
			for _, ins := range b.Instrs {
				if _, ok := ins.(*ssa.Go); ok && eng.InnermostLoop(loops, b) != nil {
					inLoop = true
				}
			}
		}
		if !inLoop {
			continue
		}
		n++
		caps := c.P.GoLoopCaptures(f)
		c.Check(rule, short(f)+":goroutines-own-their-iteration's-variables", c.P.Pos(f.Pos()), len(caps) == 0, func() string {
			if len(caps) == 0 {
				return ""
			}
			return fmt.Sprintf("the goroutine started at %s captures by reference the variable %s, which is declared outside the loop and assigned in it (per-loop, not per-iteration): when the next iteration assigns it before the goroutine reads it, two goroutines handle the same connection and one connection is never handled, reported or closed", c.P.IPos(caps[0].Go), caps[0].Cell.Comment)
		}())
	}
	c.Floor(rule, "functions that start goroutines inside a loop", n, 1)
}
