package rules

import (
	"go/types"
	"strings"

	"golang.org/x/tools/go/ssa"

	"verif/internal/eng"
)

// udpModel discovers the UDP NAT machinery by role (types and members are found by shape, not by name), so that renaming
// unexported identifiers or moving code between files does not lose the anchors.
type udpModel struct {
	connT     string // association type: struct embedding net.PacketConn with an *EncryptionKey field
	keyField  string // its *shadowsocks.EncryptionKey field
	dlField   string // the time.Time field holding the current read deadline ...
	dlT       string // ... and the struct type that declares it: connT, or a small deadline type held by value in connT
	metField  string // its UDPConnMetrics field
	connField string // the embedded/held net.PacketConn field
	mapT      string // table type: struct with a map[string]*connT field
	mapField  string
	mapLock   string // lock class of the table
	get       *ssa.Function
	add       *ssa.Function
	set       *ssa.Function
	del       *ssa.Function
	closeAll  *ssa.Function
	newMap    *ssa.Function
	connWrite *ssa.Function   // (*connT).WriteTo
	connRead  *ssa.Function   // (*connT).ReadFrom
	assocGo   []*ssa.Function // goroutine literals/functions started by add
	replyFns  []*ssa.Function // root functions containing a loop that calls connRead
}

var udpModelCache = map[*eng.Prog]*udpModel{}

func getUDPModel(c *Ctx, rule string) *udpModel {
	if m, ok := udpModelCache[c.P]; ok {
		if m == nil {
			c.Undecided(rule, "anchor:udp-nat-model", "-", "the UDP association table / association types were not found by shape")
		}
		return m
	}
	m := discoverUDP(c)
	udpModelCache[c.P] = m
	if m == nil {
		c.Undecided(rule, "anchor:udp-nat-model", "-", "the UDP association table / association types were not found by shape")
	}
	return m
}

func discoverUDP(c *Ctx) *udpModel {
	p := c.P
	pkg := p.AllPkgs[eng.Mod+"/service"]
	if pkg == nil || pkg.Types == nil {
		return nil
	}
	m := &udpModel{}
	scope := pkg.Types.Scope()
	for _, name := range scope.Names() {
		tn, ok := scope.Lookup(name).(*types.TypeName)
		if !ok {
			continue
		}
		st, ok := tn.Type().Underlying().(*types.Struct)
		if !ok {
			continue
		}
		short := "service." + name
		var key, dl, dlT, met, conn string
		for i := 0; i < st.NumFields(); i++ {
			f := st.Field(i)
			ts := eng.Short(f.Type().String())
			switch {
			case ts == "*sdk/shadowsocks.EncryptionKey":
				key = f.Name()
			case ts == "time.Time":
				dl, dlT = f.Name(), short
			default:
				// a small struct held by value whose (only) time.Time field is the deadline (a monotonicDeadline type)
				if inner, ok := f.Type().Underlying().(*types.Struct); ok && strings.HasPrefix(eng.TypeName(f.Type()), "service.") {
					nt, tf := 0, ""
					for k := 0; k < inner.NumFields(); k++ {
						if eng.Short(inner.Field(k).Type().String()) == "time.Time" {
							nt++
							tf = inner.Field(k).Name()
						}
					}
					if nt == 1 && dl == "" {
						dl, dlT = tf, eng.TypeName(f.Type())
					}
				}
			case ts == "service.UDPConnMetrics":
				met = f.Name()
			case ts == "net.PacketConn":
				conn = f.Name()
			}
		}
		if key != "" && conn != "" && dl != "" {
			m.connT, m.keyField, m.dlField, m.metField, m.connField = short, key, dl, met, conn
			m.dlT = dlT
		}
	}
	if m.connT == "" {
		return nil
	}
	for _, name := range scope.Names() {
		tn, ok := scope.Lookup(name).(*types.TypeName)
		if !ok {
			continue
		}
		st, ok := tn.Type().Underlying().(*types.Struct)
		if !ok {
			continue
		}
		for i := 0; i < st.NumFields(); i++ {
			f := st.Field(i)
			if mt, ok := f.Type().Underlying().(*types.Map); ok && eng.TypeName(mt.Elem()) == m.connT {
				if _, isPtr := mt.Elem().(*types.Pointer); isPtr {
					m.mapT, m.mapField = "service."+name, f.Name()
				}
			}
		}
		if m.mapT == "service."+name {
			for i := 0; i < st.NumFields(); i++ {
				if s := st.Field(i).Type().String(); s == "sync.Mutex" || s == "sync.RWMutex" {
					m.mapLock = m.mapT + "." + st.Field(i).Name()
				}
			}
		}
	}
	if m.mapT == "" {
		return nil
	}
	recvIs := func(f *ssa.Function, t string) bool {
		return f.Parent() == nil && f.Signature.Recv() != nil && eng.TypeName(f.Signature.Recv().Type()) == t
	}
	for _, f := range p.FnsIn("service") {
		if recvIs(f, m.connT) {
			switch f.Name() {
			case "WriteTo":
				m.connWrite = f
			case "ReadFrom":
				m.connRead = f
			}
		}
		if f.Parent() == nil && f.Signature.Recv() == nil && f.Signature.Results().Len() == 1 && eng.TypeName(f.Signature.Results().At(0).Type()) == m.mapT {
			if len(p.Allocs(m.mapT)) > 0 {
				for _, a := range p.Allocs(m.mapT) {
					if a.Fn == f {
						m.newMap = f
					}
				}
			}
		}
		if !recvIs(f, m.mapT) {
			continue
		}
		res := f.Signature.Results()
		hasGo, hasUpd, hasDel, hasRange := false, false, false, false
		for _, b := range f.Blocks {
			for _, ins := range b.Instrs {
				switch v := ins.(type) {
				case *ssa.Go:
					hasGo = true
				case *ssa.MapUpdate:
					hasUpd = true
				case *ssa.Range:
					hasRange = true
				case *ssa.Call:
					if _, ok := isBuiltinCall(v, "delete"); ok {
						hasDel = true
					}
				}
			}
		}
		switch {
		case hasGo:
			m.add = f
		case hasUpd && !hasDel && !hasRange && res.Len() <= 1:
			m.set = f // the insertion helper: builds and stores the entry (returning it), or stores the entry it is given
		case hasDel && !hasRange && res.Len() >= 1 && res.Len() <= 2:
			m.del = f // returns what it removed: the entry / its socket, possibly with an ok flag
		case hasRange && res.Len() <= 1 && f.Signature.Params().Len() == 0:
			m.closeAll = f
		case !hasUpd && !hasDel && !hasRange && res.Len() == 1 && eng.TypeName(res.At(0).Type()) == m.connT && f.Signature.Params().Len() == 1:
			m.get = f
		}
	}
	if m.closeAll == nil {
		// the walk over the table may live in a helper that is handed the map (expireAll(m.entries, now))
		for _, f := range p.FnsIn("service") {
			if !recvIs(f, m.mapT) || f.Signature.Params().Len() != 0 || f.Signature.Results().Len() > 1 {
				continue
			}
			for _, cl := range Calls0(f) {
				h := cl.Common().StaticCallee()
				if h == nil || !p.InRepo(h) || len(h.Blocks) == 0 {
					continue
				}
				hasRange := false
				for _, b := range h.Blocks {
					for _, ins := range b.Instrs {
						if _, ok := ins.(*ssa.Range); ok {
							hasRange = true
						}
					}
				}
				passesTable := false
				for _, a := range cl.Common().Args {
					if p.AnyFrom(a, eng.Plain, func(v ssa.Value) bool { return eng.IsFieldLoad(v, m.mapT, m.mapField) }) {
						passesTable = true
					}
				}
				if hasRange && passesTable {
					m.closeAll = f
				}
			}
		}
	}
	if m.get == nil || m.add == nil || m.connWrite == nil || m.connRead == nil {
		return nil
	}
	for _, cl := range eng.Calls(m.add) {
		if g, ok := cl.(*ssa.Go); ok {
			for _, t := range p.Callees(g) {
				if p.InRepo(t) {
					m.assocGo = append(m.assocGo, t)
				}
			}
		}
	}
	// reply-loop roots: top-level functions whose family (closures) or same-package helpers call connRead inside a loop region
	seen := map[*ssa.Function]bool{}
	for _, s := range p.CallSitesOf(m.connRead) {
		root := eng.Root(s.Fn)
		// climb to the function that contains the loop: the caller chain within the package until a function with a loop
		cur := s.Fn
		for i := 0; i < 4; i++ {
			r := eng.Root(cur)
			if hasLoop(r) || hasLoop(cur) {
				root = r
				break
			}
			sites := p.CallSitesOf(cur)
			if len(sites) != 1 {
				break
			}
			cur = sites[0].Fn
		}
		if !seen[root] && !p.IsTestSupport(root) {
			seen[root] = true
			m.replyFns = append(m.replyFns, root)
		}
	}
	return m
}

// Calls0: the call instructions of f.
func Calls0(f *ssa.Function) []ssa.CallInstruction { return eng.Calls(f) }

func hasLoop(f *ssa.Function) bool {
	for _, g := range eng.Family(f) {
		if len(eng.Loops(g)) > 0 {
			return true
		}
	}
	return false
}

func (m *udpModel) isFn(f *ssa.Function, cands ...*ssa.Function) bool {
	for _, x := range cands {
		if x != nil && f == x {
			return true
		}
	}
	return false
}

// callTo reports whether the call instruction invokes target (static, or resolved by the call graph).
func callTo(c *Ctx, cl ssa.CallInstruction, target *ssa.Function) bool {
	if target == nil {
		return false
	}
	if f := cl.Common().StaticCallee(); f != nil {
		return f == target
	}
	for _, f := range c.P.Callees(cl) {
		if f == target {
			return true
		}
	}
	return false
}

// stopAtUDPInternals: region builder predicate — do not descend into the table / association methods or other packages.
func (m *udpModel) stopFn(c *Ctx) func(*ssa.Function) bool {
	return func(h *ssa.Function) bool {
		if eng.PkgPathOf(h) != eng.Mod+"/service" {
			return true
		}
		// the model's own anchors are summarised by their role, not entered; other methods of the table / association types
		// (helpers extracted from them) are ordinary region members
		for _, a := range []*ssa.Function{m.get, m.add, m.set, m.del, m.closeAll, m.newMap, m.connWrite, m.connRead} {
			if a != nil && (h == a || eng.Root(h) == a) {
				return true
			}
		}
		return strings.HasPrefix(h.Name(), "debug")
	}
}
