package rules

import (
	"fmt"
	"go/types"
	"strings"

	"golang.org/x/tools/go/ssa"

	"verif/internal/eng"
)

// errorKept: on the paths behind the failure edge of `call` (its error result non-nil) the function returns an error that is
// definitely non-nil or is computed from that error. An error that is tested but assigned to a shadowed variable reaches
// neither: the caller sees success.
func errorKept(c *Ctx, f *ssa.Function, call *ssa.Call) (ok bool, at ssa.Instruction, tested bool) {
	p := c.P
	ei := errorResultIndex(call.Call.Signature())
	fe := errorResultIndex(f.Signature)
	if ei < 0 || fe < 0 {
		// a *ConnectionError result counts as the function's error
		for i := 0; i < f.Signature.Results().Len(); i++ {
			if eng.TypeName(f.Signature.Results().At(i).Type()) == "net.ConnectionError" {
				fe = i
			}
		}
		if ei < 0 || fe < 0 {
			return true, call, false
		}
	}
	var errV ssa.Value = call
	if call.Call.Signature().Results().Len() > 1 {
		errV = nil
		for _, r := range *call.Referrers() {
			if ex, ok := r.(*ssa.Extract); ok && ex.Index == ei {
				errV = ex
			}
		}
	}
	if errV == nil {
		return false, call, false
	}
	_, fail := p.SuccessEdges(f, []ssa.CallInstruction{call}, ei)
	reach := map[*ssa.BasicBlock]bool{}
	if len(fail) == 0 {
		reach = eng.ReachBlocks(call.Block(), nil)
		reach[call.Block()] = true
	}
	for e := range fail {
		reach[e.To] = true
		for b := range eng.ReachBlocks(e.To, nil) {
			reach[b] = true
		}
	}
	nr := 0
	for _, r := range eng.Returns(f) {
		if !reach[r.Block()] || fe >= len(r.Results) || r.Block().Comment == "recover" {
			continue
		}
		nr++
		rv := r.Results[fe]
		if fe == 0 {
			rv = retVal(p, r)
		} else if s := p.ReachingStore(rv, r); s != nil {
			rv = s
		}
		isJoin := false
		if jc, isC := rv.(*ssa.Call); isC && eng.CalleeName(&jc.Call) == "errors.Join" {
			isJoin = true // nil when all its arguments are nil
		}
		if (!isJoin && p.DefinitelyNonNil(rv, r)) || backwardDeps(rv)[errV] {
			continue
		}
		return false, r, len(fail) > 0
	}
	return nr > 0, call, len(fail) > 0
}

// ruleRelayErrorKept (C15.STATUS, "relay error either way"): in the function that relays one connection, the error of each
// io.Copy made in the function itself is kept.
func ruleRelayErrorKept(c *Ctx, rule string) {
	p := c.P
	n := 0
	for _, f := range p.FnsIn("service") {
		if p.IsTestSupport(f) || len(f.Blocks) == 0 {
			continue
		}
		for _, cl := range eng.Calls(f) {
			call, ok := cl.(*ssa.Call)
			if !ok || eng.CalleeName(&call.Call) != "io.Copy" {
				continue
			}
			if f.Parent() != nil && f.Signature.Results().Len() == 0 {
				continue // the copy of the helper goroutine: its error travels over a channel (JOIN)
			}
			if p.AnyFrom(call.Call.Args[0], eng.Plain, func(v ssa.Value) bool {
				u, ok := v.(*ssa.UnOp)
				if !ok {
					return false
				}
				g, ok := u.X.(*ssa.Global)
				return ok && g.Name() == "Discard"
			}) {
				continue // a drain, not a relay
			}
			n++
			ok2, at, _ := errorKept(c, f, call)
			c.CheckAt(rule, fmt.Sprintf("%s:copy#%d:relay-error-reaches-the-result", short(f), n), at, ok2, "the error of this relay copy does not reach the error the function returns on the paths on which the copy failed (e.g. it is assigned to a shadowed variable): a connection whose relay failed is reported as OK")
		}
	}
	c.Floor(rule, "relay copies whose error is returned by the copying function", n, 1)
}

// ruleAdapterStatus (C15/C16 WIRING): in the Prometheus adapter every method that receives a status reports it on every path:
// each return is preceded by a call that is handed the status parameter. (A guard clause placed above the report — "nothing to
// do for unauthenticated connections" — makes refused connections open without ever closing.)
func ruleAdapterStatus(c *Ctx, rule string) {
	p := c.P
	n := 0
	for _, f := range p.FnsIn("prometheus") {
		if p.IsTestSupport(f) || len(f.Blocks) == 0 || f.Signature.Recv() == nil || f.Parent() != nil || !ast_IsExported(f.Name()) {
			continue
		}
		var status *ssa.Parameter
		for _, pa := range f.Params {
			if pa.Name() == "status" && pa.Type().String() == "string" {
				status = pa
			}
		}
		if status == nil {
			continue
		}
		n++
		uses := func(ins ssa.Instruction) bool {
			cl, ok := ins.(ssa.CallInstruction)
			if !ok {
				return false
			}
			for _, a := range cl.Common().Args {
				if p.AnyFrom(a, eng.Plain, func(v ssa.Value) bool { return v == ssa.Value(status) }) {
					return true
				}
				// among the label values of a WithLabelValues(…) call (a variadic slice)
				if _, isSlice := a.(*ssa.Slice); isSlice && backwardDeps(a)[status] {
					return true
				}
			}
			return false
		}
		// a status the sink has no metric for (a parameter no call uses) obliges nothing
		anyUse := false
		for _, b := range f.Blocks {
			for _, ins := range b.Instrs {
				if uses(ins) {
					anyUse = true
				}
			}
		}
		if !anyUse {
			c.CheckAt(rule, short(f)+":status-reported-on-every-path", f.Blocks[0].Instrs[0], true, "the status is not exported by this method at all||")
			continue
		}
		ok, bad := eng.MustPass(eng.Point{B: f.Blocks[0], Idx: 0}, uses)
		at := ssa.Instruction(f.Blocks[0].Instrs[0])
		if bad != nil {
			at = bad
		}
		c.CheckAt(rule, short(f)+":status-reported-on-every-path", at, ok, "a path through this adapter method returns without handing the status to any collector: the event (a closed connection, a datagram) is dropped from the counters for some connections")
	}
	c.Floor(rule, "adapter methods that receive a status", n, 3)
}

func ast_IsExported(name string) bool { return name != "" && name[0] >= 'A' && name[0] <= 'Z' }

// closedTestOnSocketError: the value tested by errors.Is(x, net.ErrClosed) is the error returned by the loop's own socket
// call (accept / read on the listening socket), not the error of handling one connection or datagram.
func closedTestOnSocketError(c *Ctx, cond ssa.Value) bool {
	call, ok := cond.(*ssa.Call)
	if !ok || len(call.Call.Args) != 2 {
		return false
	}
	all, _ := c.P.AllFrom(call.Call.Args[0], eng.Plain, func(v ssa.Value) bool {
		cc, _, ok := eng.AsResult(v)
		if !ok {
			return false
		}
		n := eng.CalleeName(&cc.Call)
		return isBlockingSocketCall(cc) || strings.HasPrefix(n, "dyn:service.StreamAcceptFunc") || strings.HasPrefix(n, "dyn:") || isReadWrapperCall(c, cc)
	})
	return all
}

// ruleLabelOwner (C20.CLASSIFY): the country code of a lookup answer is decided in the location package only. Outside it no
// code stores into a CountryCode (field or variable): the label exported is the classifier's answer, unchanged.
func ruleLabelOwner(c *Ctx, rule string) {
	p := c.P
	n, nIn := 0, 0
	for _, f := range p.Fns {
		if p.IsTestSupport(f) || len(f.Blocks) == 0 || !p.InRepo(f) {
			continue
		}
		inIPInfo := strings.HasSuffix(eng.PkgPathOf(f), "/ipinfo")
		for _, b := range f.Blocks {
			for _, ins := range b.Instrs {
				st, ok := ins.(*ssa.Store)
				if !ok || eng.TypeName(st.Val.Type()) != "ipinfo.CountryCode" {
					continue
				}
				if inIPInfo {
					nIn++
					continue
				}
				// copying a whole answer around is a store of an IPInfo, not of a CountryCode; a store of a bare code is a decision
				if fa, isFA := st.Addr.(*ssa.FieldAddr); isFA {
					if al := allocRoot(fa.X); al != nil {
						// a composite literal under construction that copies the code of an existing answer
						if p.AnyFrom(st.Val, eng.Plain, func(v ssa.Value) bool { _, _, _, isLoad := eng.FieldLoad(v); return isLoad }) {
							continue
						}
					}
				}
				n++
				c.CheckAt(rule, fmt.Sprintf("%s:country-code-decided-outside-the-classifier#%d", short(f), n), st, false, "a country code is assigned outside the location package: the exported label is no longer the classifier's answer for the address class (e.g. a sanity filter that replaces valid codes)")
			}
		}
	}
	if n == 0 {
		c.Check(rule, "country-code-decided-only-by-the-classifier", "-", true, fmt.Sprintf("%d stores of a country code, all inside the location package||", nIn))
	}
	c.Floor(rule, "stores of a country code inside the location package", nIn, 3)
}

// ruleGeneratorFixed (C08.AGREE): what IsServerSalt needs in order to recognise a salt is fixed when the generator is built:
// no field of a salt generator type is written after construction. (A key derived lazily by GetSalt is missing when a fresh
// generator — after a reload — is asked to recognise a salt before it has issued one.)
func ruleGeneratorFixed(c *Ctx, rule string) {
	p := c.P
	n := 0
	for path, pkg := range p.AllPkgs {
		if pkg.Types == nil || path != eng.Mod+"/service" {
			continue
		}
		sc := pkg.Types.Scope()
		for _, name := range sc.Names() {
			tn, ok := sc.Lookup(name).(*types.TypeName)
			if !ok {
				continue
			}
			st, isStruct := tn.Type().Underlying().(*types.Struct)
			if !isStruct || !(hasMethod(tn.Type(), "IsServerSalt") || hasMethod(types.NewPointer(tn.Type()), "IsServerSalt")) {
				continue
			}
			T := "service." + name
			for i := 0; i < st.NumFields(); i++ {
				fl := st.Field(i)
				n++
				bad := ""
				for _, s := range p.FieldStores(T, fl.Name()) {
					if !s.Fresh && !p.IsTestSupport(s.Fn) {
						bad = short(s.Fn)
					}
				}
				c.Check(rule, "generator-state-fixed-at-construction:"+T+"."+fl.Name(), "-", bad == "", "field "+fl.Name()+" of the salt generator is written after construction (in "+bad+"): whether a salt is recognised as the server's own then depends on what the generator did before")
			}
		}
	}
	c.Floor(rule, "fields of salt generator types", n, 1)
}
