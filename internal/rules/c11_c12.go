package rules

import (
	"fmt"
	"go/token"
	"go/types"
	"sort"
	"strings"

	"golang.org/x/tools/go/ssa"

	"verif/internal/eng"
)

func init() {
	register(&PropDef{ID: "C11", Level: "other", Run: runC11,
		Explanation: "Structural conditions for uninterrupted service across a reload, on all paths: (ORDER) in the reload function the new configuration is started before the old one is " +
			"stopped, and the old one is stopped only on the start-success edge; (REFCOUNT) in every shared-listener Acquire the socket is created only when absent, the handle count is " +
			"incremented exactly once on every success return and not at all on failure returns, count and socket are accessed only under the listener's mutex, and the shared socket is " +
			"closed only on the count == 0 edge after the decrement; (SURVIVE) nothing reachable from the stream handler — nor the serve loop and its closures between accept and hand-over — consults context cancellation (Done/Err/AfterFunc/Cause), so " +
			"cancelling the serve context at listener shutdown cannot close connections that are relaying, and the serve loop itself closes no connection outside the per-connection goroutine. (CLOSEDGUARD/DELIVER) a handle excludes the closed state first and returns every connection it has taken; a taken read request is awaited unconditionally; reader goroutines stop only when the socket is closed or on their cancel arm.",
		NotDecided: "kernel accept-queue behaviour during the overlap, timing, that every accepted connection is handled by exactly one generation at run time (C12 covers the hand-off structure).",
	})
	register(&PropDef{ID: "C12", Level: "other", Run: runC12,
		Explanation: "Structure of exactly-once delivery on shared listeners, for all interleavings: (ONEPUMP) one reader goroutine per socket creation, started only on the socket == nil edge; " +
			"(CANCELPUMP) in each reader goroutine every blocking channel operation is a select arm next to a receive on a channel that the last release closes (a bare send is a violation unless " +
			"the channel is a private buffered response channel), and every way out of the cancel arm on which the accept had succeeded closes the pending connection; (PROMPTREPLY) once the reader has taken a read request it " +
			"answers it without any further blocking socket call (the handle waits for that answer without watching its close signal); (LASTCLOSE) on the count == 0 edge the socket is closed, the " +
			"reader is signalled, and the manager callback is invoked at most once (field cleared before the call); (CLOSEDGUARD) every handle method that blocks on the shared channel also " +
			"waits on the handle's close channel and excludes the closed state first (shared channel niled under the handle mutex by Close, or a dominating non-blocking poll of the close channel); (HANDLECLOSE) every path through a handle's Close that changes its state or runs the release callback also closes the close channel. (DELIVER) a handle returns every connection it has taken and awaits a taken read request unconditionally; reader goroutines stop only on the socket-closed test or their cancel arm (a transient accept/read error does not end them).",
		NotDecided: "actual delivery under schedules (which handle gets which datagram), re-bindability of the port at the OS level, fairness of select.",
	})
}

func runC11(c *Ctx) {
	if a := findReload(c, "ORDER"); a != nil {
		ruleKeepOld(c, a, "ORDER")
		// every listener a generation serves was acquired through its own listener set, which is what stopping the generation
		// releases: a handle taken from the manager directly is never closed and keeps competing for the address
		ruleBind(c, a)
		// "keys present in both configurations keep working": a key is left out of a service's list only when that same list
		// already holds it
		ruleDedup(c, a)
	}
	ms := findMultiListeners(c, "REFCOUNT")
	c.Floor("REFCOUNT", "shared-listener types with an Acquire method", len(ms), 2)
	for _, m := range ms {
		ruleRefcount(c, m)
		// hand-off structure of the shared reader goroutines: a request parked inside the reader cannot be cancelled by closing the
		// old generation's handle, so the next datagram would go to the generation that is being retired
		ruleCancelPump(c, m, "HANDOFF")
		// the handle side of the hand-off: closed state excluded first, and what a handle has received it delivers
		ruleClosedGuard(c, m)
	}
	ruleSurvive(c)
	ruleManagerKeys(c, "MANAGERKEYS")
	ruleKeysFirst(c, "KEYSFIRST")
	// a reload acquires and releases handles of a shared listener while its reader goroutine runs: the state they share
	// (socket, channels, count) must be guarded or fixed before the reader starts — a channel replaced under the reader's
	// feet leaves it parked on one nobody sends to any more, and the address goes dead for every generation
	var lt []string
	for _, m := range ms {
		lt = append(lt, m.T)
		if m.handleT != "" {
			lt = append(lt, m.handleT)
		}
		for h := range m.holders {
			if h != m.T {
				lt = append(lt, h)
			}
		}
	}
	sort.Strings(lt)
	ruleGuardedTypes(c, "SHAREDSTATE", lt, 4, 12)
}

// C11.SURVIVE
func ruleSurvive(c *Ctx) {
	var roots []*ssa.Function
	for _, f := range c.P.FnsIn("service") {
		if f.Name() == "Handle" && f.Signature.Recv() != nil && f.Signature.Params().Len() == 3 {
			roots = append(roots, f)
		}
		// the service's entry for one accepted connection (what StreamServe is given): (ctx, conn)
		if f.Signature.Recv() != nil && f.Parent() == nil && !c.P.IsTestSupport(f) && f.Signature.Params().Len() == 2 &&
			f.Signature.Params().At(0).Type().String() == "context.Context" && strings.HasSuffix(f.Signature.Params().At(1).Type().String(), "StreamConn") {
			roots = append(roots, f)
		}
	}
	if !c.Floor("SURVIVE", "stream handler Handle implementations", len(roots), 1) {
		return
	}
	region := c.P.Reach(c.L(), roots...)
	ctxUses, denied := 0, 0
	for _, f := range eng.SortedFns(region) {
		for _, cl := range eng.Calls(f) {
			n := eng.CalleeName(cl.Common())
			if strings.HasPrefix(n, "(context.Context).") {
				ctxUses++
			}
			switch n {
			case "(context.Context).Done", "(context.Context).Err", "context.AfterFunc", "context.Cause":
				denied++
				c.CheckAt("SURVIVE", short(f)+":"+n, cl, false, "code reachable from the stream handler reacts to cancellation of the serve context: a reload (listener close) would interrupt connections that are relaying")
			}
		}
	}
	c.Floor("SURVIVE", "context method calls examined in the handler region (positive control for the matcher)", ctxUses, 1)
	if denied == 0 {
		c.Check("SURVIVE", "handler-region-ignores-cancellation", "-", true, fmt.Sprintf("%d functions reachable from %s; %d context method calls, none of Done/Err/AfterFunc/Cause||", len(region), names(roots), ctxUses))
	}
	// the serve loop closes no connection itself
	for _, f := range c.P.FnsIn("service") {
		if f.Name() != "StreamServe" || f.Parent() != nil {
			continue
		}
		n := 0
		for _, cl := range eng.Calls(f) {
			if eng.MethodName(cl.Common()) == "Close" {
				n++
			}
		}
		c.Check("SURVIVE", short(f)+":closes-no-connection", c.P.Pos(f.Pos()), n == 0, "the serve loop itself closes connections (outside the per-connection goroutine)")
		// "every accepted connection is handled by exactly one generation": between the accept and the handler nothing may
		// consult the serve context, which the loop cancels when its listener closes — at the stop-old step of every reload
		// (seed C11-u1: the per-connection goroutine returns early when ctx.Err() != nil, dropping a connection accepted just
		// before the stop)
		var fam []*ssa.Function
		var addFam func(g *ssa.Function)
		addFam = func(g *ssa.Function) {
			fam = append(fam, g)
			for _, a := range g.AnonFuncs {
				addFam(a)
			}
		}
		addFam(f)
		bad := 0
		for _, g := range fam {
			for _, cl := range eng.Calls(g) {
				switch n := eng.CalleeName(cl.Common()); n {
				case "(context.Context).Done", "(context.Context).Err", "context.AfterFunc", "context.Cause":
					bad++
					c.CheckAt("SURVIVE", short(g)+":"+n, cl, false, "the serve loop consults the serve context between accepting a connection and handing it to the handler: the context is cancelled when the listener closes (stop-old step of a reload), so a connection accepted just before is dropped unhandled")
				}
			}
		}
		if bad == 0 {
			c.Check("SURVIVE", short(f)+":accepted-connections-handled-regardless-of-cancellation", c.P.Pos(f.Pos()), true, fmt.Sprintf("%d functions of the serve loop examined, none reads the state of the serve context||", len(fam)))
		}
	}
}

// ---- C12 ----

func runC12(c *Ctx) {
	ms := findMultiListeners(c, "ANCHOR")
	if !c.Floor("ANCHOR", "shared-listener types with an Acquire method", len(ms), 2) {
		return
	}
	for _, m := range ms {
		ruleRefcount(c, m) // "when the last handle closes the socket is released" needs balanced reference counting
		ruleOnePump(c, m)
		ruleLastClose(c, m)
		ruleCancelPump(c, m, "CANCELPUMP")
		ruleClosedGuard(c, m)
	}
	ruleManagerKeys(c, "MANAGERKEYS")
}

func ruleOnePump(c *Ctx, m *multiModel) {
	f := m.acquire
	c.Check("ONEPUMP", m.T+":one-go-statement", c.P.Pos(f.Pos()), len(m.goSites) == 1, fmt.Sprintf("Acquire (with its helpers) has %d go statements (expected exactly one reader goroutine per socket)", len(m.goSites)))
	for _, g := range m.goSites {
		c.CheckAt("ONEPUMP", m.T+":go-only-on-socket-creation", g, m.R.CutDeep(g, m.gCreate), "a reader goroutine is started on a path where the socket already exists: two readers would compete for the same socket")
		c.CheckAt("ONEPUMP", m.T+":go-not-in-loop", g, eng.InnermostLoop(eng.Loops(g.Parent()), g.Block()) == nil, "the reader goroutine is started inside a loop")
	}
}

// doneFields: chan fields D of T closed (close(load T.D)) somewhere in a release closure.
func doneFields(c *Ctx, m *multiModel) map[string]bool {
	out := map[string]bool{}
	for T := range m.holders {
		for _, fl := range c.P.StructFields(T) {
			if _, ok := fl.Type().Underlying().(*types.Chan); !ok {
				continue
			}
			for _, r := range m.release {
				if bodyHas(r, liftMay(c, closeOfField(c.P, T, fl.Name()))) {
					out[T+"."+fl.Name()] = true
				}
			}
		}
	}
	return out
}

// cbInvocation is a place in fn where the callback held in field T.field is run: a dynamic call of the loaded field value, or a
// call of a small helper that is handed the field's address and calls through it. cleared tells whether the field is reset to
// nil before the callback runs (so it cannot run twice).
type cbInvocation struct {
	at      ssa.Instruction
	cleared bool
}

func cbInvocations(c *Ctx, fn *ssa.Function, T, field string) []cbInvocation {
	return cbInvocationsD(c, fn, T, field, 0)
}

func cbInvocationsD(c *Ctx, fn *ssa.Function, T, field string, depth int) []cbInvocation {
	p := c.P
	var out []cbInvocation
	for _, cl := range eng.Calls(fn) {
		call, ok := cl.(*ssa.Call)
		if !ok || call.Call.IsInvoke() {
			continue
		}
		// a helper of the release code that runs the callback itself (closeSocketLocked()): the call stands for it
		if h := call.Call.StaticCallee(); h != nil && depth < 2 && p.InRepo(h) && len(h.Blocks) > 0 && h != fn && eng.PkgPathOf(h) == eng.PkgPathOf(fn) {
			if inner := cbInvocationsD(c, h, T, field, depth+1); len(inner) > 0 {
				cleared := true
				for _, iv := range inner {
					cleared = cleared && iv.cleared
				}
				out = append(out, cbInvocation{call, cleared})
				continue
			}
		}
		if call.Call.StaticCallee() == nil {
			if _, isB := call.Call.Value.(*ssa.Builtin); isB {
				continue
			}
			if !p.AnyFrom(call.Call.Value, eng.Plain, func(v ssa.Value) bool { return eng.IsFieldLoad(v, T, field) }) {
				continue
			}
			cleared := false
			for _, b := range fn.Blocks {
				for _, ins := range b.Instrs {
					if st, ok := isStoreToField(ins, T, field); ok && eng.IsZeroValue(st.Val) && eng.Dominates(st, call) {
						cleared = true
					}
				}
			}
			out = append(out, cbInvocation{call, cleared})
			continue
		}
		// helper(&x.field): the helper loads the function through its pointer parameter and calls it
		h := call.Call.StaticCallee()
		if !p.InRepo(h) || len(h.Blocks) == 0 {
			continue
		}
		for i, a := range call.Call.Args {
			fa, ok := a.(*ssa.FieldAddr)
			if !ok || i >= len(h.Params) {
				continue
			}
			if t, f, _, ok := eng.FieldOf(fa); !ok || t != T || f != field {
				continue
			}
			pa := h.Params[i]
			var dyn *ssa.Call
			for _, hc := range eng.Calls(h) {
				if d, ok := hc.(*ssa.Call); ok && !d.Call.IsInvoke() && d.Call.StaticCallee() == nil {
					if u, ok := d.Call.Value.(*ssa.UnOp); ok && u.Op == token.MUL && u.X == ssa.Value(pa) {
						dyn = d
					}
				}
			}
			if dyn == nil {
				continue
			}
			cleared := false
			for _, b := range h.Blocks {
				for _, ins := range b.Instrs {
					if st, ok := ins.(*ssa.Store); ok && st.Addr == ssa.Value(pa) && eng.IsZeroValue(st.Val) && eng.Dominates(st, dyn) {
						cleared = true
					}
				}
			}
			out = append(out, cbInvocation{call, cleared})
		}
	}
	return out
}

func ruleLastClose(c *Ctx, m *multiModel) {
	p := c.P
	done := doneFields(c, m)
	for _, r := range m.release {
		zero, _ := zeroTestEdges(r, m.T, m.countField)
		if len(zero) == 0 {
			c.Check("LASTCLOSE", m.T+":zero-test", p.Pos(r.Pos()), false, "the release closure has no count == 0 test")
			continue
		}
		closeSock := liftMust(c, methodCallOnField(p, "Close", m.sockT, m.sockField), nil)
		for _, e := range sortedEdges(zero) {
			ok, bad := eng.MustPass(edgePoint(e), closeSock)
			c.Check("LASTCLOSE", m.T+":socket-closed-at-zero", blockPos(p, e.To), ok, fmt.Sprintf("on the count == 0 edge the closure can return at %s without closing the shared socket", p.IPos(bad)))
			// reader signalled
			sig := false
			var dn []string
			for d := range done {
				dn = append(dn, d)
				i := strings.LastIndex(d, ".")
				if ok, _ := eng.MustPass(edgePoint(e), liftMust(c, closeOfField(p, d[:i], d[i+1:]), nil)); ok {
					sig = true
				}
			}
			// ... and forgotten: the next Acquire binds again only when it finds no socket. A released listener that keeps
			// pointing at its closed socket hands out handles with nothing behind them (reads block forever, Close panics).
			isReset := func(ins ssa.Instruction) bool {
				if st, ok := isStoreToField(ins, m.sockT, m.sockField); ok && eng.IsZeroValue(st.Val) {
					return true
				}
				if m.sockEmbed != "" {
					if st, ok := isStoreToField(ins, m.T, m.sockEmbed); ok {
						_, isLoadZero := st.Val.(*ssa.UnOp)
						return eng.IsZeroValue(st.Val) || isLoadZero
					}
				}
				return false
			}
			okReset, badR := eng.MustPass(edgePoint(e), liftMust(c, isReset, nil))
			c.Check("LASTCLOSE", m.T+":socket-forgotten-at-zero", blockPos(p, e.To), okReset, fmt.Sprintf("on the count == 0 edge the closure can return at %s with the socket field still set: re-acquisition after full release finds the closed socket and does not bind again", p.IPos(badR)))
			c.Check("LASTCLOSE", m.T+":reader-signalled-at-zero", blockPos(p, e.To), sig, fmt.Sprintf("on the count == 0 edge no done channel of the reader goroutine is closed on every path (done-channel fields closed somewhere: %v)", dn))
		}
		// callback at most once, only at zero
		if m.cbField != "" {
			inv := cbInvocations(c, r, m.T, m.cbField)
			for _, iv := range inv {
				c.CheckAt("LASTCLOSE", m.T+":callback-only-at-zero", iv.at, eng.Cut(r, iv.at.Block(), zero), "the manager callback can run while handles are still open")
				c.CheckAt("LASTCLOSE", m.T+":callback-at-most-once", iv.at, iv.cleared, "the callback field is not cleared before the callback is invoked: it can run more than once")
			}
			c.Floor("LASTCLOSE", "callback invocations in the release closure of "+m.T, len(inv), 1)
		}
	}
}

// chanFieldOf maps a channel value used inside pump to the field of T it denotes: a direct field load, or a pump
// parameter whose argument at the go site is a field load.
func chanFieldOf(c *Ctx, m *multiModel, pump *ssa.Function, v ssa.Value) string {
	found := ""
	isHolderLoad := func(x ssa.Value) bool {
		t, _, _, ok := eng.FieldLoad(x)
		return ok && m.holders[t]
	}
	for _, o := range c.P.Origins(v, eng.Plain) {
		if t, f, _, ok := eng.FieldLoad(o); ok && m.holders[t] {
			found = t + "." + f
			continue
		}
		if pa, ok := o.(*ssa.Parameter); ok && pa.Parent() == pump {
			for i, q := range pump.Params {
				if q != pa {
					continue
				}
				for _, g := range m.goSites {
					if i < len(g.Call.Args) {
						for _, oo := range c.P.Origins(g.Call.Args[i], eng.Plain) {
							if t, f, _, ok := eng.FieldLoad(oo); ok && m.holders[t] {
								found = t + "." + f
							}
						}
					}
				}
			}
		}
	}
	if found == "" {
		// the pump as a small struct with a run() method (and helpers of it): the channel is a field of that struct, filled
		// from the listener's field where the goroutine is started
		for _, o := range fsOrigins(c, v, isHolderLoad) {
			if t, f, _, ok := eng.FieldLoad(o); ok && m.holders[t] {
				found = t + "." + f
			}
			// a channel created in Acquire, kept in a local that the goroutine captures, and stored into the listener's field
			if mc, ok := o.(*ssa.MakeChan); ok {
				for T := range m.holders {
					for _, fl := range c.P.StructFields(T) {
						for _, st := range c.P.FieldStores(T, fl.Name()) {
							if st.Val != nil && c.P.AnyFrom(st.Val, eng.Plain, func(x ssa.Value) bool { return x == ssa.Value(mc) }) {
								found = T + "." + fl.Name()
							}
						}
					}
				}
			}
		}
	}
	return found
}

// selectArmEdge returns the CFG edge taken when select s picks state k.
func selectArmEdge(s *ssa.Select, k int) (eng.Edge, bool) {
	for _, r := range *s.Referrers() {
		ex, ok := r.(*ssa.Extract)
		if !ok || ex.Index != 0 {
			continue
		}
		for _, rr := range *ex.Referrers() {
			bo, ok := rr.(*ssa.BinOp)
			if !ok || bo.Op != token.EQL {
				continue
			}
			if n, ok := eng.ConstInt(bo.Y); ok && int(n) == k {
				for _, r3 := range *bo.Referrers() {
					if iff, ok := r3.(*ssa.If); ok {
						return eng.Edge{From: iff.Block(), To: iff.Block().Succs[0]}, true
					}
				}
			}
		}
	}
	return eng.Edge{}, false
}

var blockingSocketMethods = map[string]bool{"ReadFrom": true, "Read": true, "AcceptStream": true, "Accept": true, "AcceptTCP": true, "ReadFromUDP": true, "ReadMsgUDP": true}

func isBlockingSocketCall(ins ssa.Instruction) bool {
	c, ok := ins.(*ssa.Call)
	return ok && blockingSocketMethods[eng.MethodName(&c.Call)]
}

func ruleCancelPump(c *Ctx, m *multiModel, rule string) {
	p := c.P
	rulePumpBuffer(c, m, rule)
	done := doneFields(c, m)
	if !c.Floor(rule, "reader goroutines of "+m.T, len(m.pumps), 1) {
		return
	}
	for _, pump := range m.pumps {
		key := short(pump)
		nSel := 0
		// the pump's family: the goroutine function and the helpers of its package it calls (offer(resp) bool, serve(...) bool)
		family := []*ssa.Function{pump}
		for _, h := range regionFns(c, pump, nil, 2) {
			if h != pump {
				family = append(family, h)
			}
		}
		var acceptCalls []*ssa.Call
		for _, cl := range eng.Calls(pump) {
			if call, ok := cl.(*ssa.Call); ok && strings.HasPrefix(eng.MethodName(&call.Call), "Accept") {
				acceptCalls = append(acceptCalls, call)
			}
		}
		isAccepted := func(x ssa.Value, idx int) bool {
			cc, i, ok := eng.AsResult(x)
			if !ok || i != idx {
				return false
			}
			for _, a := range acceptCalls {
				if a == cc {
					return true
				}
			}
			return false
		}
		stopAtAccepted := func(x ssa.Value) bool { return isAccepted(x, 0) || isAccepted(x, 1) }
		for _, fn := range family {
			for _, b := range fn.Blocks {
				for _, ins := range b.Instrs {
					switch v := ins.(type) {
					case *ssa.Send:
						// bare send: only on a private buffered response channel
						ok, why := privateBufferedChan(c, v.Chan)
						c.CheckAt(rule, key+":bare-send", v, ok, "bare channel send in the reader goroutine: if the last handle closes while this send is pending the goroutine never exits and the pending connection/datagram is never released ("+why+")")
					case *ssa.UnOp:
						if v.Op == token.ARROW {
							c.CheckAt(rule, key+":bare-receive", v, false, "bare channel receive in the reader goroutine: not cancellable by the last release")
						}
					case *ssa.Select:
						if !v.Blocking {
							continue
						}
						nSel++
						cancelK := -1
						for k, st := range v.States {
							if st.Dir == types.RecvOnly && done[chanFieldOf(c, m, pump, st.Chan)] {
								cancelK = k
							}
						}
						c.CheckAt(rule, key+":select-has-cancel-arm", v, cancelK >= 0, "blocking select in the reader goroutine has no receive arm on a channel that the last release closes")
						// RENDEZVOUS: the channel on which the goroutine meets the handles is unbuffered. The goroutine offers/takes only
						// when it holds a connection/datagram, and a handle that is closed withdraws by leaving its own select; a
						// buffer slot is an offer or a request that nobody can withdraw (the handle then waits for the answer without
						// watching its close signal; the queued item goes to a closed handle or is dropped at the last release).
						for k, st := range v.States {
							if k == cancelK {
								continue
							}
							fld := chanFieldOf(c, m, pump, st.Chan)
							if fld == "" || done[fld] {
								continue
							}
							okU, why := fieldChansUnbuffered(c, fld)
							c.CheckAt(rule, key+":handoff-channel-unbuffered:"+fld, v, okU, "the channel on which the reader goroutine hands over to the handles ("+fld+") is not a rendezvous: "+why+"; a queued request/offer cannot be withdrawn when its handle closes, so Close no longer unblocks the pending read and the next datagram/connection goes to a closed handle or is lost")
						}
						if cancelK < 0 {
							continue
						}
						// pending connection closed on the cancel arm (only when the pump accepts connections)
						if len(acceptCalls) > 0 {
							e, ok := selectArmEdge(v, cancelK)
							if !ok {
								c.Undecided(rule, key+":cancel-arm-edge", p.IPos(v), "cannot locate the branch taken for the cancel arm")
								continue
							}
							isConnClose := func(ins ssa.Instruction) bool {
								call, ok := ins.(*ssa.Call)
								if !ok || eng.MethodName(&call.Call) != "Close" {
									return false
								}
								r := eng.Receiver(&call.Call)
								if r == nil {
									return false
								}
								if p.AnyFrom(r, eng.Plain, func(x ssa.Value) bool { return isAccepted(x, 0) }) {
									return true
								}
								for _, o := range fsOrigins(c, r, stopAtAccepted) {
									if isAccepted(o, 0) {
										return true
									}
								}
								return false
							}
							// every way out of the cancel arm on which the accept had succeeded passes the Close of that connection
							var acs []ssa.CallInstruction
							for _, a := range acceptCalls {
								acs = append(acs, a)
							}
							fail := eng.EdgeSet{}
							if fn == pump {
								_, fail = p.SuccessEdges(pump, acs, 1)
							} else {
								// in a helper the accept's error arrives as (a field of) a parameter
								_, fail = p.NilEdges(fn, func(x ssa.Value) bool {
									for _, o := range fsOrigins(c, x, stopAtAccepted) {
										if isAccepted(o, 1) {
											return true
										}
									}
									return false
								})
							}
							leak := ""
							seenB := map[*ssa.BasicBlock]bool{}
							var walkB func(b *ssa.BasicBlock, from int)
							walkB = func(b *ssa.BasicBlock, from int) {
								if from == 0 {
									if seenB[b] {
										return
									}
									seenB[b] = true
								}
								for i := from; i < len(b.Instrs); i++ {
									ins := b.Instrs[i]
									if isConnClose(ins) {
										return
									}
									if _, isSel := ins.(*ssa.Select); isSel && ins != ssa.Instruction(v) {
										return
									}
									if _, isRet := ins.(*ssa.Return); isRet && leak == "" {
										leak = p.IPos(ins)
									}
								}
								for _, sb := range b.Succs {
									if fail[eng.Edge{From: b, To: sb}] {
										continue
									}
									if sb == v.Block() {
										leak = "back to the accept loop at " + blockPos(p, sb)
										continue
									}
									walkB(sb, 0)
								}
							}
							walkB(e.To, 0)
							c.CheckAt(rule, key+":cancel-arm-closes-pending-conn", v, leak == "", "on the cancel arm an accepted connection that can no longer be delivered is left open (a path on which the accept succeeded leaves without closing it: "+leak+")")
						}
						// PROMPTREPLY: on every non-cancel receive arm, no blocking socket call before the reply is sent
						for k, st := range v.States {
							if k == cancelK || st.Dir != types.RecvOnly {
								continue
							}
							e, ok := selectArmEdge(v, k)
							if !ok {
								c.Undecided("PROMPTREPLY", key+":request-arm-edge", p.IPos(v), "cannot locate the branch taken for the request arm")
								continue
							}
							isSend := func(ins ssa.Instruction) bool { _, ok := ins.(*ssa.Send); return ok }
							ok2, bad := eng.MustPassBefore(edgePoint(e), isSend, isBlockingSocketCall)
							c.CheckAt("PROMPTREPLY", key+":reply-without-blocking", v, ok2, fmt.Sprintf("after taking a read request the reader goroutine makes a blocking socket call at %s before answering: the requesting handle waits for the answer without watching its close signal, so Close no longer unblocks it and a closed handle can receive the next datagram", p.IPos(bad)))
						}
					}
				}
			}
		}
		c.Floor(rule, "blocking selects in "+key, nSel, 1)
		// the reader goroutine stops only when the socket was closed (errors.Is(err, net.ErrClosed)) or on its cancel arm: a
		// transient accept/read error must not end it while handles are open — nothing would read the socket any more
		cancelIn := func(fn *ssa.Function) eng.EdgeSet {
			out := eng.EdgeSet{}
			for _, b := range fn.Blocks {
				for _, ins := range b.Instrs {
					if v, ok := ins.(*ssa.Select); ok && v.Blocking {
						for k, st := range v.States {
							if st.Dir == types.RecvOnly && done[chanFieldOf(c, m, pump, st.Chan)] {
								if e, ok := selectArmEdge(v, k); ok {
									out[e] = true
								}
							}
						}
					}
				}
			}
			return out
		}
		cancelEdges := cancelIn(pump)
		for _, b := range pump.Blocks {
			iff, ok := b.Instrs[len(b.Instrs)-1].(*ssa.If)
			if ok && isErrClosedTest(iff.Cond) {
				cancelEdges[eng.Edge{From: b, To: b.Succs[0]}] = true
			}
		}
		// a helper that answers false exactly on its cancel arm: the false edge of its call is a cancel edge of the pump
		for _, cl := range eng.Calls(pump) {
			call, ok := cl.(*ssa.Call)
			if !ok {
				continue
			}
			h := call.Call.StaticCallee()
			if h == nil || !p.InRepo(h) || len(h.Blocks) == 0 || h.Signature.Results().Len() != 1 || h.Signature.Results().At(0).Type().String() != "bool" {
				continue
			}
			ce := cancelIn(h)
			if len(ce) == 0 {
				continue
			}
			// ... or on the socket-closed test (the helper is the whole loop body: `for forwardNext(...) {}`)
			for _, hb := range h.Blocks {
				if iff, ok := hb.Instrs[len(hb.Instrs)-1].(*ssa.If); ok && isErrClosedTest(iff.Cond) {
					ce[eng.Edge{From: hb, To: hb.Succs[0]}] = true
				}
			}
			okH := true
			for _, r := range eng.Returns(h) {
				cst, isC := retVal(p, r).(*ssa.Const)
				if !isC || cst.Value == nil {
					okH = false
					continue
				}
				isFalse := cst.Value.ExactString() == "false"
				if isFalse && !eng.Cut(h, r.Block(), ce) {
					okH = false // answers false on a path that is not the cancel arm
				}
			}
			if !okH {
				continue
			}
			_, fe := eng.BoolEdges(pump, func(v ssa.Value) bool { return v == ssa.Value(call) })
			for e := range fe {
				cancelEdges[e] = true
			}
		}
		for i, r := range eng.Returns(pump) {
			if r.Block().Comment == "recover" {
				continue
			}
			c.CheckAt(rule, fmt.Sprintf("%s:return#%d:only-when-closed-or-cancelled", key, i), r, len(cancelEdges) > 0 && eng.Cut(pump, r.Block(), cancelEdges), "the reader goroutine can stop on a path that is neither the socket-closed test nor its cancel arm (e.g. on any accept/read error): the socket stays open with nobody reading it, and every handle blocks forever")
		}
	}
}

// fieldChansUnbuffered: every channel stored into field "T.f" is created by make with constant size 0.
func fieldChansUnbuffered(c *Ctx, fld string) (bool, string) {
	i := strings.LastIndex(fld, ".")
	T, f := fld[:i], fld[i+1:]
	n := 0
	for _, st := range c.P.FieldStores(T, f) {
		if st.Val == nil {
			continue
		}
		for _, o := range c.P.Origins(st.Val, eng.Plain) {
			if k, ok := o.(*ssa.Const); ok && k.Value == nil {
				continue // reset to nil
			}
			mc, ok := o.(*ssa.MakeChan)
			if !ok {
				continue
			}
			n++
			if sz, ok := eng.ConstInt(mc.Size); !ok || sz != 0 {
				return false, "created with a buffer at " + c.P.IPos(mc)
			}
		}
	}
	if n == 0 {
		return false, "no make(chan) found for it"
	}
	return true, ""
}

// privateBufferedChan: the channel is loaded from a struct field all of whose stored values are make(chan, N>=1).
func privateBufferedChan(c *Ctx, ch ssa.Value) (bool, string) {
	for _, o := range c.P.Origins(ch, eng.Plain) {
		t, f, _, ok := eng.FieldLoad(o)
		if !ok {
			return false, "channel is not a field of a request value"
		}
		stores := c.P.FieldStores(t, f)
		if len(stores) == 0 {
			return false, "no stores to " + t + "." + f
		}
		for _, st := range stores {
			if st.Val == nil {
				return false, "address of " + t + "." + f + " escapes"
			}
			for _, so := range c.P.Origins(st.Val, eng.Plain) {
				mc, ok := so.(*ssa.MakeChan)
				if !ok {
					return false, t + "." + f + " receives a channel that is not created by make at the store site"
				}
				if n, ok := eng.ConstInt(mc.Size); !ok || n < 1 {
					return false, t + "." + f + " receives an unbuffered channel at " + c.P.IPos(mc)
				}
			}
		}
		c.Exempt("CANCELPUMP", t+"."+f, "bare send accepted: every channel stored in this field is make(chan, N>=1) created per request (re-verified on this run)")
	}
	return true, ""
}

// C12.CLOSEDGUARD for the handle type of one shared listener.
func ruleClosedGuard(c *Ctx, m *multiModel) {
	p, l := c.P, c.L()
	H := m.handleT
	if H == "" {
		c.Undecided("CLOSEDGUARD", "anchor:"+m.T+":handle-type", p.Pos(m.acquire.Pos()), "Acquire allocates no handle struct with a close channel")
		return
	}
	// close channel field: chan struct{} field closed by a method of H
	var methods []*ssa.Function
	for _, f := range p.FnsIn("service") {
		if f.Signature.Recv() != nil && eng.TypeName(f.Signature.Recv().Type()) == H && f.Parent() == nil {
			methods = append(methods, f)
		}
	}
	closeField := ""
	var closers []*ssa.Function
	hLock := ""
	for _, fl := range p.StructFields(H) {
		if s := fl.Type().String(); s == "sync.Mutex" || s == "sync.RWMutex" {
			hLock = H + "." + fl.Name()
		}
		if _, ok := fl.Type().Underlying().(*types.Chan); !ok {
			continue
		}
		for _, f := range methods {
			if bodyHas(f, closeOfField(p, H, fl.Name())) {
				closeField = fl.Name()
				closers = append(closers, f)
			}
		}
	}
	if closeField == "" {
		c.Undecided("CLOSEDGUARD", "anchor:"+H+":close-channel", "-", "no method of the handle closes a channel field")
		return
	}
	nSel := 0
	// the blocking selects of the handle: in its methods, or in small helpers the methods call (submit(req) bool,
	// await(ch) (resp, ok)). g is the method, site the instruction in g (the select itself or the call of the helper).
	type selSite struct {
		g    *ssa.Function
		site ssa.Instruction
		s    *ssa.Select
	}
	var sites []selSite
	isMethod := map[*ssa.Function]bool{}
	for _, f := range methods {
		isMethod[f] = true
	}
	for _, g := range methods {
		for _, b := range g.Blocks {
			for _, ins := range b.Instrs {
				if s, ok := ins.(*ssa.Select); ok && s.Blocking {
					// a helper method's select is attributed to the methods that call it (below), unless nobody does
					called := false
					for _, cs := range p.CallSitesOf(g) {
						if isMethod[cs.Fn] {
							called = true
						}
					}
					if !called {
						sites = append(sites, selSite{g, s, s})
					}
				}
				call, ok := ins.(*ssa.Call)
				if !ok {
					continue
				}
				h := call.Call.StaticCallee()
				if h == nil || !p.InRepo(h) || len(h.Blocks) == 0 || h == g || eng.PkgPathOf(h) != eng.PkgPathOf(g) {
					continue
				}
				for _, hb := range h.Blocks {
					for _, hi := range hb.Instrs {
						if s, ok := hi.(*ssa.Select); ok && s.Blocking {
							sites = append(sites, selSite{g, call, s})
						}
					}
				}
			}
		}
	}
	hField := func(v ssa.Value) (string, bool) {
		// local view first (a construct-only field is transparent for interprocedural origins), then through helper
		// parameters and results
		for _, oo := range []eng.OriginOpts{eng.Plain, {ThroughConvert: true, Interproc: true, Stop: func(x ssa.Value) bool {
			t, _, _, ok := eng.FieldLoad(x)
			return ok && t == H
		}}} {
			for _, o := range p.Origins(v, oo) {
				if t, fl, _, ok := eng.FieldLoad(o); ok && t == H {
					return fl, true
				}
			}
		}
		return "", false
	}
	for _, ss := range sites {
		g, f, s := ss.g, ss.s.Parent(), ss.s
		{
			{
				sharedK, closeK := -1, -1
				var sharedFieldName string
				for k, st := range s.States {
					if fl, ok := hField(st.Chan); ok {
						if fl == closeField && st.Dir == types.RecvOnly {
							closeK = k
						} else if fl != closeField {
							sharedK, sharedFieldName = k, fl
						}
					}
				}
				if sharedK < 0 {
					continue
				}
				nSel++
				key := short(g)
				c.CheckAt("CLOSEDGUARD", key+":close-arm", s, closeK >= 0, "the handle blocks on the shared channel without also waiting on its close channel: Close does not unblock it")
				// idiom 1: shared channel niled by Close under the handle mutex, and loaded here under the same mutex
				idiom1 := false
				if hLock != "" {
					niled := false
					for _, cf := range closers {
						for _, bb := range cf.Blocks {
							for _, i2 := range bb.Instrs {
								if st, ok := isStoreToField(i2, H, sharedFieldName); ok && eng.IsZeroValue(st.Val) && l.Held(i2).Has(hLock) {
									niled = true
								}
							}
						}
					}
					loadedLocked := true
					for _, o := range p.Origins(s.States[sharedK].Chan, eng.OriginOpts{ThroughConvert: true, Interproc: true, Stop: func(x ssa.Value) bool {
						t, _, _, ok := eng.FieldLoad(x)
						return ok && t == H
					}}) {
						if u, ok := o.(*ssa.UnOp); ok {
							if !l.Held(u).Has(hLock) {
								loadedLocked = false
							}
						}
					}
					idiom1 = niled && loadedLocked
				}
				// idiom 2: dominating non-blocking poll of the close channel whose ready edge leaves without reaching the
				// select — written in the method, or as a call of a predicate helper (closedNow(ch) bool)
				idiom2 := false
				for _, bb := range g.Blocks {
					for _, i2 := range bb.Instrs {
						switch poll := i2.(type) {
						case *ssa.Select:
							if poll.Blocking || !eng.Dominates(poll, ss.site) {
								continue
							}
							for k, st := range poll.States {
								if st.Dir != types.RecvOnly {
									continue
								}
								if fl, ok := hField(st.Chan); !ok || fl != closeField {
									continue
								}
								if e, ok := selectArmEdge(poll, k); ok {
									if !eng.ReachBlocks(e.To, nil)[ss.site.Block()] {
										idiom2 = true
									}
								}
							}
						case *ssa.Call:
							ph := poll.Call.StaticCallee()
							if ph == nil || !p.InRepo(ph) || len(ph.Blocks) == 0 || !eng.Dominates(poll, ss.site) || poll == ss.site {
								continue
							}
							if ph.Signature.Results().Len() != 1 || ph.Signature.Results().At(0).Type().String() != "bool" {
								continue
							}
							// the helper polls (non-blocking) a channel that is, at this call, the handle's close channel, and
							// answers true exactly on the ready arm
							isPoll := false
							for _, pb := range ph.Blocks {
								for _, pi := range pb.Instrs {
									ps, ok := pi.(*ssa.Select)
									if !ok || ps.Blocking {
										continue
									}
									for k, st := range ps.States {
										if st.Dir != types.RecvOnly {
											continue
										}
										if fl, ok := hField(st.Chan); !ok || fl != closeField {
											continue
										}
										e, ok := selectArmEdge(ps, k)
										if !ok {
											continue
										}
										readyTrue, otherFalse := true, true
										reach := eng.ReachBlocks(e.To, nil)
										for _, r := range eng.Returns(ph) {
											cst, isC := retVal(p, r).(*ssa.Const)
											if !isC || cst.Value == nil {
												readyTrue, otherFalse = false, false
												continue
											}
											isT := cst.Value.ExactString() == "true"
											if reach[r.Block()] && !isT {
												readyTrue = false
											}
											if !reach[r.Block()] && isT {
												otherFalse = false
											}
										}
										if readyTrue && otherFalse {
											isPoll = true
										}
									}
								}
							}
							if !isPoll {
								continue
							}
							te, _ := eng.BoolEdges(g, func(v ssa.Value) bool { return v == ssa.Value(poll) })
							for e := range te {
								if !eng.ReachBlocks(e.To, nil)[ss.site.Block()] {
									idiom2 = true
								}
							}
						}
					}
				}
				// DELIVER: what the handle takes from the shared channel it hands to its caller — on every path, and it never closes
				// it itself. A connection that the old generation's handle has already received cannot reach the new generation any
				// more; dropping it there loses a client connection at every reload.
				if s.States[sharedK].Dir == types.RecvOnly {
					ti := 2
					for k := 0; k < sharedK; k++ {
						if s.States[k].Dir == types.RecvOnly {
							ti++
						}
					}
					var recvVal, okVal ssa.Value
					for _, r := range *s.Referrers() {
						if ex, isEx := r.(*ssa.Extract); isEx {
							if ex.Index == ti {
								recvVal = ex
							}
							if ex.Index == 1 {
								okVal = ex
							}
						}
					}
					if e, okE := selectArmEdge(s, sharedK); okE && recvVal != nil {
						// deliverFrom: from the given start points in fn, every return hands on a value derived from src and
						// nothing closes it
						deliverFrom := func(fn *ssa.Function, starts []eng.Point, src ssa.Value) (bool, string) {
							fromSrc := func(v ssa.Value) bool {
								if rv := p.ReachingStore(v, nil); rv != nil {
									v = rv
								}
								return p.AnyFrom(v, eng.OriginOpts{ThroughConvert: true, ThroughFieldLoad: true}, func(x ssa.Value) bool { return x == src })
							}
							for _, st := range starts {
								for _, ins := range eng.ReachableInstrs(st, func(ssa.Instruction) bool { return true }, nil) {
									switch x := ins.(type) {
									case *ssa.Return:
										rv := ssa.Value(nil)
										if len(x.Results) > 0 {
											rv = x.Results[0]
											if sv := p.ReachingStore(rv, x); sv != nil {
												rv = sv
											}
										}
										if rv == nil || !fromSrc(rv) {
											return false, "returns at " + p.IPos(x) + " without the received value"
										}
									case *ssa.Call:
										if eng.MethodName(&x.Call) == "Close" {
											if r := eng.Receiver(&x.Call); r != nil && fromSrc(r) {
												return false, "closes it at " + p.IPos(x)
											}
										}
									}
								}
							}
							return true, ""
						}
						okStarts := func(fn *ssa.Function, okv ssa.Value, dflt eng.Point) []eng.Point {
							if okv != nil {
								if te, _ := eng.BoolEdges(fn, func(v ssa.Value) bool { return v == okv }); len(te) > 0 {
									var out []eng.Point
									for _, x := range sortedEdges(te) {
										out = append(out, edgePoint(x))
									}
									return out
								}
							}
							return []eng.Point{dflt}
						}
						okDel, why := deliverFrom(f, okStarts(f, okVal, edgePoint(e)), recvVal)
						if okDel && f != g {
							// the helper handed it to the method: the method hands it on to its caller
							call := ss.site.(*ssa.Call)
							var res0, resOK ssa.Value = call, nil
							if call.Call.Signature().Results().Len() > 1 {
								res0 = nil
								for _, r := range *call.Referrers() {
									if ex, isEx := r.(*ssa.Extract); isEx {
										if ex.Index == 0 {
											res0 = ex
										}
										if ex.Type().String() == "bool" {
											resOK = ex
										}
									}
								}
							}
							if res0 == nil {
								okDel, why = false, "ignores what "+short(f)+" received"
							} else {
								okDel, why = deliverFrom(g, okStarts(g, resOK, eng.After(call)), res0)
							}
						}
						c.CheckAt("DELIVER", key+":received-connection-is-handed-to-the-caller", s, okDel, "after taking a connection from the shared channel the handle "+why+": a connection that was already handed to this (possibly just released) handle is lost — no other handle can receive it any more")
					}
				}
				// AWAIT: a request that the reader goroutine has taken is answered (PROMPTREPLY): from the moment the request was sent
				// the handle takes the answer unconditionally — a select that also watches the close channel would abandon a
				// datagram that has already been consumed from the socket and is on its way to this handle
				if s.States[sharedK].Dir == types.SendOnly {
					if e, okE := selectArmEdge(s, sharedK); okE {
						isBareRecv := func(ins ssa.Instruction) bool {
							u, ok := ins.(*ssa.UnOp)
							return ok && u.Op == token.ARROW
						}
						isSel := func(ins ssa.Instruction) bool {
							v, ok := ins.(*ssa.Select)
							return ok && ins != ssa.Instruction(s) && len(v.States) > 0
						}
						var okA bool
						var bad ssa.Instruction
						if f == g {
							okA, bad = eng.MustPassBefore(edgePoint(e), isBareRecv, isSel)
						} else {
							// in the helper: the send arm leads to "true" returns only, with no further select; in the method:
							// from the helper's true result the answer is awaited unconditionally
							okA = true
							if sel := eng.ReachableInstrs(edgePoint(e), isSel, nil); len(sel) > 0 {
								okA, bad = false, sel[0]
							}
							reach := eng.ReachBlocks(e.To, nil)
							for _, r := range eng.Returns(f) {
								cst, isC := retVal(p, r).(*ssa.Const)
								isT := isC && cst.Value != nil && cst.Value.ExactString() == "true"
								if reach[r.Block()] != isT {
									okA, bad = false, r
								}
							}
							if okA {
								call := ss.site.(*ssa.Call)
								te, _ := eng.BoolEdges(g, func(v ssa.Value) bool { return v == ssa.Value(call) })
								if len(te) == 0 {
									okA, bad = false, call
								}
								for _, x := range sortedEdges(te) {
									if ok2, b2 := eng.MustPassBefore(edgePoint(x), isBareRecv, isSel); !ok2 {
										okA, bad = false, b2
									}
								}
							}
						}
						c.CheckAt("DELIVER", key+":taken-request-is-awaited-unconditionally", s, okA, fmt.Sprintf("after its read request was taken the handle does not simply wait for the answer (%s): if it gives up, the datagram the reader has already taken from the socket for it is lost", p.IPos(bad)))
					}
				}
				c.CheckAt("CLOSEDGUARD", key+":closed-state-excluded", s, idiom1 || idiom2,
					"a closed handle can still win the shared-channel arm: when both arms are ready select picks at random, so reads/accepts after Close may succeed and steal deliveries from open handles (neither: shared channel niled under the handle mutex by Close, nor a dominating non-blocking poll of the close channel)")
			}
		}
	}
	c.Floor("CLOSEDGUARD", "blocking selects on the shared channel in methods of "+H, nSel, 1)
	// HANDLECLOSE: whenever Close does anything (changes the handle's state, runs the release callback) it also closes the
	// close channel: otherwise goroutines parked in the handle's select keep taking deliveries after the handle was released.
	closeQ := closeOfField(p, H, closeField)
	nEff := 0
	hInv := map[*ssa.Function][]cbInvocation{}
	for _, cf := range closers {
		for _, fl := range p.StructFields(H) {
			if _, isSig := fl.Type().Underlying().(*types.Signature); isSig {
				hInv[cf] = append(hInv[cf], cbInvocations(c, cf, H, fl.Name())...)
			}
		}
	}
	for _, cf := range closers {
		var closeIns []ssa.Instruction
		for _, b := range cf.Blocks {
			for _, ins := range b.Instrs {
				if closeQ(ins) {
					closeIns = append(closeIns, ins)
				}
			}
		}
		for _, b := range cf.Blocks {
			for _, ins := range b.Instrs {
				eff := ""
				if st, ok := ins.(*ssa.Store); ok {
					if t, fl, _, ok := eng.FieldOf(st.Addr); ok && t == H {
						eff = "store to " + fl
					}
				}
				for _, iv := range hInv[cf] {
					if iv.at == ins {
						eff = "release callback"
					}
				}
				if eff == "" {
					continue
				}
				nEff++
				ok := false
				for _, ci := range closeIns {
					if eng.Dominates(ci, ins) {
						ok = true
					}
				}
				if !ok {
					ok, _ = eng.MustPass(eng.After(ins), closeQ)
				}
				c.CheckAt("HANDLECLOSE", short(cf)+":"+eff+":closes-the-close-channel", ins, ok, "a path through Close releases the handle ("+eff+") without closing its close channel: goroutines blocked in the handle are not woken and keep competing for connections/datagrams of the shared socket after the release")
			}
		}
	}
	c.Floor("HANDLECLOSE", "state changes in Close of "+H, nEff, 1)
}

// ruleKeysFirst (C11): a key list is filled before it is handed to a service. The new generation starts taking connections
// of a retained address the moment its listener is served; a list that is filled afterwards is empty (or partial) for the
// connections it takes in between, so clients whose key is in both configurations are refused during the reload.
func ruleKeysFirst(c *Ctx, rule string) {
	p := c.P
	isUpdate := func(call *ssa.CallCommon) bool {
		if call.IsInvoke() {
			return call.Method.Name() == "Update" && eng.TypeName(call.Value.Type()) == "service.CipherList"
		}
		return false
	}
	derives := func(v ssa.Value, n ssa.Value) bool {
		return p.AnyFrom(v, eng.OriginOpts{ThroughConvert: true}, func(x ssa.Value) bool { return x == n })
	}
	// fills(h, i, d): h applies Update to its i-th argument (directly or one helper further down)
	var fills func(h *ssa.Function, i, d int) bool
	fills = func(h *ssa.Function, i, d int) bool {
		if h == nil || i >= len(h.Params) || d > 2 {
			return false
		}
		for _, cl := range eng.Calls(h) {
			cc := cl.Common()
			if isUpdate(cc) && derives(cc.Value, h.Params[i]) {
				return true
			}
			for j, a := range cc.Args {
				if derives(a, h.Params[i]) && fills(cc.StaticCallee(), j, d+1) {
					return true
				}
			}
		}
		return false
	}
	n := 0
	for _, g := range p.Fns {
		if !strings.HasPrefix(eng.PkgPathOf(g), eng.Mod+"/cmd/") || p.IsTestSupport(g) {
			continue
		}
		for _, cl := range eng.Calls(g) {
			nc, ok := cl.(*ssa.Call)
			if !ok || eng.CalleeName(&nc.Call) != "service.NewCipherList" {
				continue
			}
			// the uses of this list in g
			var fill ssa.Instruction
			var others []ssa.Instruction
			for _, u := range eng.Calls(g) {
				if u == cl {
					continue
				}
				cc := u.Common()
				if isUpdate(cc) && derives(cc.Value, nc) {
					fill = u
					continue
				}
				used := false
				for j, a := range cc.Args {
					if derives(a, nc) {
						if fills(cc.StaticCallee(), j, 0) {
							fill = u
						} else {
							used = true
						}
					}
				}
				if used && fill != u {
					others = append(others, u)
				}
			}
			if fill == nil {
				continue // a list that is never filled here (returned empty to a caller that fills it) is that caller's business
			}
			n++
			bad := ""
			for _, o := range others {
				if !eng.Dominates(fill, o) {
					bad = p.IPos(o)
				}
			}
			c.CheckAt(rule, short(g)+":key-list-filled-before-it-is-handed-on", nc, bad == "", fmt.Sprintf("the key list is handed on at %s before (or without) having been filled: the service it is given to can take connections with an empty or partial list", bad))
		}
	}
	c.Floor(rule, "key lists created and filled in the server command", n, 1)
}

// ruleManagerKeys (C10, C11, C12): a shared listener is looked up, registered and unregistered under one and the same key.
// The last release of a shared listener removes it from the manager's table; if that removal uses another key than the
// registration (the raw address vs a canonical spelling of it), the dead entry stays, and the next Listen for the address
// finds it, "acquires" a listener whose socket is closed and reports success without binding anything.
func ruleManagerKeys(c *Ctx, rule string) {
	p := c.P
	n := 0
	for _, m := range findMultiListeners(c, rule) {
		// the tables: map-typed fields (of structs with a mutex) whose values are this listener type / an interface it implements
		lt := p.LookupType(m.T)
		isTable := func(t types.Type) bool {
			mt, ok := t.Underlying().(*types.Map)
			if !ok {
				return false
			}
			if eng.TypeName(mt.Elem()) == m.T {
				return true
			}
			if it, ok := mt.Elem().Underlying().(*types.Interface); ok && lt != nil {
				return types.Implements(types.NewPointer(lt), it) || types.Implements(lt, it)
			}
			return false
		}
		type use struct {
			at  ssa.Instruction
			key ssa.Value
			fn  *ssa.Function
			op  string
		}
		byFn := map[*ssa.Function][]use{}
		for _, f := range p.FnsIn("service") {
			if p.IsTestSupport(f) {
				continue
			}
			root := eng.Root(f)
			for _, b := range f.Blocks {
				for _, ins := range b.Instrs {
					var mp, key ssa.Value
					op := ""
					switch x := ins.(type) {
					case *ssa.Lookup:
						mp, key, op = x.X, x.Index, "lookup"
					case *ssa.MapUpdate:
						mp, key, op = x.Map, x.Key, "register"
					case *ssa.Call:
						if bi, ok := x.Call.Value.(*ssa.Builtin); ok && bi.Name() == "delete" && len(x.Call.Args) == 2 {
							mp, key, op = x.Call.Args[0], x.Call.Args[1], "unregister"
						}
					}
					if mp == nil || !isTable(mp.Type()) {
						continue
					}
					// only tables that are fields of the manager (not the generic helper's parameter without a field behind it)
					byFn[root] = append(byFn[root], use{ins, key, f, op})
				}
			}
		}
		// keyExpr: a canonical description of how a key is computed from the root function's parameters
		var keyExpr func(v ssa.Value, d int) string
		keyExpr = func(v ssa.Value, d int) string {
			if d > 8 {
				return "?"
			}
			v = p.Resolve(v)
			switch x := v.(type) {
			case *ssa.Parameter:
				return fmt.Sprintf("param:%s#%s", short(x.Parent()), x.Name())
			case *ssa.FreeVar:
				if b := eng.FreeVarBinding(x); b != nil {
					return keyExpr(b, d+1)
				}
			case *ssa.UnOp:
				if x.Op == token.MUL {
					if cell := eng.CellRoot(x.X); cell != nil {
						sts := p.CellStores(cell)
						if len(sts) == 1 {
							return keyExpr(sts[0].Val, d+1)
						}
					}
				}
			case *ssa.Call:
				if h := x.Call.StaticCallee(); h != nil {
					s := "call:" + short(h) + "("
					for _, a := range x.Call.Args {
						s += keyExpr(a, d+1) + ","
					}
					return s + ")"
				}
			case *ssa.Const:
				return "const:" + x.String()
			}
			return fmt.Sprintf("value:%p", v)
		}
		for root, us := range byFn {
			ops := map[string]bool{}
			for _, u := range us {
				ops[u.op] = true
			}
			if !ops["register"] {
				continue
			}
			n++
			ref := ""
			okAll := true
			why := ""
			for _, u := range us {
				k := keyExpr(u.key, 0)
				if ref == "" {
					ref = k
				} else if k != ref {
					okAll = false
					why = fmt.Sprintf("%s at %s uses %s, another use %s", u.op, p.IPos(u.at), k, ref)
				}
			}
			c.Check(rule, short(root)+":one-key-for-lookup-registration-and-removal:"+m.T, p.Pos(root.Pos()), okAll, "the shared-listener table is accessed under differently computed keys in one Listen operation ("+why+"): an entry registered under one key is never removed under the other, and the dead entry is handed out at the next Listen")
		}
	}
	c.Floor(rule, "manager operations that register a shared listener", n, 2)
}
