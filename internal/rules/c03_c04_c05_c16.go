package rules

import (
	"fmt"
	"go/token"
	"go/types"
	"net"
	"sort"
	"strings"

	"golang.org/x/tools/go/ssa"

	"verif/internal/eng"
)

func init() {
	register(&PropDef{ID: "C03", Level: "other", Run: runC03,
		Explanation: "Per-datagram authentication and integrity structure on every path (both the new-association and the existing-association branch): (SENDGUARD) every send to a target, every outbound-socket creation and every association creation " +
			"is cut by a decryption success edge and by a destination-validation success edge; the payload and address sent are results 0 and 1 of that validation, applied to this datagram's plaintext; inside the validation the IP validator sees the resolved address that " +
			"is returned, and the payload is exactly the bytes after the parsed address; (KEYBIND) an existing association decrypts with the key bound to the entry found, that key never changes, Add binds the key that decrypted the first datagram and replies are packed with the " +
			"association's key; (NOALIAS/OWNBUF) trial decryption writes into a buffer distinct from the ciphertext and both are owned by the listener loop, reply buffers are owned by the association goroutine; (REPLYADDR) each reply carries " +
			"socks.ParseAddr(String()) of this iteration's source and is sent, as packed, to the association's own client address, and the buffer replies are read into reaches the very end of the packet buffer Pack encrypts in, so an oversize reply fails to pack instead of being relayed cut short; (SEARCH) the key search tries every key. (STAGES) the address header is parsed only from a datagram that decrypted; a reply is packed at most once on any path; every fixed-size sender address form (7 and 19 bytes) passes the reply path's length guard; (SNAPSHOT) the snapshot searched holds every key; (BUFSIZE) every constant-size datagram read buffer holds the largest UDP payload (65507 bytes).",
		NotDecided: "AEAD correctness, fresh-salt randomness (SDK Pack), byte equality of relayed payloads.",
	})
	register(&PropDef{ID: "C04", Level: "other", Run: runC04,
		Explanation: "Association identity structure: (NATKEY) the table is keyed by String() of the whole source address of the datagram (lookup) and of Add's own client address (insert/delete), the same value on each path; (OWNSOCK) the socket created for a new client " +
			"flows only into one natmap.Add, sockets and associations are created only on the Get == nil edge, Add starts exactly one reply goroutine bound to (its client address, its listener, the entry it stored) and the entry wraps the socket passed in; " +
			"(CREATE) association creation is cut by authentication and destination validation (SENDGUARD); (OWNBUF) reply buffers are per association; (REPLYADDR) replies go only to the association's client; (TEARDOWN/SOLEDELETER) an entry is removed only by its own goroutine under the key it was inserted with. (LOOKUP) the table lookup returns what the table holds under the key — nil only when nothing is stored there — so at most one live association exists per key; the reply length guard admits IPv4 and IPv6 sender addresses.",
		NotDecided: "kernel source-address selection, behaviour across expiry races at run time.",
	})
	register(&PropDef{ID: "C05", Level: "other", Run: runC05,
		Explanation: "Destination policy by who-may-dial, guard placement and table containment: (DIAL) the only stream dials in the service are DialStream calls on the handler's dialer field (directly or through the closure built around it), that field is set only by the constructor from " +
			"the package default and by SetTargetDialer, the default is the validating dialer built with RequirePublicIP, and in its Control hook every return is the validator applied to the IP parsed from the address actually being connected; no other net.Dial* exists; " +
			"(UDP) every datagram's destination is validated (SENDGUARD) on the resolved IP that is then used; (TABLE) the private CIDR literals parse, cover 10/8, 172.16/12, 192.168/16, 100.64/10 and fc00::/7 and each lies inside a special-purpose block (no public range rejected); " +
			"RequirePublicIP returns nil only on the IsGlobalUnicast(ip) and !IsPrivateAddress(ip) edges; IsPrivateAddress tests every table entry; (NOOVERRIDE) the server command never replaces the dialer or the validator and NewPacketHandler installs RequirePublicIP.",
		NotDecided: "stdlib classification semantics (IsGlobalUnicast, IPNet.Contains), DNS answers, kernel routing, NAT64/6to4 embeddings.",
		Trusted:    []string{"net.IP.IsGlobalUnicast and net.IPNet.Contains", "embedded IANA special-purpose address list (RFC 6890 + multicast)"},
	})
	register(&PropDef{ID: "C16", Level: "other", Run: runC16,
		Explanation: "Call discipline of UDP metrics on all paths: (ENTRY) Add reports the new association exactly once with the key id of the search that authenticated it, removal is reported exactly once (TEARDOWN); (CLIENT) per loop iteration the client packet is reported at most once, " +
			"exactly when an association exists (an association found or created is recorded in the tested variable on every path from that point), with this iteration's ReadFrom size and this iteration's target write size held in a per-iteration variable (zero when nothing was sent) and a status that is \"OK\" or the error's status; (TARGET) per reply iteration the target packet is reported " +
			"exactly once unless the loop expired, with this iteration's read size and the byte count returned by the write to the client, both per-iteration variables; (ARITY) every WithLabelValues in the metrics adapters passes as many values as the vector has variable labels; (WIRING) the four sizes map to the c>p, p>t, p<t, c<p direction labels. (STAGES) decrypt, then parse/validate, then send, so the first failing stage names the status; (BUFSIZE) datagram read buffers hold the largest UDP payload, so sizes reported are wire sizes.",
		NotDecided: "numeric equality of per-key sums with the bytes on the sockets.",
	})
}

func runC03(c *Ctx) {
	a := findUDP(c, "ANCHOR")
	if a == nil {
		return
	}
	ruleSendGuard(c, a, "SENDGUARD")
	ruleClientAddrFresh(c, a, "REPLYADDR")
	ruleKeyBind(c, a)
	ruleBuffers(c, a, "NOALIAS")
	ruleReplyAddr(c, a)
	ruleSearch(c, "SEARCH", 2)
	ruleSearchReturnsTried(c, "SEARCH")
	ruleKeyNotCachedBySecret(c, "BIND")
	ruleSnapshot(c) // "some key of the list, whatever the list order": the snapshot searched holds every key
	ruleUpdate(c)   // "a configured key": marking a key used never puts a removed key back into the list
	ruleBufSize(c, a, "BUFSIZE")
	// a datagram is handled by the generation whose handle is open: a shared reader that accepts a read request before it has
	// a datagram hands the next datagram to a handle that may have been closed meanwhile (its keys were removed)
	for _, m := range findMultiListeners(c, "HANDOFF") {
		ruleCancelPump(c, m, "HANDOFF")
	}
	// "a configured key": the list a port's handler searches is built from the keys configured for that port
	if ra := findReload(c, "BIND"); ra != nil {
		ruleBind(c, ra)
	}
}

func runC04(c *Ctx) {
	a := findUDP(c, "ANCHOR")
	if a == nil {
		return
	}
	ruleNatKey(c, a)
	ruleClientAddrFresh(c, a, "NATKEY")
	ruleOwnSock(c, a)
	ruleSendGuard(c, a, "CREATE")
	ruleBuffers(c, a, "OWNBUF")
	ruleReplyAddr(c, a)
	ruleLookup(c, "LOOKUP")
	ruleTeardown(c, "TEARDOWN")
	ruleSoleDeleter(c)
	// "an allowed destination": what the default validator allows is decided by the private-network table
	ruleTable(c)
	// "one ... socket per client address": teardown ends an association now — a deadline helper that refuses to move the
	// deadline earlier keeps the old socket relaying while the client's next datagram creates a second one
	ruleMonotone(c)
}

func runC05(c *Ctx) {
	ruleDial(c)
	if a := findUDP(c, "UDP"); a != nil {
		ruleSendGuard(c, a, "UDP")
	}
	ruleTable(c)
	ruleNoOverride(c)
}

// ---- C05.DIAL ----

func ruleDial(c *Ctx) {
	p := c.P
	shT := streamHandlerT(c)
	dialField := ""
	for _, fl := range p.StructFields(shT) {
		if eng.TypeName(fl.Type()) == "sdk/transport.StreamDialer" {
			dialField = fl.Name()
		}
	}
	if dialField == "" {
		c.Undecided("DIAL", "anchor:dialer-field", "-", "the stream handler has no StreamDialer field")
		return
	}
	// every DialStream call in the service package
	n := 0
	var okRecv func(v ssa.Value, depth int) bool
	var okSource func(arg ssa.Value, depth int) bool
	// okSource: a value handed on as "the dialer": the handler's dialer field itself, or a closure / service type converted to a
	// dialer whose own dials are all on that field
	okSource = func(arg ssa.Value, depth int) bool {
		okArg, _ := p.AllFrom(arg, deepF, func(y ssa.Value) bool {
			if eng.IsFieldLoad(y, shT, dialField) {
				return true
			}
			var lit *ssa.Function
			if mc, ok := y.(*ssa.MakeClosure); ok {
				lit = mc.Fn.(*ssa.Function)
			} else if al, ok := y.(*ssa.Alloc); ok {
				// a value of a service type that implements the dialer interface itself
				if pt, ok := al.Type().(*types.Pointer); ok {
					lit = fnByMethod(c, "service", eng.TypeName(pt.Elem()), "DialStream")
				}
			}
			if lit == nil {
				return false
			}
			good := false
			for _, cl := range eng.Calls(lit) {
				if call, ok := cl.(*ssa.Call); ok && eng.MethodName(&call.Call) == "DialStream" {
					good = okRecv(eng.Receiver(&call.Call), depth+1)
					if !good {
						return false
					}
				}
			}
			return good
		})
		return okArg
	}
	okRecv = func(v ssa.Value, depth int) bool {
		if depth > 4 {
			return false
		}
		g, _ := p.AllFrom(v, eng.OriginOpts{ThroughConvert: true}, func(x ssa.Value) bool {
			if eng.IsFieldLoad(x, shT, dialField) {
				return true
			}
			if pa, ok := x.(*ssa.Parameter); ok {
				fn := pa.Parent()
				idx := -1
				for i, q := range fn.Params {
					if q == pa {
						idx = i
					}
				}
				sites := p.CallSitesOf(fn)
				if len(sites) == 0 {
					return false
				}
				for _, s := range sites {
					arg := s.Ins.(ssa.CallInstruction).Common().Args[idx]
					if !okSource(arg, depth) {
						return false
					}
				}
				return true
			}
			// a field of a small request/parameter struct of the package: every value stored into that field qualifies
			if t, fl, _, isFL := eng.FieldLoad(x); isFL && strings.HasPrefix(t, "service.") && t != shT {
				stores := p.FieldStores(t, fl)
				if len(stores) == 0 {
					return false
				}
				for _, st := range stores {
					if st.Val == nil || !okSource(st.Val, depth) {
						return false
					}
				}
				return true
			}
			return false
		})
		return g
	}
	for _, f := range p.FnsIn("service") {
		if p.IsTestSupport(f) {
			continue
		}
		for _, cl := range eng.Calls(f) {
			call, ok := cl.(*ssa.Call)
			if !ok {
				continue
			}
			nm := eng.CalleeName(&call.Call)
			if eng.MethodName(&call.Call) == "DialStream" {
				n++
				c.CheckAt("DIAL", short(f)+":dials-through-the-handler's-dialer", call, okRecv(eng.Receiver(&call.Call), 0), "a target connection is dialed through something other than the handler's validated dialer field")
				// the address dialed is the address requested by the client for this connection (not re-derived)
			}
			if strings.HasPrefix(nm, "net.Dial") || strings.HasPrefix(nm, "(*net.Dialer).Dial") {
				c.CheckAt("DIAL", short(f)+":"+nm, call, false, "direct net dial in the service bypasses the validating dialer")
			}
		}
	}
	c.Floor("DIAL", "DialStream call sites in the service", n, 2)
	// stores to the dialer field
	for _, st := range p.FieldStores(shT, dialField) {
		switch {
		case st.Fresh:
			okDef := st.Val != nil
			if okDef {
				okDef, _ = p.AllFrom(st.Val, eng.Plain, func(v ssa.Value) bool {
					u, ok := v.(*ssa.UnOp)
					if !ok {
						return false
					}
					g, ok := u.X.(*ssa.Global)
					return ok && g.Pkg != nil && g.Pkg.Pkg.Path() == eng.Mod+"/service"
				})
			}
			c.CheckAt("DIAL", "constructor-installs-default-dialer:"+short(st.Fn), st.Ins, okDef, "the stream handler is constructed with a dialer other than the package's validating default")
		case st.Fn.Name() == "SetTargetDialer":
			c.CheckAt("DIAL", "setter:"+short(st.Fn), st.Ins, true, "explicit override API||")
		default:
			c.CheckAt("DIAL", "dialer-store:"+short(st.Fn), st.Ins, false, "the handler's dialer is replaced outside its constructor and SetTargetDialer")
		}
	}
	// the default dialer, by role: the global loaded by the constructor is initialised (in a package initializer) with a dialer
	// whose net.Dialer.Control hook is a closure that returns, on every return, the verdict of RequirePublicIP on the IP parsed
	// from the address being connected
	var defaults []*ssa.Global
	for _, st := range p.FieldStores(shT, dialField) {
		if !st.Fresh || st.Val == nil {
			continue
		}
		for _, o := range p.Origins(st.Val, eng.Plain) {
			if u, ok := o.(*ssa.UnOp); ok {
				if g, ok := u.X.(*ssa.Global); ok {
					defaults = append(defaults, g)
				}
			}
		}
	}
	if !c.Floor("DIAL", "package-level default dialers installed by the constructor", len(defaults), 1) {
		return
	}
	isRequirePublic := func(v ssa.Value) bool {
		fn, ok := v.(*ssa.Function)
		return ok && eng.Short(fn.String()) == "net.RequirePublicIP"
	}
	for _, g := range defaults {
		// the initial value
		var initVal ssa.Value
		for f := range p.All {
			if !strings.HasPrefix(f.Name(), "init") || eng.PkgPathOf(f) != eng.Mod+"/service" {
				continue
			}
			for _, b := range f.Blocks {
				for _, ins := range b.Instrs {
					if st, ok := ins.(*ssa.Store); ok && st.Addr == ssa.Value(g) {
						initVal = st.Val
					}
				}
			}
		}
		if initVal == nil {
			c.Check("DIAL", "default-dialer:"+g.Name()+":initialised", "-", false, "the default dialer global is not initialised in the package initializer")
			continue
		}
		// other writers of the global
		for _, f := range p.Fns {
			if strings.HasPrefix(f.Name(), "init") && f.Parent() == nil {
				continue
			}
			for _, b := range f.Blocks {
				for _, ins := range b.Instrs {
					if st, ok := ins.(*ssa.Store); ok && st.Addr == ssa.Value(g) {
						c.CheckAt("DIAL", "default-dialer:"+g.Name()+":not-reassigned", st, false, "the package default dialer is reassigned at run time")
					}
				}
			}
		}
		// Control hooks reachable from the initial value: stores into net.Dialer.Control on objects the value derives from
		var hooks []*ssa.Function
		for _, f := range p.FnsIn("service") {
			for _, b := range f.Blocks {
				for _, ins := range b.Instrs {
					st, ok := ins.(*ssa.Store)
					if !ok {
						continue
					}
					fa, ok := st.Addr.(*ssa.FieldAddr)
					if !ok {
						continue
					}
					if t, fl, _, ok := eng.FieldOf(fa); !ok || t != "net.Dialer" || fl != "Control" {
						continue
					}
					// the dialer object being filled flows to the initial value of the global
					obj := baseRoot(fa.X)
					for x := fa.X; ; {
						if inner, ok := x.(*ssa.FieldAddr); ok {
							x = inner.X
							obj = x
							continue
						}
						break
					}
					if !p.AnyFrom(initVal, deepF, func(v ssa.Value) bool { return v == obj }) {
						continue
					}
					for _, o := range p.Origins(st.Val, deepF) {
						if mc, ok := o.(*ssa.MakeClosure); ok {
							hooks = append(hooks, mc.Fn.(*ssa.Function))
						}
						if fn, ok := o.(*ssa.Function); ok {
							hooks = append(hooks, fn)
						}
					}
				}
			}
		}
		c.Check("DIAL", "default-dialer:"+g.Name()+":has-control-hook", "-", len(hooks) >= 1, "the default dialer has no net.Dialer.Control hook: resolved addresses are not validated right before connecting")
		for _, ctl := range hooks {
			// a bound method value (hook.control): judge the method, whose receiver is the bound value
			var recvBinding ssa.Value
			if strings.Contains(ctl.Synthetic, "bound") && len(ctl.Blocks) == 1 {
				for _, cl := range eng.Calls(ctl) {
					if m := cl.Common().StaticCallee(); m != nil && p.InRepo(m) && len(m.Blocks) > 0 {
						if len(ctl.FreeVars) == 1 {
							recvBinding = eng.FreeVarBinding(ctl.FreeVars[0])
						}
						ctl = m
					}
				}
			}
			// the address parameter: the second string parameter (network, address string, c syscall.RawConn)
			var addrP *ssa.Parameter
			ns := 0
			for _, pa := range ctl.Params {
				if bt, ok := pa.Type().Underlying().(*types.Basic); ok && bt.Kind() == types.String {
					ns++
					if ns == 2 {
						addrP = pa
					}
				}
			}
			// isRP: the validator value is RequirePublicIP — also when it is kept in a field of the hook's receiver
			isRP := func(v ssa.Value) bool {
				if g, _ := p.AllFrom(v, deepF, isRequirePublic); g {
					return true
				}
				g, _ := p.AllFrom(v, eng.OriginOpts{ThroughConvert: true, Interproc: true, ThroughFieldLoad: true}, func(x ssa.Value) bool {
					if isRequirePublic(x) {
						return true
					}
					// the receiver parameter of the method stands for the bound value
					if pa, isP := x.(*ssa.Parameter); isP && recvBinding != nil && len(ctl.Params) > 0 && pa == ctl.Params[0] {
						g2, _ := p.AllFrom(recvBinding, eng.OriginOpts{ThroughConvert: true, Interproc: true, ThroughFieldLoad: true}, isRequirePublic)
						return g2
					}
					return false
				})
				return g
			}
			// isDialedIP: v is ParseIP(host of SplitHostPort(the address parameter)), possibly computed by a helper
			var isDialedIP func(v ssa.Value, addr ssa.Value, d int) bool
			isDialedIP = func(v ssa.Value, addr ssa.Value, d int) bool {
				if d > 4 {
					return false
				}
				pi, ok := p.Resolve(v).(*ssa.Call)
				if !ok {
					return false
				}
				if eng.CalleeName(&pi.Call) == "net.ParseIP" {
					hp, idx, ok := eng.AsResult(p.Resolve(pi.Call.Args[0]))
					if !ok || idx != 0 || eng.CalleeName(&hp.Call) != "net.SplitHostPort" {
						return false
					}
					return p.Resolve(hp.Call.Args[0]) == addr
				}
				if h := pi.Call.StaticCallee(); h != nil && p.InRepo(h) && len(h.Blocks) > 0 && h.Signature.Results().Len() == 1 {
					// a helper: one of its parameters receives the address, and every return is the dialed IP of that parameter
					for i, a := range pi.Call.Args {
						if p.Resolve(a) != addr || i >= len(h.Params) {
							continue
						}
						n := 0
						okAll := true
						for _, r := range eng.Returns(h) {
							n++
							if !isDialedIP(r.Results[0], h.Params[i], d+1) {
								okAll = false
							}
						}
						if okAll && n > 0 {
							return true
						}
					}
				}
				return false
			}
			// isVerdict: v is validator(dialed IP of addr) with a validator accepted by okVal — directly, or through a helper
			// validate(address, validator) all of whose returns are that verdict on its own parameters
			var isVerdict func(v ssa.Value, addr ssa.Value, okVal func(ssa.Value) bool, d int) bool
			isVerdict = func(v ssa.Value, addr ssa.Value, okVal func(ssa.Value) bool, d int) bool {
				call, ok := v.(*ssa.Call)
				if !ok || d > 3 {
					return false
				}
				if isIPValidatorCall(call) {
					return okVal(call.Call.Value) && addr != nil && isDialedIP(call.Call.Args[0], addr, 0)
				}
				h := call.Call.StaticCallee()
				if h == nil || !p.InRepo(h) || len(h.Blocks) == 0 || h.Signature.Results().Len() != 1 || len(call.Call.Args) != len(h.Params) {
					return false
				}
				ai := -1
				for i, a := range call.Call.Args {
					if addr != nil && p.Resolve(a) == addr {
						ai = i
					}
				}
				if ai < 0 {
					return false
				}
				inner := func(x ssa.Value) bool {
					pa, isP := p.Resolve(x).(*ssa.Parameter)
					if !isP {
						return false
					}
					for j, q := range h.Params {
						if q == pa {
							return okVal(call.Call.Args[j])
						}
					}
					return false
				}
				n := 0
				for _, r := range eng.Returns(h) {
					n++
					g, _ := p.AllFrom(r.Results[0], eng.Plain, func(x ssa.Value) bool { return isVerdict(x, h.Params[ai], inner, d+1) })
					if !g {
						return false
					}
				}
				return n > 0
			}
			for i, r := range eng.Returns(ctl) {
				var addrV ssa.Value
				if addrP != nil {
					addrV = addrP
				}
				good, bad := p.AllFrom(r.Results[0], eng.Plain, func(v ssa.Value) bool {
					return isVerdict(v, addrV, isRP, 0)
				})
				c.CheckAt("DIAL", fmt.Sprintf("%s:return#%d-is-RequirePublicIP(ParseIP(host of address))", short(ctl), i), r, good, "the Control hook of the default dialer can return something other than RequirePublicIP's verdict on the IP of the address being connected (e.g. nil, another validator, or a verdict on a different string): "+valsStr(p, bad))
			}
		}
	}
}

// ---- C05.TABLE ----

var specialPurpose = []string{
	"0.0.0.0/8", "10.0.0.0/8", "100.64.0.0/10", "127.0.0.0/8", "169.254.0.0/16", "172.16.0.0/12", "192.0.0.0/24", "192.0.2.0/24", "192.88.99.0/24",
	"192.168.0.0/16", "198.18.0.0/15", "198.51.100.0/24", "203.0.113.0/24", "224.0.0.0/4", "240.0.0.0/4",
	"::/128", "::1/128", "64:ff9b::/96", "::ffff:0:0/96", "100::/64", "2001::/23", "2001:db8::/32", "2002::/16", "fc00::/7", "fe80::/10", "ff00::/8",
}

var requiredPrivate = []string{"10.0.0.0/8", "172.16.0.0/12", "192.168.0.0/16", "100.64.0.0/10", "fc00::/7"}

func contains(outer, inner *net.IPNet) bool {
	oo, ob := outer.Mask.Size()
	io, ib := inner.Mask.Size()
	return ob == ib && oo <= io && outer.Contains(inner.IP)
}

func ruleTable(c *Ctx) {
	p := c.P
	// CIDR string constants of the repo's net package (initializers, variable initialisers and their helpers): every string
	// constant that has the shape of a CIDR is an entry of the private-network table
	var lits []string
	var pos []string
	hasParse := false
	for f := range p.All {
		if eng.PkgPathOf(f) != eng.Mod+"/net" {
			continue
		}
		for _, b := range f.Blocks {
			for _, ins := range b.Instrs {
				if cl, ok := ins.(ssa.CallInstruction); ok && eng.CalleeName(cl.Common()) == "net.ParseCIDR" {
					hasParse = true
				}
				for _, op := range ins.Operands(nil) {
					if s, ok := eng.ConstString(*op); ok && strings.Contains(s, "/") && strings.ContainsAny(s, ".:") && !strings.Contains(s, " ") {
						dup := false
						for _, l := range lits {
							if l == s {
								dup = true
							}
						}
						if !dup {
							lits = append(lits, s)
							pos = append(pos, p.IPos(ins))
						}
					}
				}
			}
		}
	}
	// the membership function may delegate to the standard library: (net.IP).IsPrivate covers exactly RFC 1918 and RFC 4193
	// (documented, stable since Go 1.17) — and not the shared address space 100.64.0.0/10
	if ipf := p.Fn("net.IsPrivateAddress"); ipf != nil && len(lits) == 0 {
		deleg, n := true, 0
		for _, r := range eng.Returns(ipf) {
			n++
			call, ok := p.Resolve(r.Results[0]).(*ssa.Call)
			if !ok || eng.CalleeName(&call.Call) != "(net.IP).IsPrivate" || !eng.IsParam(p.Resolve(call.Call.Args[0]), ipf, 0) {
				deleg = false
			}
		}
		if deleg && n > 0 {
			var nets []*net.IPNet
			for _, sp := range []string{"10.0.0.0/8", "172.16.0.0/12", "192.168.0.0/16", "fc00::/7"} {
				_, nn, _ := net.ParseCIDR(sp)
				nets = append(nets, nn)
			}
			for _, rq := range requiredPrivate {
				_, rn, _ := net.ParseCIDR(rq)
				covered := false
				for _, nn := range nets {
					if contains(nn, rn) {
						covered = true
					}
				}
				c.Check("TABLE", "required:"+rq+":covered", p.Pos(ipf.Pos()), covered, "the private-address test (delegated to net.IP.IsPrivate) does not cover "+rq+": addresses of that range can be dialed")
			}
			return
		}
	}
	if !hasParse {
		c.Undecided("TABLE", "anchor:ParseCIDR", "-", "the repo's net package no longer parses CIDR literals")
	}
	if !c.Floor("TABLE", "CIDR literals in the private-network table", len(lits), 5) {
		return
	}
	var nets []*net.IPNet
	for i, s := range lits {
		_, n, err := net.ParseCIDR(s)
		c.Check("TABLE", "literal:"+s+":parses", pos[i], err == nil && n != nil && n.String() == s, "the CIDR literal does not parse, or is not in canonical network form (host bits set): net.ParseCIDR's error is ignored at init, so a nil entry would make every lookup panic or silently drop the range")
		if err != nil {
			continue
		}
		nets = append(nets, n)
		inside := false
		for _, sp := range specialPurpose {
			_, spn, _ := net.ParseCIDR(sp)
			if contains(spn, n) {
				inside = true
			}
		}
		c.Check("TABLE", "literal:"+s+":inside-a-special-purpose-block", pos[i], inside, "the literal is not contained in any special-purpose block: ordinary public addresses would be rejected")
	}
	for _, rq := range requiredPrivate {
		_, rn, _ := net.ParseCIDR(rq)
		covered := false
		for _, n := range nets {
			if contains(n, rn) {
				covered = true
			}
		}
		c.Check("TABLE", "required:"+rq+":covered", "-", covered, "the private-network table does not cover "+rq+" entirely: some addresses of that range can be dialed")
	}
	var names []string
	names = append(names, lits...)
	sort.Strings(names)
	c.Note("private_cidrs", names)

	// RequirePublicIP
	rp := p.Fn("net.RequirePublicIP")
	if rp == nil {
		c.Undecided("TABLE", "anchor:RequirePublicIP", "-", "net.RequirePublicIP not found")
		return
	}
	isOnParam := func(call *ssa.Call, argIdx int) bool {
		g, _ := p.AllFrom(call.Call.Args[argIdx], eng.Plain, func(v ssa.Value) bool { return eng.IsParam(v, rp, 0) })
		return g
	}
	var guc, priv *ssa.Call
	for _, cl := range eng.Calls(rp) {
		if call, ok := cl.(*ssa.Call); ok {
			switch eng.CalleeName(&call.Call) {
			case "(net.IP).IsGlobalUnicast":
				if isOnParam(call, 0) {
					guc = call
				}
			case "net.IsPrivateAddress":
				if isOnParam(call, 0) {
					priv = call
				}
			}
		}
	}
	for i, r := range eng.Returns(rp) {
		if !eng.IsZeroValue(r.Results[0]) {
			continue
		}
		k := fmt.Sprintf("%s:accept#%d", short(rp), i)
		if guc == nil {
			c.CheckAt("TABLE", k+":requires-global-unicast", r, false, "RequirePublicIP accepts without ip.IsGlobalUnicast() on its parameter: nil, malformed, unspecified, loopback, multicast, link-local or broadcast addresses are not all rejected")
		} else {
			tE, _ := eng.BoolEdges(rp, func(v ssa.Value) bool { return v == ssa.Value(guc) })
			c.CheckAt("TABLE", k+":requires-global-unicast", r, len(tE) > 0 && eng.Cut(rp, r.Block(), tE), "an address is accepted on a path where IsGlobalUnicast did not return true")
		}
		if priv == nil {
			c.CheckAt("TABLE", k+":requires-not-private", r, false, "RequirePublicIP accepts without consulting the private-network table")
		} else {
			_, fE := eng.BoolEdges(rp, func(v ssa.Value) bool { return v == ssa.Value(priv) })
			c.CheckAt("TABLE", k+":requires-not-private", r, len(fE) > 0 && eng.Cut(rp, r.Block(), fE), "an address is accepted on a path where IsPrivateAddress did not return false")
		}
	}
	// IsPrivateAddress: true is returned on the Contains == true edge; the loop tests every entry
	ip := p.Fn("net.IsPrivateAddress")
	if ip == nil {
		c.Undecided("TABLE", "anchor:IsPrivateAddress", "-", "net.IsPrivateAddress not found")
		return
	}
	findCont := func(f *ssa.Function) *ssa.Call {
		var cont *ssa.Call
		for _, cl := range eng.Calls(f) {
			if call, ok := cl.(*ssa.Call); ok && eng.CalleeName(&call.Call) == "(*net.IPNet).Contains" {
				cont = call
			}
		}
		return cont
	}
	// the membership loop may live in a helper the function forwards to (a set type's contains method): follow calls of the
	// package that are handed the address parameter and whose answer is returned unchanged
	wrapper := ip
	ipIdx := 0
	for d := 0; d < 3 && findCont(ip) == nil; d++ {
		var next *ssa.Function
		nextIdx := -1
		okFwd := true
		for _, r := range eng.Returns(ip) {
			call, isCall := retVal(p, r).(*ssa.Call)
			if !isCall {
				okFwd = false
				break
			}
			h := call.Call.StaticCallee()
			if h == nil || !p.InRepo(h) || len(h.Blocks) == 0 || (next != nil && next != h) {
				okFwd = false
				break
			}
			idx := -1
			for i, a := range call.Call.Args {
				if g, _ := p.AllFrom(a, eng.Plain, func(v ssa.Value) bool { return eng.IsParam(v, ip, ipIdx) }); g {
					idx = i
				}
			}
			if idx < 0 || (nextIdx >= 0 && nextIdx != idx) {
				okFwd = false
				break
			}
			next, nextIdx = h, idx
		}
		if !okFwd || next == nil {
			break
		}
		ip, ipIdx = next, nextIdx
	}
	cont := findCont(ip)
	if cont == nil {
		c.Check("TABLE", short(wrapper)+":tests-membership", p.Pos(wrapper.Pos()), false, "IsPrivateAddress does not test IPNet.Contains")
		return
	}
	okArg, _ := p.AllFrom(cont.Call.Args[1], eng.Plain, func(v ssa.Value) bool { return eng.IsParam(v, ip, ipIdx) })
	c.CheckAt("TABLE", short(ip)+":tests-the-parameter", cont, okArg, "membership is tested for something other than the parameter")
	tE, fE := eng.BoolEdges(ip, func(v ssa.Value) bool { return v == ssa.Value(cont) })
	for i, r := range eng.Returns(ip) {
		rv := retVal(p, r)
		if ph, isPhi := rv.(*ssa.Phi); isPhi {
			// a verdict variable (`found = true; break` ... `return found`): judged edge by edge
			okPhi := true
			for k, ev := range ph.Edges {
				pc, isC := ev.(*ssa.Const)
				if !isC || pc.Value == nil {
					okPhi = false
					continue
				}
				pred := ph.Block().Preds[k]
				e := eng.Edge{From: pred, To: ph.Block()}
				if pc.Value.ExactString() == "true" {
					if !(tE[e] || eng.Cut(ip, pred, tE)) {
						okPhi = false
					}
				} else {
					// false arrives only from a loop header (the table is exhausted) or from before the loop
					fromHeader := false
					for _, l := range eng.Loops(ip) {
						if l.Header == pred {
							fromHeader = true
						}
					}
					behindMatch := false
					for te := range tE {
						if te.To == pred || eng.ReachBlocks(te.To, nil)[pred] {
							behindMatch = true
						}
					}
					if !fromHeader || behindMatch {
						okPhi = false
					}
				}
			}
			c.CheckAt("TABLE", fmt.Sprintf("%s:return#%d:verdict-variable", short(ip), i), r, okPhi, "the verdict variable is true without a table match, or false before every table entry was tested")
			continue
		}
		cst, ok := rv.(*ssa.Const)
		if !ok {
			c.CheckAt("TABLE", fmt.Sprintf("%s:return#%d", short(ip), i), r, false, "non-constant verdict")
			continue
		}
		isTrue := cst.Value != nil && cst.Value.ExactString() == "true"
		if isTrue {
			c.CheckAt("TABLE", fmt.Sprintf("%s:return#%d:true-only-on-match", short(ip), i), r, eng.Cut(ip, r.Block(), tE), "reports private without a table match")
		} else {
			// false only after the loop is exhausted: not reachable from a true edge, and the loop's only non-return exit is the header
			reach := false
			for e := range tE {
				if eng.ReachBlocks(e.To, nil)[r.Block()] {
					reach = true
				}
			}
			early := false
			for _, l := range eng.Loops(ip) {
				for _, e := range l.Exits {
					if e.From != l.Header && !tE[e] {
						if _, isRet := e.To.Instrs[len(e.To.Instrs)-1].(*ssa.Return); isRet && fE[e] {
							early = true
						}
						if !tE[e] && e.To == r.Block() {
							early = true
						}
					}
				}
			}
			c.CheckAt("TABLE", fmt.Sprintf("%s:return#%d:false-only-after-all-entries", short(ip), i), r, !reach && !early, "reports not-private before every table entry was tested")
		}
	}
	// the table ranged over is the one the literals were appended to: a package-level variable of IPNet values filled at init
	tableGlobals := map[*ssa.Global]bool{}
	for f := range p.All {
		if eng.PkgPathOf(f) != eng.Mod+"/net" {
			continue
		}
		for _, b := range f.Blocks {
			for _, ins := range b.Instrs {
				if st, ok := ins.(*ssa.Store); ok {
					if g, ok := st.Addr.(*ssa.Global); ok && (strings.Contains(g.Type().String(), "net.IPNet") || isIPNetTable(g.Type())) {
						tableGlobals[g] = true
					}
				}
			}
		}
	}
	okTab := false
	for _, tf := range []*ssa.Function{ip, wrapper} {
		for _, b := range tf.Blocks {
			for _, ins := range b.Instrs {
				if u, ok := ins.(*ssa.UnOp); ok && u.Op == token.MUL {
					if g, ok := u.X.(*ssa.Global); ok && tableGlobals[g] {
						okTab = true
					}
				}
			}
		}
	}
	c.Check("TABLE", short(ip)+":uses-the-table", p.Pos(ip.Pos()), okTab, "the membership function does not read the table the CIDR literals are stored in")
}

// isIPNetTable: t (or what it points to) is, underneath, a slice or array of *net.IPNet / net.IPNet.
func isIPNetTable(t types.Type) bool {
	if pt, ok := t.Underlying().(*types.Pointer); ok {
		t = pt.Elem()
	}
	var el types.Type
	switch u := t.Underlying().(type) {
	case *types.Slice:
		el = u.Elem()
	case *types.Array:
		el = u.Elem()
	default:
		return false
	}
	if pt, ok := el.Underlying().(*types.Pointer); ok {
		el = pt.Elem()
	}
	return eng.TypeName(el) == "net.IPNet" || strings.HasSuffix(el.String(), "net.IPNet")
}

// ---- C05.NOOVERRIDE ----

func ruleNoOverride(c *Ctx) {
	p := c.P
	n := 0
	for _, f := range p.Fns {
		if !strings.HasPrefix(eng.PkgPathOf(f), eng.Mod+"/cmd/") {
			continue
		}
		for _, cl := range eng.Calls(f) {
			n++
			m := eng.MethodName(cl.Common())
			if m == "SetTargetDialer" || m == "SetTargetIPValidator" {
				c.CheckAt("NOOVERRIDE", short(f)+":"+m, cl, false, "the server command replaces the destination policy")
			}
		}
	}
	c.Floor("NOOVERRIDE", "calls examined in the server command", n, 50)
	c.Check("NOOVERRIDE", "server-command-keeps-default-policy", "-", true, "no SetTargetDialer/SetTargetIPValidator call under cmd/||")
	// services themselves do not override either
	for _, f := range p.FnsIn("service") {
		if p.IsTestSupport(f) {
			continue
		}
		for _, cl := range eng.Calls(f) {
			m := eng.MethodName(cl.Common())
			if m == "SetTargetDialer" || m == "SetTargetIPValidator" {
				c.CheckAt("NOOVERRIDE", short(f)+":"+m, cl, false, "the service replaces the destination policy of its own handlers")
			}
		}
	}
	// packet handler validator field: constructor stores RequirePublicIP; only other store is the setter
	for _, fl := range p.StructFields(packetHandlerT(c)) {
		if !strings.Contains(fl.Type().String(), "func(net.IP) error") {
			continue
		}
		for _, st := range p.FieldStores(packetHandlerT(c), fl.Name()) {
			switch {
			case st.Fresh:
				okV := false
				if st.Val != nil {
					okV, _ = p.AllFrom(st.Val, eng.Plain, func(v ssa.Value) bool {
						fn, ok := v.(*ssa.Function)
						return ok && eng.Short(fn.String()) == "net.RequirePublicIP"
					})
				}
				c.CheckAt("NOOVERRIDE", "packet-handler-default-validator:"+short(st.Fn), st.Ins, okV, "the packet handler is constructed with a validator other than RequirePublicIP")
			case st.Fn.Name() == "SetTargetIPValidator":
			default:
				c.CheckAt("NOOVERRIDE", "validator-store:"+short(st.Fn), st.Ins, false, "the packet handler's validator is replaced outside its constructor and setter")
			}
		}
	}
}
