package rules

import (
	"fmt"
	"go/token"
	"go/types"
	"strings"

	"golang.org/x/tools/go/ssa"

	"verif/internal/eng"
)

func init() {
	register(&PropDef{ID: "C17", Level: "other", Run: runC17,
		Explanation: "Structural conditions of exact tunnel-time accounting, for all interleavings of opens, closes and scrapes: (CLOCK) every clock value that can flow into a client's start time or into " +
			"the subtraction against it is read while the collector mutex is held, so a scrape ordered after a start can never see an earlier time (a negative duration panics Counter.Add with the mutex held); " +
			"(PAIR) tunnels are started only from the authentication report and the UDP entry constructor and stopped only from the close report (cut by accessKey != \"\") and the entry removal, " +
			"and start and stop derive their (IP, key) through the same function from the same two fields; (RESET) the report function adds one and the same duration value to both counters and then " +
			"stores the same clock value as the new start time, and on the last close the report precedes the deletion, both on the connCount <= 0 edge; the open count is incremented exactly once per start.",
		NotDecided: "the arithmetic identity over histories and scrapes; balance of start/stop calls per connection (C15.ONCE / C16.ENTRY give the call discipline).",
	})
}

// ttModel: the tunnel-time collector found by shape — a struct with a mutex and a map whose values point to records holding a
// time.Time (start of the unreported period) and an integer (open tunnels). Members are identified by role, never by name.
type ttModel struct {
	T, mapField, guard       string
	acT, timeField, cntField string
	keyT                     string
	starts, stops            []*ssa.Function // entry methods (called from outside the collector) that insert / delete records
	regOf                    map[*ssa.Function]*Region
	report                   *ssa.Function // computes now - start
	sub                      *ssa.Call
	subInner                 *ssa.Call // the (time.Time).Sub itself when sub is a call of a small duration helper
	subNow                   ssa.Value // the clock value the start time is subtracted from, as seen in the report function
}

// resultOfCall: v is result idx (or any result, idx < 0) of call, directly or dereferenced (a returned pointer).
func resultOfCall(v ssa.Value, call *ssa.Call, idx int) bool {
	if u, ok := v.(*ssa.UnOp); ok && u.Op == token.MUL {
		v = u.X
	}
	cc, i, ok := eng.AsResult(v)
	return ok && cc == call && (idx < 0 || i == idx)
}

func inProm(h *ssa.Function) bool { return eng.PkgPathOf(h) != eng.Mod+"/prometheus" }

func findTT(c *Ctx, rule string) *ttModel {
	p := c.P
	pkg := p.AllPkgs[eng.Mod+"/prometheus"]
	if pkg == nil || pkg.Types == nil {
		c.Undecided(rule, "anchor:prometheus-package", "-", "package prometheus not loaded")
		return nil
	}
	var m *ttModel
	sc := pkg.Types.Scope()
	for _, name := range sc.Names() {
		tn, ok := sc.Lookup(name).(*types.TypeName)
		if !ok {
			continue
		}
		st, ok := tn.Type().Underlying().(*types.Struct)
		if !ok {
			continue
		}
		cand := &ttModel{T: "prometheus." + name, regOf: map[*ssa.Function]*Region{}}
		for i := 0; i < st.NumFields(); i++ {
			f := st.Field(i)
			if isSyncType(f.Type()) && strings.Contains(f.Type().String(), "Mutex") {
				cand.guard = cand.T + "." + f.Name()
			}
			mt, ok := f.Type().Underlying().(*types.Map)
			if !ok {
				continue
			}
			pt, ok := mt.Elem().(*types.Pointer)
			if !ok {
				continue
			}
			rs, ok := pt.Elem().Underlying().(*types.Struct)
			if !ok {
				continue
			}
			tf, cf := "", ""
			for j := 0; j < rs.NumFields(); j++ {
				g := rs.Field(j)
				if g.Type().String() == "time.Time" {
					tf = g.Name()
				}
				if b, ok := g.Type().Underlying().(*types.Basic); ok && b.Info()&types.IsInteger != 0 {
					cf = g.Name()
				}
			}
			if tf != "" && cf != "" {
				cand.mapField, cand.acT, cand.timeField, cand.cntField = f.Name(), eng.TypeName(pt), tf, cf
				cand.keyT = eng.TypeName(mt.Key())
			}
		}
		if cand.guard != "" && cand.mapField != "" {
			m = cand
		}
	}
	if m == nil {
		c.Undecided(rule, "anchor:tunnel-time-collector", "-", "no struct in package prometheus with a mutex and a map of records holding a start time and an open count")
		return nil
	}
	isMapOp := func(ins ssa.Instruction, del bool) bool {
		var mv ssa.Value
		switch x := ins.(type) {
		case *ssa.MapUpdate:
			if del {
				return false
			}
			mv = x.Map
		case *ssa.Call:
			if _, ok := isBuiltinCall(x, "delete"); !ok || !del {
				return false
			}
			mv = x.Call.Args[0]
		default:
			return false
		}
		return p.AnyFrom(mv, eng.Plain, func(v ssa.Value) bool { return eng.IsFieldLoad(v, m.T, m.mapField) })
	}
	for _, f := range p.FnsIn("prometheus") {
		if f.Parent() != nil || f.Signature.Recv() == nil || eng.TypeName(f.Signature.Recv().Type()) != m.T || f.Synthetic != "" {
			continue
		}
		external := false
		for _, s := range p.CallSitesOf(f) {
			r := eng.Root(s.Fn)
			if p.IsTestSupport(s.Fn) {
				continue
			}
			if r.Signature.Recv() == nil || eng.TypeName(r.Signature.Recv().Type()) != m.T {
				external = true
			}
		}
		if !external {
			continue
		}
		reg := c.NewRegion(f, 3, inProm)
		m.regOf[f] = reg
		ins, del := false, false
		reg.Instrs(func(_ *ssa.Function, i ssa.Instruction) {
			if isMapOp(i, false) {
				ins = true
			}
			if isMapOp(i, true) {
				del = true
			}
		})
		if ins {
			m.starts = append(m.starts, f)
		}
		if del {
			m.stops = append(m.stops, f)
		}
	}
	for _, f := range p.FnsIn("prometheus") {
		for _, cl := range eng.Calls(f) {
			call, ok := cl.(*ssa.Call)
			if !ok || eng.CalleeName(&call.Call) != "(time.Time).Sub" {
				continue
			}
			for _, a := range call.Call.Args {
				if p.AnyFrom(a, eng.Plain, func(v ssa.Value) bool { return eng.IsFieldLoad(v, m.acT, m.timeField) }) {
					m.report, m.sub = f, call
					m.subInner, m.subNow = call, call.Call.Args[0]
				}
			}
		}
	}
	// the subtraction may sit in a small helper of the record (unreportedTime(now) = now.Sub(a.startTime)): the report function
	// is then its caller and the helper call stands for the subtraction
	if m.report != nil && m.report.Signature.Results().Len() == 1 && m.report.Signature.Results().At(0).Type().String() == "time.Duration" {
		h := m.report
		fwd := true
		for _, r := range eng.Returns(h) {
			if p.Resolve(retVal(p, r)) != ssa.Value(m.sub) {
				fwd = false
			}
		}
		k := -1
		for i, pa := range h.Params {
			if p.Resolve(m.sub.Call.Args[0]) == ssa.Value(pa) {
				k = i
			}
		}
		var sites []eng.Site
		for _, st := range p.CallSitesOf(h) {
			if !p.IsTestSupport(st.Fn) {
				sites = append(sites, st)
			}
		}
		if fwd && k >= 0 && len(sites) == 1 {
			if sc, ok := sites[0].Ins.(*ssa.Call); ok && k < len(sc.Call.Args) {
				m.report, m.sub, m.subNow = sites[0].Fn, sc, sc.Call.Args[k]
			}
		}
	}
	if len(m.starts) == 0 || len(m.stops) == 0 {
		c.Undecided(rule, "anchor:start/stop-entry-points", "-", "the collector has no externally called method that inserts a record / none that deletes one")
		return nil
	}
	return m
}

func isClockCall(c *Ctx, call *ssa.Call) bool {
	if n := eng.CalleeName(&call.Call); n == "time.Now" {
		return true
	}
	if call.Call.IsInvoke() || call.Call.StaticCallee() != nil {
		return false
	}
	sig := call.Call.Signature()
	if sig.Params().Len() != 0 || sig.Results().Len() != 1 || sig.Results().At(0).Type().String() != "time.Time" {
		return false
	}
	// dynamic call of a func() time.Time value loaded from a package-level variable
	return c.P.AnyFrom(call.Call.Value, eng.Plain, func(v ssa.Value) bool { _, ok := v.(*ssa.Global); return ok }) ||
		func() bool {
			if u, ok := call.Call.Value.(*ssa.UnOp); ok && u.Op == token.MUL {
				_, isG := u.X.(*ssa.Global)
				return isG
			}
			return false
		}()
}

// timeSinks: forward def-use of a time.Time value to (a) stores into the record's start-time field, (b) operands of Time.Sub,
// following repo calls through parameters.
func timeSinks(c *Ctx, m *ttModel, v ssa.Value, seen map[ssa.Value]bool, out *[]string) {
	if seen[v] {
		return
	}
	seen[v] = true
	refs := v.Referrers()
	if refs == nil {
		return
	}
	for _, r := range *refs {
		switch u := r.(type) {
		case *ssa.Store:
			if u.Val != v {
				continue
			}
			if fa, ok := u.Addr.(*ssa.FieldAddr); ok {
				if t, f, _, ok := eng.FieldOf(fa); ok && t == m.acT && f == m.timeField {
					*out = append(*out, "store to "+m.acT+"."+m.timeField+" at "+c.P.IPos(u))
				}
				continue
			}
			if cell := eng.CellRoot(u.Addr); cell != nil {
				for _, f := range eng.Family(cell.Parent()) {
					for _, b := range f.Blocks {
						for _, ins := range b.Instrs {
							if l, ok := ins.(*ssa.UnOp); ok && l.Op == token.MUL && eng.CellRoot(l.X) == cell {
								timeSinks(c, m, l, seen, out)
							}
						}
					}
				}
			}
		case *ssa.Phi:
			timeSinks(c, m, u, seen, out)
		case *ssa.MakeInterface, *ssa.ChangeType:
			timeSinks(c, m, u.(ssa.Value), seen, out)
		case *ssa.Return:
			// returned to the callers
			for _, s := range c.P.CallSitesOf(u.Parent()) {
				if cv, ok := s.Ins.(ssa.Value); ok && len(u.Results) == 1 {
					timeSinks(c, m, cv, seen, out)
				}
			}
		case ssa.CallInstruction:
			n := eng.CalleeName(u.Common())
			if n == "(time.Time).Sub" {
				*out = append(*out, "operand of Time.Sub at "+c.P.IPos(u))
				continue
			}
			for _, callee := range repoCallees(c, u) {
				for i, a := range u.Common().Args {
					if a == v && i < len(callee.Params) {
						timeSinks(c, m, callee.Params[i], seen, out)
					}
				}
			}
		}
	}
}

// ruleClock: every clock read that flows into a start time or a duration is made under the collector mutex.
func ruleClock(c *Ctx, m *ttModel, rule string) {
	p, l := c.P, c.L()
	guard := m.guard
	// CLOCK
	n := 0
	for _, f := range p.FnsIn("prometheus") {
		for _, cl := range eng.Calls(f) {
			call, ok := cl.(*ssa.Call)
			if !ok || !isClockCall(c, call) {
				continue
			}
			var sinks []string
			timeSinks(c, m, call, map[ssa.Value]bool{}, &sinks)
			if len(sinks) == 0 {
				continue
			}
			n++
			held := l.Held(call)
			c.CheckAt(rule, short(f), call, held.Has(guard), fmt.Sprintf("clock read outside %s (held: %s) flows into the tunnel-time computation (%s): a start registered between this read and the lock gets a later start time, "+
				"the duration is negative and Counter.Add panics with the mutex held", guard, held, strings.Join(sinks, "; ")))
		}
	}
	c.Floor(rule, "clock reads that flow into start times or durations", n, 3)

}

func runC17(c *Ctx) {
	p, l := c.P, c.L()
	m := findTT(c, "ANCHOR")
	if m == nil {
		return
	}
	guard := m.guard
	c.Note("model", map[string]string{"collector": m.T, "records": m.acT, "start_time_field": m.timeField, "open_count_field": m.cntField, "start_entries": names(m.starts), "stop_entries": names(m.stops)})
	ruleClock(c, m, "CLOCK")
	ruleServiceOptions(c, "STOPCALL", "service.WithMetrics", "its authenticated connections and associations never start or stop a tunnel, so their tunnel time is not counted")
	ruleKeyAddr(c, m, "PAIR")
	// every UDP tunnel that was started is stopped: the association's removal is reported exactly once, whoever ends it
	ruleTeardown(c, "STOPCALL")
	ruleSoleDeleter(c)
	// scrapes and traffic exclude each other (a scrape under a read lock runs concurrently with another scrape: both add
	// the same period)
	ruleGuardedTypes(c, "RACEFREE", []string{m.T, m.acT}, 1, 3)

	rulePair(c, m)
	ruleReset(c, m)
	// registration, deregistration and scrape are each one critical section (lookup-then-insert across an unlock loses a tunnel)
	only := map[string]bool{}
	for _, f := range p.FnsIn("prometheus") {
		for _, cl := range eng.Calls(f) {
			if op := l.AsLockOp(cl.Common()); op != nil && op.Class == guard && (op.Kind == "Lock" || op.Kind == "RLock") {
				only[short(f)] = true
			}
		}
	}
	c.Floor("ATOMIC", "functions that lock the collector", len(only), 3)
	ruleAtomic(c, "ATOMIC", only)
	// every authenticated TCP connection starts its tunnel (and only those): the authentication report is made on every
	// path from the authentication-success edge, only there, at most once
	if a := findTCP(c, "STARTCALL"); a != nil {
		ruleOnce(c, a, "STARTCALL")
	}
}

func fnByMethod(c *Ctx, pkg, recvT, name string) *ssa.Function {
	for _, f := range c.P.FnsIn(pkg) {
		if f.Name() == name && f.Parent() == nil && f.Signature.Recv() != nil && eng.TypeName(f.Signature.Recv().Type()) == recvT {
			return f
		}
	}
	return nil
}

// hasMethodOnNamed: the named struct type (pointer receiver included) has a method with this name.
func typeHasMethod(c *Ctx, typeName, method string) bool {
	for _, f := range c.P.Fns {
		if f.Name() == method && f.Parent() == nil && f.Signature.Recv() != nil && eng.TypeName(f.Signature.Recv().Type()) == typeName {
			return true
		}
	}
	return false
}

// C17.PAIR
func rulePair(c *Ctx, m *ttModel) {
	p := c.P
	isEntry := func(list []*ssa.Function, f *ssa.Function) bool {
		for _, e := range list {
			if e == f {
				return true
			}
		}
		return false
	}
	// the connection-metrics type a call site belongs to: the receiver of the calling method, or the type the calling
	// constructor allocates (the one with a RemoveNatEntry method)
	ownerT := func(f *ssa.Function) string {
		if f.Signature.Recv() != nil {
			return eng.TypeName(f.Signature.Recv().Type())
		}
		for _, b := range f.Blocks {
			for _, ins := range b.Instrs {
				if al, ok := ins.(*ssa.Alloc); ok {
					if pt, ok := al.Type().(*types.Pointer); ok {
						tn := eng.TypeName(pt.Elem())
						if typeHasMethod(c, tn, "RemoveNatEntry") {
							return tn
						}
					}
				}
			}
		}
		return ""
	}
	allowedStart := func(f *ssa.Function) bool {
		return (f.Name() == "AddAuthenticated" && f.Signature.Recv() != nil) || (f.Signature.Recv() == nil && ownerT(f) != "")
	}
	allowedStop := func(f *ssa.Function) bool {
		return f.Signature.Recv() != nil && (f.Name() == "AddClosed" || f.Name() == "RemoveNatEntry")
	}
	// apiOf: the report functions through which f is reached: f itself when it is one, otherwise the callers of f that belong to
	// the same connection-metrics type (private helpers such as "stop the tunnel of this connection"), two levels up at most
	var apiOf func(f *ssa.Function, allowed func(*ssa.Function) bool, d int) ([]*ssa.Function, bool)
	apiOf = func(f *ssa.Function, allowed func(*ssa.Function) bool, d int) ([]*ssa.Function, bool) {
		if allowed(f) {
			return []*ssa.Function{f}, true
		}
		if d >= 2 || ownerT(f) == "" {
			return nil, false
		}
		var out []*ssa.Function
		sites := p.CallSitesOf(f)
		if len(sites) == 0 {
			return nil, false
		}
		for _, cs := range sites {
			if p.IsTestSupport(cs.Fn) {
				continue
			}
			if ownerT(cs.Fn) != ownerT(f) {
				return nil, false
			}
			up, ok := apiOf(cs.Fn, allowed, d+1)
			if !ok {
				return nil, false
			}
			out = append(out, up...)
		}
		return out, len(out) > 0
	}
	type site struct {
		eng.Site
		start bool
		entry *ssa.Function
	}
	var sites []site
	for _, e := range m.starts {
		for _, s := range p.CallSitesOf(e) {
			r := eng.Root(s.Fn)
			if p.IsTestSupport(s.Fn) || (r.Signature.Recv() != nil && eng.TypeName(r.Signature.Recv().Type()) == m.T) {
				continue
			}
			sites = append(sites, site{s, true, e})
			_, okAPI := apiOf(s.Fn, allowedStart, 0)
			c.CheckAt("PAIR", "start-caller:"+short(s.Fn), s.Ins, okAPI && !isEntry(m.stops, e), "a tunnel is started from a function that is neither the authentication report nor the UDP entry constructor (unauthenticated connections would accrue tunnel time, or starts lose their matching stop)")
		}
	}
	for _, e := range m.stops {
		for _, s := range p.CallSitesOf(e) {
			r := eng.Root(s.Fn)
			if p.IsTestSupport(s.Fn) || (r.Signature.Recv() != nil && eng.TypeName(r.Signature.Recv().Type()) == m.T) {
				continue
			}
			sites = append(sites, site{s, false, e})
			_, okAPI := apiOf(s.Fn, allowedStop, 0)
			c.CheckAt("PAIR", "stop-caller:"+short(s.Fn), s.Ins, okAPI, "a tunnel is stopped from a function that is neither the close report nor the entry removal")
		}
	}
	c.Floor("PAIR", "start/stop call sites", len(sites), 4)
	// key agreement: every site's key comes from one key function applied to (client address, access key) held in the same two
	// fields of the connection metrics object at start and at stop
	isKeyFn := func(call *ssa.Call) bool {
		f := call.Call.StaticCallee()
		if f == nil || eng.PkgPathOf(f) != eng.Mod+"/prometheus" {
			return false
		}
		rs := f.Signature.Results()
		return rs.Len() >= 1 && eng.TypeName(rs.At(0).Type()) == m.keyT
	}
	keyFns := map[string]bool{}
	type fields struct{ addr, key string }
	startF, stopF := map[string]fields{}, map[string]fields{}
	for _, s := range sites {
		key := short(s.Fn)
		R := ownerT(s.Fn)
		// key function calls on this site's path: in the calling function (feeding the call) or inside the entry's region
		var kcs []*ssa.Call
		for _, cl := range eng.Calls(s.Fn) {
			if call, ok := cl.(*ssa.Call); ok && isKeyFn(call) {
				feeds := false
				for _, a := range s.Ins.(ssa.CallInstruction).Common().Args {
					if p.AnyFrom(a, eng.OriginOpts{ThroughConvert: true, ThroughFieldLoad: true}, func(v ssa.Value) bool { return resultOfCall(v, call, -1) }) {
						feeds = true
					}
				}
				if feeds {
					kcs = append(kcs, call)
				}
			}
		}
		if len(kcs) == 0 {
			kcs = m.regOf[s.entry].FindCalls(func(_ string, call *ssa.Call) bool { return isKeyFn(call) })
		}
		if len(kcs) != 1 {
			c.CheckAt("PAIR", "key-derivation:"+key, s.Ins, false, fmt.Sprintf("the (IP, key) used to start/stop is not the result of exactly one key function call on this path (%d found)", len(kcs)))
			continue
		}
		// a key function that merely wraps another one (computes the key of "this connection"): follow to the innermost call,
		// checking at every level that the key is used only when its producer succeeded
		chain := []*ssa.Call{kcs[0]}
		for d := 0; d < 3; d++ {
			g := chain[len(chain)-1].Call.StaticCallee()
			var inner *ssa.Call
			if g != nil {
				for _, cl := range eng.Calls(g) {
					if call, ok := cl.(*ssa.Call); ok && isKeyFn(call) {
						for _, r := range eng.Returns(g) {
							if len(r.Results) > 0 && p.AnyFrom(r.Results[0], eng.OriginOpts{ThroughConvert: true, ThroughFieldLoad: true}, func(v ssa.Value) bool { return resultOfCall(v, call, 0) }) {
								inner = call
							}
						}
					}
				}
			}
			if inner == nil {
				break
			}
			chain = append(chain, inner)
		}
		kc := chain[len(chain)-1]
		if len(chain) > 1 {
			// the wrapper is a method of the connection-metrics object: its receiver is that object
			if g := kc.Parent(); g.Signature.Recv() != nil {
				R = eng.TypeName(g.Signature.Recv().Type())
			}
		}
		keyFns[eng.CalleeName(&kc.Call)] = true
		okG, nUse := true, 0
		for _, link := range chain {
			var succ eng.EdgeSet
			if ei := errorResultIndex(link.Call.Signature()); ei >= 0 {
				succ, _ = p.SuccessEdges(link.Parent(), []ssa.CallInstruction{link}, ei)
			} else {
				// (key, ok bool)
				for _, r := range *link.Referrers() {
					if ex, ok := r.(*ssa.Extract); ok && ex.Type().String() == "bool" {
						succ, _ = eng.BoolEdges(link.Parent(), func(v ssa.Value) bool { return v == ssa.Value(ex) })
					}
				}
			}
			if len(succ) == 0 {
				okG = false
				continue
			}
			isUse := func(v ssa.Value) bool {
				return p.AnyFrom(v, eng.OriginOpts{ThroughConvert: true, ThroughFieldLoad: true}, func(x ssa.Value) bool { return resultOfCall(x, link, 0) })
			}
			for _, b := range link.Parent().Blocks {
				for _, ins := range b.Instrs {
					uses := false
					switch u := ins.(type) {
					case ssa.CallInstruction:
						for _, a := range u.Common().Args {
							if isUse(a) {
								uses = true
							}
						}
					case *ssa.Return:
						// returned together with a success indication: a (key, true) / (key, nil) return
						if len(u.Results) > 1 && isUse(u.Results[0]) {
							last := u.Results[len(u.Results)-1]
							if cst, ok := last.(*ssa.Const); ok && (cst.IsNil() || cst.String() == "true:bool") {
								uses = true
							}
						}
					}
					if uses {
						nUse++
						if !eng.Cut(link.Parent(), b, succ) {
							okG = false
						}
					}
				}
			}
		}
		c.CheckAt("PAIR", "key-derivation-checked:"+key, s.Ins, okG && nUse > 0, "start/stop is reachable when the key function failed")
		// the key function's arguments, expressed in the calling function
		lift := func(v ssa.Value) ssa.Value {
			for d := 0; d < 3; d++ {
				os := p.Origins(v, eng.Plain)
				if len(os) != 1 {
					return v
				}
				pa, ok := os[0].(*ssa.Parameter)
				if !ok || pa.Parent() == s.Fn {
					return v
				}
				g := pa.Parent()
				idx := -1
				for i, q := range g.Params {
					if q == pa {
						idx = i
					}
				}
				var sitesG []ssa.CallInstruction
				if g == s.entry {
					sitesG = []ssa.CallInstruction{s.Ins.(ssa.CallInstruction)}
				} else {
					for _, cs := range p.CallSitesOf(g) {
						if m.regOf[s.entry].In[cs.Fn] || cs.Fn == s.Fn {
							sitesG = append(sitesG, cs.Ins.(ssa.CallInstruction))
						}
					}
				}
				if len(sitesG) != 1 || idx < 0 || idx >= len(sitesG[0].Common().Args) {
					return v
				}
				v = sitesG[0].Common().Args[idx]
			}
			return v
		}
		var got fields
		for i := 0; i < 2 && i < len(kc.Call.Args); i++ {
			arg := lift(kc.Call.Args[i])
			fld := ""
			good, bad := p.AllFrom(arg, eng.Plain, func(v ssa.Value) bool {
				if t, f, _, ok := eng.FieldLoad(v); ok && t == R {
					fld = f
					return true
				}
				if pa, isP := v.(*ssa.Parameter); isP && pa.Parent() == s.Fn {
					// the parameter must also be what is stored into a field of the metrics object in this function
					for _, fl := range p.StructFields(R) {
						for _, st := range p.FieldStores(R, fl.Name()) {
							if st.Fn == s.Fn && st.Val != nil && p.AnyFrom(st.Val, eng.Plain, func(x ssa.Value) bool { return x == ssa.Value(pa) }) {
								fld = fl.Name()
								return true
							}
						}
					}
				}
				return false
			})
			what := []string{"client address", "access key"}[i]
			c.CheckAt("PAIR", fmt.Sprintf("key-argument:%s:%s", key, what), kc, good, fmt.Sprintf("argument %d of the key function (%s) does not come from a field of the connection metrics object (or the value being stored into it): start and stop would use different keys (%s)", i, what, valsStr(p, bad)))
			if i == 0 {
				got.addr = fld
			} else {
				got.key = fld
			}
		}
		if s.start {
			startF[R] = got
		} else {
			stopF[R] = got
		}
		// stop from the close report only for authenticated connections
		if !s.start && got.key != "" {
			apis, _ := apiOf(s.Fn, allowedStop, 0)
			for _, api := range apis {
				if api.Name() != "AddClosed" {
					continue
				}
				areg := c.NewRegion(api, 3, inProm)
				gd := c.NewGuard(func(fn *ssa.Function) eng.EdgeSet {
					nonEmpty := eng.EdgeSet{}
					for _, b := range fn.Blocks {
						iff, ok := b.Instrs[len(b.Instrs)-1].(*ssa.If)
						if !ok {
							continue
						}
						bo, ok := iff.Cond.(*ssa.BinOp)
						if !ok || !eng.IsFieldLoad(bo.X, R, got.key) {
							continue
						}
						if sv, ok := eng.ConstString(bo.Y); ok && sv == "" {
							if bo.Op == token.NEQ {
								nonEmpty[eng.Edge{From: b, To: b.Succs[0]}] = true
							} else if bo.Op == token.EQL {
								nonEmpty[eng.Edge{From: b, To: b.Succs[1]}] = true
							}
						}
					}
					return nonEmpty
				})
				c.CheckAt("PAIR", "stop-only-when-authenticated:"+short(api), s.Ins, areg.CutDeep(s.Ins, gd), "the close report stops a tunnel for connections that never authenticated (no access-key != \"\" guard)")
			}
		}
	}
	for R, sf := range startF {
		tf, ok := stopF[R]
		c.Check("PAIR", "same-key-fields:"+R, "-", ok && sf == tf && sf.addr != "" && sf.key != "", fmt.Sprintf("tunnels of %s are started with the key (%s, %s) and stopped with (%s, %s): a stop would not find the record its start created", R, sf.addr, sf.key, tf.addr, tf.key))
	}
	c.Check("PAIR", "one-key-function", "-", len(keyFns) == 1, fmt.Sprintf("start and stop sites derive their keys through different functions: %v", keyFns))
}

// C17.RESET
func ruleReset(c *Ctx, m *ttModel) {
	p := c.P
	acT := m.acT
	report, sub := m.report, m.sub
	if report == nil {
		c.Undecided("RESET", "anchor:report-function", "-", "no function subtracts the record's start time from a clock value")
		return
	}
	key := short(report)
	rreg := c.NewRegion(report, 2, inProm)
	tNow := m.subNow // receiver of Sub
	okRecv := !p.AnyFrom(m.subInner.Call.Args[0], eng.Plain, func(v ssa.Value) bool { return eng.IsFieldLoad(v, acT, m.timeField) })
	c.CheckAt("RESET", key+":duration-is-now-minus-start", sub, okRecv, "the subtraction is start - now instead of now - start")
	// every counter Add in the report code takes Seconds() of the same Sub result
	nAdd := 0
	for _, cl := range rreg.Calls() {
		call, ok := cl.(*ssa.Call)
		if !ok || eng.MethodName(&call.Call) != "Add" || !strings.Contains(eng.CalleeName(&call.Call), "prom.Counter") {
			continue
		}
		nAdd++
		arg := eng.Arg(&call.Call, 0)
		good, bad := p.AllFrom(arg, deepF, func(v ssa.Value) bool {
			sc, ok := v.(*ssa.Call)
			if !ok || eng.CalleeName(&sc.Call) != "(time.Duration).Seconds" {
				return false
			}
			g, _ := p.AllFrom(sc.Call.Args[0], deepF, func(x ssa.Value) bool { return x == ssa.Value(sub) })
			return g
		})
		c.CheckAt("RESET", fmt.Sprintf("%s:counter-add#%d:same-duration", key, nAdd), call, good, "a counter is advanced by something other than Seconds() of the one duration computed in this report: per-key and per-location totals diverge ("+valsStr(p, bad)+")")
	}
	c.Floor("RESET", "counter Add calls in the report code", nAdd, 2)
	// after the Sub, every path to exit stores the same clock value into the start-time field
	isReset := func(ins ssa.Instruction) bool {
		st, ok := isStoreToField(ins, acT, m.timeField)
		if !ok {
			return false
		}
		g, _ := p.AllFrom(st.Val, eng.Plain, func(x ssa.Value) bool {
			for _, o := range p.Origins(tNow, eng.Plain) {
				if o == x {
					return true
				}
			}
			return false
		})
		return g
	}
	okR, bad := eng.MustPass(eng.After(sub), isReset)
	c.CheckAt("RESET", key+":start-time-reset-to-same-clock-value", sub, okR, fmt.Sprintf("after reporting, the function can return at %s without storing the reported clock value as the new start time: the interval is counted again or partly lost at the next report", p.IPos(bad)))
	for _, b := range report.Blocks {
		for _, ins := range b.Instrs {
			if _, ok := isStoreToField(ins, acT, m.timeField); ok {
				c.CheckAt("RESET", key+":no-other-start-time-store", ins, isReset(ins), "the report function stores a start time that is not the clock value it reported against (e.g. a second clock read): the time between the two reads is lost")
			}
		}
	}
	// the stop code: the function that decrements the open count; report then delete, both only at zero
	isDelta := func(d int64) func(ssa.Instruction) bool {
		return func(ins ssa.Instruction) bool {
			st, ok := isStoreToField(ins, acT, m.cntField)
			if !ok {
				return false
			}
			k, ok := incrementOf(st.Val, acT, m.cntField)
			return ok && k == d
		}
	}
	// the stop code is the function (in a stop entry's region) that calls the report function; the decrement and the zero
	// test may sit in it or in a small helper of the record (release() (inactive bool))
	var stop *ssa.Function
	for _, e := range m.stops {
		for _, f := range m.regOf[e].Fns {
			for _, cl := range eng.Calls(f) {
				for _, cal := range repoCallees(c, cl) {
					if cal == report {
						stop = f
					}
				}
			}
		}
	}
	if stop == nil {
		for _, e := range m.stops {
			for _, f := range m.regOf[e].Fns {
				if bodyHas(f, isDelta(-1)) {
					stop = f
				}
			}
		}
	}
	decMay := liftMay(c, isDelta(-1))
	if stop == nil || !bodyHas(stop, decMay) {
		c.Check("RESET", "stop:decrements-the-open-count", "-", false, "no stop code decrements the record's open count")
	} else {
		zero, tests := zeroTestEdges(stop, acT, m.cntField)
		// a predicate helper: every return is a zero comparison of the open count
		for _, cl := range eng.Calls(stop) {
			call, ok := cl.(*ssa.Call)
			if !ok {
				continue
			}
			h := call.Call.StaticCallee()
			if h == nil || !p.InRepo(h) || len(h.Blocks) == 0 || h.Signature.Results().Len() != 1 || h.Signature.Results().At(0).Type().String() != "bool" {
				continue
			}
			pol, okP := 0, true
			for _, r := range eng.Returns(h) {
				rv := r.Results[0]
				if sv := p.ReachingStore(rv, r); sv != nil {
					rv = sv
				}
				bo, isB := p.Resolve(rv).(*ssa.BinOp)
				if !isB || !eng.IsFieldLoad(bo.X, acT, m.cntField) {
					okP = false
					continue
				}
				n, isK := eng.ConstInt(bo.Y)
				switch {
				case isK && (bo.Op == token.EQL && n == 0 || bo.Op == token.LEQ && n == 0 || bo.Op == token.LSS && n == 1):
					if pol == -1 {
						okP = false
					}
					pol = 1
				case isK && (bo.Op == token.NEQ && n == 0 || bo.Op == token.GTR && n == 0 || bo.Op == token.GEQ && n == 1):
					if pol == 1 {
						okP = false
					}
					pol = -1
				default:
					okP = false
				}
			}
			if !okP || pol == 0 {
				continue
			}
			t, f := eng.BoolEdges(stop, func(v ssa.Value) bool { return v == ssa.Value(call) })
			if pol < 0 {
				t = f
			}
			for e := range t {
				zero[e] = true
				if iff, isIf := e.From.Instrs[len(e.From.Instrs)-1].(*ssa.If); isIf {
					tests = append(tests, iff)
				}
			}
		}
		c.Check("RESET", short(stop)+":zero-test", p.Pos(stop.Pos()), len(tests) > 0, "the stop code never tests the open count against zero")
		var rep, del ssa.Instruction
		for _, cl := range eng.Calls(stop) {
			for _, cal := range repoCallees(c, cl) {
				if cal == report {
					rep = cl
				}
			}
			if bc, ok := isBuiltinCall(cl.(ssa.Instruction), "delete"); ok {
				del = bc
			}
		}
		if rep == nil || del == nil {
			c.Check("RESET", short(stop)+":report-and-delete", p.Pos(stop.Pos()), false, "the last close does not both report the remaining time and delete the client")
		} else {
			c.CheckAt("RESET", short(stop)+":report-only-at-zero", rep, eng.Cut(stop, rep.Block(), zero), "the remaining time is reported while other tunnels of the client are open (time counted twice)")
			c.CheckAt("RESET", short(stop)+":delete-only-at-zero", del, eng.Cut(stop, del.Block(), zero), "the client is deleted while other tunnels are open (time lost)")
			c.CheckAt("RESET", short(stop)+":report-before-delete", del, eng.Dominates(rep, del), "the client is deleted before its remaining time is reported")
			// the count tested is the count after this stop's decrement
			var decSite ssa.Instruction
			for _, b := range stop.Blocks {
				for _, ins := range b.Instrs {
					if decMay(ins) {
						decSite = ins
					}
				}
			}
			c.CheckAt("RESET", short(stop)+":decrement-before-the-zero-test", rep, decSite != nil && eng.Dominates(decSite, rep), "the open count is tested before this stop has been subtracted from it")
		}
		_, mx, _ := eng.CountOnPaths(eng.Point{B: stop.Blocks[0]}, decMay, nil)
		c.Check("RESET", short(stop)+":decrement-at-most-once", p.Pos(stop.Pos()), mx == 1, fmt.Sprintf("open count decremented up to %d times per stop", mx))
	}
	// the start code: per call the open count goes up by exactly one — an increment, or the insertion of a fresh record
	// whose count is initialised to 1 — and a fresh record is inserted only when the lookup missed. Counted from the start
	// entry, with helper calls counted by what they must / may do.
	for _, e := range m.starts {
		reg := m.regOf[e]
		var start *ssa.Function
		var insert *ssa.MapUpdate
		reg.Instrs(func(f *ssa.Function, ins ssa.Instruction) {
			if mu, ok := ins.(*ssa.MapUpdate); ok && p.AnyFrom(mu.Map, eng.Plain, func(v ssa.Value) bool { return eng.IsFieldLoad(v, m.T, m.mapField) }) {
				start, insert = f, mu
			}
		})
		if start == nil {
			continue
		}
		// initial count of fresh records
		initOne := false
		okInit := true
		for _, a := range p.Allocs(acT) {
			if !reg.In[a.Fn] {
				continue
			}
			for _, st := range p.FieldStores(acT, m.cntField) {
				if st.Fn != a.Fn || !st.Fresh {
					continue
				}
				if k, ok := eng.ConstInt(st.Val); ok && k == 1 {
					initOne = true
				} else if !ok || k != 0 {
					okInit = false
				}
			}
		}
		c.Check("RESET", short(start)+":fresh-record-count-is-0-or-1", p.Pos(start.Pos()), okInit, "a fresh client record starts with an open count other than 0 (then incremented) or 1")
		ev := func(ins ssa.Instruction) bool {
			if isDelta(1)(ins) {
				return true
			}
			return initOne && ins == ssa.Instruction(insert)
		}
		// the function from which the per-start count is taken: the one that holds the increment or (when records start
		// at 1) the insertion, climbing to the caller while the other event is outside
		counted := start
		for i := 0; i < 3 && counted != e; i++ {
			_, mxHere, _ := eng.CountOnPaths(eng.Point{B: counted.Blocks[0]}, liftMay(c, ev), nil)
			mnHere, _, _ := eng.CountOnPaths(eng.Point{B: counted.Blocks[0]}, liftMust(c, ev, nil), nil)
			if mnHere == 1 && mxHere == 1 {
				break
			}
			sites := reg.sitesOf[counted]
			if len(sites) != 1 {
				break
			}
			counted = sites[0].Parent()
		}
		mn, _, _ := eng.CountOnPaths(eng.Point{B: counted.Blocks[0]}, liftMust(c, ev, nil), nil)
		_, mx, _ := eng.CountOnPaths(eng.Point{B: counted.Blocks[0]}, liftMay(c, ev), nil)
		c.Check("RESET", short(counted)+":increment-exactly-once", p.Pos(counted.Pos()), mn == 1 && mx == 1, fmt.Sprintf("open count goes up %d..%d times per start", mn, mx))
		miss := eng.EdgeSet{}
		for _, b := range start.Blocks {
			iff, ok := b.Instrs[len(b.Instrs)-1].(*ssa.If)
			if !ok {
				continue
			}
			if ex, ok := iff.Cond.(*ssa.Extract); ok && ex.Index == 1 {
				if lk, ok := ex.Tuple.(*ssa.Lookup); ok && lk.CommaOk {
					miss[eng.Edge{From: b, To: b.Succs[1]}] = true
				}
			}
			if u, ok := iff.Cond.(*ssa.UnOp); ok && u.Op == token.NOT {
				if ex, ok := u.X.(*ssa.Extract); ok && ex.Index == 1 {
					if lk, ok := ex.Tuple.(*ssa.Lookup); ok && lk.CommaOk {
						miss[eng.Edge{From: b, To: b.Succs[0]}] = true
					}
				}
			}
		}
		c.CheckAt("RESET", short(start)+":new-record-only-on-miss", insert, len(miss) > 0 && eng.Cut(start, insert.Block(), miss), "an existing client's record (and its running start time) is replaced by a fresh one")
	}
}

// ruleKeyAddr (C17, C20): the address stored in a tunnel-time key is the client's own IP address in one canonical form.
// The key identifies "one client" (C17: two representations of one address make two clients, whose overlapping tunnels are
// counted twice) and is what the location lookup classifies (C20: a masked or otherwise transformed address is classified
// instead of the client's). Accepted derivations, from a net.Addr parameter or a RemoteAddr() result A:
//
//	ParseAddr(host of SplitHostPort(A.String()))         — the textual form of an IPv4-mapped address is the IPv4 form
//	ParseAddrPort(A.String()).Addr()
//	X.Unmap() where X is any of the above, A.AddrPort().Addr(), or AddrFromSlice(A.IP)
//
// Anything else (AddrPort().Addr() without Unmap, Prefix/Masked/Next/WithZone …) is reported.
func ruleKeyAddr(c *Ctx, m *ttModel, rule string) {
	p := c.P
	addrField := ""
	for _, fl := range p.StructFields(m.keyT) {
		if fl.Type().String() == "net/netip.Addr" {
			addrField = fl.Name()
		}
	}
	if addrField == "" {
		c.Undecided(rule, "anchor:key-address-field", "-", "the tunnel-time key type "+m.keyT+" has no netip.Addr field")
		return
	}
	why := ""
	fail := func(v ssa.Value, what string) bool {
		if why == "" {
			why = what + ": " + valStr(p, v)
		}
		return false
	}
	res := func(v ssa.Value) (*ssa.Call, int) {
		v = p.Resolve(v)
		if cc, i, ok := eng.AsResult(v); ok {
			return cc, i
		}
		return nil, -1
	}
	var addrSource, strOfAddr, hostOfAddr, raw, canon func(v ssa.Value, d int) bool
	addrSource = func(v ssa.Value, d int) bool {
		if d > 10 {
			return fail(v, "too deep")
		}
		ok, bad := p.AllFrom(v, eng.OriginOpts{ThroughConvert: true, Interproc: true, ThroughFieldLoad: false}, func(x ssa.Value) bool {
			switch y := x.(type) {
			case *ssa.Parameter:
				return true
			case *ssa.Call:
				return eng.MethodName(&y.Call) == "RemoteAddr"
			case *ssa.UnOp:
				// a field of the per-connection metrics object holding the client address
				_, _, _, isF := eng.FieldLoad(y)
				return isF
			}
			return false
		})
		if !ok && len(bad) > 0 {
			return fail(bad[0], "not the connection's address")
		}
		return ok
	}
	strOfAddr = func(v ssa.Value, d int) bool {
		cc, _ := res(v)
		if cc == nil || eng.MethodName(&cc.Call) != "String" {
			return fail(v, "not the String() of the address")
		}
		return addrSource(eng.Receiver(&cc.Call), d+1)
	}
	hostOfAddr = func(v ssa.Value, d int) bool {
		cc, i := res(v)
		if cc == nil || eng.CalleeName(&cc.Call) != "net.SplitHostPort" || i != 0 {
			return fail(v, "not the host part of SplitHostPort")
		}
		return strOfAddr(cc.Call.Args[0], d+1)
	}
	// raw: the client's IP, possibly in IPv4-mapped form
	raw = func(v ssa.Value, d int) bool {
		if canon(v, d+1) {
			return true
		}
		cc, i := res(v)
		if cc == nil {
			return false
		}
		switch eng.CalleeName(&cc.Call) {
		case "(net/netip.AddrPort).Addr":
			ac, _ := res(eng.Receiver(&cc.Call))
			if ac != nil && (eng.MethodName(&ac.Call) == "AddrPort") {
				why = ""
				return addrSource(eng.Receiver(&ac.Call), d+1)
			}
		case "net/netip.AddrFromSlice":
			if i == 0 {
				why = ""
				return p.AnyFrom(cc.Call.Args[0], eng.OriginOpts{ThroughConvert: true, ThroughFieldLoad: true, ThroughSlice: true}, func(x ssa.Value) bool {
					_, isP := x.(*ssa.Parameter)
					return isP
				})
			}
		}
		return false
	}
	canon = func(v ssa.Value, d int) bool {
		if d > 10 {
			return fail(v, "too deep")
		}
		v = p.Resolve(v)
		if ph, ok := v.(*ssa.Phi); ok {
			for _, e := range ph.Edges {
				if !canon(e, d+1) {
					return false
				}
			}
			return true
		}
		cc, i := res(v)
		if cc == nil {
			return fail(v, "not derived from the connection's address by a recognised conversion")
		}
		switch eng.CalleeName(&cc.Call) {
		case "net/netip.ParseAddr":
			return i == 0 && hostOfAddr(cc.Call.Args[0], d+1)
		case "(net/netip.Addr).Unmap":
			return raw(eng.Receiver(&cc.Call), d+1)
		case "(net/netip.AddrPort).Addr":
			pc, pi := res(eng.Receiver(&cc.Call))
			if pc != nil && eng.CalleeName(&pc.Call) == "net/netip.ParseAddrPort" && pi == 0 {
				return strOfAddr(pc.Call.Args[0], d+1)
			}
			return fail(v, "AddrPort().Addr() keeps the IPv4-mapped form (no Unmap)")
		}
		// a helper of the repo (ipFromAddr(addr) (netip.Addr, error)): every non-zero value it returns at this result index
		// is canonical, judged inside the helper (its address parameter stands for the caller's address)
		if h := cc.Call.StaticCallee(); h != nil && p.InRepo(h) && len(h.Blocks) > 0 && i >= 0 {
			nret := 0
			for _, r := range eng.Returns(h) {
				if i >= len(r.Results) {
					return fail(v, "helper result not found")
				}
				rv := r.Results[i]
				if sv := p.ReachingStore(rv, r); sv != nil {
					rv = sv
				}
				if eng.IsZeroValue(p.Resolve(rv)) || isZeroStructLoad(p, rv) {
					continue
				}
				nret++
				if !canon(rv, d+1) {
					return false
				}
			}
			if nret > 0 {
				return true
			}
		}
		return fail(v, "the address is transformed by "+eng.CalleeName(&cc.Call))
	}
	n := 0
	for _, st := range p.FieldStores(m.keyT, addrField) {
		if st.Val == nil || p.IsTestSupport(st.Fn) {
			continue
		}
		n++
		why = ""
		ok := canon(st.Val, 0)
		c.CheckAt(rule, short(st.Fn)+":key-address-is-the-client-address-in-canonical-form", st.Ins, ok, "the address stored in the tunnel-time key is not the client's own IP in canonical (unmapped) form ("+why+"): one client can appear under two keys, or another address than the client's is counted and classified")
	}
	c.Floor(rule, "constructions of the tunnel-time key", n, 1)
}
