package rules

import (
	"fmt"
	"go/token"
	"go/types"
	"strings"

	"golang.org/x/tools/go/ssa"

	"verif/internal/eng"
)

func init() {
	register(&PropDef{ID: "C17", Level: "other", Run: runC17,
		Explanation: "Structural conditions of exact tunnel-time accounting, for all interleavings of opens, closes and scrapes: (CLOCK) every clock value that can flow into a client's start time or into " +
			"the subtraction against it is read while the collector mutex is held, so a scrape ordered after a start can never see an earlier time (a negative duration panics Counter.Add with the mutex held); " +
			"(PAIR) tunnels are started only from the authentication report and the UDP entry constructor and stopped only from the close report (cut by accessKey != \"\") and the entry removal, " +
			"and start and stop derive their (IP, key) through the same function from the same two fields; (RESET) the report function adds one and the same duration value to both counters and then " +
			"stores the same clock value as the new start time, and on the last close the report precedes the deletion, both on the connCount <= 0 edge; the open count is incremented exactly once per start.",
		NotDecided: "the arithmetic identity over histories and scrapes; balance of start/stop calls per connection (C15.ONCE / C16.ENTRY give the call discipline).",
	})
}

const ttmT = "prometheus.tunnelTimeMetrics"
const acT = "prometheus.activeClient"

func isClockCall(c *Ctx, call *ssa.Call) bool {
	if n := eng.CalleeName(&call.Call); n == "time.Now" {
		return true
	}
	if call.Call.IsInvoke() || call.Call.StaticCallee() != nil {
		return false
	}
	sig := call.Call.Signature()
	if sig.Params().Len() != 0 || sig.Results().Len() != 1 || sig.Results().At(0).Type().String() != "time.Time" {
		return false
	}
	// dynamic call of a func() time.Time value loaded from a package-level variable
	return c.P.AnyFrom(call.Call.Value, eng.Plain, func(v ssa.Value) bool { _, ok := v.(*ssa.Global); return ok }) ||
		func() bool {
			if u, ok := call.Call.Value.(*ssa.UnOp); ok && u.Op == token.MUL {
				_, isG := u.X.(*ssa.Global)
				return isG
			}
			return false
		}()
}

// timeSinks: forward def-use of a time.Time value to (a) stores into activeClient.startTime, (b) operands of Time.Sub,
// following repo calls through parameters.
func timeSinks(c *Ctx, v ssa.Value, seen map[ssa.Value]bool, out *[]string) {
	if seen[v] {
		return
	}
	seen[v] = true
	refs := v.Referrers()
	if refs == nil {
		return
	}
	for _, r := range *refs {
		switch u := r.(type) {
		case *ssa.Store:
			if u.Val != v {
				continue
			}
			if fa, ok := u.Addr.(*ssa.FieldAddr); ok {
				if t, f, _, ok := eng.FieldOf(fa); ok && t == acT && f == "startTime" {
					*out = append(*out, "store to "+acT+".startTime at "+c.P.IPos(u))
				}
				continue
			}
			if cell := eng.CellRoot(u.Addr); cell != nil {
				// loads of the cell
				for _, f := range eng.Family(cell.Parent()) {
					for _, b := range f.Blocks {
						for _, ins := range b.Instrs {
							if l, ok := ins.(*ssa.UnOp); ok && l.Op == token.MUL && eng.CellRoot(l.X) == cell {
								timeSinks(c, l, seen, out)
							}
						}
					}
				}
			}
		case *ssa.Phi:
			timeSinks(c, u, seen, out)
		case *ssa.MakeInterface, *ssa.ChangeType:
			timeSinks(c, u.(ssa.Value), seen, out)
		case ssa.CallInstruction:
			n := eng.CalleeName(u.Common())
			if n == "(time.Time).Sub" {
				*out = append(*out, "operand of Time.Sub at "+c.P.IPos(u))
				continue
			}
			for _, callee := range repoCallees(c, u) {
				for i, a := range u.Common().Args {
					if a == v && i < len(callee.Params) {
						timeSinks(c, callee.Params[i], seen, out)
					}
				}
			}
		}
	}
}

func runC17(c *Ctx) {
	p, l := c.P, c.L()
	guard := ""
	for _, fl := range p.StructFields(ttmT) {
		if isSyncType(fl.Type()) && strings.Contains(fl.Type().String(), "Mutex") {
			guard = ttmT + "." + fl.Name()
		}
	}
	if guard == "" {
		c.Undecided("CLOCK", "anchor:collector-mutex", "-", "tunnelTimeMetrics has no mutex field")
		return
	}
	// CLOCK
	n := 0
	for _, f := range p.FnsIn("prometheus") {
		for _, cl := range eng.Calls(f) {
			call, ok := cl.(*ssa.Call)
			if !ok || !isClockCall(c, call) {
				continue
			}
			var sinks []string
			timeSinks(c, call, map[ssa.Value]bool{}, &sinks)
			if len(sinks) == 0 {
				continue
			}
			n++
			held := l.Held(call)
			c.CheckAt("CLOCK", short(f), call, held.Has(guard), fmt.Sprintf("clock read outside %s (held: %s) flows into the tunnel-time computation (%s): a start registered between this read and the lock gets a later start time, "+
				"the duration is negative and Counter.Add panics with the mutex held", guard, held, strings.Join(sinks, "; ")))
		}
	}
	c.Floor("CLOCK", "clock reads that flow into start times or durations", n, 3)

	rulePair(c)
	ruleReset(c, guard)
	// registration, deregistration and scrape are each one critical section (lookup-then-insert across an unlock loses a tunnel)
	ruleAtomic(c, "ATOMIC", map[string]bool{"(*prometheus.tunnelTimeMetrics).startConnection": true, "(*prometheus.tunnelTimeMetrics).stopConnection": true, "(*prometheus.tunnelTimeMetrics).Collect": true})
	// every authenticated TCP connection starts its tunnel (and only those): the authentication report is made on every
	// path from the authentication-success edge, only there, at most once
	if a := findTCP(c, "STARTCALL"); a != nil {
		ruleOnce(c, a, "STARTCALL")
	}
}

func fnByMethod(c *Ctx, pkg, recvT, name string) *ssa.Function {
	for _, f := range c.P.FnsIn(pkg) {
		if f.Name() == name && f.Parent() == nil && f.Signature.Recv() != nil && eng.TypeName(f.Signature.Recv().Type()) == recvT {
			return f
		}
	}
	return nil
}

// C17.PAIR
func rulePair(c *Ctx) {
	p := c.P
	start, stop := fnByMethod(c, "prometheus", ttmT, "startConnection"), fnByMethod(c, "prometheus", ttmT, "stopConnection")
	if start == nil || stop == nil {
		c.Undecided("PAIR", "anchor:start/stopConnection", "-", "tunnelTimeMetrics has no startConnection/stopConnection methods")
		return
	}
	// allowed callers by role
	udpCtor := map[*ssa.Function]bool{}
	for _, a := range p.Allocs("prometheus.udpConnMetrics") {
		udpCtor[a.Fn] = true
	}
	allowedStart := func(f *ssa.Function) bool {
		return (f.Name() == "AddAuthenticated" && f.Signature.Recv() != nil) || udpCtor[f]
	}
	allowedStop := func(f *ssa.Function) bool {
		return f.Signature.Recv() != nil && (f.Name() == "AddClosed" || f.Name() == "RemoveNatEntry")
	}
	type site struct {
		eng.Site
		start bool
	}
	var sites []site
	for _, s := range p.CallSitesOf(start) {
		sites = append(sites, site{s, true})
		c.CheckAt("PAIR", "start-caller:"+short(s.Fn), s.Ins, allowedStart(s.Fn), "a tunnel is started from a function that is neither the authentication report nor the UDP entry constructor (unauthenticated connections would accrue tunnel time, or starts lose their matching stop)")
	}
	for _, s := range p.CallSitesOf(stop) {
		sites = append(sites, site{s, false})
		c.CheckAt("PAIR", "stop-caller:"+short(s.Fn), s.Ins, allowedStop(s.Fn), "a tunnel is stopped from a function that is neither the close report nor the entry removal")
	}
	c.Floor("PAIR", "start/stop call sites", len(sites), 4)
	// key agreement: every site's key comes from one key function applied to (client address field/param, access key field/param)
	keyFns := map[string]bool{}
	for _, s := range sites {
		call := s.Ins.(ssa.CallInstruction)
		keyArg := eng.Arg(call.Common(), 0)
		var kc *ssa.Call
		ok, _ := p.AllFrom(keyArg, eng.OriginOpts{ThroughConvert: true, ThroughFieldLoad: false}, func(v ssa.Value) bool {
			// *ipKey where ipKey = extract (toIPKey(..)) #0
			if u, isU := v.(*ssa.UnOp); isU && u.Op == token.MUL {
				if cc, idx, isR := eng.AsResult(u.X); isR && idx == 0 {
					kc = cc
					return true
				}
			}
			if cc, idx, isR := eng.AsResult(v); isR && idx == 0 {
				kc = cc
				return true
			}
			return false
		})
		key := short(s.Fn)
		if !ok || kc == nil {
			c.CheckAt("PAIR", "key-derivation:"+key, s.Ins, false, "the (IP, key) passed to start/stop is not the result of a key function call")
			continue
		}
		kn := eng.CalleeName(&kc.Call)
		keyFns[kn] = true
		// the call must be guarded by the key function's success
		succ, _ := p.SuccessEdges(s.Fn, []ssa.CallInstruction{kc}, 1)
		c.CheckAt("PAIR", "key-derivation-checked:"+key, s.Ins, len(succ) > 0 && eng.Cut(s.Fn, s.Ins.Block(), succ), "start/stop is reachable when the key function failed")
		// arguments: address from the clientAddr field (or the parameter stored into it), key from accessKey field (or the parameter stored into it)
		recvT := ""
		if s.Fn.Signature.Recv() != nil {
			recvT = eng.TypeName(s.Fn.Signature.Recv().Type())
		} else {
			for _, a := range p.Allocs("prometheus.udpConnMetrics") {
				if a.Fn == s.Fn {
					recvT = "prometheus.udpConnMetrics"
				}
			}
		}
		for i, fld := range []string{"clientAddr", "accessKey"} {
			arg := eng.Arg(&kc.Call, i)
			good, bad := p.AllFrom(arg, eng.Plain, func(v ssa.Value) bool {
				if eng.IsFieldLoad(v, recvT, fld) {
					return true
				}
				if pa, isP := v.(*ssa.Parameter); isP {
					// the parameter must also be what is stored into recvT.fld in this function
					for _, st := range p.FieldStores(recvT, fld) {
						if st.Fn == s.Fn && st.Val != nil && p.AnyFrom(st.Val, eng.Plain, func(x ssa.Value) bool { return x == ssa.Value(pa) }) {
							return true
						}
					}
				}
				return false
			})
			c.CheckAt("PAIR", fmt.Sprintf("key-argument:%s:%s", key, fld), kc, good, fmt.Sprintf("argument %d of the key function does not come from the %s field of the connection metrics (or the value being stored into it): start and stop would use different keys (%s)", i, fld, valsStr(p, bad)))
		}
		// stop from the close report only for authenticated connections
		if !s.start && s.Fn.Name() == "AddClosed" {
			var nonEmpty eng.EdgeSet = eng.EdgeSet{}
			for _, b := range s.Fn.Blocks {
				iff, ok := b.Instrs[len(b.Instrs)-1].(*ssa.If)
				if !ok {
					continue
				}
				bo, ok := iff.Cond.(*ssa.BinOp)
				if !ok || !eng.IsFieldLoad(bo.X, recvT, "accessKey") {
					continue
				}
				if sv, ok := eng.ConstString(bo.Y); ok && sv == "" {
					if bo.Op == token.NEQ {
						nonEmpty[eng.Edge{From: b, To: b.Succs[0]}] = true
					} else if bo.Op == token.EQL {
						nonEmpty[eng.Edge{From: b, To: b.Succs[1]}] = true
					}
				}
			}
			c.CheckAt("PAIR", "stop-only-when-authenticated:"+key, s.Ins, len(nonEmpty) > 0 && eng.Cut(s.Fn, s.Ins.Block(), nonEmpty), "the close report stops a tunnel for connections that never authenticated (no accessKey != \"\" guard)")
		}
	}
	c.Check("PAIR", "one-key-function", "-", len(keyFns) == 1, fmt.Sprintf("start and stop sites derive their keys through different functions: %v", keyFns))
}

// C17.RESET
func ruleReset(c *Ctx, guard string) {
	p := c.P
	// the report function: calls Time.Sub with an operand loaded from activeClient.startTime
	var report *ssa.Function
	var sub *ssa.Call
	for _, f := range p.FnsIn("prometheus") {
		for _, cl := range eng.Calls(f) {
			call, ok := cl.(*ssa.Call)
			if !ok || eng.CalleeName(&call.Call) != "(time.Time).Sub" {
				continue
			}
			for _, a := range call.Call.Args {
				if p.AnyFrom(a, eng.Plain, func(v ssa.Value) bool { return eng.IsFieldLoad(v, acT, "startTime") }) {
					report, sub = f, call
				}
			}
		}
	}
	if report == nil {
		c.Undecided("RESET", "anchor:report-function", "-", "no function subtracts activeClient.startTime from a clock value")
		return
	}
	key := short(report)
	tNow := sub.Call.Args[0] // receiver of Sub
	okRecv := !p.AnyFrom(tNow, eng.Plain, func(v ssa.Value) bool { return eng.IsFieldLoad(v, acT, "startTime") })
	c.CheckAt("RESET", key+":duration-is-now-minus-start", sub, okRecv, "the subtraction is start - now instead of now - start")
	// every counter Add in the report function takes Seconds() of the same Sub result
	nAdd := 0
	for _, cl := range eng.Calls(report) {
		call, ok := cl.(*ssa.Call)
		if !ok || eng.MethodName(&call.Call) != "Add" || !strings.Contains(eng.CalleeName(&call.Call), "prom.Counter") {
			continue
		}
		nAdd++
		arg := eng.Arg(&call.Call, 0)
		good, bad := p.AllFrom(arg, eng.Plain, func(v ssa.Value) bool {
			sc, ok := v.(*ssa.Call)
			if !ok || eng.CalleeName(&sc.Call) != "(time.Duration).Seconds" {
				return false
			}
			g, _ := p.AllFrom(sc.Call.Args[0], eng.Plain, func(x ssa.Value) bool { return x == ssa.Value(sub) })
			return g
		})
		c.CheckAt("RESET", fmt.Sprintf("%s:counter-add#%d:same-duration", key, nAdd), call, good, "a counter is advanced by something other than Seconds() of the one duration computed in this report: per-key and per-location totals diverge ("+valsStr(p, bad)+")")
	}
	c.Floor("RESET", "counter Add calls in the report function", nAdd, 2)
	// after the Sub, every path to exit stores the same clock value into startTime
	isReset := func(ins ssa.Instruction) bool {
		st, ok := isStoreToField(ins, acT, "startTime")
		if !ok {
			return false
		}
		g, _ := p.AllFrom(st.Val, eng.Plain, func(x ssa.Value) bool {
			for _, o := range p.Origins(tNow, eng.Plain) {
				if o == x {
					return true
				}
			}
			return false
		})
		return g
	}
	okR, bad := eng.MustPass(eng.After(sub), isReset)
	c.CheckAt("RESET", key+":start-time-reset-to-same-clock-value", sub, okR, fmt.Sprintf("after reporting, the function can return at %s without storing the reported clock value as the new start time: the interval is counted again or partly lost at the next report", p.IPos(bad)))
	// any other store to startTime in this function is a violation
	for _, b := range report.Blocks {
		for _, ins := range b.Instrs {
			if _, ok := isStoreToField(ins, acT, "startTime"); ok {
				c.CheckAt("RESET", key+":no-other-start-time-store", ins, isReset(ins), "the report function stores a start time that is not the clock value it reported against (e.g. a second clock read): the time between the two reads is lost")
			}
		}
	}

	// stopConnection: report then delete, both on connCount <= 0
	stop := fnByMethod(c, "prometheus", ttmT, "stopConnection")
	start := fnByMethod(c, "prometheus", ttmT, "startConnection")
	if stop != nil {
		zero, tests := zeroTestEdges(stop, acT, "connCount")
		c.Check("RESET", short(stop)+":zero-test", p.Pos(stop.Pos()), len(tests) > 0, "stopConnection never tests the open count against zero")
		var rep, del ssa.Instruction
		for _, cl := range eng.Calls(stop) {
			for _, cal := range repoCallees(c, cl) {
				if cal == report {
					rep = cl
				}
			}
			if bc, ok := isBuiltinCall(cl.(ssa.Instruction), "delete"); ok {
				del = bc
			}
		}
		if rep == nil || del == nil {
			c.Check("RESET", short(stop)+":report-and-delete", p.Pos(stop.Pos()), false, "the last close does not both report the remaining time and delete the client")
		} else {
			c.CheckAt("RESET", short(stop)+":report-only-at-zero", rep, eng.Cut(stop, rep.Block(), zero), "the remaining time is reported while other tunnels of the client are open (time counted twice)")
			c.CheckAt("RESET", short(stop)+":delete-only-at-zero", del, eng.Cut(stop, del.Block(), zero), "the client is deleted while other tunnels are open (time lost)")
			c.CheckAt("RESET", short(stop)+":report-before-delete", del, eng.Dominates(rep, del), "the client is deleted before its remaining time is reported")
		}
		// decrement exactly once
		decr := func(ins ssa.Instruction) bool {
			st, ok := isStoreToField(ins, acT, "connCount")
			if !ok {
				return false
			}
			d, ok := incrementOf(st.Val, acT, "connCount")
			return ok && d == -1
		}
		_, mx, _ := eng.CountOnPaths(eng.Point{B: stop.Blocks[0]}, decr, nil)
		c.Check("RESET", short(stop)+":decrement-at-most-once", p.Pos(stop.Pos()), mx == 1, fmt.Sprintf("open count decremented up to %d times per stop", mx))
	}
	if start != nil {
		incr := func(ins ssa.Instruction) bool {
			st, ok := isStoreToField(ins, acT, "connCount")
			if !ok {
				return false
			}
			d, ok := incrementOf(st.Val, acT, "connCount")
			return ok && d == 1
		}
		mn, mx, _ := eng.CountOnPaths(eng.Point{B: start.Blocks[0]}, incr, nil)
		c.Check("RESET", short(start)+":increment-exactly-once", p.Pos(start.Pos()), mn == 1 && mx == 1, fmt.Sprintf("open count incremented %d..%d times per start", mn, mx))
		// a new client record is created only when none exists (lookup miss edge)
		for _, a := range p.Allocs(acT) {
			if a.Fn != start {
				continue
			}
			miss := eng.EdgeSet{}
			for _, b := range start.Blocks {
				iff, ok := b.Instrs[len(b.Instrs)-1].(*ssa.If)
				if !ok {
					continue
				}
				if ex, ok := iff.Cond.(*ssa.Extract); ok && ex.Index == 1 {
					if lk, ok := ex.Tuple.(*ssa.Lookup); ok && lk.CommaOk {
						miss[eng.Edge{From: b, To: b.Succs[1]}] = true
					}
				}
				if u, ok := iff.Cond.(*ssa.UnOp); ok && u.Op == token.NOT {
					if ex, ok := u.X.(*ssa.Extract); ok && ex.Index == 1 {
						if lk, ok := ex.Tuple.(*ssa.Lookup); ok && lk.CommaOk {
							miss[eng.Edge{From: b, To: b.Succs[0]}] = true
						}
					}
				}
			}
			c.CheckAt("RESET", short(start)+":new-record-only-on-miss", a.Ins, len(miss) > 0 && eng.Cut(start, a.Ins.Block(), miss), "an existing client's record (and its running start time) is replaced by a fresh one")
		}
	}
	_ = types.Typ
	_ = guard
}
