package rules

import (
	"fmt"
	"go/token"
	"go/types"
	"sort"
	"strings"

	"golang.org/x/tools/go/ssa"

	"verif/internal/eng"
)

func init() {
	register(&PropDef{ID: "C19", Level: "other", Run: runC19,
		Explanation: "Data-race freedom of the shared components as a lock-set discipline, decided for every access on every call path (schedule-independent): each field of the key list, " +
			"cipher entries, replay history, association table and associations, shared listeners and their handles, the listener manager and the metrics collectors is classified as " +
			"(i) immutable after construction (no store on an existing object), (ii) guarded (the intersection of must-hold lock sets over all accesses contains one lock class of the component's own package — never a client's lock —, exclusively held for writes; for map fields every lookup, update, delete, len and iteration step through the loaded reference holds it too), " +
			"(iii) confined to one goroutine kind that also creates the object, (iv) a sync primitive, or (v) write-once before the go statement that publishes it; a field in none of the classes is a violation " +
			"(GUARDED; every struct type of the module that carries a mutex is included, found by shape). (ATOMIC) every function that takes one of the guarding locks takes it exactly once, so check-then-act sequences stay inside one critical section. (LOOPVAR) no goroutine started inside a loop captures by reference a variable that lives outside the loop and is assigned in it.",
		NotDecided: "linearizability of results (only the single-critical-section shape is checked); races inside Prometheus / the SDK (own locks, trusted); per-connection objects that are not shared.",
		Trusted:    []string{"Go memory model: mutex release/acquire, go statement and channel happens-before"},
	})
}

// sharedTypes are the components named by the property.
var sharedTypes = []string{
	"service.cipherList", "service.CipherEntry", "service.ReplayCache", "service.natmap", "service.natconn",
	"service.multiStreamListener", "service.multiPacketListener", "service.virtualStreamListener", "service.virtualPacketConn",
	"service.listenerManager", "service.managedStreamListener", "service.managedPacketConn",
	"prometheus.tunnelTimeMetrics", "prometheus.activeClient", "prometheus.tcpServiceMetrics", "prometheus.udpServiceMetrics",
	"prometheus.proxyCollector", "prometheus.serviceMetrics",
}

func isSyncType(t types.Type) bool {
	s := t.String()
	return strings.HasPrefix(s, "sync.") || strings.HasPrefix(s, "sync/atomic.")
}

func runC19(c *Ctx) {
	ruleGuarded(c)
	ruleAtomic(c, "ATOMIC", nil)
	ruleLoopVar(c, "LOOPVAR")
	ruleLookupAcquire(c, "ATOMIC")
	ruleNoLockCopy(c, "GUARDED")
	for _, m := range findMultiListeners(c, "GUARDED") {
		rulePumpBuffer(c, m, "GUARDED")
		// results equal to some sequential order: each read has its own reply channel, requests are answered one at a time
		ruleCancelPump(c, m, "HANDOFF")
	}
	// "results equal to some sequential order": a clock value read before the collector lock is taken can be older than a
	// start time a concurrent scrape installs, which no sequential order produces
	if m := findTT(c, "CLOCK"); m != nil {
		ruleClock(c, m, "CLOCK")
	}
}

type fieldClass struct {
	Field    string `json:"field"`
	Class    string `json:"class"`
	Accesses int    `json:"accesses"`
	Writes   int    `json:"writes"`
	Lock     string `json:"lock,omitempty"`
}

// allSharedTypes: the components named by the property plus every struct type of the module that carries a mutex (found by
// shape, so a renamed or new shared component is not silently skipped).
func allSharedTypes(c *Ctx) []string {
	seen := map[string]bool{}
	var out []string
	for _, T := range sharedTypes {
		if !seen[T] {
			seen[T] = true
			out = append(out, T)
		}
	}
	for path, pkg := range c.P.AllPkgs {
		if pkg.Types == nil || !strings.HasPrefix(path, eng.Mod) || strings.Contains(path, "/internal/") {
			continue
		}
		sc := pkg.Types.Scope()
		for _, name := range sc.Names() {
			tn, ok := sc.Lookup(name).(*types.TypeName)
			if !ok {
				continue
			}
			st, ok := tn.Type().Underlying().(*types.Struct)
			if !ok {
				continue
			}
			for i := 0; i < st.NumFields(); i++ {
				if ts := st.Field(i).Type().String(); ts == "sync.Mutex" || ts == "sync.RWMutex" {
					T := eng.Short(path + "." + name)
					if !seen[T] && !strings.HasPrefix(T, mainPkg+".") {
						seen[T] = true
						out = append(out, T)
					}
				}
			}
		}
	}
	sort.Strings(out)
	return out
}

func ruleGuarded(c *Ctx) {
	ruleGuardedTypes(c, "GUARDED", allSharedTypes(c), 14, 60)
}

// ruleGuardedTypes classifies every field of the given struct types (immutable / guarded / write-once / confined) under rule.
func ruleGuardedTypes(c *Ctx, rule string, typesIn []string, minTypes, minFields int) {
	p, l := c.P, c.L()
	lockAnalysisCommon(c)
	var table []fieldClass
	nTypes := 0
	for _, T := range typesIn {
		fields := p.StructFields(T)
		if fields == nil {
			// a component type that no longer exists under this name: not an alarm by itself, but the floor below guards vacuity
			continue
		}
		nTypes++
		var models []*multiModel
		for _, fl := range fields {
			key := T + "." + fl.Name()
			if isSyncType(fl.Type()) {
				table = append(table, fieldClass{key, "sync primitive", 0, 0, ""})
				c.Check(rule, key, "-", true, "sync primitive||")
				continue
			}
			accs := p.FieldAccesses(T, fl.Name())
			var live []eng.FieldAccess
			writes := 0
			for _, a := range accs {
				if a.Fresh {
					continue // construction
				}
				if p.IsTestSupport(a.Fn) {
					continue
				}
				live = append(live, a)
				if a.Write {
					writes++
				}
			}
			if writes == 0 {
				table = append(table, fieldClass{key, "immutable after construction", len(live), 0, ""})
				c.Check(rule, key, "-", true, fmt.Sprintf("immutable after construction (%d reads, no store on an existing object)||", len(live)))
				continue
			}
			// guarded-by: intersection of lock sets
			var common eng.LockSet
			first := true
			var unl []eng.FieldAccess
			for _, a := range live {
				h := l.Held(a.Ins)
				if first {
					common = eng.LockSet{}
					for k, m := range h {
						common[k] = m
					}
					first = false
				} else {
					for k := range common {
						if !h.Has(k) {
							delete(common, k)
						}
					}
				}
				if len(h) == 0 {
					unl = append(unl, a)
				}
			}
			guard := ""
			for k := range common {
				okW := true
				for _, a := range live {
					if a.Write && !l.Held(a.Ins).HasW(k) {
						okW = false
					}
				}
				own := strings.HasPrefix(k, T+".")
				// a component cannot be synchronised by a lock of one of its clients: a lock class that lives in another package
				// than the component's type (the command's per-generation listener set, say) is not taken by the component's
				// other users, and is a different mutex per client object (seed C19-u1)
				if !own && lockClassPkg(k) != lockClassPkg(T+".x") {
					continue
				}
				if okW && (guard == "" || (own && !strings.HasPrefix(guard, T+".")) || (own == strings.HasPrefix(guard, T+".") && k < guard)) {
					guard = k
				}
			}
			if guard != "" {
				table = append(table, fieldClass{key, "guarded", len(live), writes, guard})
				c.Check(rule, key, p.IPos(live[0].Ins), true, fmt.Sprintf("guarded by %s on all %d accesses (%d writes, exclusive)||", guard, len(live), writes))
				// a map field holds a reference: loading it under the lock protects the load only. Every lookup, update, delete,
				// len and iteration step made through the loaded reference must itself run under the guard (seed C19-u2: a
				// "snapshot" `conns := m.keyConn` taken under RLock and ranged over after RUnlock walks the live table unlocked)
				if _, isMap := fl.Type().Underlying().(*types.Map); isMap {
					for _, a := range live {
						if a.Write {
							continue
						}
						fa, isFA := a.Ins.(*ssa.FieldAddr)
						if !isFA || fa.Referrers() == nil {
							continue
						}
						for _, r := range *fa.Referrers() {
							ld, isLd := r.(*ssa.UnOp)
							if !isLd || ld.Op != token.MUL || ld.Referrers() == nil {
								continue
							}
							for _, u := range mapRefUses(ld) {
								h := l.Held(u)
								if h.Has(guard) {
									continue
								}
								c.CheckAt(rule, key+":map-reference-used-under-guard:"+short(a.Fn), u, false, fmt.Sprintf("the map loaded from %s (guarded by %s) is read or written through that reference here holding only %s: the load was protected, this access to the shared table is not", key, guard, h))
							}
						}
					}
				}
				continue
			}
			// write-once before go (reader goroutine reads)
			if models == nil {
				models = findMultiListeners(&Ctx{P: p, Prop: c.Prop}, "x")
			}
			okWO := false
			for _, m := range models {
				if m.T != T {
					continue
				}
				if wo, why := writeOnceBeforeGo(c, m, fl.Name()); wo {
					// all other accesses (outside the pumps) must hold the type's lock
					rest := true
					for _, a := range live {
						if isPump(m, a.Fn) && !a.Write {
							continue
						}
						if !l.Held(a.Ins).Has(m.lockClass) {
							rest = false
						}
					}
					if rest {
						okWO = true
						c.Exempt(rule, key, "unlocked reads in the reader goroutine accepted: "+why)
					}
				}
			}
			if okWO {
				table = append(table, fieldClass{key, "write-once before go", len(live), writes, ""})
				c.Check(rule, key, p.IPos(live[0].Ins), true, "written only before the go statement that publishes it; other accesses under the mutex||")
				continue
			}
			// confinement
			if ok, why := confined(c, T, live); ok {
				table = append(table, fieldClass{key, "confined: " + why, len(live), writes, ""})
				c.Check(rule, key, p.IPos(live[0].Ins), true, "confined to one goroutine kind: "+why+"||")
				continue
			}
			// violation: name the offending accesses
			var bad []string
			for _, a := range live {
				kind := "read"
				if a.Write {
					kind = "write"
				}
				bad = append(bad, fmt.Sprintf("%s in %s at %s holding %s", kind, short(a.Fn), p.IPos(a.Ins), l.Held(a.Ins)))
			}
			sort.Strings(bad)
			if len(bad) > 6 {
				bad = append(bad[:6], fmt.Sprintf("… %d more", len(bad)-6))
			}
			at := live[0].Ins
			if len(unl) > 0 {
				at = unl[0].Ins
			}
			table = append(table, fieldClass{key, "UNPROTECTED", len(live), writes, ""})
			c.Check(rule, key, p.IPos(at), false, "mutable shared field with no common lock over its accesses, not confined and not write-once: "+strings.Join(bad, " | "))
		}
	}
	c.Note("field_classification", table)
	c.Floor(rule, "shared component types found", nTypes, minTypes)
	c.Floor(rule, "fields classified", len(table), minFields)
}

// confined: every accessor is reachable from at most one go-target function (or only from non-goroutine API), and the
// objects of type T are allocated inside that same goroutine's region, so no two goroutines share one.
func confined(c *Ctx, T string, accs []eng.FieldAccess) (bool, string) {
	p, l := c.P, c.L()
	accFns := map[*ssa.Function]bool{}
	for _, a := range accs {
		accFns[a.Fn] = true
	}
	var roots []*ssa.Function
	seen := map[*ssa.Function]bool{}
	for _, g := range p.GoSites() {
		for _, t := range g.Targets {
			if !p.InRepo(t) || seen[t] {
				continue
			}
			seen[t] = true
			region := p.Reach(l, t)
			for f := range accFns {
				if region[f] {
					roots = append(roots, t)
					break
				}
			}
		}
	}
	if len(roots) != 1 {
		return false, fmt.Sprintf("accessors are reachable from %d goroutine entry functions (%s)", len(roots), names(roots))
	}
	region := p.Reach(l, roots[0])
	allocs := p.Allocs(T)
	if len(allocs) == 0 {
		return false, "no allocation site"
	}
	for _, a := range allocs {
		if p.IsTestSupport(a.Fn) {
			continue
		}
		if !region[a.Fn] {
			return false, "objects are also allocated outside the goroutine at " + p.IPos(a.Ins)
		}
	}
	return true, fmt.Sprintf("all accessors and all allocation sites are reachable only from goroutine entry %s", short(roots[0]))
}

// ruleAtomic: every function that acquires a lock class guarding shared state acquires it exactly once.
// only (if non-nil) restricts to the given functions.
func ruleAtomic(c *Ctx, rule string, only map[string]bool) {
	p, l := c.P, c.L()
	n := 0
	for _, f := range p.Fns {
		if only != nil && !only[short(f)] {
			continue
		}
		if p.IsTestSupport(f) {
			continue
		}
		count := map[string]int{}
		var at ssa.Instruction
		for _, cl := range eng.Calls(f) {
			if op := l.AsLockOp(cl.Common()); op != nil && (op.Kind == "Lock" || op.Kind == "RLock") {
				count[op.Class]++
				at = cl
			}
		}
		for cls, k := range count {
			if strings.HasPrefix(cls, mainPkg+".") {
				continue
			}
			n++
			c.CheckAt(rule, short(f)+":"+cls, at, k == 1, fmt.Sprintf("the function acquires %s %d times: state examined in one critical section is acted on in another (check-then-act across an unlock)", cls, k))
		}
		// accesses to fields guarded by a class this function locks must all be under the lock
		if only != nil {
			for _, b := range f.Blocks {
				for _, ins := range b.Instrs {
					fa, ok := ins.(*ssa.FieldAddr)
					if !ok {
						continue
					}
					t, fl, fv, ok := eng.FieldOf(fa)
					if !ok || isSyncType(fv.Type()) {
						continue
					}
					mutable := false
					for _, st := range p.FieldStores(t, fl) {
						if !st.Fresh {
							mutable = true
						}
					}
					if !mutable {
						continue // immutable after construction: may be read anywhere
					}
					for cls := range count {
						if strings.HasPrefix(cls, t+".") {
							c.CheckAt(rule, short(f)+":"+t+"."+fl+":inside-critical-section", fa, l.Held(fa).Has(cls), "field of the locked object accessed outside the critical section")
						}
					}
				}
			}
		}
	}
	if only == nil {
		c.Floor(rule, "lock acquisitions examined", n, 20)
	}
}

// ruleLookupAcquire (C19.ATOMIC): a shared listener looked up in (or added to) a manager's table is acquired inside the
// critical section that looked it up. The last release of a shared listener removes it from the table; an Acquire that
// runs after the manager lock was dropped can re-open a listener that has just been removed, and the next lookup then
// creates a second listener for the same address — an outcome no sequential order of Listen/Close calls produces.
func ruleLookupAcquire(c *Ctx, rule string) {
	p, l := c.P, c.L()
	n := 0
	seenAcq := map[ssa.CallInstruction]bool{}
	for _, m := range findMultiListeners(c, rule) {
		// the manager types: structs with a map whose values are (interfaces implemented by / pointers to) this listener type
		mgr := map[string]bool{}
		for path, pkg := range p.AllPkgs {
			if pkg.Types == nil || !strings.HasPrefix(path, eng.Mod) {
				continue
			}
			sc := pkg.Types.Scope()
			for _, name := range sc.Names() {
				tn, ok := sc.Lookup(name).(*types.TypeName)
				if !ok {
					continue
				}
				st, ok := tn.Type().Underlying().(*types.Struct)
				if !ok {
					continue
				}
				hasMu, hasMap := false, false
				for i := 0; i < st.NumFields(); i++ {
					ft := st.Field(i).Type()
					if ts := strings.TrimPrefix(ft.String(), "*"); ts == "sync.Mutex" || ts == "sync.RWMutex" {
						hasMu = true // by value, or shared through a pointer by the copies of a value-type manager
					}
					if mt, ok := ft.Underlying().(*types.Map); ok {
						et := mt.Elem()
						if eng.TypeName(et) == m.T {
							hasMap = true
						} else if it, ok := et.Underlying().(*types.Interface); ok {
							if lt := p.LookupType(m.T); lt != nil && (types.Implements(types.NewPointer(lt), it) || types.Implements(lt, it)) {
								hasMap = true
							}
						}
					}
				}
				if hasMu && hasMap {
					mgr[eng.Short(path+"."+name)] = true
				}
			}
		}
		if len(mgr) == 0 {
			continue
		}
		for _, f := range p.Fns {
			if p.IsTestSupport(f) {
				continue
			}
			r := eng.Root(f)
			if r.Signature.Recv() == nil || !mgr[eng.TypeName(r.Signature.Recv().Type())] {
				continue
			}
			mt := eng.TypeName(r.Signature.Recv().Type())
			var calls []ssa.CallInstruction
			for _, g := range regionFns(c, f, nil, 2) {
				// the method itself and the helpers it calls (a generic acquireShared(listeners, addr, newShared))
				if g != f && g.Signature.Recv() != nil {
					// methods of other types are judged on their own — except those of a named map type (the manager's
					// table with a lookup-or-create method): a map has no lock of its own, its methods run in the owner's section
					if _, isMap := g.Signature.Recv().Type().Underlying().(*types.Map); !isMap {
						continue
					}
				}
				calls = append(calls, eng.Calls(g)...)
			}
			for _, cl := range calls {
				if seenAcq[cl] {
					continue
				}
				hit := false
				for _, h := range p.Callees(cl) {
					if h == m.acquire {
						hit = true
					}
				}
				if !hit {
					continue
				}
				seenAcq[cl] = true
				n++
				held := l.Held(cl)
				ok := false
				// the classes of the manager's own lock: its mutex field, or — for a mutex held through a pointer field — whatever
				// class the lock operations on that field resolve to
				mgrClass := map[string]bool{}
				for _, g := range regionFns(c, f, nil, 2) {
					for _, lc := range eng.Calls(g) {
						op := l.AsLockOp(lc.Common())
						if op == nil || len(lc.Common().Args) == 0 {
							continue
						}
						recv := lc.Common().Args[0]
						if u, isU := recv.(*ssa.UnOp); isU {
							recv = u.X
						}
						if fa, isFA := recv.(*ssa.FieldAddr); isFA {
							if t, _, _, okT := eng.FieldOf(fa); okT && t == mt {
								mgrClass[op.Class] = true
							}
						}
					}
				}
				for k := range held {
					if strings.HasPrefix(k, mt+".") || mgrClass[k] {
						ok = true
					}
				}
				c.CheckAt(rule, short(cl.Parent())+":acquires-under-the-manager-lock:"+m.T, cl, ok, fmt.Sprintf("%s acquires a shared listener outside the manager's critical section (held: %s): the listener can be released — and dropped from the table — between its lookup and this Acquire", short(f), held))
			}
		}
	}
	c.Floor(rule, "Acquire calls made by listener-manager methods", n, 2)
}

// mapRefUses: the instructions that touch the map behind v (a loaded map reference) in v's own function: lookups, updates,
// delete/len/clear builtins, and every Next of a range over it. Phi-merged and re-assigned copies are followed.
func mapRefUses(v ssa.Value) []ssa.Instruction {
	var out []ssa.Instruction
	seen := map[ssa.Value]bool{}
	var walk func(x ssa.Value)
	walk = func(x ssa.Value) {
		if seen[x] || x.Referrers() == nil {
			return
		}
		seen[x] = true
		for _, r := range *x.Referrers() {
			switch u := r.(type) {
			case *ssa.Lookup:
				if u.X == x {
					out = append(out, u)
				}
			case *ssa.MapUpdate:
				if u.Map == x {
					out = append(out, u)
				}
			case *ssa.Range:
				if u.Referrers() != nil {
					for _, n := range *u.Referrers() {
						if nx, ok := n.(*ssa.Next); ok {
							out = append(out, nx)
						}
					}
				}
			case *ssa.Call:
				if b, ok := u.Call.Value.(*ssa.Builtin); ok && (b.Name() == "delete" || b.Name() == "len" || b.Name() == "clear") && len(u.Call.Args) > 0 && u.Call.Args[0] == x {
					out = append(out, u)
				}
			case *ssa.Phi:
				walk(u)
			case *ssa.ChangeType:
				walk(u)
			}
		}
	}
	walk(v)
	return out
}

// lockClassPkg: the package part of a lock class "pkg/path.Type.field" ("" for local:/global: classes).
func lockClassPkg(k string) string {
	if strings.HasPrefix(k, "local:") || strings.HasPrefix(k, "global:") || strings.HasPrefix(k, "?") || strings.HasPrefix(k, "*") {
		return ""
	}
	i := strings.LastIndex(k, ".")
	if i < 0 {
		return ""
	}
	j := strings.LastIndex(k[:i], ".")
	if j < 0 {
		return ""
	}
	return k[:j]
}
