package rules

import (
	"fmt"
	"go/token"
	"go/types"
	"sort"

	"golang.org/x/tools/go/ssa"

	"verif/internal/eng"
)

// A small linear domain for one question only: when the upper bound of a slice expression contains the byte count n of a
// read into a buffer B that is itself a window x[lo:] of the sliced operand x, the largest value the bound can take is the
// bound with n replaced by len(B). That value must not exceed cap(x); what is added on top of "window start + bytes read"
// (a tag size, a header length) can push it past the end of the buffer exactly when the read fills the window — i.e. for
// the largest datagrams only, which no test sends.

type linForm struct {
	k    int64
	syms map[ssa.Value]int64
}

func newLin() *linForm { return &linForm{syms: map[ssa.Value]int64{}} }

func (a *linForm) add(b *linForm, sign int64) {
	a.k += sign * b.k
	for s, c := range b.syms {
		a.syms[s] += sign * c
		if a.syms[s] == 0 {
			delete(a.syms, s)
		}
	}
}

// lin: linear form of an integer SSA value over opaque symbols; readn[n] substitutes the length of the read's buffer.
func (c *Ctx) lin(v ssa.Value, subst bool, d int) *linForm {
	p := c.P
	out := newLin()
	if d > 24 {
		out.syms[v] = 1
		return out
	}
	v = p.Resolve(v)
	switch x := v.(type) {
	case *ssa.Const:
		if k, ok := eng.ConstInt(x); ok {
			out.k = k
			return out
		}
	case *ssa.BinOp:
		switch x.Op {
		case token.ADD:
			out.add(c.lin(x.X, subst, d+1), 1)
			out.add(c.lin(x.Y, subst, d+1), 1)
			return out
		case token.SUB:
			out.add(c.lin(x.X, subst, d+1), 1)
			out.add(c.lin(x.Y, subst, d+1), -1)
			return out
		}
	case *ssa.Convert:
		if isIntType(x.X.Type()) {
			return c.lin(x.X, subst, d+1)
		}
	case *ssa.ChangeType:
		return c.lin(x.X, subst, d+1)
	case *ssa.Call:
		if b, ok := x.Call.Value.(*ssa.Builtin); ok && (b.Name() == "len" || b.Name() == "cap") {
			return c.linLen(x.Call.Args[0], b.Name() == "cap", subst, d+1)
		}
	case *ssa.Extract:
		if subst {
			// the byte count of a read (directly, or through a read helper): at most the length of the buffer read into
			for _, lf := range c.boundLeaves(x) {
				if lf.kind == "readn" && lf.v == ssa.Value(x) && lf.of != nil {
					return c.linLen(lf.of, false, subst, d+1)
				}
			}
		}
	}
	out.syms[v] = 1
	return out
}

// linLen: len (or cap) of a byte-slice value as a linear form.
func (c *Ctx) linLen(v ssa.Value, isCap, subst bool, d int) *linForm {
	p := c.P
	out := newLin()
	v = p.Resolve(v)
	if d > 24 {
		out.syms[v] = 1
		return out
	}
	switch x := v.(type) {
	case *ssa.MakeSlice:
		if isCap && x.Cap != nil {
			return c.lin(x.Cap, subst, d+1)
		}
		return c.lin(x.Len, subst, d+1)
	case *ssa.Alloc:
		if pt, ok := x.Type().Underlying().(*types.Pointer); ok {
			if at, ok := pt.Elem().Underlying().(*types.Array); ok {
				out.k = at.Len()
				return out
			}
		}
	case *ssa.Slice:
		// len(x[lo:hi]) = hi - lo ; cap(x[lo:hi]) = cap(x) - lo ; missing hi = len(x)
		if isCap {
			out.add(c.linLen(x.X, true, subst, d+1), 1)
		} else if x.High != nil {
			out.add(c.lin(x.High, subst, d+1), 1)
		} else {
			out.add(c.linLen(x.X, false, subst, d+1), 1)
		}
		if x.Low != nil {
			out.add(c.lin(x.Low, subst, d+1), -1)
		}
		return out
	}
	// opaque: one symbol per (value, len/cap); cap is represented by the value itself wrapped, len by the value
	out.syms[v] = 1
	return out
}

// readnUpperOK: see the comment at the top. Returns ok=false only when a definite surplus is found.
func (c *Ctx) readnUpperOK(s *ssa.Slice) (bool, string) {
	if s.High == nil {
		return true, ""
	}
	hasReadn := false
	for _, lf := range c.boundLeaves(s.High) {
		if lf.kind == "readn" {
			hasReadn = true
		}
	}
	if !hasReadn {
		return true, ""
	}
	up := c.lin(s.High, true, 0)
	up.add(c.linLen(s.X, true, true, 0), -1)
	// up = max(high) - cap(x): must be <= 0. Symbols left with a positive coefficient that are sizes (known >= 0) are a surplus.
	var surplus []string
	for sym, k := range up.syms {
		if k <= 0 {
			continue
		}
		kind := "other"
		for _, lf := range c.boundLeaves(sym) {
			kind = lf.kind
		}
		if kind == "trusted" || kind == "len" || kind == "const" {
			surplus = append(surplus, fmt.Sprintf("+%d×%s", k, valStr(c.P, sym)))
		} else {
			return true, "" // not decidable in this domain: left to the leaf rule
		}
	}
	sort.Strings(surplus)
	if len(surplus) == 0 && up.k <= 0 {
		return true, ""
	}
	if len(surplus) == 0 && len(up.syms) > 0 {
		return true, "" // only negative-coefficient symbols besides a positive constant: not decidable here
	}
	return false, fmt.Sprintf("when the read fills its buffer the upper bound exceeds the capacity of the sliced buffer by %d %v: the slice expression panics for the largest inputs only", up.k, surplus)
}
