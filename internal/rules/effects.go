package rules

import (
	"go/token"
	"go/types"
	"strings"

	"golang.org/x/tools/go/ssa"

	"verif/internal/eng"
)

// Conservative effect model for "nothing is written / no one is contacted before ..." queries (DESIGN.md §2).

type effect int

const (
	effAllowed effect = iota
	effDenied
	effRepo    // resolved to repo functions: recurse
	effUnknown // external callee not on the effect-free list
)

var allowedPkgPrefixes = []string{
	"bytes", "errors", "strings", "strconv", "sort", "math", "time", "context", "sync", "sync/atomic", "container/list",
	"net/netip", "encoding/", "crypto/", "hash/", "log/slog", "unicode", "slices", "maps", "runtime/debug",
	"github.com/prometheus/client_golang/prometheus", "golang.org/x/crypto/",
}

var allowedExact = map[string]bool{
	"io.ReadFull": true, "io.MultiReader": true, "io.ReadAtLeast": true, "io.LimitReader": true,
	"fmt.Sprintf": true, "fmt.Sprint": true, "fmt.Sprintln": true, "fmt.Errorf": true,
	"sdk/shadowsocks.Unpack": true, "sdk/shadowsocks.NewReader": true, "sdk/shadowsocks.NewWriter": true,
	"(*sdk/shadowsocks.Writer).SetSaltGenerator": true, "(*sdk/shadowsocks.EncryptionKey).SaltSize": true,
	"(*sdk/shadowsocks.EncryptionKey).TagSize": true, "sdk/transport.WrapConn": true,
	"(*net.TCPAddr).AddrPort": true, "(*net.UDPAddr).AddrPort": true, "net.SplitHostPort": true, "net.ParseIP": true, "net.JoinHostPort": true,
	"(net.IP).String": true, "(net.IP).IsGlobalUnicast": true, "(*net.IPNet).Contains": true,
	"builtin.len": true, "builtin.cap": true, "builtin.copy": true, "builtin.append": true, "builtin.delete": true, "builtin.recover": true,
	"builtin.panic": true, "builtin.print": true, "builtin.println": true, "builtin.min": true, "builtin.max": true, "builtin.close": true,
}

// read-only / local methods allowed on connections and addresses (by method name on any interface or concrete receiver outside the repo)
var allowedMethods = map[string]bool{
	"Read": true, "RemoteAddr": true, "LocalAddr": true, "SetDeadline": true, "SetReadDeadline": true, "String": true, "Network": true,
	"Error": true, "Unwrap": true, "Timeout": true, "Temporary": true, "Deadline": true, "Value": true, "Enabled": true,
	"AddrPort": true, "Addr": true, "Port": true, "IsValid": true,
}

// denied method names: anything that writes to, closes or reconfigures the sending side of a connection, or dials/listens
var deniedMethods = map[string]bool{
	"Write": true, "WriteString": true, "ReadFrom": true, "WriteTo": true, "CloseWrite": true, "CloseRead": true, "Close": true,
	"SetLinger": true, "SetWriteDeadline": true, "SetNoDelay": true, "SetKeepAlive": true,
	"DialStream": true, "DialPacket": true, "Dial": true, "DialContext": true, "DialTCP": true, "DialUDP": true, "WriteToUDP": true, "WriteMsgUDP": true,
}

func isDiscard(v ssa.Value) bool {
	// io.Discard global, possibly converted to io.Writer
	for i := 0; i < 4; i++ {
		switch x := v.(type) {
		case *ssa.UnOp:
			if x.Op == token.MUL {
				if g, ok := x.X.(*ssa.Global); ok && g.Pkg.Pkg.Path() == "io" && g.Name() == "Discard" {
					return true
				}
			}
			return false
		case *ssa.ChangeInterface:
			v = x.X
		case *ssa.MakeInterface:
			v = x.X
		default:
			return false
		}
	}
	return false
}

// isDrainCall: io.Copy(io.Discard, x).
func isDrainCall(ins ssa.Instruction) (*ssa.Call, bool) {
	c, ok := ins.(*ssa.Call)
	if !ok || eng.CalleeName(&c.Call) != "io.Copy" || len(c.Call.Args) != 2 {
		return nil, false
	}
	return c, isDiscard(c.Call.Args[0])
}

// classify the effect of one call instruction.
func classifyEffect(c *Ctx, cl ssa.CallInstruction) (effect, string) {
	cc := cl.Common()
	name := eng.CalleeName(cc)
	if _, isGo := cl.(*ssa.Go); isGo {
		return effDenied, "starts a goroutine"
	}
	if allowedExact[name] {
		return effAllowed, ""
	}
	switch name {
	case "io.Copy", "io.CopyN", "io.CopyBuffer":
		if isDiscard(cc.Args[0]) {
			return effAllowed, ""
		}
		return effDenied, name + " to a destination other than io.Discard"
	case "io.WriteString", "fmt.Fprintf", "fmt.Fprint", "fmt.Fprintln":
		return effDenied, name + " writes to a writer"
	}
	if strings.HasPrefix(name, "net.Dial") || strings.HasPrefix(name, "net.Listen") || strings.HasPrefix(name, "(*net.Dialer).Dial") || strings.HasPrefix(name, "(*net.ListenConfig).Listen") {
		return effDenied, name + " opens a socket"
	}
	if rc := repoCallees(c, cl); len(rc) > 0 {
		// interface / dynamic calls resolved to repo functions, or static repo callees
		allRepo := true
		for _, f := range c.P.Callees(cl) {
			if !c.P.InRepo(f) {
				allRepo = false
			}
		}
		if allRepo {
			return effRepo, ""
		}
	}
	m := eng.MethodName(cc)
	// package-based allowance for static callees and for interface methods declared in allowed packages
	pkg := ""
	if f := cc.StaticCallee(); f != nil {
		pkg = eng.PkgPathOf(f)
	} else if cc.IsInvoke() {
		if cc.Method.Pkg() != nil {
			pkg = cc.Method.Pkg().Path()
		}
		if n := eng.NamedType(cc.Value.Type()); n != nil && n.Obj().Pkg() != nil {
			pkg = n.Obj().Pkg().Path()
		}
	}
	for _, pre := range allowedPkgPrefixes {
		if pkg == strings.TrimSuffix(pre, "/") || strings.HasPrefix(pkg, pre) && (strings.HasSuffix(pre, "/") || len(pkg) == len(pre) || pkg[len(pre)] == '/') {
			return effAllowed, ""
		}
	}
	if m != "" {
		if deniedMethods[m] {
			// receiver io.Discard exempt
			if r := eng.Receiver(cc); r != nil && isDiscard(r) {
				return effAllowed, ""
			}
			return effDenied, "calls " + name
		}
	}
	if m != "" && allowedMethods[m] {
		return effAllowed, ""
	}
	if len(repoCallees(c, cl)) > 0 {
		return effRepo, ""
	}
	if cc.StaticCallee() == nil && !cc.IsInvoke() {
		if _, isB := cc.Value.(*ssa.Builtin); !isB {
			// dynamic call with no resolved callee
			if len(c.P.Callees(cl)) == 0 {
				return effUnknown, "dynamic call with no resolved callee: " + name
			}
		}
	}
	return effUnknown, "external callee with unknown effect: " + name
}

// effectFinding is a denied or unknown effect found in a region.
type effectFinding struct {
	fn    *ssa.Function
	ins   ssa.Instruction
	eff   effect
	why   string
	chain []string
}

// regionEffects walks the repo functions reachable from roots (through calls classified effRepo) and reports every denied or unknown effect.
func regionEffects(c *Ctx, roots []*ssa.Function) (findings []effectFinding, fns []*ssa.Function) {
	seen := map[*ssa.Function]bool{}
	var walk func(f *ssa.Function, chain []string)
	walk = func(f *ssa.Function, chain []string) {
		if seen[f] {
			return
		}
		seen[f] = true
		fns = append(fns, f)
		chain = append(chain, short(f))
		for _, cl := range eng.Calls(f) {
			if d, isDefer := cl.(*ssa.Defer); isDefer {
				_ = d
			}
			e, why := classifyEffect(c, cl)
			switch e {
			case effDenied, effUnknown:
				findings = append(findings, effectFinding{f, cl, e, why, append([]string{}, chain...)})
			case effRepo:
				for _, g := range repoCallees(c, cl) {
					walk(g, chain)
				}
				// closures passed as arguments to repo functions are covered when called
			}
		}
		// function literals created here and handed to external callees (e.g. sync.Once.Do) run synchronously
		for _, cl := range eng.Calls(f) {
			for _, a := range cl.Common().Args {
				if mc, ok := a.(*ssa.MakeClosure); ok {
					if g, ok := mc.Fn.(*ssa.Function); ok && c.P.InRepo(g) {
						walk(g, chain)
					}
				}
			}
		}
	}
	for _, r := range roots {
		walk(r, nil)
	}
	return
}

// implementsConn reports whether t implements net.Conn or io.Writer (used for receiver typing of denied methods).
func implementsConn(c *Ctx, t types.Type) bool {
	return c.P.Implements(t, c.P.Iface("net", "Conn")) || c.P.Implements(t, c.P.Iface("io", "Writer"))
}
