package rules

import (
	"fmt"
	"go/token"
	"go/types"

	"golang.org/x/tools/go/ssa"

	"verif/internal/eng"
)

// NILUSE (part of C18.PANICS): a value returned next to an error is meaningful only when the error is nil — for the io and net
// interfaces of this code base a failed ReadFrom returns a nil address. In the regions that no recover frame protects, every
// place where such a co-result may be dereferenced (method call on a nil interface, pointer dereference, or a callee / closure
// that does one of these without testing for nil first) must lie behind the call's err == nil edge or behind a nil test of
// the value itself.

type nilUse struct {
	c    *Ctx
	memo map[nuKey][]ssa.Instruction
}

type nuKey struct {
	fn *ssa.Function
	v  ssa.Value
}

func nilable(t types.Type) bool {
	switch t.Underlying().(type) {
	case *types.Interface, *types.Pointer:
		return true
	}
	return false
}

func protectedIns(ins ssa.Instruction) bool {
	for _, d := range eng.RecoverDefers(ins.Parent()) {
		if ssa.Instruction(d) != ins && eng.Dominates(d, ins) {
			return true
		}
	}
	return false
}

// flows: the values of fn that hold v (copies through phis and through local cells), and the cells v was stored into.
func (n *nilUse) flows(fn *ssa.Function, v ssa.Value) ([]ssa.Value, []*ssa.Alloc) {
	seen := map[ssa.Value]bool{}
	var vals []ssa.Value
	var cells []*ssa.Alloc
	var add func(w ssa.Value)
	add = func(w ssa.Value) {
		if w == nil || seen[w] {
			return
		}
		seen[w] = true
		vals = append(vals, w)
		refs := w.Referrers()
		if refs == nil {
			return
		}
		for _, r := range *refs {
			switch u := r.(type) {
			case *ssa.Phi:
				add(u)
			case *ssa.ChangeInterface:
				add(u)
			case *ssa.ChangeType:
				add(u)
			case *ssa.Store:
				if u.Val != w {
					continue
				}
				cell := eng.CellRoot(u.Addr)
				if cell == nil {
					continue
				}
				cells = append(cells, cell)
				for _, g := range eng.Family(cell.Parent()) {
					if g != fn {
						continue
					}
					for _, b := range g.Blocks {
						for _, ins := range b.Instrs {
							if l, ok := ins.(*ssa.UnOp); ok && l.Op == token.MUL && eng.CellRoot(l.X) == cell {
								add(l)
							}
						}
					}
				}
			}
		}
	}
	add(v)
	return vals, cells
}

// derefSites: instructions of fn at which v may be dereferenced while nil, not protected by a recover frame of fn and not behind
// a nil test of v in fn.
func (n *nilUse) derefSites(fn *ssa.Function, v ssa.Value, depth int) []ssa.Instruction {
	k := nuKey{fn, v}
	if s, ok := n.memo[k]; ok {
		return s
	}
	n.memo[k] = nil
	if depth > 5 {
		return nil
	}
	p := n.c.P
	vals, cells := n.flows(fn, v)
	isV := map[ssa.Value]bool{}
	for _, w := range vals {
		isV[w] = true
	}
	var sites []ssa.Instruction
	for _, w := range vals {
		refs := w.Referrers()
		if refs == nil {
			continue
		}
		for _, r := range *refs {
			switch u := r.(type) {
			case ssa.CallInstruction:
				cc := u.Common()
				if cc.IsInvoke() && cc.Value == w {
					sites = append(sites, u)
					continue
				}
				g := cc.StaticCallee()
				if g == nil || !p.InRepo(g) || len(g.Blocks) == 0 {
					continue
				}
				for i, a := range cc.Args {
					if a == w && i < len(g.Params) && len(n.derefSites(g, g.Params[i], depth+1)) > 0 {
						sites = append(sites, u)
					}
				}
			case *ssa.UnOp:
				if u.Op == token.MUL && u.X == w {
					sites = append(sites, u)
				}
			case *ssa.FieldAddr:
				if u.X == w {
					sites = append(sites, u)
				}
			case *ssa.TypeAssert:
				if !u.CommaOk && u.X == w {
					sites = append(sites, u)
				}
			}
		}
	}
	// closures created in fn that capture a cell holding v and dereference it
	for _, b := range fn.Blocks {
		for _, ins := range b.Instrs {
			mc, ok := ins.(*ssa.MakeClosure)
			if !ok {
				continue
			}
			h, ok := mc.Fn.(*ssa.Function)
			if !ok {
				continue
			}
			for j, bd := range mc.Bindings {
				hit := false
				for _, cell := range cells {
					if eng.CellRoot(bd) == cell {
						hit = true
					}
				}
				if !hit || j >= len(h.FreeVars) {
					continue
				}
				fv := h.FreeVars[j]
				if fv.Referrers() == nil {
					continue
				}
				for _, r := range *fv.Referrers() {
					if l, ok := r.(*ssa.UnOp); ok && l.Op == token.MUL {
						if len(n.derefSites(h, l, depth+1)) > 0 {
							sites = append(sites, mc)
						}
					}
				}
			}
		}
	}
	// drop what is protected or behind a nil test of the value
	_, nonNil := p.NilEdges(fn, func(x ssa.Value) bool { return isV[x] })
	var out []ssa.Instruction
	for _, s := range sites {
		if protectedIns(s) {
			continue
		}
		if len(nonNil) > 0 && eng.Cut(fn, s.Block(), nonNil) {
			continue
		}
		out = append(out, s)
	}
	n.memo[k] = out
	return out
}

// ruleNilUse runs the check over the given (unprotected-region) functions; returns the number of obligations.
func ruleNilUse(c *Ctx, fns []*ssa.Function) int {
	n := &nilUse{c: c, memo: map[nuKey][]ssa.Instruction{}}
	p := c.P
	nOb := 0
	for _, f := range fns {
		for _, cl := range eng.Calls(f) {
			call, ok := cl.(*ssa.Call)
			if !ok {
				continue
			}
			sig := call.Call.Signature()
			ei := errorResultIndex(sig)
			if ei < 0 || sig.Results().Len() < 2 {
				continue
			}
			refs := call.Referrers()
			if refs == nil {
				continue
			}
			// the other calls of the same callee in f: `for c, err := g(); …; c, err = g()` tests a phi of their errors
			var sibs []ssa.CallInstruction
			for _, o := range eng.Calls(f) {
				if oc, isC := o.(*ssa.Call); isC && oc != call && eng.CalleeName(&oc.Call) == eng.CalleeName(&call.Call) && types.Identical(oc.Call.Signature(), sig) {
					sibs = append(sibs, oc)
				}
			}
			succ, _ := p.SuccessEdgesSib(f, []ssa.CallInstruction{call}, sibs, ei)
			for _, r := range *refs {
				ex, ok := r.(*ssa.Extract)
				if !ok || ex.Index == ei || !nilable(ex.Type()) {
					continue
				}
				sites := n.derefSites(f, ex, 0)
				nOb++
				var bad ssa.Instruction
				for _, s := range sites {
					if len(succ) > 0 && eng.Cut(f, s.Block(), succ) {
						continue
					}
					bad = s
				}
				c.CheckAt("PANICS", fmt.Sprintf("%s:result-of-%s-used-only-on-success", short(f), eng.CalleeName(&call.Call)), call, bad == nil, func() string {
					if bad == nil {
						return ""
					}
					return fmt.Sprintf("result %d of this call (nil when the call fails) is dereferenced at %s on a path not behind err == nil, outside any recover frame: a failed call (timeout, closed socket) crashes the process", ex.Index, p.IPos(bad))
				}())
			}
		}
	}
	return nOb
}

// ruleNeverSetField (seed C06-u1): a call through an interface- or func-typed struct field that no production code ever
// stores to — not in any composite literal, constructor or setter — is a call on nil on every execution that reaches it,
// unless it sits behind a nil test of that field. Contradiction rule: the field is declared and used, but never given a
// value. (A collector field added for one label value but initialised for the other panics on the first failed key search;
// the handler's recover frame then closes the probe's connection at once.)
func ruleNeverSetField(c *Ctx, rule string) {
	p := c.P
	n := 0
	for _, f := range p.Fns {
		if p.IsTestSupport(f) {
			continue
		}
		for _, cl := range eng.Calls(f) {
			cc := cl.Common()
			if cc.StaticCallee() != nil {
				continue
			}
			// the called value, or — `obs := c.a; if found { obs = c.b }; obs.Observe()` — any of the values a phi selects from
			var cands []ssa.Value
			seenV := map[ssa.Value]bool{}
			var collect func(v ssa.Value, d int)
			collect = func(v ssa.Value, d int) {
				if seenV[v] || d > 3 {
					return
				}
				seenV[v] = true
				if ph, isPhi := v.(*ssa.Phi); isPhi {
					for _, e := range ph.Edges {
						collect(e, d+1)
					}
					return
				}
				cands = append(cands, v)
			}
			collect(cc.Value, 0)
			for _, cand := range cands {
				ld, ok := cand.(*ssa.UnOp)
				if !ok || ld.Op != token.MUL {
					continue
				}
				fa, ok := ld.X.(*ssa.FieldAddr)
				if !ok {
					continue
				}
				t, fl, _, ok := eng.FieldOf(fa)
				if !ok || p.LookupType(t) == nil {
					continue
				}
				n++
				stores := 0
				for _, st := range p.FieldStores(t, fl) {
					if !p.IsTestSupport(st.Fn) {
						stores++
					}
				}
				if stores > 0 {
					continue
				}
				_, nonNil := p.NilEdges(f, func(x ssa.Value) bool {
					if x == cc.Value {
						return true
					}
					u, ok := x.(*ssa.UnOp)
					if !ok || u.Op != token.MUL {
						return false
					}
					g, ok := u.X.(*ssa.FieldAddr)
					if !ok {
						return false
					}
					t2, f2, _, ok2 := eng.FieldOf(g)
					return ok2 && t2 == t && f2 == fl
				})
				guarded := len(nonNil) > 0 && eng.Cut(f, cl.Block(), nonNil)
				c.CheckAt(rule, fmt.Sprintf("%s:call-through-field-%s.%s-that-is-never-assigned", short(f), t, fl), cl, guarded, fmt.Sprintf("the call goes through field %s.%s, which no production code ever assigns (no composite literal, constructor or setter stores it) and which is not tested against nil on this path: a nil call, i.e. a panic, on every execution that gets here", t, fl))
			}
		}
	}
	c.Floor(rule, "calls through interface/func-typed struct fields examined", n, 10)
}
