package rules

import (
	"go/token"
	"go/types"
	"strings"

	"golang.org/x/tools/go/ssa"

	"verif/internal/eng"
)

// ---------------------------------------------------------------------------------------------
// Regions: a root function plus the helper functions it calls. Rules are phrased over regions with interprocedurally
// lifted queries so that extracting or inlining helpers, or turning closures into methods, does not change a verdict.
// ---------------------------------------------------------------------------------------------

// Region is a root function and the repo functions reachable from it by synchronous calls (bounded depth), minus excluded ones.
type Region struct {
	c       *Ctx
	Root    *ssa.Function
	Fns     []*ssa.Function
	In      map[*ssa.Function]bool
	sitesOf map[*ssa.Function][]ssa.CallInstruction // call sites (inside the region) of each region function
}

// NewRegion builds the region of root. stop decides which callees are NOT entered (other anchors, other packages' internals).
func (c *Ctx) NewRegion(root *ssa.Function, depth int, stop func(*ssa.Function) bool) *Region {
	r := &Region{c: c, Root: root, In: map[*ssa.Function]bool{root: true}, sitesOf: map[*ssa.Function][]ssa.CallInstruction{}}
	r.Fns = []*ssa.Function{root}
	var walk func(f *ssa.Function, d int)
	walk = func(f *ssa.Function, d int) {
		for _, cl := range eng.Calls(f) {
			if _, isGo := cl.(*ssa.Go); isGo {
				continue
			}
			var hs []*ssa.Function
			hs = append(hs, repoCallees(c, cl)...)
			// closures handed to external callees that run them synchronously (sync.Once.Do …)
			if len(hs) == 0 {
				for _, a := range cl.Common().Args {
					if mc, ok := a.(*ssa.MakeClosure); ok {
						if g, ok := mc.Fn.(*ssa.Function); ok && c.P.InRepo(g) {
							hs = append(hs, g)
						}
					}
				}
			}
			for _, h := range hs {
				if len(h.Blocks) == 0 || c.P.IsTestSupport(h) || (stop != nil && stop(h)) {
					continue
				}
				r.sitesOf[h] = append(r.sitesOf[h], cl)
				if r.In[h] || d >= depth {
					continue
				}
				r.In[h] = true
				r.Fns = append(r.Fns, h)
				walk(h, d+1)
			}
		}
	}
	walk(root, 0)
	return r
}

// Calls returns every call instruction (call/defer/go) in the region.
func (r *Region) Calls() []ssa.CallInstruction {
	var out []ssa.CallInstruction
	for _, f := range r.Fns {
		out = append(out, eng.Calls(f)...)
	}
	return out
}

// FindCalls returns the plain calls in the region satisfying pred.
func (r *Region) FindCalls(pred func(name string, call *ssa.Call) bool) []*ssa.Call {
	var out []*ssa.Call
	for _, cl := range r.Calls() {
		if call, ok := cl.(*ssa.Call); ok && pred(eng.CalleeName(&call.Call), call) {
			out = append(out, call)
		}
	}
	return out
}

// Instrs visits every instruction of the region.
func (r *Region) Instrs(visit func(f *ssa.Function, ins ssa.Instruction)) {
	for _, f := range r.Fns {
		for _, b := range f.Blocks {
			for _, ins := range b.Instrs {
				visit(f, ins)
			}
		}
	}
}

// Guard is an interprocedural guard: prim gives, per function, the edges on which the primitive guard is known to have passed;
// helper calls whose every success return lies behind the guard contribute their own success edges.
type Guard struct {
	c    *Ctx
	prim func(fn *ssa.Function) eng.EdgeSet
	memo map[*ssa.Function]int
	emem map[*ssa.Function]eng.EdgeSet
	// errCall (optional): a call whose error-like result idx being nil means the primitive guard passed (used to see through
	// merged error variables); boolCall (optional): a call whose boolean result being `want` means the guard passed.
	errCall  func(call *ssa.Call) (int, bool)
	boolCall func(call *ssa.Call) bool
	want     bool
}

func (c *Ctx) NewGuard(prim func(fn *ssa.Function) eng.EdgeSet) *Guard {
	return &Guard{c: c, prim: prim, memo: map[*ssa.Function]int{}, emem: map[*ssa.Function]eng.EdgeSet{}}
}

// CallGuard: the guard "a call satisfying isGuard returned a nil error-like result errIdx".
func (c *Ctx) CallGuard(isGuard func(call *ssa.Call) (int, bool)) *Guard {
	g := c.callGuard0(isGuard)
	g.errCall = isGuard
	return g
}

func (c *Ctx) callGuard0(isGuard func(call *ssa.Call) (int, bool)) *Guard {
	return c.NewGuard(func(fn *ssa.Function) eng.EdgeSet {
		out := eng.EdgeSet{}
		for _, cl := range eng.Calls(fn) {
			if call, ok := cl.(*ssa.Call); ok {
				if ei, ok := isGuard(call); ok {
					s, _ := c.P.SuccessEdges(fn, []ssa.CallInstruction{call}, ei)
					out = eng.Union(out, s)
				}
			}
		}
		return out
	})
}

// BoolGuard: the guard "a call satisfying isCall returned want".
func (c *Ctx) BoolGuard(isCall func(call *ssa.Call) bool, want bool) *Guard {
	g := c.boolGuard0(isCall, want)
	g.boolCall, g.want = isCall, want
	return g
}

func (c *Ctx) boolGuard0(isCall func(call *ssa.Call) bool, want bool) *Guard {
	return c.NewGuard(func(fn *ssa.Function) eng.EdgeSet {
		t, f := eng.BoolEdges(fn, func(v ssa.Value) bool {
			call, ok := v.(*ssa.Call)
			return ok && isCall(call)
		})
		if want {
			return t
		}
		return f
	})
}

// passKind classifies a return of a helper as pass (nil / true / "" / zero last result) or fail.
func passReturn(p *eng.Prog, r *ssa.Return) string {
	if len(r.Results) == 0 {
		return "void"
	}
	last := r.Results[len(r.Results)-1]
	if rv := p.ReachingStore(last, r); rv != nil {
		last = rv
	}
	if cst, ok := last.(*ssa.Const); ok {
		if cst.Value == nil {
			return "pass" // nil
		}
		switch cst.Value.ExactString() {
		case "true":
			return "pass"
		case "false":
			return "fail"
		case `""`:
			return "pass"
		}
		return "fail"
	}
	return "fail" // non-constant error-like value: treated as failure return
}

// Establishes: every pass return of helper h lies behind the guard (inside h, deeply).
func (g *Guard) Establishes(h *ssa.Function) bool {
	switch g.memo[h] {
	case 1:
		return true
	case 2, 3:
		return false
	}
	g.memo[h] = 3
	edges := g.Edges(h)
	ok := true
	n := 0
	if ok {
		for _, r := range eng.Returns(h) {
			if r.Block().Comment == "recover" {
				continue
			}
			if len(r.Results) == 0 {
				ok = false
				continue
			}
			last := r.Results[len(r.Results)-1]
			if rv := g.c.P.ReachingStore(last, r); rv != nil {
				last = rv
			}
			switch passReturn(g.c.P, r) {
			case "fail":
				_, isConst := last.(*ssa.Const)
				if isConst || g.c.P.DefinitelyNonNil(last, r) {
					continue // a failure return
				}
				// non-constant result: may be a pass
				if last.Type().String() == "bool" && g.boolCall != nil {
					if g.boolOnlyBehind(last, 0) {
						n++
					} else if eng.Cut(h, r.Block(), edges) {
						n++
					} else {
						ok = false
					}
					continue
				}
				n++
				if !eng.Cut(h, r.Block(), edges) && !g.isPassingErr(last, h) && !g.phiPassesOnlyBehind(last, h, edges) {
					ok = false
				}
			default:
				n++
				if !eng.Cut(h, r.Block(), edges) {
					ok = false
				}
			}
		}
	}
	if n == 0 {
		ok = false
	}
	if ok {
		g.memo[h] = 1
	} else {
		g.memo[h] = 2
	}
	return ok
}

// phiPassesOnlyBehind: the result is a merged variable (single exit, `return x, connErr`): every incoming value is either
// definitely an error, or the nil constant arriving over an edge that lies behind the guard.
func (g *Guard) phiPassesOnlyBehind(v ssa.Value, h *ssa.Function, edges eng.EdgeSet) bool {
	ph, ok := v.(*ssa.Phi)
	if !ok || len(edges) == 0 {
		return false
	}
	p := g.c.P
	for i, ev := range ph.Edges {
		pred := ph.Block().Preds[i]
		behind := edges[eng.Edge{From: pred, To: ph.Block()}] || eng.Cut(h, pred, edges)
		switch x := ev.(type) {
		case *ssa.Const:
			if x.IsNil() && !behind {
				return false
			}
		case *ssa.Phi:
			if !g.phiPassesOnlyBehind(x, h, edges) && !behind {
				return false
			}
		case *ssa.Call:
			if behind {
				continue
			}
			n := eng.CalleeName(&x.Call)
			if n == "fmt.Errorf" || n == "errors.New" || strings.HasSuffix(n, ".NewConnectionError") {
				continue
			}
			// a wrapper applied to an error on that error's non-nil edge
			nonNil := false
			for _, a := range x.Call.Args {
				if !types.Identical(a.Type(), types.Universe.Lookup("error").Type()) {
					continue
				}
				_, nn := p.NilEdges(h, func(y ssa.Value) bool { return y == a })
				if len(nn) > 0 && (eng.Cut(h, pred, nn) || nn[eng.Edge{From: pred, To: ph.Block()}]) {
					nonNil = true
				}
			}
			if !nonNil {
				return false
			}
		default:
			if !behind {
				return false
			}
		}
	}
	return true
}

// Edges: guard-passed edges in fn (primitive + through establishing helpers: error-like nil, bool true, "" string results).
func (g *Guard) Edges(fn *ssa.Function) eng.EdgeSet {
	if e, ok := g.emem[fn]; ok {
		return e
	}
	out := eng.Union(g.prim(fn))
	g.emem[fn] = out // cycle guard: partial
	for _, cl := range eng.Calls(fn) {
		call, ok := cl.(*ssa.Call)
		if !ok {
			continue
		}
		h := singleRepoCallee(g.c, call)
		if h == nil || h == fn {
			continue
		}
		// a forwarder that returns the guard call's own answer (`func (e *Entry) issuedSalt(s) bool { return e.gen.IsServerSalt(s) }`):
		// its call is the guard call
		if g.boolCall != nil && h.Signature.Results().Len() == 1 && h.Signature.Results().At(0).Type().String() == "bool" && len(h.Blocks) > 0 {
			fwd, nr := true, 0
			for _, r := range eng.Returns(h) {
				nr++
				gc, isCall := g.c.P.Resolve(retVal(g.c.P, r)).(*ssa.Call)
				if !isCall || !g.boolCall(gc) {
					fwd = false
				}
			}
			if fwd && nr > 0 {
				t, f := eng.BoolEdges(fn, func(v ssa.Value) bool { return v == ssa.Value(call) })
				if g.want {
					out = eng.Union(out, t)
				} else {
					out = eng.Union(out, f)
				}
				continue
			}
		}
		if !g.Establishes(h) {
			continue
		}
		sig := h.Signature
		n := sig.Results().Len()
		if n == 0 {
			continue
		}
		last := sig.Results().At(n - 1).Type()
		switch {
		case errLikeResultIndex(sig) >= 0:
			s, _ := g.c.P.SuccessEdges(fn, []ssa.CallInstruction{call}, n-1)
			out = eng.Union(out, s)
		case last.String() == "bool":
			var rv ssa.Value = call
			if n > 1 {
				for _, r := range *call.Referrers() {
					if ex, ok := r.(*ssa.Extract); ok && ex.Index == n-1 {
						rv = ex
					}
				}
			}
			t, _ := eng.BoolEdges(fn, func(v ssa.Value) bool { return v == rv })
			out = eng.Union(out, t)
		case last.String() == "string":
			// status == "" means pass
			for _, b := range fn.Blocks {
				iff, ok := b.Instrs[len(b.Instrs)-1].(*ssa.If)
				if !ok {
					continue
				}
				bo, ok := iff.Cond.(*ssa.BinOp)
				if !ok {
					continue
				}
				if s, ok := eng.ConstString(bo.Y); !ok || s != "" {
					continue
				}
				if cc, idx, ok := eng.AsResult(g.c.P.Resolve(bo.X)); !ok || cc != call || idx != n-1 && n > 1 {
					continue
				}
				if bo.Op == token.EQL {
					out[eng.Edge{From: b, To: b.Succs[0]}] = true
				} else if bo.Op == token.NEQ {
					out[eng.Edge{From: b, To: b.Succs[1]}] = true
				}
			}
		}
	}
	// merged error variables: `if x != nil` where x is a phi / multi-store variable all of whose sources are error results
	// of guard calls or of establishing helpers
	for _, b := range fn.Blocks {
		iff, ok := b.Instrs[len(b.Instrs)-1].(*ssa.If)
		if !ok {
			continue
		}
		x, trueNonNil, ok := eng.NilCompare(iff.Cond)
		if !ok {
			continue
		}
		srcs := g.errSources(x, fn)
		if len(srcs) < 2 {
			continue
		}
		all := true
		for _, sv := range srcs {
			if !g.isPassingErr(sv, fn) {
				all = false
			}
		}
		if all {
			e := eng.Edge{From: b, To: b.Succs[1]}
			if !trueNonNil {
				e = eng.Edge{From: b, To: b.Succs[0]}
			}
			out[e] = true
		}
	}
	// a status variable: `if s == K` where s is a phi of constants; the s == K edge is a guard edge when every incoming
	// edge that carries K starts in a block that lies behind the guard (the other incoming values are constants != K)
	base := eng.Union(out)
	for _, b := range fn.Blocks {
		iff, ok := b.Instrs[len(b.Instrs)-1].(*ssa.If)
		if !ok {
			continue
		}
		bo, ok := iff.Cond.(*ssa.BinOp)
		if !ok || (bo.Op != token.EQL && bo.Op != token.NEQ) {
			continue
		}
		ph, isPhi := bo.X.(*ssa.Phi)
		k, isK := bo.Y.(*ssa.Const)
		if !isPhi || !isK || k.Value == nil {
			continue
		}
		okAll, nK := true, 0
		for i, ev := range ph.Edges {
			cst, isC := ev.(*ssa.Const)
			if !isC || cst.Value == nil {
				okAll = false
				break
			}
			if cst.Value.ExactString() != k.Value.ExactString() {
				continue
			}
			nK++
			pred := ph.Block().Preds[i]
			if !(base[eng.Edge{From: pred, To: ph.Block()}] || (len(base) > 0 && eng.Cut(fn, pred, base))) {
				okAll = false
			}
		}
		if !okAll || nK == 0 {
			continue
		}
		if bo.Op == token.EQL {
			out[eng.Edge{From: b, To: b.Succs[0]}] = true
		} else {
			out[eng.Edge{From: b, To: b.Succs[1]}] = true
		}
	}
	g.emem[fn] = out
	return out
}

// errSources expands a tested error value into the values it may hold (phi operands, stores of a local variable).
func (g *Guard) errSources(x ssa.Value, fn *ssa.Function) []ssa.Value {
	var out []ssa.Value
	seen := map[ssa.Value]bool{}
	var walk func(v ssa.Value, d int)
	walk = func(v ssa.Value, d int) {
		if seen[v] || d > 6 {
			return
		}
		seen[v] = true
		switch y := v.(type) {
		case *ssa.Phi:
			for _, e := range y.Edges {
				walk(e, d+1)
			}
		case *ssa.UnOp:
			if y.Op == token.MUL {
				if cell := eng.CellRoot(y.X); cell != nil {
					for _, st := range g.c.P.CellStores(cell) {
						if st.Parent() == fn {
							walk(st.Val, d+1)
						} else {
							out = append(out, st.Val)
						}
					}
					return
				}
			}
			out = append(out, v)
		default:
			out = append(out, v)
		}
	}
	walk(x, 0)
	return out
}

// isPassingErr: v is the error-like result of a primitive guard call or of a helper that establishes the guard (nil ⇒ passed),
// or the nil constant produced on a path that is itself behind the guard.
func (g *Guard) isPassingErr(v ssa.Value, fn *ssa.Function) bool {
	call, idx, ok := eng.AsResult(v)
	if !ok {
		return false
	}
	if g.errCall != nil {
		if ei, ok := g.errCall(call); ok && ei == idx {
			return true
		}
	}
	h := singleRepoCallee(g.c, call)
	if h == nil || h == fn {
		return false
	}
	ei := errLikeResultIndex(h.Signature)
	return ei >= 0 && ei == idx && g.Establishes(h)
}

// boolOnlyBehind: the boolean v can equal g.want only when the guard call returned g.want: the call itself, constants of
// the other polarity, and phis of those.
func (g *Guard) boolOnlyBehind(v ssa.Value, d int) bool {
	if d > 6 {
		return false
	}
	switch y := v.(type) {
	case *ssa.Const:
		if y.Value == nil {
			return false
		}
		isTrue := y.Value.ExactString() == "true"
		return isTrue != g.want
	case *ssa.Call:
		if g.boolCall(y) {
			return true
		}
		if h := singleRepoCallee(g.c, y); h != nil {
			return g.Establishes(h)
		}
		return false
	case *ssa.Phi:
		for _, e := range y.Edges {
			if !g.boolOnlyBehind(e, d+1) {
				return false
			}
		}
		return true
	case *ssa.UnOp:
		if y.Op == token.NOT {
			ng := *g
			ng.want = !g.want
			return ng.boolOnlyBehind(y.X, d+1)
		}
	}
	return false
}

// CutDeep: every path from the region root's entry to instruction ins crosses a guard edge — in ins's own function, or,
// for helper functions, on the way to every call site through which the helper is reached.
func (r *Region) CutDeep(ins ssa.Instruction, g *Guard) bool {
	seen := map[*ssa.Function]bool{}
	var cutTo func(fn *ssa.Function, b *ssa.BasicBlock) bool
	cutTo = func(fn *ssa.Function, b *ssa.BasicBlock) bool {
		if e := g.Edges(fn); len(e) > 0 && eng.Cut(fn, b, e) {
			return true
		}
		if fn == r.Root {
			return false
		}
		if seen[fn] {
			return true // cycle: decided by the other chains
		}
		seen[fn] = true
		defer delete(seen, fn)
		sites := r.sitesOf[fn]
		if len(sites) == 0 {
			return false
		}
		for _, s := range sites {
			if !cutTo(s.Parent(), s.Block()) {
				return false
			}
		}
		return true
	}
	return cutTo(ins.Parent(), ins.Block())
}

// MustPassUp: from pt, every path to the exit of the region root executes a (lifted) match of q: paths leaving a helper
// function continue after each of its call sites in the region.
func (r *Region) MustPassUp(pt eng.Point, q func(ssa.Instruction) bool) (bool, ssa.Instruction) {
	lq := liftMust(r.c, q, nil)
	seen := map[*ssa.Function]bool{}
	var from func(pt eng.Point) (bool, ssa.Instruction)
	from = func(pt eng.Point) (bool, ssa.Instruction) {
		fn := pt.B.Parent()
		if fn == r.Root {
			return eng.MustPass(pt, lq)
		}
		// inside a helper: either satisfied before the helper returns, or after every call site
		if ok, _ := eng.MustPass(pt, lq); ok {
			return true, nil
		}
		if seen[fn] {
			return true, nil
		}
		seen[fn] = true
		defer delete(seen, fn)
		sites := r.sitesOf[fn]
		if len(sites) == 0 {
			return false, nil
		}
		for _, s := range sites {
			if ok, bad := from(eng.After(s)); !ok {
				return false, bad
			}
		}
		return true, nil
	}
	return from(pt)
}

// BeforeDeep: no interprocedural path from the root's entry reaches an instruction matching qb without first executing an
// instruction matching qa. Helper calls inside the region are entered: a helper may itself violate the order, and it
// establishes "a done" for its caller only if every path through it executes a.
func (r *Region) BeforeDeep(qa, qb func(ssa.Instruction) bool) (bool, ssa.Instruction) {
	mustA := r.Must(qa, nil)
	viol := map[*ssa.Function]int{} // 1 = violates, 2 = ok, 3 = in progress
	var bad ssa.Instruction
	var violates func(f *ssa.Function) bool
	explore := func(pt eng.Point) bool {
		found := false
		seen := map[*ssa.BasicBlock]bool{}
		var walkBlock func(b *ssa.BasicBlock, from int)
		walkBlock = func(b *ssa.BasicBlock, from int) {
			if found {
				return
			}
			for i := from; i < len(b.Instrs); i++ {
				ins := b.Instrs[i]
				if qa(ins) {
					return
				}
				if qb(ins) {
					found = true
					if bad == nil {
						bad = ins
					}
					return
				}
				if cl, ok := ins.(*ssa.Call); ok {
					for _, h := range repoCallees(r.c, cl) {
						if r.In[h] && h != r.Root {
							if violates(h) {
								found = true
								return
							}
						}
					}
					if mustA(ins) {
						return
					}
				}
			}
			for _, s := range b.Succs {
				if !seen[s] {
					seen[s] = true
					walkBlock(s, 0)
				}
			}
		}
		walkBlock(pt.B, pt.Idx)
		return found
	}
	violates = func(f *ssa.Function) bool {
		switch viol[f] {
		case 1:
			return true
		case 2, 3:
			return false
		}
		viol[f] = 3
		v := explore(eng.Point{B: f.Blocks[0]})
		if v {
			viol[f] = 1
		} else {
			viol[f] = 2
		}
		return v
	}
	v := violates(r.Root)
	return !v, bad
}

// May lifts q through helper calls that stay inside the region.
func (r *Region) May(q func(ssa.Instruction) bool) func(ssa.Instruction) bool {
	memo := map[*ssa.Function]int{}
	var has func(f *ssa.Function) bool
	has = func(f *ssa.Function) bool {
		switch memo[f] {
		case 1:
			return true
		case 2, 3:
			return false
		}
		memo[f] = 3
		found := false
		for _, b := range f.Blocks {
			for _, ins := range b.Instrs {
				if q(ins) {
					found = true
				}
				if cl, ok := ins.(*ssa.Call); ok && !found {
					for _, h := range repoCallees(r.c, cl) {
						if r.In[h] && h != r.Root && has(h) {
							found = true
						}
					}
				}
			}
		}
		if found {
			memo[f] = 1
		} else {
			memo[f] = 2
		}
		return found
	}
	return func(ins ssa.Instruction) bool {
		if q(ins) {
			return true
		}
		cl, ok := ins.(*ssa.Call)
		if !ok {
			return false
		}
		for _, h := range repoCallees(r.c, cl) {
			if r.In[h] && h != r.Root && has(h) {
				return true
			}
		}
		return false
	}
}

// Must lifts q through helper calls that stay inside the region (every path through the helper matches before any stop).
func (r *Region) Must(q, stop func(ssa.Instruction) bool) func(ssa.Instruction) bool {
	memo := map[*ssa.Function]int{}
	var lifted func(ssa.Instruction) bool
	lifted = func(ins ssa.Instruction) bool {
		if q(ins) {
			return true
		}
		h := singleRepoCallee(r.c, ins)
		if h == nil || !r.In[h] || h == r.Root {
			return false
		}
		switch memo[h] {
		case 1:
			return true
		case 2, 3:
			return false
		}
		memo[h] = 3
		ok, _ := eng.MustPass(eng.Point{B: h.Blocks[0]}, lifted)
		if ok && stop != nil {
			ok, _ = eng.MustPassBefore(eng.Point{B: h.Blocks[0]}, lifted, stop)
		}
		if ok {
			memo[h] = 1
		} else {
			memo[h] = 2
		}
		return ok
	}
	return lifted
}
