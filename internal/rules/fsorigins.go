package rules

import (
	"go/token"

	"golang.org/x/tools/go/ssa"

	"verif/internal/eng"
)

// fsOrigins: field-sensitive origins of a value. Where eng.Origins treats a load of a struct field as a leaf (or, with
// ThroughFieldLoad, as deriving from everything stored into the struct), this walker follows exactly the field that is
// read: through local struct variables and composite literals, whole-struct copies, structs returned by repo helpers
// and struct parameters. Leaves are returned as they are (slices, calls of external functions, allocations …).
func fsOrigins(c *Ctx, v ssa.Value, stop ...func(ssa.Value) bool) []ssa.Value {
	p := c.P
	isStop := func(x ssa.Value) bool {
		for _, f := range stop {
			if f(x) {
				return true
			}
		}
		return false
	}
	var out []ssa.Value
	seen := map[ssa.Value]bool{}
	type fk struct {
		v ssa.Value
		i int
	}
	seenF := map[fk]bool{}
	var val func(v ssa.Value, d int)
	var field func(x ssa.Value, i, d int, orig ssa.Value)
	retVals := func(h *ssa.Function, idx int) []ssa.Value {
		var rs []ssa.Value
		for _, r := range eng.Returns(h) {
			if r.Block().Comment == "recover" || idx >= len(r.Results) {
				continue
			}
			// a failure return (its error result is definitely non-nil) does not hand the value on
			if ei := errLikeResultIndex(h.Signature); ei >= 0 && ei != idx && ei < len(r.Results) && p.DefinitelyNonNil(r.Results[ei], r) {
				continue
			}
			rv := r.Results[idx]
			if sv := p.ReachingStore(rv, r); sv != nil {
				rv = sv
			}
			rs = append(rs, rv)
		}
		return rs
	}
	paramArgs := func(pa *ssa.Parameter) ([]ssa.Value, bool) {
		fn := pa.Parent()
		idx := -1
		for i, q := range fn.Params {
			if q == pa {
				idx = i
			}
		}
		var args []ssa.Value
		for _, s := range p.CallSitesOf(fn) {
			if p.IsTestSupport(s.Fn) {
				continue
			}
			cc := s.Ins.(ssa.CallInstruction).Common()
			if cc.StaticCallee() == nil || idx < 0 || idx >= len(cc.Args) {
				return nil, false
			}
			args = append(args, cc.Args[idx])
		}
		return args, len(args) > 0
	}
	val = func(v ssa.Value, d int) {
		if v == nil || seen[v] {
			return
		}
		seen[v] = true
		if d > 40 || isStop(v) {
			out = append(out, v)
			return
		}
		rv := p.Resolve(v)
		if rv != v {
			val(rv, d+1)
			return
		}
		switch x := v.(type) {
		case *ssa.Phi:
			for _, e := range x.Edges {
				val(e, d+1)
			}
		case *ssa.ChangeType:
			val(x.X, d+1)
		case *ssa.Field:
			field(x.X, x.Field, d+1, x)
		case *ssa.UnOp:
			if x.Op == token.MUL {
				if fa, ok := x.X.(*ssa.FieldAddr); ok {
					field(fa.X, fa.Field, d+1, x)
					return
				}
				if cell := eng.CellRoot(x.X); cell != nil {
					if rs, complete := p.ReachingStores(x); complete && len(rs) > 0 {
						for _, st := range rs {
							val(st.Val, d+1)
						}
						return
					}
				}
			}
			out = append(out, v)
		case *ssa.Extract:
			if call, ok := x.Tuple.(*ssa.Call); ok {
				if h := call.Call.StaticCallee(); h != nil && p.InRepo(h) && len(h.Blocks) > 0 {
					for _, r := range retVals(h, x.Index) {
						val(r, d+1)
					}
					return
				}
			}
			out = append(out, v)
		case *ssa.Call:
			if h := x.Call.StaticCallee(); h != nil && p.InRepo(h) && len(h.Blocks) > 0 && h.Signature.Results().Len() == 1 {
				for _, r := range retVals(h, 0) {
					val(r, d+1)
				}
				return
			}
			out = append(out, v)
		case *ssa.Parameter:
			if args, ok := paramArgs(x); ok {
				for _, a := range args {
					val(a, d+1)
				}
				return
			}
			out = append(out, v)
		default:
			out = append(out, v)
		}
	}
	// field(x, i): the values that field i of the struct x (a value or a pointer to it) can hold
	field = func(x ssa.Value, i, d int, orig ssa.Value) {
		if seenF[fk{x, i}] {
			return
		}
		seenF[fk{x, i}] = true
		if d > 40 {
			out = append(out, orig)
			return
		}
		switch y := x.(type) {
		case *ssa.UnOp:
			if y.Op == token.MUL {
				field(y.X, i, d+1, orig)
				return
			}
		case *ssa.ChangeType:
			field(y.X, i, d+1, orig)
			return
		case *ssa.Alloc:
			n := 0
			for _, r := range *y.Referrers() {
				switch rr := r.(type) {
				case *ssa.Store:
					if rr.Addr == ssa.Value(y) {
						n++
						field(rr.Val, i, d+1, orig)
					}
				case *ssa.FieldAddr:
					if rr.Field != i {
						continue
					}
					for _, r2 := range *rr.Referrers() {
						if st, ok := r2.(*ssa.Store); ok && st.Addr == ssa.Value(rr) {
							n++
							val(st.Val, d+1)
						}
					}
				}
			}
			if n > 0 {
				return
			}
		case *ssa.Phi:
			for _, e := range y.Edges {
				field(e, i, d+1, orig)
			}
			return
		case *ssa.Extract:
			if call, ok := y.Tuple.(*ssa.Call); ok {
				if h := call.Call.StaticCallee(); h != nil && p.InRepo(h) && len(h.Blocks) > 0 {
					for _, r := range retVals(h, y.Index) {
						field(r, i, d+1, orig)
					}
					return
				}
			}
		case *ssa.Call:
			if h := y.Call.StaticCallee(); h != nil && p.InRepo(h) && len(h.Blocks) > 0 && h.Signature.Results().Len() == 1 {
				for _, r := range retVals(h, 0) {
					field(r, i, d+1, orig)
				}
				return
			}
		case *ssa.Parameter:
			if args, ok := paramArgs(y); ok {
				for _, a := range args {
					field(a, i, d+1, orig)
				}
				return
			}
		case *ssa.FreeVar:
			if b := eng.FreeVarBinding(y); b != nil {
				field(b, i, d+1, orig)
				return
			}
		}
		out = append(out, orig)
	}
	val(v, 0)
	return out
}

// fsAll: every field-sensitive origin of v satisfies pred (and there is one).
func fsAll(c *Ctx, v ssa.Value, pred func(ssa.Value) bool) bool {
	os := fsOrigins(c, v)
	for _, o := range os {
		if !pred(o) {
			return false
		}
	}
	return len(os) > 0
}
