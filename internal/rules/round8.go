package rules

import (
	"fmt"
	"go/constant"
	"go/token"
	"go/types"
	"strings"

	"golang.org/x/tools/go/ssa"

	"verif/internal/eng"
)

// ruleCountsOne (seed C15-u2): "the four byte counters equal the bytes actually moved" — in the Prometheus adapter a counter
// Add whose amount is an integer parameter of the enclosing function may be skipped only for an amount of zero. Decided by
// evaluating every branch that compares that parameter with a constant for the value 1 (the smallest amount that must be
// counted): the Add must not lie exclusively behind the edge that is not taken then. `if v > 0 { add }`, `if v == 0 { return }`,
// `if v >= 1` all pass; `if v <= 1 { return }` does not.
func ruleCountsOne(c *Ctx, rule string) {
	p := c.P
	n := 0
	for _, f := range p.FnsIn("prometheus") {
		if p.IsTestSupport(f) {
			continue
		}
		paramOf := func(v ssa.Value) *ssa.Parameter {
			for i := 0; i < 4; i++ {
				switch x := v.(type) {
				case *ssa.Convert:
					v = x.X
					continue
				case *ssa.ChangeType:
					v = x.X
					continue
				}
				break
			}
			pa, _ := v.(*ssa.Parameter)
			if pa == nil {
				return nil
			}
			if b, ok := pa.Type().Underlying().(*types.Basic); !ok || b.Info()&types.IsInteger == 0 {
				return nil
			}
			return pa
		}
		for _, cl := range eng.Calls(f) {
			if eng.MethodName(cl.Common()) != "Add" || len(cl.Common().Args) == 0 {
				continue
			}
			amount := cl.Common().Args[len(cl.Common().Args)-1]
			pa := paramOf(amount)
			if pa == nil {
				continue
			}
			n++
			bad := ""
			for _, b := range f.Blocks {
				if len(b.Instrs) == 0 {
					continue
				}
				iff, ok := b.Instrs[len(b.Instrs)-1].(*ssa.If)
				if !ok {
					continue
				}
				bo, ok := iff.Cond.(*ssa.BinOp)
				if !ok {
					continue
				}
				var k *ssa.Const
				var lhsParam bool
				if paramOf(bo.X) == pa {
					k, _ = bo.Y.(*ssa.Const)
					lhsParam = true
				} else if paramOf(bo.Y) == pa {
					k, _ = bo.X.(*ssa.Const)
				}
				if k == nil || k.Value == nil || k.Value.Kind() != constant.Int {
					continue
				}
				one := constant.MakeInt64(1)
				var res bool
				switch bo.Op {
				case token.GTR, token.LSS, token.GEQ, token.LEQ, token.EQL, token.NEQ:
					if lhsParam {
						res = constant.Compare(one, bo.Op, k.Value)
					} else {
						res = constant.Compare(k.Value, bo.Op, one)
					}
				default:
					continue
				}
				notTaken := eng.Edge{From: b, To: b.Succs[1]}
				if !res {
					notTaken = eng.Edge{From: b, To: b.Succs[0]}
				}
				// the Add is reachable only across the edge that an amount of 1 does not take
				if eng.Cut(f, cl.Block(), eng.EdgeSet{notTaken: true}) == false {
					continue
				}
				// Cut(site, g) is "every path crosses g"; we need it for g = {notTaken}
				bad = p.IPos(iff)
			}
			c.CheckAt(rule, fmt.Sprintf("%s:amount-of-one-is-counted:%s", short(f), pa.Name()), cl, bad == "", "the counter is not increased for an amount of 1: the Add lies behind a comparison of "+pa.Name()+" with a constant (at "+bad+") that an amount of 1 fails — bytes that were moved are not counted")
		}
	}
	c.Floor(rule, "counter additions whose amount is an integer parameter (Prometheus adapter)", n, 1)
}

// ruleArmedAfterAdd (seed C14-u1): "always reclaimed" — an association's read deadline is only ever set by the write hook, and
// the table's Add has already started the goroutine that waits for replies. So once Add has been called, every path of the
// per-datagram code to a return must pass a write through the association (which extends the deadline before sending, ARM);
// a path that returns first — an empty datagram "not worth a syscall" — leaves an association with no deadline at all: it
// never expires, its socket is never closed and its removal is never reported.
func ruleArmedAfterAdd(c *Ctx, rule string) {
	p := c.P
	m := getUDPModel(c, rule)
	if m == nil || m.add == nil || m.connWrite == nil {
		return
	}
	isWrite := func(ins ssa.Instruction) bool {
		cl, ok := ins.(ssa.CallInstruction)
		if !ok {
			return false
		}
		if _, isGo := ins.(*ssa.Go); isGo {
			return false
		}
		for _, h := range p.Callees(cl) {
			if h == m.connWrite {
				return true
			}
		}
		// a helper that writes on all its paths
		if h := cl.Common().StaticCallee(); h != nil && p.InRepo(h) && len(h.Blocks) > 0 && h != m.add {
			return mustWrite(p, h, m.connWrite, 0)
		}
		return false
	}
	n, skipped := 0, 0
	for _, s := range p.CallSitesOf(m.add) {
		if p.IsTestSupport(s.Fn) {
			continue
		}
		r := eng.Root(s.Fn)
		if r.Signature.Recv() != nil && eng.TypeName(r.Signature.Recv().Type()) == m.mapT {
			continue // the table's own wrappers
		}
		// judged where creation and write share a function; when Add sits in a helper that hands the association back, the
		// caller's branches on the helper's other results would need path-sensitivity (a nil error after a successful Add)
		hasWrite := false
		for _, cl := range eng.Calls(s.Fn) {
			if isWrite(cl) {
				hasWrite = true
			}
		}
		if !hasWrite {
			skipped++
			continue
		}
		n++
		f := s.Fn
		leak := ""
		seen := map[*ssa.BasicBlock]bool{}
		var after func(ins ssa.Instruction, d int)
		var walk func(b *ssa.BasicBlock, from int, d int)
		walk = func(b *ssa.BasicBlock, from int, d int) {
			if from == 0 {
				if seen[b] {
					return
				}
				seen[b] = true
			}
			for i := from; i < len(b.Instrs); i++ {
				ins := b.Instrs[i]
				if isWrite(ins) {
					return
				}
				if _, isRet := ins.(*ssa.Return); isRet {
					// a helper that creates the association and hands it back: the write may follow in its callers
					g := b.Parent()
					var sites []eng.Site
					if false && d < 2 && g.Parent() == nil {
						for _, cs := range p.CallSitesOf(g) {
							if _, isCall := cs.Ins.(*ssa.Call); isCall && !p.IsTestSupport(cs.Fn) {
								sites = append(sites, cs)
							}
						}
					}
					if len(sites) == 0 {
						if leak == "" {
							leak = p.IPos(ins)
						}
						return
					}
					for _, cs := range sites {
						after(cs.Ins, d+1)
					}
					return
				}
			}
			for _, sb := range b.Succs {
				walk(sb, 0, d)
			}
		}
		after = func(at ssa.Instruction, d int) {
			b := at.Block()
			for i, ins := range b.Instrs {
				if ins == at {
					walk(b, i+1, d)
				}
			}
		}
		after(s.Ins, 0)
		c.CheckAt(rule, short(f)+":association-armed-on-every-path-after-Add", s.Ins, leak == "", "after the association has been created (and its reply goroutine started) the per-datagram code can return without writing through it (return at "+leak+"): only a write sets the read deadline, so this association never expires, its socket is never closed and its removal is never reported")
	}
	c.Floor(rule, "association creations outside the table's own methods", n+skipped, 1)
	c.Note("armed_after_add", map[string]int{"judged": n, "creation_in_a_helper_without_the_write_not_judged": skipped})
}

// mustWrite: every path of h from entry to a return passes a call of w (depth-limited through static repo callees).
func mustWrite(p *eng.Prog, h, w *ssa.Function, d int) bool {
	if d > 2 || len(h.Blocks) == 0 {
		return false
	}
	ok := true
	seen := map[*ssa.BasicBlock]bool{}
	var walk func(b *ssa.BasicBlock)
	walk = func(b *ssa.BasicBlock) {
		if seen[b] || !ok {
			return
		}
		seen[b] = true
		for _, ins := range b.Instrs {
			if cl, isC := ins.(ssa.CallInstruction); isC {
				if _, isGo := ins.(*ssa.Go); !isGo {
					for _, g := range p.Callees(cl) {
						if g == w {
							return
						}
					}
					if g := cl.Common().StaticCallee(); g != nil && p.InRepo(g) && mustWrite(p, g, w, d+1) {
						return
					}
				}
			}
			if _, isRet := ins.(*ssa.Return); isRet {
				ok = false
				return
			}
		}
		for _, sb := range b.Succs {
			walk(sb)
		}
	}
	walk(h.Blocks[0])
	return ok
}

// ruleSearchReturnsTried (seed C03-u1): "attributed to the key that authenticated it" — in a trial-decryption loop over a
// snapshot slice, the id and the key returned behind the decryption's success edge are fields of the very slot whose key was
// tried. Judged when both sides resolve to an element of the snapshot (`snapshot[i]`): a result taken from another slot
// (`snapshot[0]`, "the matched key is at the front now" — the snapshot was taken before the promotion) names, and encrypts
// replies under, a key that did not authenticate the datagram.
func ruleSearchReturnsTried(c *Ctx, rule string) {
	p := c.P
	rootSlot := func(v ssa.Value) *ssa.IndexAddr {
		for i := 0; i < 12 && v != nil; i++ {
			switch x := v.(type) {
			case *ssa.UnOp:
				if x.Op != token.MUL {
					return nil
				}
				v = x.X
			case *ssa.FieldAddr:
				v = x.X
			case *ssa.Field:
				v = x.X
			case *ssa.TypeAssert:
				v = x.X
			case *ssa.Extract:
				v = x.Tuple
			case *ssa.ChangeType:
				v = x.X
			case *ssa.IndexAddr:
				return x
			default:
				return nil
			}
		}
		return nil
	}
	n := 0
	for _, sl := range findSearchLoops(c) {
		tried := rootSlot(sl.keyArg)
		if tried == nil {
			continue
		}
		succ, _ := p.SuccessEdges(sl.fn, []ssa.CallInstruction{sl.unpack}, sl.errIdx)
		if len(succ) == 0 {
			continue
		}
		for _, r := range eng.Returns(sl.fn) {
			if !eng.Cut(sl.fn, r.Block(), succ) {
				continue
			}
			for i, res := range r.Results {
				ts := res.Type().String()
				if ts != "string" && !strings.HasSuffix(ts, "shadowsocks.EncryptionKey") {
					continue
				}
				slot := rootSlot(p.Resolve(res))
				if slot == nil {
					slot = rootSlot(res)
				}
				if slot == nil {
					continue
				}
				n++
				same := slot == tried || (p.SameValue(slot.X, tried.X) && (slot.Index == tried.Index || p.SameValue(slot.Index, tried.Index)))
				c.CheckAt(rule, fmt.Sprintf("%s:result#%d-is-a-field-of-the-slot-tried", short(sl.fn), i), r, same, "behind the success edge of the trial decryption the function returns a field of another element of the snapshot than the one whose key decrypted the input: the traffic is attributed to, and answered under, a key that did not authenticate it")
			}
		}
	}
	c.Note("search_results_judged", n)
}

// ruleCommitAfterStart (seed C10-u2): "all-or-nothing" — a reload that fails leaves no trace in the server object. In every
// function that calls the start routine (loadConfig), each store to a field of the server object lies behind the success edge
// of that call. A field remembered earlier (the bytes of the file "being served", assigned before parse/validate/start) makes
// a failed reload visible to the next one: the retry of the identical file is taken for "unchanged" and starts nothing.
func ruleCommitAfterStart(c *Ctx, ra *reloadAnchors, rule string) {
	p := c.P
	n := 0
	for _, f := range ra.callers {
		if p.IsTestSupport(f) {
			continue
		}
		var starts []ssa.CallInstruction
		for _, cl := range eng.Calls(f) {
			for _, h := range p.Callees(cl) {
				if h == ra.runCfg {
					starts = append(starts, cl)
				}
			}
		}
		if len(starts) == 0 {
			continue
		}
		ei := errorResultIndex(ra.runCfg.Signature)
		if ei < 0 {
			continue
		}
		succ, _ := p.SuccessEdges(f, starts, ei)
		for _, b := range f.Blocks {
			for _, ins := range b.Instrs {
				st, ok := ins.(*ssa.Store)
				if !ok {
					continue
				}
				fa, ok := st.Addr.(*ssa.FieldAddr)
				if !ok {
					continue
				}
				t, fl, _, ok := eng.FieldOf(fa)
				if !ok || t != ra.serverT {
					continue
				}
				n++
				c.CheckAt(rule, short(f)+":server-state-committed-only-after-start-succeeded:"+fl, st, len(succ) > 0 && eng.Cut(f, b, succ), "the reload function stores to "+t+"."+fl+" on a path that is not behind the success of the start call: a reload that then fails has still changed the server's state, which the next reload observes")
			}
		}
	}
	// no floor: a reload function that commits through a helper method (swap(stop)) has no direct store; the helper's call is
	// then judged by KEEPOLD's own clause on the stop-function field
	c.Note("server_state_stores_in_reload_function", n)
}

// ruleKeyNotCachedBySecret (seed C03-u2): "authenticated with a configured key" — the encryption key put into an entry is
// derived from that entry's own cipher *and* secret. A derived key taken from a table that is indexed by the secret alone is
// the key of whichever cipher was configured first with that secret: a port then authenticates datagrams under a
// (cipher, secret) pair that is not configured there and rejects the one that is.
func ruleKeyNotCachedBySecret(c *Ctx, rule string) {
	p := c.P
	mk := p.Fn("service.MakeCipherEntry")
	if mk == nil {
		c.Undecided(rule, "anchor:MakeCipherEntry", "-", "MakeCipherEntry not found")
		return
	}
	kc, ks := -1, -1
	for i, q := range mk.Params {
		if strings.HasSuffix(q.Type().String(), "shadowsocks.EncryptionKey") {
			kc = i
		}
	}
	for _, cl := range eng.Calls(mk) {
		if eng.CalleeName(cl.Common()) == "service.NewServerSaltGenerator" && len(cl.Common().Args) == 1 {
			if pa, ok := p.Resolve(cl.Common().Args[0]).(*ssa.Parameter); ok {
				for i, q := range mk.Params {
					if q == pa {
						ks = i
					}
				}
			}
		}
	}
	if kc < 0 || ks < 0 {
		return
	}
	n := 0
	for _, s := range p.CallSitesOf(mk) {
		if p.IsTestSupport(s.Fn) {
			continue
		}
		args := s.Ins.(ssa.CallInstruction).Common().Args
		if kc >= len(args) || ks >= len(args) {
			continue
		}
		n++
		secret := p.Resolve(args[ks])
		opts := eng.Plain
		opts.Stop = func(x ssa.Value) bool {
			switch y := x.(type) {
			case *ssa.Lookup:
				return true
			case *ssa.Extract:
				_, isL := y.Tuple.(*ssa.Lookup)
				return isL
			}
			return false
		}
		good, _ := p.AllFrom(args[kc], opts, func(x ssa.Value) bool {
			var lk *ssa.Lookup
			switch y := x.(type) {
			case *ssa.Lookup:
				lk = y
			case *ssa.Extract:
				lk, _ = y.Tuple.(*ssa.Lookup)
			}
			if lk == nil {
				return true
			}
			if _, isMap := lk.X.Type().Underlying().(*types.Map); !isMap {
				return true
			}
			return !p.SameValue(p.Resolve(lk.Index), secret)
		})
		c.CheckAt(rule, short(s.Fn)+":entry-key-not-taken-from-a-table-indexed-by-the-secret-alone", s.Ins, good, "the encryption key of the entry can come from a table indexed by the secret alone: two keys that share a secret but not a cipher get one derived key, so a listener authenticates a (cipher, secret) pair that is not configured on it and rejects the one that is")
	}
	c.Floor(rule, "construction sites of cipher entries", n, 1)
}
