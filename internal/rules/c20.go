package rules

import (
	"fmt"
	"go/token"
	"go/types"
	"sort"
	"strings"

	"golang.org/x/tools/go/ssa"

	"verif/internal/eng"
)

func init() {
	register(&PropDef{ID: "C20", Level: "other", Run: runC20,
		Explanation: "Privacy of exported metrics as a whole-module information-flow fact, plus the classification structure of location labels: (TAINT) forward, field-based string taint over every function of the module: sources are every string produced from an address " +
			"(String() on net.Addr / netip / net.IP values unless the receiver provably comes from LocalAddr(), SplitHostPort/JoinHostPort results, fmt.Sprint* with an address or error argument) and every error text (Error() — network errors embed peer addresses); " +
			"propagation follows SSA def-use on strings, concatenation/formatting, struct fields (per type and field), cells, varargs, parameters and results along resolved call edges; sinks are label values and metric names of every Prometheus call; a source reaching a sink is reported with its flow; " +
			"every connection-error status is a string constant; (CLASSIFY) in the location helper the database is consulted only on the ip2info != nil, ip != nil and IsGlobalUnicast edges, XL/XD/ZZ/XA are assigned on every path of exactly the non-global, database-error, empty-country and parse-failure edges, " +
			"and the address helper parses before anything else; (INFOSTATE) location information is stored only in per-connection / per-client records at construction, never overwritten in shared state; (ARITY) label arity agrees with the vectors. (INFOSTATE, cont.) records holding location information are built fresh for the client they are filed under (no recycled records), and wrappers of the lookup return its answer unchanged also together with an error (XA/XD are returned with one).",
		NotDecided: "contents of the database answers; taint through non-string values that are later formatted outside the module.",
	})
}

func runC20(c *Ctx) {
	ruleTaint(c)
	ruleClassify(c)
	ruleInfoState(c)
	ruleLookupErrorKept(c, "CLASSIFY")
	ruleLabelOwner(c, "CLASSIFY")
	if m := findTT(c, "CLASSIFY"); m != nil {
		ruleKeyAddr(c, m, "CLASSIFY") // the address classified for tunnel time is the client's own
	}
	ruleArityAll(c, "ARITY")
}

// C20.INFOSTATE: location information (ipinfo.IPInfo) is held only in per-connection / per-client records that receive it when
// they are constructed. A field of that type that is overwritten later is state shared between clients (a memo, a "last
// lookup"): the label of one client then depends on which client came before it, not on its own address class.
func ruleInfoState(c *Ctx) {
	p := c.P
	n := 0
	for path, pkg := range p.AllPkgs {
		if pkg.Types == nil || !strings.HasPrefix(path, eng.Mod) || strings.Contains(path, "/ipinfo") {
			continue
		}
		sc := pkg.Types.Scope()
		for _, name := range sc.Names() {
			tn, ok := sc.Lookup(name).(*types.TypeName)
			if !ok {
				continue
			}
			st, ok := tn.Type().Underlying().(*types.Struct)
			if !ok {
				continue
			}
			T := eng.Short(path + "." + name)
			for i := 0; i < st.NumFields(); i++ {
				f := st.Field(i)
				if !strings.HasSuffix(f.Type().String(), "/ipinfo.IPInfo") {
					continue
				}
				n++
				var bad *eng.FieldAccess
				for _, fs := range p.FieldStores(T, f.Name()) {
					fs := fs
					if !fs.Fresh && !p.IsTestSupport(fs.Fn) {
						bad = &fs
					}
				}
				pos := "-"
				detail := ""
				if bad != nil {
					pos = p.IPos(bad.Ins)
					detail = "location information is overwritten in " + T + "." + f.Name() + " by " + short(bad.Fn) + " after the object was constructed: it is shared, mutable state, so a client's location label can be the one looked up for an earlier client"
				}
				c.Check("INFOSTATE", T+"."+f.Name()+":set-only-at-construction", pos, bad == nil, detail)
			}
		}
	}
	c.Floor("INFOSTATE", "struct fields holding location information", n, 2)
	// records that hold location information are built fresh for the client they are filed under: the value put into a table
	// of such records is allocated on that path, not taken from a pool of retired records (which still carry the location of
	// the client they were last used for)
	nIns := 0
	for _, f := range p.Fns {
		if p.IsTestSupport(f) || !strings.HasPrefix(eng.PkgPathOf(f), eng.Mod) {
			continue
		}
		for _, b := range f.Blocks {
			for _, ins := range b.Instrs {
				mu, ok := ins.(*ssa.MapUpdate)
				if !ok {
					continue
				}
				pt, ok := mu.Value.Type().(*types.Pointer)
				if !ok {
					continue
				}
				st, ok := pt.Elem().Underlying().(*types.Struct)
				if !ok {
					continue
				}
				holds := false
				for i := 0; i < st.NumFields(); i++ {
					ts := st.Field(i).Type().String()
					if strings.HasSuffix(ts, "/ipinfo.IPInfo") {
						holds = true
					}
				}
				if !holds {
					continue
				}
				nIns++
				fresh, bad := p.AllFrom(mu.Value, deepF, func(v ssa.Value) bool { _, isA := v.(*ssa.Alloc); return isA })
				c.CheckAt("INFOSTATE", short(f)+":location-record-is-built-fresh", mu, fresh, "a record holding location information is filed for a client without being built for it (e.g. recycled from a free list): it still carries the location of the client it was last used for ("+valsStr(p, bad)+")")
			}
		}
	}
	c.Note("location_record_insertions", nIns)
	// whoever wraps the classification hands its answer on unchanged — also together with an error: the sentinel labels XA and
	// XD are returned *with* an error, so "return zero value on error" loses them
	nWrap := 0
	for _, f := range p.Fns {
		if p.IsTestSupport(f) || !strings.HasPrefix(eng.PkgPathOf(f), eng.Mod) || strings.HasSuffix(eng.PkgPathOf(f), "/ipinfo") || f.Parent() != nil {
			continue
		}
		rs := f.Signature.Results()
		ri := -1
		for i := 0; i < rs.Len(); i++ {
			if strings.HasSuffix(rs.At(i).Type().String(), "/ipinfo.IPInfo") {
				ri = i
			}
		}
		if ri < 0 {
			continue
		}
		// the lookups made by the wrapper itself or by the helpers it calls (a lookupClient() that bundles answer and error)
		var lookups []*ssa.Call
		for _, g := range regionFns(c, f, nil, 2) {
			for _, cl := range eng.Calls(g) {
				if call, ok := cl.(*ssa.Call); ok && strings.HasPrefix(eng.CalleeName(&call.Call), "ipinfo.GetIPInfoFrom") {
					lookups = append(lookups, call)
				}
			}
		}
		if len(lookups) == 0 {
			continue
		}
		nWrap++
		// isAnswer: v is the lookup's own answer — directly, or as the field of a bundle a helper built from it
		var isAnswer func(v ssa.Value, d int) bool
		isAnswer = func(v ssa.Value, d int) bool {
			if d > 8 {
				return false
			}
			v = p.Resolve(v)
			if inCalls(v, lookups, 0) {
				return true
			}
			var fieldOf func(x ssa.Value, idx, d2 int) bool
			fieldOf = func(x ssa.Value, idx, d2 int) bool {
				// x: a struct value or a pointer to one; every construction of it that can arrive here stores an answer
				// into field idx
				if d2 > 6 {
					return false
				}
				switch y := x.(type) {
				case *ssa.UnOp:
					if y.Op == token.MUL {
						return fieldOf(y.X, idx, d2+1)
					}
				case *ssa.Alloc:
					okAll, n := true, 0
					for _, r := range *y.Referrers() {
						switch rr := r.(type) {
						case *ssa.Store:
							if rr.Addr == ssa.Value(y) { // the whole struct is stored
								n++
								if !fieldOf(rr.Val, idx, d2+1) {
									okAll = false
								}
							}
						case *ssa.FieldAddr:
							if rr.Field != idx {
								continue
							}
							for _, r2 := range *rr.Referrers() {
								if st, isSt := r2.(*ssa.Store); isSt && st.Addr == ssa.Value(rr) {
									n++
									if !isAnswer(st.Val, d+1) {
										okAll = false
									}
								}
							}
						}
					}
					return okAll && n > 0
				case *ssa.Call:
					if h := y.Call.StaticCallee(); h != nil && p.InRepo(h) && len(h.Blocks) > 0 && h.Signature.Results().Len() == 1 {
						n := 0
						for _, r := range eng.Returns(h) {
							n++
							if !fieldOf(r.Results[0], idx, d2+1) {
								return false
							}
						}
						return n > 0
					}
				case *ssa.Phi:
					for _, e := range y.Edges {
						if !fieldOf(e, idx, d2+1) {
							return false
						}
					}
					return len(y.Edges) > 0
				}
				return false
			}
			switch x := v.(type) {
			case *ssa.Field:
				return fieldOf(x.X, x.Field, 0)
			case *ssa.UnOp:
				if fa, ok := x.X.(*ssa.FieldAddr); ok && x.Op == token.MUL {
					return fieldOf(fa.X, fa.Field, 0)
				}
			case *ssa.Phi:
				for _, e := range x.Edges {
					if !isAnswer(e, d+1) {
						return false
					}
				}
				return len(x.Edges) > 0
			case *ssa.Call:
				if h := x.Call.StaticCallee(); h != nil && p.InRepo(h) && len(h.Blocks) > 0 && h.Signature.Results().Len() == 1 {
					n := 0
					for _, r := range eng.Returns(h) {
						n++
						rv := r.Results[0]
						if sv := p.ReachingStore(rv, r); sv != nil {
							rv = sv
						}
						if !isAnswer(rv, d+1) {
							return false
						}
					}
					return n > 0
				}
			}
			return false
		}
		for i, r := range eng.Returns(f) {
			if r.Block().Comment == "recover" || ri >= len(r.Results) {
				continue
			}
			rv := r.Results[ri]
			if sv := p.ReachingStore(rv, r); sv != nil {
				rv = sv
			}
			okR, bad := p.AllFrom(rv, eng.Plain, func(v ssa.Value) bool { return inCalls(v, lookups, 0) })
			if !okR {
				okR = isAnswer(rv, 0)
			}
			c.CheckAt("INFOSTATE", fmt.Sprintf("%s:return#%d:hands-on-the-classification-unchanged", short(f), i), r, okR, "a wrapper of the location lookup returns something other than the lookup's own answer (e.g. the zero value on error): the XA / XD labels, which are returned together with an error, are lost and those clients are exported with an empty location ("+valsStr(p, bad)+")")
		}
	}
	c.Floor("INFOSTATE", "wrappers of the location lookup", nWrap, 1)
}

// ---- taint ----

func isAddrType(t types.Type) bool {
	s := t.String()
	switch s {
	case "net.Addr", "*net.TCPAddr", "*net.UDPAddr", "*net.IPAddr", "net.IP", "net/netip.Addr", "net/netip.AddrPort", "*net.IPNet", "net.IPNet", "*net.UnixAddr", "net/netip.Prefix":
		return true
	}
	return false
}

func isErrorType(t types.Type) bool {
	if types.Identical(t, types.Universe.Lookup("error").Type()) {
		return true
	}
	s := t.String()
	return s == "net.Error" || strings.HasSuffix(s, "net.ConnectionError")
}

type taintState struct {
	c        *Ctx
	tainted  map[ssa.Value]string // value → how it became tainted (flow text)
	fields   map[string]string    // "T.f" → flow
	work     []ssa.Value
	fieldLds map[string][]ssa.Value // loads of T.f
	findings []string
	sinks    int
}

func (t *taintState) mark(v ssa.Value, how string) {
	if v == nil {
		return
	}
	if _, ok := t.tainted[v]; ok {
		return
	}
	t.tainted[v] = how
	t.work = append(t.work, v)
}

func stringy(tp types.Type) bool {
	switch u := tp.Underlying().(type) {
	case *types.Basic:
		return u.Info()&types.IsString != 0
	case *types.Slice:
		return stringy(u.Elem())
	case *types.Array:
		return stringy(u.Elem())
	case *types.Pointer:
		return stringy(u.Elem())
	case *types.Map:
		return stringy(u.Elem())
	case *types.Interface:
		return true
	case *types.Tuple:
		for i := 0; i < u.Len(); i++ {
			if stringy(u.At(i).Type()) {
				return true
			}
		}
	}
	return false
}

// provablyLocal: every origin of the receiver is a LocalAddr() call result, or a field all of whose stores are.
func provablyLocal(c *Ctx, v ssa.Value, depth int) bool {
	if depth > 3 {
		return false
	}
	g, _ := c.P.AllFrom(v, eng.Plain, func(x ssa.Value) bool {
		if cc, _, ok := eng.AsResult(x); ok {
			m := eng.MethodName(&cc.Call)
			return m == "LocalAddr" || m == "Addr" && strings.Contains(eng.CalleeName(&cc.Call), "Listener")
		}
		if t, f, _, ok := eng.FieldLoad(x); ok {
			stores := c.P.FieldStores(t, f)
			if len(stores) == 0 {
				return false
			}
			for _, st := range stores {
				if st.Val == nil || !provablyLocal(c, st.Val, depth+1) {
					return false
				}
			}
			return true
		}
		return false
	})
	return g
}

func isSink(name string) (bool, string) {
	switch {
	case strings.HasSuffix(name, ").WithLabelValues"), strings.HasSuffix(name, ").With"), strings.HasSuffix(name, ").CurryWith"),
		strings.HasSuffix(name, ").GetMetricWithLabelValues"), strings.HasSuffix(name, ").GetMetricWith"), strings.HasSuffix(name, ").MustCurryWith"):
		return strings.Contains(name, "prom."), "label value"
	case strings.HasPrefix(name, "prom.New") || name == "prom.BuildFQName" || name == "prom.NewDesc" || name == "prom.MustNewConstMetric" || name == "prom.NewConstMetric":
		return true, "metric name / help / constant label"
	}
	return false, ""
}

func ruleTaint(c *Ctx) {
	p := c.P
	t := &taintState{c: c, tainted: map[ssa.Value]string{}, fields: map[string]string{}, fieldLds: map[string][]ssa.Value{}}
	nSrc := 0
	// index field loads; seed sources
	for _, f := range p.Fns {
		for _, b := range f.Blocks {
			for _, ins := range b.Instrs {
				if v, ok := ins.(ssa.Value); ok {
					if tt, fl, _, ok := eng.FieldLoad(v); ok {
						t.fieldLds[tt+"."+fl] = append(t.fieldLds[tt+"."+fl], v)
					}
				}
				call, ok := ins.(*ssa.Call)
				if !ok {
					continue
				}
				name := eng.CalleeName(&call.Call)
				m := eng.MethodName(&call.Call)
				switch {
				case m == "String" && call.Type().String() == "string":
					r := eng.Receiver(&call.Call)
					if r != nil && isAddrType(r.Type()) {
						if provablyLocal(c, r, 0) {
							continue
						}
						nSrc++
						t.mark(call, fmt.Sprintf("%s at %s", name, p.IPos(call)))
					}
				case m == "Error" && call.Type().String() == "string":
					nSrc++
					t.mark(call, fmt.Sprintf("error text %s at %s", name, p.IPos(call)))
				case name == "net.SplitHostPort" || name == "net.JoinHostPort":
					nSrc++
					t.mark(call, fmt.Sprintf("%s at %s", name, p.IPos(call)))
				case strings.HasPrefix(name, "fmt.Sprint") || name == "fmt.Errorf" || name == "fmt.Appendf":
					// formatting an address or an error value
					if fmtHasSensitiveArg(c, call) {
						nSrc++
						t.mark(call, fmt.Sprintf("%s of an address/error value at %s", name, p.IPos(call)))
					}
				}
			}
		}
	}
	c.Floor("TAINT", "address/error-text sources in the module", nSrc, 10)

	// propagate
	for len(t.work) > 0 {
		v := t.work[len(t.work)-1]
		t.work = t.work[:len(t.work)-1]
		how := t.tainted[v]
		refs := v.Referrers()
		if refs == nil {
			continue
		}
		for _, r := range *refs {
			switch u := r.(type) {
			case *ssa.Phi, *ssa.Convert, *ssa.ChangeType, *ssa.MakeInterface, *ssa.ChangeInterface, *ssa.Slice, *ssa.TypeAssert, *ssa.Extract, *ssa.Index, *ssa.Lookup, *ssa.Field:
				if uv := u.(ssa.Value); stringy(uv.Type()) {
					// Extract: only string-carrying components
					t.mark(uv, how)
				}
			case *ssa.BinOp:
				if u.Op == token.ADD && stringy(u.Type()) {
					t.mark(u, how)
				}
			case *ssa.UnOp:
				if u.Op == token.MUL && stringy(u.Type()) {
					t.mark(u, how)
				}
			case *ssa.IndexAddr:
				// taking an element address of a tainted array/slice: loads through it are tainted
				t.mark(u, how)
			case *ssa.MapUpdate:
				if u.Value == v || u.Key == v {
					t.mark(u.Map, how+" → map element")
				}
			case *ssa.Store:
				if u.Val != v {
					continue
				}
				switch a := u.Addr.(type) {
				case *ssa.FieldAddr:
					if tt, fl, _, ok := eng.FieldOf(a); ok {
						k := tt + "." + fl
						if _, done := t.fields[k]; !done {
							t.fields[k] = how + " → field " + k
							for _, ld := range t.fieldLds[k] {
								t.mark(ld, how+" → field "+k)
							}
						}
					}
				case *ssa.IndexAddr:
					// element of an array/slice (varargs packing): the container is tainted
					t.mark(a.X, how+" → element of "+a.X.Name())
					if al, ok := a.X.(*ssa.Alloc); ok {
						for _, rr := range *al.Referrers() {
							if sl, ok := rr.(*ssa.Slice); ok {
								t.mark(sl, how+" → variadic arguments")
							}
						}
					}
				default:
					if cell := eng.CellRoot(u.Addr); cell != nil {
						for _, f := range eng.Family(cell.Parent()) {
							for _, b := range f.Blocks {
								for _, ins := range b.Instrs {
									if l, ok := ins.(*ssa.UnOp); ok && l.Op == token.MUL && eng.CellRoot(l.X) == cell {
										t.mark(l, how)
									}
								}
							}
						}
					}
					if g, ok := u.Addr.(*ssa.Global); ok {
						for _, f := range p.Fns {
							for _, b := range f.Blocks {
								for _, ins := range b.Instrs {
									if l, ok := ins.(*ssa.UnOp); ok && l.Op == token.MUL && l.X == ssa.Value(g) {
										t.mark(l, how+" → global "+g.Name())
									}
								}
							}
						}
					}
				}
			case *ssa.MakeClosure:
				fn := u.Fn.(*ssa.Function)
				for i, b := range u.Bindings {
					if b == v && i < len(fn.FreeVars) {
						t.mark(fn.FreeVars[i], how)
					}
				}
			case *ssa.Return:
				fn := u.Parent()
				idx := -1
				for i, rv := range u.Results {
					if rv == v {
						idx = i
					}
				}
				for _, s := range p.CallSitesOf(fn) {
					cv, ok := s.Ins.(*ssa.Call)
					if !ok {
						continue
					}
					if len(u.Results) == 1 {
						t.mark(cv, how+" → returned by "+short(fn))
					} else {
						for _, rr := range *cv.Referrers() {
							if ex, ok := rr.(*ssa.Extract); ok && ex.Index == idx {
								t.mark(ex, how+" → returned by "+short(fn))
							}
						}
					}
				}
			case ssa.CallInstruction:
				cc := u.Common()
				name := eng.CalleeName(cc)
				argIdx := -1
				for i, a := range cc.Args {
					if a == v {
						argIdx = i
					}
				}
				if isS, what := isSink(name); isS && argIdx >= 0 {
					t.sinks++
					t.findings = append(t.findings, fmt.Sprintf("%s|%s|%s|%s", p.IPos(u), short(u.Parent())+":"+name, what, how))
					continue
				}
				if argIdx < 0 {
					continue
				}
				// repo callees: parameter taint
				callees := repoCallees(c, u)
				for _, callee := range callees {
					off := 0
					if cc.IsInvoke() {
						off = 1 // params include the receiver, Args do not
					}
					if argIdx+off < len(callee.Params) {
						t.mark(callee.Params[argIdx+off], how+" → parameter of "+short(callee))
					}
				}
				if len(callees) > 0 {
					continue
				}
				// external string transformers
				if cv, ok := u.(*ssa.Call); ok && stringy(cv.Type()) {
					switch {
					case strings.HasPrefix(name, "fmt.Sprint"), name == "fmt.Errorf", strings.HasPrefix(name, "strings."), strings.HasPrefix(name, "strconv.Quote"),
						name == "builtin.append", strings.HasPrefix(name, "bytes."), strings.HasPrefix(name, "path."), name == "errors.New":
						t.mark(cv, how+" → "+name)
					}
				}
			}
		}
	}

	sort.Strings(t.findings)
	seen := map[string]bool{}
	for _, f := range t.findings {
		parts := strings.SplitN(f, "|", 4)
		if seen[parts[1]] {
			continue
		}
		seen[parts[1]] = true
		c.Check("TAINT", parts[1], parts[0], false, fmt.Sprintf("a string derived from a client address or an error text reaches a Prometheus %s: %s", parts[2], parts[3]))
	}
	// inventory of sinks examined
	nSink := 0
	var labels []string
	for _, f := range p.Fns {
		for _, cl := range eng.Calls(f) {
			name := eng.CalleeName(cl.Common())
			if ok, _ := isSink(name); ok {
				nSink++
				labels = append(labels, short(f)+": "+name)
			}
		}
	}
	c.Floor("TAINT", "Prometheus sink call sites examined", nSink, 25)
	sort.Strings(labels)
	c.Note("sink_inventory", labels)
	c.Note("tainted_values", len(t.tainted))
	var tf []string
	for k := range t.fields {
		tf = append(tf, k)
	}
	sort.Strings(tf)
	c.Note("tainted_fields", tf)
	if len(t.findings) == 0 {
		c.Check("TAINT", "no-address-or-error-text-reaches-a-metric", "-", true, fmt.Sprintf("%d sources, %d tainted values, %d tainted fields, %d sink call sites: no flow||", nSrc, len(t.tainted), len(t.fields), nSink))
	}

	// boundary fact: every status handed to NewConnectionError is a string constant
	n := 0
	for _, s := range p.CallSites(eng.Named("net.NewConnectionError")) {
		n++
		call := s.Ins.(ssa.CallInstruction).Common()
		var isConstStatus func(v ssa.Value, d int) bool
		isConstStatus = func(v ssa.Value, d int) bool {
			if _, ok := eng.ConstString(v); ok {
				return true
			}
			// a parameter whose every call site passes a constant (helper that fills in a fallback status)
			pa, ok := v.(*ssa.Parameter)
			if !ok || d > 2 {
				return false
			}
			fn := pa.Parent()
			idx := -1
			for i, q := range fn.Params {
				if q == pa {
					idx = i
				}
			}
			sites := p.CallSitesOf(fn)
			if len(sites) == 0 {
				return false
			}
			for _, cs := range sites {
				ok2, _ := p.AllFrom(cs.Ins.(ssa.CallInstruction).Common().Args[idx], eng.Plain, func(x ssa.Value) bool { return isConstStatus(x, d+1) })
				if !ok2 {
					return false
				}
			}
			return true
		}
		g, bad := p.AllFrom(call.Args[0], deepF, func(v ssa.Value) bool { return isConstStatus(v, 0) })
		c.CheckAt("TAINT", "status-is-constant:"+short(s.Fn), s.Ins, g, "a connection-error status (which becomes a metric label) is not a compile-time constant: "+valsStr(p, bad))
	}
	c.Floor("TAINT", "NewConnectionError call sites", n, 15)
	// ConnectionError.Status has no other writer
	for _, st := range p.FieldStores("net.ConnectionError", "Status") {
		c.CheckAt("TAINT", "status-field-store:"+short(st.Fn), st.Ins, st.Fresh && short(st.Fn) == "net.NewConnectionError", "ConnectionError.Status is written outside its constructor")
	}
}

func fmtHasSensitiveArg(c *Ctx, call *ssa.Call) bool {
	args := call.Call.Args
	if len(args) == 0 {
		return false
	}
	last := args[len(args)-1]
	sl, ok := last.(*ssa.Slice)
	if !ok {
		return false
	}
	al, ok := sl.X.(*ssa.Alloc)
	if !ok {
		return false
	}
	for _, r := range *al.Referrers() {
		ia, ok := r.(*ssa.IndexAddr)
		if !ok {
			continue
		}
		for _, rr := range *ia.Referrers() {
			st, ok := rr.(*ssa.Store)
			if !ok {
				continue
			}
			for _, o := range c.P.Origins(st.Val, eng.OriginOpts{ThroughConvert: true}) {
				if isAddrType(o.Type()) && !provablyLocal(c, o, 0) {
					return true
				}
				if isErrorType(o.Type()) {
					if cst, isC := o.(*ssa.Const); isC && cst.IsNil() {
						continue
					}
					return true
				}
			}
		}
	}
	return false
}

// ---- classify ----

func ruleClassify(c *Ctx) {
	p := c.P
	fromIP, fromAddr := p.Fn("ipinfo.GetIPInfoFromIP"), p.Fn("ipinfo.GetIPInfoFromAddr")
	if fromIP == nil || fromAddr == nil {
		c.Undecided("CLASSIFY", "anchor:ipinfo-helpers", "-", "GetIPInfoFromIP / GetIPInfoFromAddr not found")
		return
	}
	inPkg := func(h *ssa.Function) bool { return eng.PkgPathOf(h) != eng.Mod+"/ipinfo" }
	isCodeField := func(addr ssa.Value) bool {
		fa, ok := addr.(*ssa.FieldAddr)
		if !ok {
			return false
		}
		_, fl, _, ok := eng.FieldOf(fa)
		return ok && fl == "CountryCode"
	}
	// code constructors: helpers of the package one of whose parameters is stored into a CountryCode field
	// (placeholderInfo(code) IPInfo); code selectors: helpers whose result type is the code type (lookupCountryCode(...))
	ctorParam := map[*ssa.Function]int{}
	selector := map[*ssa.Function]bool{}
	for _, h := range p.FnsIn("ipinfo") {
		if p.IsTestSupport(h) {
			continue
		}
		for _, b := range h.Blocks {
			for _, ins := range b.Instrs {
				if st, ok := ins.(*ssa.Store); ok && isCodeField(st.Addr) {
					for i, pa := range h.Params {
						if p.AnyFrom(st.Val, eng.Plain, func(v ssa.Value) bool { return v == ssa.Value(pa) }) {
							ctorParam[h] = i
						}
					}
				}
			}
		}
		if rs := h.Signature.Results(); rs.Len() == 1 && strings.HasSuffix(rs.At(0).Type().String(), "ipinfo.CountryCode") {
			selector[h] = true
		}
	}
	// labelling events: a constant code stored into a CountryCode field, handed to a code constructor, or returned by a
	// code selector (code == "": any of the four special codes, or any constant for the store form)
	isCode := func(v ssa.Value, code string) bool {
		s, ok := eng.ConstString(v)
		if !ok {
			return false
		}
		if code == "" {
			return s != ""
		}
		return s == code
	}
	storeOf := func(code string) func(ssa.Instruction) bool {
		return func(ins ssa.Instruction) bool {
			switch x := ins.(type) {
			case *ssa.Store:
				return isCodeField(x.Addr) && isCode(x.Val, code)
			case *ssa.Call:
				if h := x.Call.StaticCallee(); h != nil {
					if i, ok := ctorParam[h]; ok && i < len(x.Call.Args) {
						return isCode(x.Call.Args[i], code)
					}
				}
			case *ssa.Return:
				if selector[x.Parent()] && len(x.Results) == 1 {
					rv := x.Results[0]
					if sv := p.ReachingStore(rv, x); sv != nil {
						rv = sv
					}
					return isCode(rv, code)
				}
			}
			return false
		}
	}
	anyCodeStore := func(ins ssa.Instruction) bool {
		if st, ok := ins.(*ssa.Store); ok && isCodeField(st.Addr) {
			// a store of a non-constant (the database's answer, a selector's result) is a labelling too
			if _, isC := st.Val.(*ssa.Const); !isC {
				return true
			}
		}
		return storeOf("")(ins)
	}
	// what a selector returns ends up in a CountryCode field at every call site
	for h := range selector {
		for _, site := range p.CallSitesOf(h) {
			if p.IsTestSupport(site.Fn) {
				continue
			}
			call, ok := site.Ins.(*ssa.Call)
			used := false
			if ok {
				for _, b := range site.Fn.Blocks {
					for _, ins := range b.Instrs {
						if st, isSt := ins.(*ssa.Store); isSt && isCodeField(st.Addr) && p.AnyFrom(st.Val, eng.Plain, func(v ssa.Value) bool { return v == ssa.Value(call) }) {
							used = true
						}
					}
				}
			}
			c.CheckAt("CLASSIFY", short(site.Fn)+":selected-code-is-stored", site.Ins, used, "the code chosen by "+short(h)+" is not stored as the location")
		}
	}
	// ---- the IP helper and its region ----
	f := fromIP
	key := short(f)
	reg := c.NewRegion(f, 3, inPkg)
	dbs := reg.FindCalls(func(_ string, call *ssa.Call) bool {
		return call.Call.IsInvoke() && call.Call.Method.Name() == "GetIPInfo"
	})
	gucs := reg.FindCalls(func(n string, _ *ssa.Call) bool { return n == "(net.IP).IsGlobalUnicast" })
	if len(dbs) == 0 || len(gucs) == 0 {
		c.Undecided("CLASSIFY", key+":anchors", p.Pos(f.Pos()), "the helper lost its database call or its IsGlobalUnicast test")
		return
	}
	isMap := func(v ssa.Value) bool {
		g, _ := p.AllFrom(v, deepF, func(x ssa.Value) bool { return eng.IsParam(x, f, 0) })
		return g
	}
	isIP := func(v ssa.Value) bool {
		g, _ := p.AllFrom(v, deepF, func(x ssa.Value) bool { return eng.IsParam(x, f, 1) })
		return g
	}
	gMapNN := c.NewGuard(func(fn *ssa.Function) eng.EdgeSet { _, nn := p.NilEdges(fn, isMap); return nn })
	gMapNil := c.NewGuard(func(fn *ssa.Function) eng.EdgeSet { n, _ := p.NilEdges(fn, isMap); return n })
	gIPNN := c.NewGuard(func(fn *ssa.Function) eng.EdgeSet { _, nn := p.NilEdges(fn, isIP); return nn })
	gIPNil := c.NewGuard(func(fn *ssa.Function) eng.EdgeSet { n, _ := p.NilEdges(fn, isIP); return n })
	isGuc := func(call *ssa.Call) bool {
		return eng.CalleeName(&call.Call) == "(net.IP).IsGlobalUnicast" && isIP(call.Call.Args[0])
	}
	gGlobal := c.BoolGuard(isGuc, true)
	gLocal := c.BoolGuard(isGuc, false)
	for _, guc := range gucs {
		c.CheckAt("CLASSIFY", key+":global-test-on-the-address", guc, isIP(guc.Call.Args[0]), "IsGlobalUnicast is tested on something other than the address parameter")
	}
	for _, db := range dbs {
		c.CheckAt("CLASSIFY", key+":database-only-when-enabled", db, reg.CutDeep(db, gMapNN), "the database is consulted although location lookup is disabled (nil map)")
		c.CheckAt("CLASSIFY", key+":database-only-for-parsed-address", db, reg.CutDeep(db, gIPNN), "the database is consulted for a nil address")
		c.CheckAt("CLASSIFY", key+":database-only-for-global-addresses", db, reg.CutDeep(db, gGlobal), "the database is consulted for a non-global address (the location of local addresses must be decided by class alone)")
		c.CheckAt("CLASSIFY", key+":database-asked-about-the-address", db, isIP(db.Call.Args[0]), "the database is asked about something other than the address parameter")
	}
	isDBErr := func(v ssa.Value) bool {
		return p.AnyFrom(v, deepF, func(x ssa.Value) bool {
			for _, db := range dbs {
				if eng.ResultOf(x, db, 1) {
					return true
				}
			}
			return false
		})
	}
	gDBFail := c.NewGuard(func(fn *ssa.Function) eng.EdgeSet {
		out := eng.EdgeSet{}
		for _, db := range dbs {
			if db.Parent() == fn {
				_, fl := p.SuccessEdges(fn, []ssa.CallInstruction{db}, 1)
				out = eng.Union(out, fl)
			}
		}
		// ... or a nil test on a value that is the database call's error (handed to a selector helper)
		_, nn := p.NilEdges(fn, isDBErr)
		return eng.Union(out, nn)
	})
	isAnswerCode := func(v ssa.Value) bool {
		if _, fl, _, ok := eng.FieldLoad(v); ok && fl == "CountryCode" {
			return true
		}
		return p.AnyFrom(v, deepF, func(x ssa.Value) bool {
			_, fl, _, ok := eng.FieldLoad(x)
			return ok && fl == "CountryCode"
		})
	}
	gEmpty := c.NewGuard(func(fn *ssa.Function) eng.EdgeSet {
		out := eng.EdgeSet{}
		for _, b := range fn.Blocks {
			iff, ok := b.Instrs[len(b.Instrs)-1].(*ssa.If)
			if !ok {
				continue
			}
			bo, ok := iff.Cond.(*ssa.BinOp)
			if !ok {
				continue
			}
			if s, ok := eng.ConstString(bo.Y); ok && s == "" {
				if isAnswerCode(bo.X) {
					if bo.Op == token.EQL {
						out[eng.Edge{From: b, To: b.Succs[0]}] = true
					} else if bo.Op == token.NEQ {
						out[eng.Edge{From: b, To: b.Succs[1]}] = true
					}
				}
			}
		}
		return out
	})
	type rule struct {
		code string
		g    *Guard
		what string
	}
	for _, r := range []rule{{"XL", gLocal, "non-global address"}, {"XD", gDBFail, "database error"}, {"ZZ", gEmpty, "empty country"}, {"XA", gIPNil, "nil address"}} {
		q := storeOf(r.code)
		nEdges := 0
		for _, fn := range reg.Fns {
			for _, e := range sortedEdges(r.g.prim(fn)) {
				nEdges++
				ok, bad := reg.MustPassUp(edgePoint(e), q)
				c.Check("CLASSIFY", key+":"+r.code+":assigned-on-every-"+strings.ReplaceAll(r.what, " ", "-")+"-path", blockPos(p, e.To), ok, fmt.Sprintf("on the %s edge the code can return at %s without labelling the location %s", r.what, p.IPos(bad), r.code))
			}
		}
		if nEdges == 0 {
			c.Check("CLASSIFY", key+":"+r.code+":edge", p.Pos(f.Pos()), false, "no test for the "+r.what+" case")
		}
		reg.Instrs(func(fn *ssa.Function, ins ssa.Instruction) {
			if q(ins) {
				c.CheckAt("CLASSIFY", key+":"+r.code+":only-on-its-edge", ins, reg.CutDeep(ins, r.g), r.code+" is assigned on a path that is not the "+r.what+" case")
			}
		})
	}
	// disabled: no code at all
	for _, fn := range reg.Fns {
		for _, e := range sortedEdges(gMapNil.prim(fn)) {
			bad := eng.ReachableInstrs(edgePoint(e), reg.May(anyCodeStore), nil)
			c.Check("CLASSIFY", key+":empty-when-disabled", blockPos(p, e.To), len(bad) == 0, "a location code is assigned although lookup is disabled")
		}
	}
	reg.Instrs(func(fn *ssa.Function, ins ssa.Instruction) {
		if st, ok := ins.(*ssa.Store); ok && anyCodeStore(ins) {
			if s, ok := eng.ConstString(st.Val); ok {
				switch s {
				case "XA", "XL", "XD", "ZZ":
				default:
					c.CheckAt("CLASSIFY", key+":unknown-code:"+s, ins, false, "a location code other than XA/XL/XD/ZZ is assigned")
				}
			}
		}
	})

	// ---- the address helper ----
	g := fromAddr
	gk := short(g)
	areg := c.NewRegion(g, 3, func(h *ssa.Function) bool { return inPkg(h) || h == fromIP })
	splits := areg.FindCalls(func(n string, _ *ssa.Call) bool { return n == "net.SplitHostPort" })
	parses := areg.FindCalls(func(n string, _ *ssa.Call) bool { return n == "net.ParseIP" })
	inners := areg.FindCalls(func(_ string, call *ssa.Call) bool { return callTo(c, call, fromIP) })
	if len(splits) == 0 || len(parses) == 0 || len(inners) == 0 {
		c.Undecided("CLASSIFY", gk+":anchors", p.Pos(g.Pos()), "the address helper lost SplitHostPort / ParseIP / the call to the IP helper")
		return
	}
	gSplitOK := c.CallGuard(func(call *ssa.Call) (int, bool) { return 2, eng.CalleeName(&call.Call) == "net.SplitHostPort" })
	gParseOK := c.NewGuard(func(fn *ssa.Function) eng.EdgeSet {
		_, nn := p.NilEdges(fn, func(v ssa.Value) bool {
			cc, ok := v.(*ssa.Call)
			return ok && eng.CalleeName(&cc.Call) == "net.ParseIP"
		})
		return nn
	})
	isAddr := func(v ssa.Value) bool {
		g2, _ := p.AllFrom(v, deepF, func(x ssa.Value) bool { return eng.IsParam(x, g, 1) })
		return g2
	}
	gAddrNN := c.NewGuard(func(fn *ssa.Function) eng.EdgeSet { _, nn := p.NilEdges(fn, isAddr); return nn })
	for _, inner := range inners {
		c.CheckAt("CLASSIFY", gk+":lookup-only-after-parsing", inner, areg.CutDeep(inner, gSplitOK) && areg.CutDeep(inner, gParseOK), "the IP helper is called before the address was successfully split and parsed")
		c.CheckAt("CLASSIFY", gk+":lookup-only-for-non-nil-address", inner, areg.CutDeep(inner, gAddrNN), "the IP helper is reachable for a nil address")
		okIP, _ := p.AllFrom(inner.Call.Args[1], deepF, func(v ssa.Value) bool { return inCalls(v, parses, 0) })
		c.CheckAt("CLASSIFY", gk+":classifies-the-parsed-ip", inner, okIP, "the IP classified is not the result of ParseIP")
	}
	for _, parse := range parses {
		okHost, _ := p.AllFrom(parse.Call.Args[0], deepF, func(v ssa.Value) bool { return inCalls(v, splits, 0) })
		c.CheckAt("CLASSIFY", gk+":parses-the-host-of-the-address", parse, okHost, "ParseIP is not applied to the host part of the given address")
	}
	for _, split := range splits {
		okSrc := p.AnyFrom(split.Call.Args[0], eng.OriginOpts{ThroughConvert: true, Interproc: true, ThroughCalls: stringOf}, func(v ssa.Value) bool { return eng.IsParam(v, g, 1) })
		c.CheckAt("CLASSIFY", gk+":splits-the-given-address", split, okSrc, "SplitHostPort is not applied to String() of the given address")
	}
	// every return of the address helper is preceded by an XA label or by the lookup: no path can report an unparseable address without XA
	isRootReturn := func(ins ssa.Instruction) bool { _, ok := ins.(*ssa.Return); return ok && ins.Parent() == g }
	isXAorLookup := func(ins ssa.Instruction) bool {
		if storeOf("XA")(ins) {
			return true
		}
		cl, ok := ins.(*ssa.Call)
		return ok && callTo(c, cl, fromIP)
	}
	okXA, badXA := areg.BeforeDeep(isXAorLookup, isRootReturn)
	c.Check("CLASSIFY", gk+":XA-on-every-path-without-lookup", p.Pos(g.Pos()), okXA, fmt.Sprintf("the address helper can return at %s without having labelled the location XA and without a lookup: an unparseable address gets an empty label", p.IPos(badXA)))
	// XA in the address helper is assigned only when parsing failed (not behind all three success guards)
	areg.Instrs(func(fn *ssa.Function, ins ssa.Instruction) {
		if storeOf("XA")(ins) {
			allOK := areg.CutDeep(ins, gSplitOK) && areg.CutDeep(ins, gParseOK) && areg.CutDeep(ins, gAddrNN)
			c.CheckAt("CLASSIFY", gk+":XA-only-on-parse-failure", ins, !allOK, "XA is assigned although the address was parsed successfully")
		}
	})
	// callers in the metrics code use these helpers for every location label (no direct database access elsewhere)
	for _, fn := range p.Fns {
		if eng.PkgPathOf(fn) == eng.Mod+"/ipinfo" {
			continue
		}
		for _, cl := range eng.Calls(fn) {
			if cl.Common().IsInvoke() && cl.Common().Method.Name() == "GetIPInfo" {
				c.CheckAt("CLASSIFY", short(fn)+":direct-database-access", cl, false, "the location database is consulted outside the classification helpers")
			}
		}
	}
}

// backwardDeps: everything the value v is computed from inside its function — operands transitively, and for a local cell /
// array / struct every value stored into it (so varargs slices, fmt.Errorf("%w", err) and errors.Join(a, b) are looked through).
func backwardDeps(v ssa.Value) map[ssa.Value]bool {
	seen := map[ssa.Value]bool{}
	var work []ssa.Value
	add := func(x ssa.Value) {
		if x != nil && !seen[x] {
			seen[x] = true
			work = append(work, x)
		}
	}
	add(v)
	for len(work) > 0 {
		x := work[len(work)-1]
		work = work[:len(work)-1]
		if ins, ok := x.(ssa.Instruction); ok {
			for _, op := range ins.Operands(nil) {
				if *op != nil {
					add(*op)
				}
			}
		}
		if a, ok := x.(*ssa.Alloc); ok && a.Parent() != nil {
			for _, b := range a.Parent().Blocks {
				for _, ins := range b.Instrs {
					if st, ok := ins.(*ssa.Store); ok && allocRoot(st.Addr) == a {
						add(st.Val)
					}
				}
			}
		}
	}
	return seen
}

// ruleLookupErrorKept (C20, "XD on database errors"): in the location package, the error of every call into the database
// library reaches the error the function returns on the paths on which that call failed. (An error assigned to a shadowed
// variable is lost: the caller sees nil and exports the partial answer instead of XD.)
func ruleLookupErrorKept(c *Ctx, rule string) {
	p := c.P
	thirdParty := func(call *ssa.Call) bool {
		pkgPath := ""
		if call.Call.IsInvoke() {
			if call.Call.Method.Pkg() != nil {
				pkgPath = call.Call.Method.Pkg().Path()
			}
		} else if h := call.Call.StaticCallee(); h != nil && h.Pkg != nil {
			pkgPath = h.Pkg.Pkg.Path()
		}
		return pkgPath != "" && !strings.HasPrefix(pkgPath, eng.Mod) && strings.Contains(strings.SplitN(pkgPath, "/", 2)[0], ".")
	}
	// functions of the location package that (transitively, inside the package) make a database call with an error result
	var fns []*ssa.Function
	for _, f := range p.FnsIn("ipinfo") {
		if !p.IsTestSupport(f) && len(f.Blocks) > 0 {
			fns = append(fns, f)
		}
	}
	looks := map[*ssa.Function]bool{}
	for changed := true; changed; {
		changed = false
		for _, f := range fns {
			if looks[f] {
				continue
			}
			for _, cl := range eng.Calls(f) {
				call, ok := cl.(*ssa.Call)
				if !ok || errorResultIndex(call.Call.Signature()) < 0 {
					continue
				}
				if thirdParty(call) || looks[call.Call.StaticCallee()] {
					looks[f] = true
					changed = true
				}
			}
		}
	}
	n := 0
	for _, f := range fns {
		if !looks[f] || errorResultIndex(f.Signature) < 0 {
			continue
		}
		// the classifier itself (GetIPInfoFromIP and its callers) turns the error into the XD label: it is the consumer, not a
		// link of the chain; the chain ends at the method that implements the database interface
		if f.Signature.Recv() == nil && !looksOnlyThroughHelpers(f, looks) {
			continue
		}
		k := 0
		for _, cl := range eng.Calls(f) {
			call, ok := cl.(*ssa.Call)
			if !ok || errorResultIndex(call.Call.Signature()) < 0 {
				continue
			}
			if !thirdParty(call) && !looks[call.Call.StaticCallee()] {
				continue
			}
			n++
			k++
			good, at, _ := errorKept(c, f, call)
			c.CheckAt(rule, fmt.Sprintf("%s:lookup#%d(%s):error-reaches-the-result", short(f), k, eng.CalleeName(&call.Call)), at, good, "the error of this database lookup does not reach the error returned on a path on which the lookup failed (e.g. it is assigned to a shadowed variable): the caller sees no error and exports the partial answer instead of XD")
		}
	}
	c.Floor(rule, "database lookups with an error result in the location package", n, 2)
}

// looksOnlyThroughHelpers: a plain function of the package that is a helper of the database method (called by a function that
// itself looks up), as opposed to the classifier that consumes the error.
func looksOnlyThroughHelpers(f *ssa.Function, looks map[*ssa.Function]bool) bool {
	if f.Referrers() == nil {
		return false
	}
	for _, r := range *f.Referrers() {
		if cl, ok := r.(ssa.CallInstruction); ok && cl.Parent() != nil && looks[cl.Parent()] && cl.Parent().Signature.Recv() != nil {
			return true
		}
	}
	return false
}
