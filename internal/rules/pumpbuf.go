package rules

import (
	"go/token"
	"go/types"
	"strings"

	"golang.org/x/tools/go/ssa"

	"verif/internal/eng"
)

// hasByteSlice: t is, or (as a struct, nested) contains, a slice.
func hasSlice(t types.Type, d int) bool {
	if d > 4 {
		return false
	}
	switch u := t.Underlying().(type) {
	case *types.Slice:
		return true
	case *types.Struct:
		for i := 0; i < u.NumFields(); i++ {
			if hasSlice(u.Field(i).Type(), d+1) {
				return true
			}
		}
	}
	return false
}

// allocRoot: the local variable (Alloc) that address v points into, through field and index selections.
func allocRoot(v ssa.Value) *ssa.Alloc {
	for i := 0; i < 8; i++ {
		switch x := v.(type) {
		case *ssa.Alloc:
			return x
		case *ssa.FieldAddr:
			v = x.X
		case *ssa.IndexAddr:
			v = x.X
		default:
			return nil
		}
	}
	return nil
}

func derefT(t types.Type) types.Type {
	if pt, ok := t.Underlying().(*types.Pointer); ok {
		return pt.Elem()
	}
	return t
}

// rulePumpBuffer: the buffer the reader goroutine reads the socket into is reused for every datagram, so no slice of it may
// be handed to a handle: what the goroutine sends on a channel never aliases that buffer (the bytes are copied into the
// requester's own buffer before the answer is sent). A handed-out alias is overwritten by the next read while the handle's
// caller is still using it — two goroutines on one array with nothing ordering them.
func rulePumpBuffer(c *Ctx, m *multiModel, rule string) {
	p := c.P
	for _, pump := range m.pumps {
		family := map[*ssa.Function]bool{pump: true}
		for _, h := range regionFns(c, pump, nil, 2) {
			family[h] = true
		}
		// the read buffers: slice arguments of blocking socket reads in the family whose backing array is created outside every loop
		var roots []ssa.Value
		nReads := 0
		for f := range family {
			loops := eng.Loops(f)
			for _, cl := range eng.Calls(f) {
				call, ok := cl.(*ssa.Call)
				if !ok || !isBlockingSocketCall(call) {
					continue
				}
				for _, a := range call.Call.Args {
					if _, isSl := a.Type().Underlying().(*types.Slice); !isSl {
						continue
					}
					nReads++
					for _, o := range p.Origins(a, eng.OriginOpts{ThroughSlice: true, ThroughConvert: true, Interproc: true}) {
						ins, isIns := o.(ssa.Instruction)
						if !isIns || ins.Block() == nil {
							continue
						}
						switch o.(type) {
						case *ssa.MakeSlice, *ssa.Alloc:
						default:
							continue
						}
						if ins.Parent() != nil && family[ins.Parent()] && eng.InnermostLoop(eng.Loops(ins.Parent()), ins.Block()) != nil {
							continue // a fresh buffer per read
						}
						_ = loops
						roots = append(roots, o)
					}
				}
			}
		}
		if nReads == 0 {
			continue // a pump that accepts connections reads into no buffer
		}
		// forward: everything in the family that aliases a root
		taint := map[ssa.Value]bool{}
		var work []ssa.Value
		add := func(v ssa.Value) {
			if v != nil && !taint[v] {
				taint[v] = true
				work = append(work, v)
			}
		}
		for _, r := range roots {
			add(r)
		}
		var leak []ssa.Instruction
		for len(work) > 0 {
			v := work[len(work)-1]
			work = work[:len(work)-1]
			refs := v.Referrers()
			if refs == nil {
				continue
			}
			for _, r := range *refs {
				if r.Parent() == nil || !family[r.Parent()] {
					continue
				}
				switch x := r.(type) {
				case *ssa.Slice:
					if x.X == v {
						add(x)
					}
				case *ssa.Phi, *ssa.ChangeType, *ssa.Convert:
					add(r.(ssa.Value))
				case *ssa.UnOp:
					// load of a tainted local cell
					if x.Op == token.MUL && x.X == v && hasSlice(x.Type(), 0) {
						add(x)
					}
				case *ssa.FieldAddr:
					// address of a field of a tainted local struct: loads through it
					if x.X == v && hasSlice(derefT(x.Type()), 0) {
						add(x)
					}
				case *ssa.Field:
					if x.X == v && hasSlice(x.Type(), 0) {
						add(x)
					}
				case *ssa.Store:
					if x.Val != v {
						continue
					}
					// a local variable / a field of a local struct: the cell (and what is loaded from it) aliases the buffer
					if cell := allocRoot(x.Addr); cell != nil && family[cell.Parent()] {
						add(cell)
					} else {
						leak = append(leak, x)
					}
				case *ssa.Send:
					if x.X == v {
						leak = append(leak, x)
					}
				case *ssa.Call:
					if b, ok := x.Call.Value.(*ssa.Builtin); ok {
						_ = b // copy / len / cap / append(dst, src...) read it
						continue
					}
					if isBlockingSocketCall(x) {
						continue
					}
					if h := x.Call.StaticCallee(); h != nil && family[h] {
						for i, a := range x.Call.Args {
							if a == v && i < len(h.Params) {
								add(h.Params[i])
							}
						}
					}
				}
			}
		}
		key := short(pump) + ":read-buffer-stays-in-the-goroutine"
		if len(leak) == 0 {
			c.CheckAt(rule, key, pump.Blocks[0].Instrs[0], true, "")
		}
		for _, l := range leak {
			c.CheckAt(rule, key, l, false, "the reader goroutine hands a slice of its own reused read buffer to another goroutine (sent on a channel or stored in the request): the next socket read overwrites the bytes while the receiver still uses them — the datagram must be copied into the requester's buffer first")
		}
	}
}

// hasLock: a value of type t carries a sync.Mutex / sync.RWMutex by value.
func hasLock(t types.Type, d int) bool {
	if d > 5 {
		return false
	}
	if n, ok := t.(*types.Named); ok && n.Obj().Pkg() != nil && n.Obj().Pkg().Path() == "sync" {
		switch n.Obj().Name() {
		case "Mutex", "RWMutex", "WaitGroup", "Once", "Cond":
			return true
		}
	}
	switch u := t.Underlying().(type) {
	case *types.Struct:
		for i := 0; i < u.NumFields(); i++ {
			if hasLock(u.Field(i).Type(), d+1) {
				return true
			}
		}
	case *types.Array:
		return hasLock(u.Elem(), d+1)
	}
	return false
}

// ruleNoLockCopy: guarded state is never duplicated. Loading a whole value of a type that carries a mutex makes a second
// object with its own lock whose maps / slices still point at the first object's storage: two goroutines then "hold the
// lock" at the same time. Only a value the function has just built itself (a local composite literal) may be loaded.
func ruleNoLockCopy(c *Ctx, rule string) {
	p := c.P
	n, types_ := 0, map[string]bool{}
	for _, f := range p.Fns {
		if p.IsTestSupport(f) || len(f.Blocks) == 0 {
			continue
		}
		for _, b := range f.Blocks {
			for _, ins := range b.Instrs {
				u, ok := ins.(*ssa.UnOp)
				if !ok || u.Op != token.MUL || !hasLock(u.Type(), 0) {
					continue
				}
				n++
				types_[eng.TypeName(u.Type())] = true
				fresh := false
				if a, isA := u.X.(*ssa.Alloc); isA && a.Parent() == f {
					fresh = true
				}
				c.CheckAt(rule, "lock-carrying-value-not-copied:"+short(f)+":"+eng.TypeName(u.Type()), u, fresh, "a whole "+eng.TypeName(u.Type())+" (which contains a mutex) is copied out of shared storage: the copy has its own lock but shares the original's maps, so the two are no longer mutually exclusive")
			}
		}
	}
	// ... nor passed or received by value: a method with a value receiver (or a by-value parameter) of such a type works on a
	// copy of the mutex in whatever state it was in when the call was made
	for _, f := range p.Fns {
		if p.IsTestSupport(f) || len(f.Blocks) == 0 {
			continue
		}
		for _, pa := range f.Params {
			if hasLock(pa.Type(), 0) {
				c.CheckAt(rule, "lock-carrying-value-not-copied:"+short(f)+":param:"+pa.Name(), f.Blocks[0].Instrs[0], false, "parameter / receiver "+pa.Name()+" of "+short(f)+" is a "+eng.TypeName(pa.Type())+" by value: every call copies the mutex inside it (possibly locked, and never unlocked in the copy)")
			}
		}
	}
	// vacuity guard: the lock-carrying types exist
	nt := 0
	for path, pkg := range p.AllPkgs {
		if pkg.Types == nil || !strings.HasPrefix(path, eng.Mod) {
			continue
		}
		sc := pkg.Types.Scope()
		for _, name := range sc.Names() {
			if tn, ok := sc.Lookup(name).(*types.TypeName); ok && hasLock(tn.Type(), 0) {
				nt++
			}
		}
	}
	c.Floor(rule, "types of the module that carry a lock by value", nt, 3)
	_ = n
}
