package rules

import (
	"fmt"
	"sort"
	"strings"

	"golang.org/x/tools/go/ssa"
)

func init() {
	register(&PropDef{ID: "C13", Level: "proof", Run: runC13,
		Explanation: "Deadlock freedom of listener management as a sufficient structural condition, decided for every call path at once: " +
			"(ORDER) the lock-order graph over all mutex classes of the module — built from must-hold lock sets and the VTA call graph, including " +
			"calls through function-valued fields and callbacks — is acyclic (no self-loops either); (NOBLOCK) while any mutex class is held there is " +
			"no channel send/receive, blocking select, WaitGroup/Cond wait or sleep; (RELEASE) every Lock in the listener code is followed by its Unlock on all paths " +
			"(explicit or deferred). Mutex waits are then the only blocking operations on Listen/Close paths and they are well ordered, so every call returns.",
		NotDecided: "that syscalls made under a lock (net.Listen*, Close) return; fairness of the Go mutex; lock classes merge all instances of a type (conservative).",
		Trusted:    []string{"sync.Mutex/RWMutex semantics", "lock classes are identified by (struct type, field); pointer-typed lock fields are resolved through the stores to that field"},
	})
}

func lockAnalysisCommon(c *Ctx) {
	l := c.L()
	var classes []string
	for k := range l.Classes {
		classes = append(classes, k)
	}
	sort.Strings(classes)
	c.Note("lock_classes", classes)
	var edges []string
	for k, w := range l.Order {
		edges = append(edges, fmt.Sprintf("%s -> %s  (%d sites; e.g. %s)", k[0], k[1], len(w), strings.Join(w[0].Chain, " => ")))
	}
	sort.Strings(edges)
	c.Note("lock_order_edges", edges)
	for _, u := range l.Unknown {
		c.Undecided("LOCKCLASS", "lock-operand:"+u, "-", "cannot resolve the lock operand to a lock class")
	}
}

func runC13(c *Ctx) {
	l := c.L()
	lockAnalysisCommon(c)
	// the analysis identifies a mutex with the field of its struct type: that is sound only if no such struct is ever copied
	// (a copy made while the original is locked is a locked mutex that nobody will unlock — the next Lock on it never returns)
	ruleNoLockCopy(c, "NOCOPY")
	c.Floor("ORDER", "mutex classes", len(l.Classes), 10)
	c.Floor("ORDER", "lock-order edges", len(l.Order), 8)

	// the listener-management classes must be among the classes seen
	need := []string{"service.listenerManager.mu", "service.multiStreamListener.mu", "service.multiPacketListener.mu", "service.virtualStreamListener.mu", "service.virtualPacketConn.mu"}
	for _, n := range need {
		if !l.Classes[n] {
			// tolerate renames: any class of that struct type
			t := n[:strings.LastIndex(n, ".")]
			found := false
			for k := range l.Classes {
				if strings.HasPrefix(k, t+".") {
					found = true
				}
			}
			if !found && c.P.LookupType(t) != nil {
				// the type exists but takes no lock: allowed only if it has no mutex field
				hasMu := false
				for _, f := range c.P.StructFields(t) {
					if s := f.Type().String(); s == "sync.Mutex" || s == "sync.RWMutex" {
						hasMu = true
					}
				}
				if hasMu {
					c.Undecided("ORDER", "class:"+n, "-", "listener type has a mutex that is never locked")
				}
			}
		}
	}

	// ORDER: one obligation per edge (discharged when not on a cycle), one violation per cycle
	inCycle := map[string]int{}
	cycles := l.Cycles()
	for i, cyc := range cycles {
		for _, n := range cyc {
			inCycle[n] = i + 1
		}
	}
	var keys [][2]string
	for k := range l.Order {
		keys = append(keys, k)
	}
	sort.Slice(keys, func(i, j int) bool { return keys[i][0]+keys[i][1] < keys[j][0]+keys[j][1] })
	for _, k := range keys {
		w := l.Order[k][0]
		bad := inCycle[k[0]] != 0 && inCycle[k[0]] == inCycle[k[1]]
		c.CheckAt("ORDER", "edge:"+k[0]+"->"+k[1], w.Site, !bad,
			fmt.Sprintf("%s acquired while holding %s via %s", k[1], k[0], strings.Join(w.Chain, " => ")))
	}
	for _, cyc := range cycles {
		var chains []string
		for k, ws := range l.Order {
			if inCycle[k[0]] == inCycle[cyc[0]] && inCycle[k[1]] == inCycle[cyc[0]] {
				chains = append(chains, k[0]+" -> "+k[1]+": "+strings.Join(ws[0].Chain, " => "))
			}
		}
		sort.Strings(chains)
		c.Check("ORDER", "cycle:"+strings.Join(cyc, "<->"), c.P.IPos(firstSite(l.Order, cyc)), false, "lock-order cycle: "+strings.Join(chains, " || "))
	}
	if len(cycles) == 0 {
		c.Check("ORDER", "acyclic", "-", true, fmt.Sprintf("lock-order graph over %d classes and %d edges has no cycle", len(l.Classes), len(l.Order)))
	}

	// NOBLOCK
	n := 0
	for _, f := range c.P.Fns {
		for _, b := range f.Blocks {
			for _, ins := range b.Instrs {
				switch v := ins.(type) {
				case *ssa.Send:
					n++
				case *ssa.Select:
					n++
				case *ssa.UnOp:
					if v.Op.String() == "<-" {
						n++
					}
				}
			}
		}
	}
	c.Floor("NOBLOCK", "channel operations examined", n, 10)
	for _, b := range l.Blocking {
		c.CheckAt("NOBLOCK", short(b.Fn)+":"+b.What, b.Ins, false, fmt.Sprintf("%s while holding %s", b.What, b.Held))
	}
	if len(l.Blocking) == 0 {
		c.Check("NOBLOCK", "no-blocking-under-lock", "-", true, fmt.Sprintf("%d channel operations, none executed with a lock held", n))
	}

	ruleLockRelease(c, "RELEASE", nil, 15)
}

// ruleLockRelease: every function (accepted by only, nil = all) that locks a class releases it on all paths to exit
// (no lock leaks out of a function).
func ruleLockRelease(c *Ctx, rule string, only func(*ssa.Function) bool, floor int) {
	l := c.L()
	lockFns := 0
	for _, f := range c.P.Fns {
		if only != nil && !only(f) {
			continue
		}
		locks := false
		for _, cl := range callsOf(f) {
			if op := l.AsLockOp(cl.Common()); op != nil && (op.Kind == "Lock" || op.Kind == "RLock") {
				locks = true
			}
		}
		if !locks {
			continue
		}
		lockFns++
		entry := l.Entry[f]
		for ri, r := range returnsOf(f) {
			held := l.Held(r)
			// Held(return) is before rundefers effects? RunDefers precedes Return in the same block, so effects are applied.
			var leaked []string
			for k := range held {
				if !entry.Has(k) {
					leaked = append(leaked, k)
				}
			}
			sort.Strings(leaked)
			c.CheckAt(rule, fmt.Sprintf("%s:return#%d", short(f), ri), r, len(leaked) == 0, fmt.Sprintf("locks still held at return: %v", leaked))
		}
	}
	c.Floor(rule, "functions that take a lock", lockFns, floor)
}

func firstSite(order map[[2]string][]eOW, cyc []string) ssa.Instruction {
	for k, ws := range order {
		if k[0] == cyc[0] {
			return ws[0].Site
		}
	}
	return nil
}
