package rules

import (
	"fmt"
	"sort"
	"strings"

	"golang.org/x/tools/go/ssa"

	"verif/internal/eng"
)

// siteOptions resolves the option constructors (service.With*) whose results are handed to one NewShadowsocksService call:
// the elements stored into the variadic / literal slice, through appends and through helpers that build the list.
func siteOptions(c *Ctx, call *ssa.CallCommon) (map[string][]*ssa.Call, bool) {
	p := c.P
	out := map[string][]*ssa.Call{}
	resolved := true
	seen := map[ssa.Value]bool{}
	var elem func(v ssa.Value)
	var list func(v ssa.Value)
	elem = func(v ssa.Value) {
		oo := eng.Deep
		oo.Stop = func(x ssa.Value) bool {
			cc, _, ok := eng.AsResult(x)
			return ok && strings.HasPrefix(eng.CalleeName(&cc.Call), "service.With")
		}
		for _, o := range p.Origins(v, oo) {
			cc, _, ok := eng.AsResult(o)
			if !ok {
				resolved = false
				continue
			}
			n := eng.CalleeName(&cc.Call)
			if !strings.HasPrefix(n, "service.With") {
				resolved = false
				continue
			}
			out[n] = append(out[n], cc)
		}
	}
	list = func(v ssa.Value) {
		for _, o := range p.Origins(v, eng.OriginOpts{ThroughConvert: true, Interproc: true}) {
			if seen[o] {
				continue
			}
			seen[o] = true
			switch x := o.(type) {
			case *ssa.Slice:
				arr, ok := x.X.(*ssa.Alloc)
				if !ok {
					list(x.X)
					continue
				}
				for _, r := range *arr.Referrers() {
					if ia, ok := r.(*ssa.IndexAddr); ok {
						for _, rr := range *ia.Referrers() {
							if st, ok := rr.(*ssa.Store); ok && st.Addr == ssa.Value(ia) {
								elem(st.Val)
							}
						}
					}
				}
			case *ssa.Call:
				if b, ok := x.Call.Value.(*ssa.Builtin); ok && b.Name() == "append" {
					for _, a := range x.Call.Args {
						list(a)
					}
					continue
				}
				resolved = false
			case *ssa.Const:
				// nil slice
			default:
				resolved = false
			}
		}
	}
	if len(call.Args) == 0 {
		return out, true
	}
	list(call.Args[len(call.Args)-1])
	return out, resolved
}

// ruleServiceOptions (sibling agreement): every place where the server command builds a Shadowsocks service hands it the option
// `opt` (what), and the argument is not nil; the places agree on the set of options they pass.
func ruleServiceOptions(c *Ctx, rule, opt, what string) {
	p := c.P
	n := 0
	type site struct {
		ins  ssa.Instruction
		opts map[string][]*ssa.Call
	}
	var sites []site
	for _, s := range p.CallSites(eng.Named("service.NewShadowsocksService")) {
		if !strings.HasPrefix(eng.PkgPathOf(s.Fn), eng.Mod+"/cmd/") || p.IsTestSupport(s.Fn) {
			continue
		}
		n++
		call := s.Ins.(ssa.CallInstruction).Common()
		opts, ok := siteOptions(c, call)
		key := fmt.Sprintf("service#%d", n)
		if !ok && len(opts[opt]) == 0 {
			c.Undecided(rule, key+":options-resolved", p.IPos(s.Ins), "cannot resolve the options handed to this service construction")
			continue
		}
		sites = append(sites, site{s.Ins, opts})
		c.CheckAt(rule, key+":gets-"+opt, s.Ins, len(opts[opt]) > 0, "a service is built without "+opt+": "+what)
		for _, oc := range opts[opt] {
			nonNil := len(oc.Call.Args) > 0 && !p.AnyFrom(oc.Call.Args[0], eng.Plain, func(v ssa.Value) bool {
				k, ok := v.(*ssa.Const)
				return ok && k.IsNil()
			})
			c.CheckAt(rule, key+":"+opt+"-argument-not-nil", oc, nonNil, opt+" is given nil: "+what)
		}
	}
	c.Floor(rule, "service constructions in the server command", n, 1)
	names := func(m map[string][]*ssa.Call) string {
		var out []string
		for k := range m {
			out = append(out, strings.TrimPrefix(k, "service."))
		}
		sort.Strings(out)
		return strings.Join(out, ",")
	}
	for i := 1; i < len(sites); i++ {
		a, b := names(sites[0].opts), names(sites[i].opts)
		c.CheckAt(rule, fmt.Sprintf("service#%d:same-options-as-service#1", i+1), sites[i].ins, a == b, "two places that build a Shadowsocks service pass different option sets ("+a+" vs "+b+"): services of one configuration format silently lack what the other format gets")
	}
}
