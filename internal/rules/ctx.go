// Package rules holds the rule instances per property (DESIGN.md §4) and the obligation/evidence model (§3).
package rules

import (
	"fmt"
	"sort"
	"strings"

	"golang.org/x/tools/go/ssa"

	"verif/internal/eng"
)

// Verdicts of an obligation.
const (
	Discharged = "discharged"
	Violated   = "violated"
	Undecided  = "undecided"
)

// Ob is one obligation: a rule applied to one construct of the code base.
type Ob struct {
	Rule    string `json:"rule"`
	Key     string `json:"key"` // construct key (function, callee, field …) — never a line number
	Pos     string `json:"pos"`
	Verdict string `json:"verdict"`
	Detail  string `json:"detail,omitempty"`
	Known   string `json:"known_finding,omitempty"`
}

// Floor records the vacuity floor of a rule: how many instances were confirmed by hand vs. found now.
type Floor struct {
	Rule  string `json:"rule"`
	What  string `json:"what"`
	Found int    `json:"found"`
	Min   int    `json:"min"`
}

// Exemption is one reasoned exception used in this run.
type Exemption struct {
	Rule   string `json:"rule"`
	Symbol string `json:"symbol"`
	Reason string `json:"reason"`
}

// Ctx is the per-run context handed to the rules of one property.
type Ctx struct {
	P          *eng.Prog
	Prop       string
	Obs        []Ob
	Floors     []Floor
	Exemptions []Exemption
	Info       map[string]any
	locks      *eng.Locks
	Tier       string
}

// L returns the (lazily computed) lock analysis.
func (c *Ctx) L() *eng.Locks {
	if c.locks == nil {
		c.locks = c.P.AnalyzeLocks()
	}
	return c.locks
}

func (c *Ctx) add(rule, key, pos, verdict, detail string) {
	c.Obs = append(c.Obs, Ob{Rule: c.Prop + "." + rule, Key: key, Pos: pos, Verdict: verdict, Detail: detail})
}

// Check records an obligation as discharged or violated.
func (c *Ctx) Check(rule, key, pos string, ok bool, detail string) bool {
	v := Discharged
	// detail is the failure text; "okText||failText" gives both.
	okText, failText := "", detail
	if i := strings.Index(detail, "||"); i >= 0 {
		okText, failText = detail[:i], detail[i+2:]
	}
	if !ok {
		v = Violated
		detail = failText
	} else {
		detail = okText
	}
	c.add(rule, key, pos, v, detail)
	return ok
}

// CheckAt is Check with the position of an instruction.
func (c *Ctx) CheckAt(rule, key string, at ssa.Instruction, ok bool, detail string) bool {
	return c.Check(rule, key, c.P.IPos(at), ok, detail)
}

// Undecided records an obligation the rule could not decide (anchor missing, unknown idiom): it fails the check.
func (c *Ctx) Undecided(rule, key, pos, detail string) {
	c.add(rule, key, pos, Undecided, detail)
}

// Floor records the instance count of a rule; fewer than min is an undecided obligation (vacuity guard).
func (c *Ctx) Floor(rule, what string, found, min int) bool {
	c.Floors = append(c.Floors, Floor{c.Prop + "." + rule, what, found, min})
	if found < min {
		c.add(rule, "anchor-count:"+what, "-", Undecided, fmt.Sprintf("found %d %s, expected at least %d: the rule would pass vacuously", found, what, min))
		return false
	}
	return true
}

// Exempt records a reasoned exemption.
func (c *Ctx) Exempt(rule, symbol, reason string) {
	c.Exemptions = append(c.Exemptions, Exemption{c.Prop + "." + rule, symbol, reason})
}

// Note stores additional information for the evidence file.
func (c *Ctx) Note(key string, v any) {
	if c.Info == nil {
		c.Info = map[string]any{}
	}
	c.Info[key] = v
}

// Fn looks up a repo function and records an undecided obligation if it is missing.
func (c *Ctx) Fn(rule, name string) *ssa.Function {
	f := c.P.Fn(name)
	if f == nil {
		c.Undecided(rule, "anchor:"+name, "-", "anchor function not found")
	}
	return f
}

// name helpers
func short(f *ssa.Function) string { return eng.Short(f.String()) }

func valStr(p *eng.Prog, v ssa.Value) string {
	if v == nil {
		return "<nil>"
	}
	s := v.Name()
	if c, ok := v.(*ssa.Const); ok {
		return c.String()
	}
	if i, ok := v.(ssa.Instruction); ok {
		return fmt.Sprintf("%s (%s at %s)", s, eng.Short(i.String()), p.IPos(i))
	}
	return s + ":" + eng.Short(v.String())
}

func valsStr(p *eng.Prog, vs []ssa.Value) string {
	var out []string
	for _, v := range vs {
		out = append(out, valStr(p, v))
	}
	sort.Strings(out)
	return strings.Join(out, "; ")
}

// Counts summarises obligations.
func (c *Ctx) Counts() (total, discharged, undecided, violated int) {
	for _, o := range c.Obs {
		total++
		switch o.Verdict {
		case Discharged:
			discharged++
		case Undecided:
			undecided++
		case Violated:
			violated++
		}
	}
	return
}

// PropDef describes one property's check.
type PropDef struct {
	ID          string
	Level       string
	Run         func(c *Ctx)
	Explanation string
	NotDecided  string
	Trusted     []string
}

// Registry of property checks, filled by init functions of the cNN.go files.
var Registry = map[string]*PropDef{}

func register(d *PropDef) { Registry[d.ID] = d }
