package rules

import (
	"fmt"
	"go/token"
	"go/types"
	"strings"

	"golang.org/x/tools/go/ssa"

	"verif/internal/eng"
)

func init() {
	register(&PropDef{ID: "C14", Level: "other", Run: runC14,
		Explanation: "Reclamation structure of UDP associations on all paths: (TEARDOWN) in the association goroutine, after the reply loop returns, removal is reported exactly once, the entry is deleted and the socket returned by the " +
			"deletion is closed; the reply loop is left only through the timeout classification of a read error; (SOLEDELETER) entries are removed from the table only by the deletion helper, which only association goroutines call, " +
			"and inserted only by Add — otherwise the conditional close in the goroutine can miss its socket; (ARM) every write through an association extends the read deadline before the datagram is sent, on all paths " +
			"(a write that skips it can leave the association without any deadline, so it is never reclaimed); (MONOTONE) a deadline derived from now+timeout is installed only on the After(readDeadline) edge and recorded, the only other " +
			"deadline write is the immediate fast-close inside the sync.Once reached from the read side; (SHUTDOWN) the datagram loop defers the table's Close before its first read and Close visits every entry under the write lock; " +
			"(DNS) the DNS timeout constant is 17 s and DNS is decided from port 53 of the address being written.",
		NotDecided: "every 'at least / within bounded time' clause (timing); kernel behaviour of deadlines.",
	})
}

func runC14(c *Ctx) {
	ruleTeardown(c, "TEARDOWN")
	ruleSoleDeleter(c)
	ruleArm(c)
	ruleMonotone(c)
	ruleShutdown(c)
	ruleDNS(c)
}

const natmapT = "service.natmap"
const natconnT = "service.natconn"

func assocGoroutines(c *Ctx) []*ssa.Function {
	var out []*ssa.Function
	for _, g := range c.P.GoSites() {
		if g.Fn.Signature.Recv() != nil && eng.TypeName(g.Fn.Signature.Recv().Type()) == natmapT {
			for _, t := range g.Targets {
				if c.P.InRepo(t) {
					out = append(out, t)
				}
			}
		}
	}
	return out
}

// replyLoopFn: the function containing the loop that reads replies from the association socket (natconn.ReadFrom).
func replyLoopFns(c *Ctx) []*ssa.Function {
	var out []*ssa.Function
	for _, f := range c.P.FnsIn("service") {
		if f.Parent() != nil {
			continue
		}
		for _, g := range eng.Family(f) {
			for _, cl := range eng.Calls(g) {
				if eng.CalleeName(cl.Common()) == "(*service.natconn).ReadFrom" {
					out = append(out, f)
					goto next
				}
			}
		}
	next:
	}
	return out
}

// C14.TEARDOWN (shared with C18.CLOSEPAIR and C16.ENTRY)
func ruleTeardown(c *Ctx, rule string) {
	p := c.P
	gs := assocGoroutines(c)
	if !c.Floor(rule, "association goroutines (go statements in natmap methods)", len(gs), 1) {
		return
	}
	for _, g := range gs {
		key := short(g)
		entry := eng.Point{B: g.Blocks[0]}
		isRemove := func(ins ssa.Instruction) bool {
			cl, ok := ins.(*ssa.Call)
			return ok && eng.MethodName(&cl.Call) == "RemoveNatEntry"
		}
		mn, mx, _ := eng.CountOnPaths(entry, isRemove, nil)
		c.Check(rule, key+":removal-reported-exactly-once", p.Pos(g.Pos()), mn == 1 && mx == 1, fmt.Sprintf("the association goroutine reports removal %d..%d times on its paths (must be exactly once)", mn, mx))
		// the reply loop call dominates the removal report
		var loopCall ssa.Instruction
		for _, cl := range eng.Calls(g) {
			for _, callee := range repoCallees(c, cl) {
				for _, rl := range replyLoopFns(c) {
					if callee == rl {
						loopCall = cl
					}
				}
			}
		}
		if loopCall == nil {
			c.Undecided(rule, key+":reply-loop-call", p.Pos(g.Pos()), "the association goroutine does not call the reply loop")
			continue
		}
		for _, b := range g.Blocks {
			for _, ins := range b.Instrs {
				if isRemove(ins) {
					c.CheckAt(rule, key+":removal-after-reply-loop", ins, eng.Dominates(loopCall, ins), "removal is reported before the reply loop has ended")
				}
			}
		}
		// delete the entry, then close the socket the deletion returned
		var del *ssa.Call
		for _, cl := range eng.Calls(g) {
			if call, ok := cl.(*ssa.Call); ok && eng.CalleeName(&call.Call) == "(*service.natmap).del" {
				del = call
			}
		}
		if del == nil {
			c.Check(rule, key+":entry-deleted", p.Pos(g.Pos()), false, "the association goroutine never deletes its table entry")
			continue
		}
		okDel, _ := eng.MustPass(eng.After(loopCall), func(ins ssa.Instruction) bool { return ins == ssa.Instruction(del) })
		c.CheckAt(rule, key+":entry-deleted", del, okDel, "after the reply loop the goroutine can exit without deleting its table entry")
		_, nonNil := p.NilEdges(g, func(v ssa.Value) bool { return v == ssa.Value(del) })
		isClose := func(ins ssa.Instruction) bool {
			cl, ok := ins.(*ssa.Call)
			if !ok || eng.MethodName(&cl.Call) != "Close" {
				return false
			}
			r := eng.Receiver(&cl.Call)
			return r != nil && p.AnyFrom(r, eng.Plain, func(v ssa.Value) bool { return v == ssa.Value(del) })
		}
		okClose := false
		if len(nonNil) > 0 {
			okClose = true
			for _, e := range sortedEdges(nonNil) {
				if ok, _ := eng.MustPass(edgePoint(e), isClose); !ok {
					okClose = false
				}
			}
		} else {
			okClose, _ = eng.MustPass(eng.After(del), isClose)
		}
		c.CheckAt(rule, key+":socket-closed", del, okClose, "the outbound socket returned by the deletion is not closed on every path: the descriptor leaks")
		// the key deleted is the key inserted: both derive from String() of the same address parameter of Add
		add := g.Parent()
		if add != nil {
			var set *ssa.Call
			for _, cl := range eng.Calls(add) {
				if call, ok := cl.(*ssa.Call); ok && eng.CalleeName(&call.Call) == "(*service.natmap).set" {
					set = call
				}
			}
			if set != nil {
				k1 := keyAddrOrigin(c, eng.Arg(&set.Call, 0))
				k2 := keyAddrOrigin(c, eng.Arg(&del.Call, 0))
				c.CheckAt(rule, key+":deletes-the-key-it-inserted", del, k1 != nil && k1 == k2, fmt.Sprintf("the entry is inserted under String() of %s but deleted under String() of %s", valStr(p, k1), valStr(p, k2)))
			}
		}
	}
	// reply loops leave only through the timeout classification
	for _, rl := range replyLoopFns(c) {
		loops := eng.Loops(rl)
		if !c.Floor(rule, "loops in "+short(rl), len(loops), 1) {
			continue
		}
		for _, l := range loops {
			for i, e := range l.Exits {
				iff, ok := e.From.Instrs[len(e.From.Instrs)-1].(*ssa.If)
				good := false
				why := "exit edge is not a test of the expiry flag"
				if ok {
					if u, isU := iff.Cond.(*ssa.UnOp); isU && u.Op == token.MUL {
						if cell := eng.CellRoot(u.X); cell != nil {
							good = true
							for _, st := range p.CellStores(cell) {
								if cst, isC := st.Val.(*ssa.Const); isC && cst.Value != nil && cst.Value.ExactString() == "false" {
									continue
								}
								// a store of true must be cut by the true edge of a (net.Error).Timeout() test
								f := st.Parent()
								tEdges, _ := eng.BoolEdges(f, func(v ssa.Value) bool {
									cc, ok := v.(*ssa.Call)
									return ok && eng.CalleeName(&cc.Call) == "(net.Error).Timeout"
								})
								if len(tEdges) == 0 || !eng.Cut(f, st.Block(), tEdges) {
									good = false
									why = "the expiry flag is set at " + p.IPos(st) + " on a path that is not the Timeout() classification of a read error"
								}
							}
						}
					}
				}
				c.Check(rule, fmt.Sprintf("%s:loop-exit#%d", short(rl), i), blockPos(p, e.From), good, "the reply loop can end for a reason other than deadline expiry ("+why+"): the association would be torn down while it is still promised to the client")
			}
		}
	}
}

// keyAddrOrigin: v == X.String() → X (resolved).
func keyAddrOrigin(c *Ctx, v ssa.Value) ssa.Value {
	call, ok := c.P.Resolve(v).(*ssa.Call)
	if !ok || eng.MethodName(&call.Call) != "String" {
		return nil
	}
	os := c.P.Origins(eng.Receiver(&call.Call), eng.Plain)
	if len(os) != 1 {
		return nil
	}
	return os[0]
}

// C14.SOLEDELETER
func ruleSoleDeleter(c *Ctx) {
	p := c.P
	assoc := map[*ssa.Function]bool{}
	for _, g := range assocGoroutines(c) {
		assoc[g] = true
	}
	nDel, nSet := 0, 0
	for _, acc := range p.FieldAccesses(natmapT, "keyConn") {
		if !acc.Write || acc.Fresh {
			continue
		}
		// which kind of mutation?
		fa := acc.Ins.(*ssa.FieldAddr)
		for _, r := range *fa.Referrers() {
			u, ok := r.(*ssa.UnOp)
			if !ok {
				continue
			}
			for _, rr := range *u.Referrers() {
				switch x := rr.(type) {
				case *ssa.Call:
					if _, isDel := isBuiltinCall(x, "delete"); isDel {
						nDel++
						c.CheckAt("SOLEDELETER", short(acc.Fn)+":delete", x, acc.Fn.Name() == "del", "table entries are removed outside the deletion helper: the owning association goroutine then finds nothing to close and its socket leaks")
					}
				case *ssa.MapUpdate:
					nSet++
					c.CheckAt("SOLEDELETER", short(acc.Fn)+":insert", x, acc.Fn.Name() == "set", "table entries are inserted outside the insertion helper")
				}
			}
		}
	}
	c.Floor("SOLEDELETER", "delete sites", nDel, 1)
	c.Floor("SOLEDELETER", "insert sites", nSet, 1)
	if del := p.Fn("(*service.natmap).del"); del != nil {
		for _, s := range p.CallSitesOf(del) {
			c.CheckAt("SOLEDELETER", "del-caller:"+short(s.Fn), s.Ins, assoc[s.Fn], "the deletion helper is called from outside an association goroutine")
		}
	}
	if set := p.Fn("(*service.natmap).set"); set != nil {
		for _, s := range p.CallSitesOf(set) {
			ok := s.Fn.Name() == "Add" && s.Fn.Signature.Recv() != nil
			c.CheckAt("SOLEDELETER", "set-caller:"+short(s.Fn), s.Ins, ok, "the insertion helper is called from outside Add: an entry without an owning goroutine is never reclaimed")
		}
	}
}

// deadlineFns: natconn methods that store the readDeadline field.
func deadlineExtenders(c *Ctx) []*ssa.Function {
	seen := map[*ssa.Function]bool{}
	var out []*ssa.Function
	for _, st := range c.P.FieldStores(natconnT, "readDeadline") {
		if !st.Fresh && !seen[st.Fn] {
			seen[st.Fn] = true
			out = append(out, st.Fn)
		}
	}
	return out
}

// C14.ARM
func ruleArm(c *Ctx) {
	p := c.P
	ext := deadlineExtenders(c)
	if !c.Floor("ARM", "functions that extend the association deadline", len(ext), 1) {
		return
	}
	wt := fnByMethod(c, "service", natconnT, "WriteTo")
	if wt == nil {
		c.Undecided("ARM", "anchor:natconn.WriteTo", "-", "natconn has no WriteTo method: writes through an association do not pass a deadline hook")
		return
	}
	var armCalls []ssa.Instruction
	for _, cl := range eng.Calls(wt) {
		for _, callee := range repoCallees(c, cl) {
			for _, e := range ext {
				if callee == e {
					armCalls = append(armCalls, cl)
				}
			}
		}
	}
	n := 0
	for _, cl := range eng.Calls(wt) {
		call, ok := cl.(*ssa.Call)
		if !ok || eng.CalleeName(&call.Call) != "(net.PacketConn).WriteTo" {
			continue
		}
		n++
		ok2 := false
		for _, a := range armCalls {
			if eng.Dominates(a, call) {
				ok2 = true
			}
		}
		c.CheckAt("ARM", short(wt)+":deadline-extended-before-send", call, ok2, "a datagram can be sent through the association without the deadline having been extended first (e.g. only after a successful send): an association whose first send fails never gets a deadline and is never reclaimed")
	}
	c.Floor("ARM", "underlying sends in "+short(wt), n, 1)
	// the address used to classify DNS is the address being written
	for _, a := range armCalls {
		cc := a.(ssa.CallInstruction).Common()
		okAddr := false
		for i := range cc.Args {
			if i == 0 {
				continue
			}
			if p.AnyFrom(cc.Args[i], eng.Plain, func(v ssa.Value) bool { return eng.IsParam(v, wt, 2) }) {
				okAddr = true
			}
		}
		c.CheckAt("ARM", short(wt)+":deadline-hook-gets-destination", a, okAddr, "the deadline hook is not given the destination address of this write")
	}
	// every target write in the datagram function goes through natconn.WriteTo (not the embedded conn directly)
	if dg := datagramFn(c); dg != nil {
		for _, cl := range eng.Calls(dg) {
			if eng.CalleeName(cl.Common()) == "(net.PacketConn).WriteTo" {
				c.CheckAt("ARM", short(dg)+":writes-through-association", cl, false, "the datagram function writes to the target through the raw socket, bypassing the association's deadline hook")
			}
		}
	}
}

// C14.MONOTONE
func ruleMonotone(c *Ctx) {
	p := c.P
	n := 0
	for _, f := range p.FnsIn("service") {
		root := eng.Root(f)
		if root.Signature.Recv() == nil || eng.TypeName(root.Signature.Recv().Type()) != natconnT {
			continue
		}
		for _, cl := range eng.Calls(f) {
			call, ok := cl.(*ssa.Call)
			if !ok || eng.MethodName(&call.Call) != "SetReadDeadline" {
				continue
			}
			n++
			v := p.Resolve(eng.Arg(&call.Call, 0))
			key := short(f) + ":SetReadDeadline"
			if vc, isCall := v.(*ssa.Call); isCall && eng.CalleeName(&vc.Call) == "time.Now" {
				// immediate expiry: only inside a function literal handed to sync.Once.Do, reachable from the read hook
				inOnce := false
				if par := f.Parent(); par != nil {
					for _, pc := range eng.Calls(par) {
						if eng.CalleeName(pc.Common()) == "(*sync.Once).Do" {
							if mc, ok := pc.Common().Args[1].(*ssa.MakeClosure); ok && mc.Fn == ssa.Value(f) {
								inOnce = true
							}
						}
					}
				}
				fromWrite := false
				if wt := fnByMethod(c, "service", natconnT, "WriteTo"); wt != nil {
					fromWrite = c.P.Reach(c.L(), wt)[f]
				}
				c.CheckAt("MONOTONE", key+":immediate-expiry", call, inOnce && !fromWrite, "an immediate deadline (time.Now()) is set outside the one-shot fast-close latch or on the write path: the association's deadline can move earlier")
				continue
			}
			// derived deadline: must be installed only on v.After(readDeadline) and recorded
			isAfter := func(x ssa.Value) bool {
				ac, ok := x.(*ssa.Call)
				if !ok || eng.CalleeName(&ac.Call) != "(time.Time).After" {
					return false
				}
				return p.Resolve(ac.Call.Args[0]) == v && p.AnyFrom(ac.Call.Args[1], eng.Plain, func(y ssa.Value) bool { return eng.IsFieldLoad(y, natconnT, "readDeadline") })
			}
			tEdges, _ := eng.BoolEdges(f, isAfter)
			c.CheckAt("MONOTONE", key+":only-when-later", call, len(tEdges) > 0 && eng.Cut(f, call.Block(), tEdges), "a new read deadline is installed without testing that it is later than the current one: the deadline can move earlier")
			recorded := false
			for _, b := range f.Blocks {
				for _, ins := range b.Instrs {
					if st, ok := isStoreToField(ins, natconnT, "readDeadline"); ok && p.Resolve(st.Val) == v && len(tEdges) > 0 && eng.Cut(f, b, tEdges) {
						recorded = true
					}
				}
			}
			c.CheckAt("MONOTONE", key+":recorded", call, recorded, "the installed deadline is not recorded in readDeadline on the same edge: later comparisons use a stale value")
			// v = time.Now().Add(timeout)
			okForm := false
			if ac, ok := v.(*ssa.Call); ok && eng.CalleeName(&ac.Call) == "(time.Time).Add" {
				if nc, ok := p.Resolve(ac.Call.Args[0]).(*ssa.Call); ok && eng.CalleeName(&nc.Call) == "time.Now" {
					okForm = true
				}
			}
			c.CheckAt("MONOTONE", key+":now-plus-timeout", call, okForm, "the deadline is not computed as time.Now().Add(timeout)")
		}
	}
	c.Floor("MONOTONE", "SetReadDeadline calls in association methods", n, 2)
	// stores to readDeadline happen only in the extenders
	for _, st := range p.FieldStores(natconnT, "readDeadline") {
		if st.Fresh {
			continue
		}
		root := eng.Root(st.Fn)
		ok := root.Signature.Recv() != nil && eng.TypeName(root.Signature.Recv().Type()) == natconnT
		c.CheckAt("MONOTONE", "readDeadline-store:"+short(st.Fn), st.Ins, ok, "readDeadline is written outside the association's own methods")
	}
}

// C14.SHUTDOWN
func ruleShutdown(c *Ctx) {
	p := c.P
	_, packet := serveLoopFns(c)
	if !c.Floor("SHUTDOWN", "datagram loops", len(packet), 1) {
		return
	}
	for _, f := range packet {
		ds := deferCallNamed(f, "(*service.natmap).Close")
		ok := false
		for _, d := range ds {
			if d.Block() == f.Blocks[0] {
				ok = true
				// the table closed is the table this loop created
				isNew := func(v ssa.Value) bool {
					cc, _, ok := eng.AsResult(v)
					return ok && eng.CalleeName(&cc.Call) == "service.newNATmap"
				}
				same, _ := p.AllFrom(d.Call.Args[0], eng.Plain, isNew)
				c.CheckAt("SHUTDOWN", short(f)+":closes-own-table", d, same, "the deferred Close is not on the table created by this loop")
			}
		}
		c.Check("SHUTDOWN", short(f)+":table-close-deferred-before-loop", p.Pos(f.Pos()), ok, "the datagram loop does not defer the association table's Close in its entry block: on listener shutdown associations are not expired and their goroutines and sockets linger")
	}
	cl := fnByMethod(c, "service", natmapT, "Close")
	if cl == nil {
		c.Undecided("SHUTDOWN", "anchor:natmap.Close", "-", "natmap has no Close method")
		return
	}
	// a range loop over keyConn with SetReadDeadline in its body, under the write lock
	okLoop := false
	for _, l := range eng.Loops(cl) {
		hasNext, hasDeadline := false, false
		var dl ssa.Instruction
		for b := range l.Body {
			for _, ins := range b.Instrs {
				if nx, ok := ins.(*ssa.Next); ok {
					if rg, ok := nx.Iter.(*ssa.Range); ok && p.AnyFrom(rg.X, eng.Plain, func(v ssa.Value) bool { return eng.IsFieldLoad(v, natmapT, "keyConn") }) {
						hasNext = true
					}
				}
				if call, ok := ins.(*ssa.Call); ok && eng.MethodName(&call.Call) == "SetReadDeadline" {
					hasDeadline = true
					dl = call
				}
			}
		}
		if hasNext && hasDeadline {
			okLoop = true
			c.CheckAt("SHUTDOWN", short(cl)+":under-write-lock", dl, c.L().Held(dl).HasW(natmapT+".RWMutex"), "entries are visited without the table's write lock")
			// no early exit from the loop other than exhaustion
			for i, e := range l.Exits {
				_, isIf := e.From.Instrs[len(e.From.Instrs)-1].(*ssa.If)
				okExit := isIf && e.From == l.Header
				if isIf {
					if ex, ok := e.From.Instrs[len(e.From.Instrs)-1].(*ssa.If).Cond.(*ssa.Extract); ok {
						_, isNext := ex.Tuple.(*ssa.Next)
						okExit = isNext
					}
				}
				c.Check("SHUTDOWN", fmt.Sprintf("%s:visits-every-entry:exit#%d", short(cl), i), blockPos(p, e.From), okExit, "the shutdown loop can stop before every association was expired")
			}
		}
	}
	c.Check("SHUTDOWN", short(cl)+":expires-every-entry", p.Pos(cl.Pos()), okLoop, "natmap.Close does not range over the table setting a read deadline on each entry")
}

// C14.DNS
func ruleDNS(c *Ctx) {
	p := c.P
	ext := deadlineExtenders(c)
	found17 := false
	for _, f := range ext {
		for _, b := range f.Blocks {
			for _, ins := range b.Instrs {
				for _, op := range ins.Operands(nil) {
					if cst, ok := (*op).(*ssa.Const); ok && cst.Type().String() == "time.Duration" && cst.Value != nil {
						if n := cst.Int64(); n == 17_000_000_000 {
							found17 = true
						} else if n > 0 && n < 17_000_000_000 {
							c.CheckAt("DNS", short(f)+":short-timeout-constant", ins, false, fmt.Sprintf("a timeout constant of %d ns (< 17 s) is used for the association deadline", n))
						}
					}
				}
			}
		}
	}
	c.Check("DNS", "dns-timeout-is-17s", "-", found17, "no 17 s duration constant in the deadline extension code")
	// isDNS: compares the port of the String() of its parameter with "53"
	var isDNSFn *ssa.Function
	for _, f := range p.FnsIn("service") {
		if f.Signature.Results().Len() == 1 && f.Signature.Results().At(0).Type().String() == "bool" && f.Signature.Params().Len() == 1 && f.Signature.Recv() == nil {
			for _, b := range f.Blocks {
				for _, ins := range b.Instrs {
					if bo, ok := ins.(*ssa.BinOp); ok && bo.Op == token.EQL {
						if s, ok := eng.ConstString(bo.Y); ok && s == "53" {
							if ex, ok := bo.X.(*ssa.Extract); ok && ex.Index == 1 {
								if sc, ok := ex.Tuple.(*ssa.Call); ok && eng.CalleeName(&sc.Call) == "net.SplitHostPort" {
									isDNSFn = f
									fromParam := p.AnyFrom(sc.Call.Args[0], eng.OriginOpts{ThroughCalls: func(c2 *ssa.Call) []ssa.Value {
										if eng.MethodName(&c2.Call) == "String" {
											return []ssa.Value{eng.Receiver(&c2.Call)}
										}
										return nil
									}}, func(v ssa.Value) bool { return eng.IsParam(v, f, 0) })
									c.CheckAt("DNS", short(f)+":port-of-parameter", bo, fromParam, "the port compared with 53 is not the port of the address passed in")
								}
							}
						}
					}
				}
			}
		}
	}
	c.Check("DNS", "dns-classifier-compares-port-53", "-", isDNSFn != nil, "no function classifies an address as DNS by comparing its port with \"53\"")
	if isDNSFn != nil {
		for _, f := range ext {
			uses := false
			for _, cl := range eng.Calls(f) {
				for _, callee := range repoCallees(c, cl) {
					if callee == isDNSFn {
						uses = true
						okArg := p.AnyFrom(cl.Common().Args[0], eng.Plain, func(v ssa.Value) bool { _, ok := v.(*ssa.Parameter); return ok })
						c.CheckAt("DNS", short(f)+":classifies-the-written-address", cl, okArg, "the DNS classification is not applied to the destination address parameter")
					}
				}
			}
			c.Check("DNS", short(f)+":uses-classifier", p.Pos(f.Pos()), uses, "the deadline extension does not consult the DNS classifier")
		}
	}
	_ = types.Typ
	_ = strings.Contains
}
