package rules

import (
	"fmt"
	"go/token"
	"strings"

	"golang.org/x/tools/go/ssa"

	"verif/internal/eng"
)

func init() {
	register(&PropDef{ID: "C14", Level: "other", Run: runC14,
		Explanation: "Reclamation structure of UDP associations on all paths (types and members found by shape, not by name): (TEARDOWN) in the association goroutine, after the reply loop returns, removal is reported exactly once, the entry is deleted and the socket returned by the " +
			"deletion is closed; the reply loop is left only through the timeout classification of a read error; (SOLEDELETER) entries are removed from the table only by the deletion helper, which only association goroutines call, " +
			"and inserted only by Add's helper — otherwise the conditional close in the goroutine can miss its socket; (ARM) every write through an association extends the read deadline before the datagram is sent, on all paths " +
			"(a write that skips it can leave the association without any deadline, so it is never reclaimed), and on the write path the one-shot fast-close latch is consumed before the deadline is extended, never after; (MONOTONE) a deadline derived from now+timeout is installed only on the After(current deadline) edge and recorded, the only other " +
			"deadline write is the immediate fast-close inside the sync.Once reached from the read side; (SHUTDOWN) the datagram loop defers the table's Close before its first read and Close visits every entry under the write lock; " +
			"(DNS) the DNS timeout constant is 17 s and DNS is decided from port 53 of the address being written. (LOOKUP) the table lookup is exact, so the delete-by-key teardown always hits its own entry; the immediate fast-close expiry is taken only when the datagram read came from an address the port-53 classifier accepts.",
		NotDecided: "every 'at least / within bounded time' clause (timing); kernel behaviour of deadlines.",
	})
}

func runC14(c *Ctx) {
	ruleLookup(c, "LOOKUP")
	ruleTeardown(c, "TEARDOWN")
	ruleSoleDeleter(c)
	ruleArm(c)
	ruleArmedAfterAdd(c, "ARM")
	ruleMonotone(c)
	ruleShutdown(c)
	ruleDNS(c)
	// "shutting the packet listener down expires all associations promptly": the datagram loop of a released handle must
	// come back from its read, which a reader that has already accepted its request prevents
	for _, m := range findMultiListeners(c, "HANDOFF") {
		ruleCancelPump(c, m, "HANDOFF")
		ruleClosedGuard(c, m)
	}
}

func assocGoroutines(c *Ctx) []*ssa.Function {
	m := getUDPModel(c, "ANCHOR")
	if m == nil {
		return nil
	}
	return m.assocGo
}

func replyLoopFns(c *Ctx) []*ssa.Function {
	m := getUDPModel(c, "ANCHOR")
	if m == nil {
		return nil
	}
	return m.replyFns
}

func isCallTo(c *Ctx, target *ssa.Function) func(ssa.Instruction) bool {
	return func(ins ssa.Instruction) bool {
		cl, ok := ins.(*ssa.Call)
		return ok && callTo(c, cl, target)
	}
}

// C14.TEARDOWN (shared with C18.CLOSEPAIR, C16.ENTRY, C04)
func ruleTeardown(c *Ctx, rule string) {
	p := c.P
	m := getUDPModel(c, rule)
	if m == nil {
		return
	}
	if !c.Floor(rule, "association goroutines (go statements in the table's Add)", len(m.assocGo), 1) {
		return
	}
	for _, g := range m.assocGo {
		key := short(g)
		reg := c.NewRegion(g, 2, m.stopFn(c))
		entry := eng.Point{B: g.Blocks[0]}
		isRemove := func(ins ssa.Instruction) bool {
			cl, ok := ins.(*ssa.Call)
			return ok && eng.MethodName(&cl.Call) == "RemoveNatEntry"
		}
		lifted := liftMust(c, isRemove, nil)
		may := liftMay(c, isRemove)
		mn, _, _ := eng.CountOnPaths(entry, lifted, nil)
		_, mx, _ := eng.CountOnPaths(entry, may, nil)
		c.Check(rule, key+":removal-reported-exactly-once", p.Pos(g.Pos()), mn == 1 && mx == 1, fmt.Sprintf("the association goroutine reports removal %d..%d times on its paths (must be exactly once)", mn, mx))
		// the reply loop runs before the removal report
		isLoop := func(ins ssa.Instruction) bool {
			cl, ok := ins.(*ssa.Call)
			if !ok {
				return false
			}
			for _, rl := range m.replyFns {
				if callTo(c, cl, rl) {
					return true
				}
			}
			return false
		}
		okOrder, bad := reg.BeforeDeep(isLoop, isRemove)
		c.Check(rule, key+":removal-after-reply-loop", p.Pos(g.Pos()), okOrder, fmt.Sprintf("removal can be reported (%s) before the reply loop has run and ended", p.IPos(bad)))
		// delete the entry, then close the socket the deletion returned
		dels := reg.FindCalls(func(_ string, call *ssa.Call) bool { return callTo(c, call, m.del) })
		if len(dels) == 0 {
			c.Check(rule, key+":entry-deleted", p.Pos(g.Pos()), false, "the association goroutine never deletes its table entry")
			continue
		}
		okDel, _ := reg.MustPassUp(entry, isCallTo(c, m.del))
		c.Check(rule, key+":entry-deleted", p.Pos(g.Pos()), okDel, "the association goroutine can exit without deleting its table entry")
		// ... and deletes under its key once only: a second deletion (e.g. a deferred safety net) removes the entry a new
		// association of the same client has put under that key in the meantime, without closing it
		isDelAny := func(ins ssa.Instruction) bool {
			if isCallTo(c, m.del)(ins) {
				return true
			}
			if d, ok := ins.(*ssa.Defer); ok {
				return callTo(c, d, m.del) || qDefer(d, isCallTo(c, m.del))
			}
			return false
		}
		_, mxDel, _ := eng.CountOnPaths(entry, reg.May(isDelAny), nil)
		c.Check(rule, key+":entry-deleted-at-most-once", p.Pos(g.Pos()), mxDel <= 1, fmt.Sprintf("the association goroutine deletes under its key up to %d times: after the first deletion the key may already belong to the client's next association, which is then dropped from the table while its socket stays open", mxDel))
		for _, del := range dels {
			f := del.Parent()
			// what the deletion hands back: its single result, or the first of (entry, ok)
			var got, gotOK ssa.Value = del, nil
			if del.Call.Signature().Results().Len() > 1 {
				got = nil
				for _, r := range *del.Referrers() {
					if ex, isEx := r.(*ssa.Extract); isEx {
						if ex.Index == 0 {
							got = ex
						} else if ex.Type().String() == "bool" {
							gotOK = ex
						}
					}
				}
			}
			_, nonNil := p.NilEdges(f, func(v ssa.Value) bool { return got != nil && v == got })
			if gotOK != nil {
				te, _ := eng.BoolEdges(f, func(v ssa.Value) bool { return v == gotOK })
				nonNil = eng.Union(nonNil, te)
			}
			isClose := func(ins ssa.Instruction) bool {
				cl, ok := ins.(*ssa.Call)
				if !ok || eng.MethodName(&cl.Call) != "Close" {
					return false
				}
				r := eng.Receiver(&cl.Call)
				// (the entry itself, or the socket it embeds)
				return r != nil && got != nil && p.AnyFrom(r, eng.OriginOpts{ThroughConvert: true, ThroughFieldLoad: true}, func(v ssa.Value) bool { return v == got })
			}
			okClose := false
			if len(nonNil) > 0 {
				okClose = true
				for _, e := range sortedEdges(nonNil) {
					if ok, _ := eng.MustPass(edgePoint(e), isClose); !ok {
						okClose = false
					}
				}
			} else {
				okClose, _ = eng.MustPass(eng.After(del), isClose)
			}
			c.CheckAt(rule, key+":socket-closed", del, okClose, "the outbound socket returned by the deletion is not closed on every path: the descriptor leaks")
		}
	}
	// reply loops leave only through the timeout classification
	for _, rl := range m.replyFns {
		loops := eng.Loops(rl)
		if !c.Floor(rule, "loops in "+short(rl), len(loops), 1) {
			continue
		}
		for _, l := range loops {
			for i, e := range l.Exits {
				good, why := expiryExit(c, rl, e)
				c.Check(rule, fmt.Sprintf("%s:loop-exit#%d", short(rl), i), blockPos(p, e.From), good, "the reply loop can end for a reason other than deadline expiry ("+why+"): the association would be torn down while it is still promised to the client")
			}
		}
	}
}

// expiryExit: the loop-exit edge is the true edge of a boolean that is true only when a read error was classified by
// (net.Error).Timeout(): a flag variable set on that edge, a helper's bool result established there, or the call itself.
func expiryExit(c *Ctx, rl *ssa.Function, e eng.Edge) (bool, string) {
	p := c.P
	iff, ok := e.From.Instrs[len(e.From.Instrs)-1].(*ssa.If)
	if !ok {
		return false, "exit edge is not a conditional"
	}
	isTimeoutCall := func(call *ssa.Call) bool { return eng.CalleeName(&call.Call) == "(net.Error).Timeout" }
	g := c.BoolGuard(isTimeoutCall, true)
	cond := iff.Cond
	neg := false
	if u, isU := cond.(*ssa.UnOp); isU && u.Op == token.NOT {
		cond, neg = u.X, true
	}
	exitOnTrue := (e.From.Succs[0] == e.To) != neg
	// (0) comparison with a sentinel: `result == errExpired` where the sentinel (an init-only package variable) is returned by
	// the per-reply code only behind the Timeout() classification
	if bo, isB := cond.(*ssa.BinOp); isB && (bo.Op == token.EQL || bo.Op == token.NEQ) {
		exitOnEq := exitOnTrue == (bo.Op == token.EQL)
		for _, pr := range [][2]ssa.Value{{bo.X, bo.Y}, {bo.Y, bo.X}} {
			ld, ok := pr[1].(*ssa.UnOp)
			if !ok || ld.Op != token.MUL {
				continue
			}
			gl, ok := ld.X.(*ssa.Global)
			if !ok || !initOnlyGlobal(p, gl) {
				continue
			}
			if !exitOnEq {
				return false, "the loop is left when the result differs from the expiry sentinel"
			}
			for _, o := range p.Origins(pr[0], deepF) {
				if u, isU := o.(*ssa.UnOp); isU && u.Op == token.MUL {
					if og, isG := u.X.(*ssa.Global); isG && og == gl {
						ed := g.Edges(u.Parent())
						if len(ed) == 0 || !eng.Cut(u.Parent(), u.Block(), ed) {
							return false, "the expiry sentinel is produced at " + p.IPos(u) + " on a path that is not the Timeout() classification of a read error"
						}
						continue
					}
				}
				switch x := o.(type) {
				case *ssa.Const:
				case *ssa.Call, *ssa.Extract, *ssa.Alloc, *ssa.MakeInterface:
					_ = x // a freshly produced error value: never the sentinel
				default:
					return false, "the value compared with the expiry sentinel has an origin that cannot be told apart from it: " + valStr(p, o)
				}
			}
			return true, ""
		}
	}
	if !exitOnTrue {
		return false, "the loop is left when the expiry condition is false"
	}
	// (1) a flag cell: every store of a non-false value is behind the Timeout()==true guard (deeply)
	if u, isU := cond.(*ssa.UnOp); isU && u.Op == token.MUL {
		if cell := eng.CellRoot(u.X); cell != nil {
			for _, st := range p.CellStores(cell) {
				if cst, isC := st.Val.(*ssa.Const); isC && cst.Value != nil && cst.Value.ExactString() == "false" {
					continue
				}
				f := st.Parent()
				if cst, isC := st.Val.(*ssa.Const); isC && cst.Value != nil && cst.Value.ExactString() == "true" {
					if ed := g.Edges(f); len(ed) == 0 || !eng.Cut(f, st.Block(), ed) {
						return false, "the expiry flag is set at " + p.IPos(st) + " on a path that is not the Timeout() classification of a read error"
					}
					continue
				}
				// flag assigned from a helper's bool result
				if !boolEstablishedBy(c, st.Val, g) {
					return false, "the expiry flag is assigned at " + p.IPos(st) + " from a value that is not the Timeout() classification"
				}
			}
			return true, ""
		}
	}
	// (2) the condition is directly a bool established by the guard
	if boolEstablishedBy(c, cond, g) {
		return true, ""
	}
	return false, "exit edge is not a test of the expiry classification"
}

// boolEstablishedBy: v is true only behind guard g: the guard call itself, or result of a helper all of whose true-returns are behind g.
func boolEstablishedBy(c *Ctx, v ssa.Value, g *Guard) bool {
	p := c.P
	ok, _ := p.AllFrom(v, eng.OriginOpts{ThroughConvert: true}, func(x ssa.Value) bool {
		if cst, isC := x.(*ssa.Const); isC && cst.Value != nil && cst.Value.ExactString() == "false" {
			return true
		}
		cc, idx, isR := eng.AsResult(x)
		if !isR {
			return false
		}
		if eng.CalleeName(&cc.Call) == "(net.Error).Timeout" {
			return true
		}
		h := singleRepoCallee(c, cc)
		if h == nil {
			return false
		}
		// every return whose result idx may be true is behind the guard
		edges := g.Edges(h)
		for _, r := range eng.Returns(h) {
			if idx >= len(r.Results) {
				return false
			}
			rv := r.Results[idx]
			if cst, isC := rv.(*ssa.Const); isC && cst.Value != nil && cst.Value.ExactString() == "false" {
				continue
			}
			if cst, isC := rv.(*ssa.Const); isC && cst.Value != nil && cst.Value.ExactString() == "true" {
				if len(edges) == 0 || !eng.Cut(h, r.Block(), edges) {
					return false
				}
				continue
			}
			if !boolEstablishedBy(c, rv, g) && !isAndWithTimeout(rv) {
				return false
			}
		}
		return true
	})
	return ok
}

// isAndWithTimeout: `ok && netErr.Timeout()` lowered to a phi [false, Timeout()].
func isAndWithTimeout(v ssa.Value) bool {
	ph, ok := v.(*ssa.Phi)
	if !ok {
		return false
	}
	hasT := false
	for _, e := range ph.Edges {
		if cst, isC := e.(*ssa.Const); isC && cst.Value != nil && cst.Value.ExactString() == "false" {
			continue
		}
		if cc, isCall := e.(*ssa.Call); isCall && eng.CalleeName(&cc.Call) == "(net.Error).Timeout" {
			hasT = true
			continue
		}
		return false
	}
	return hasT
}

// C14.LOOKUP (also C04): the table lookup is exact — it returns the entry stored under the key whenever there is one. Teardown
// deletes by key, so the design rests on "at most one live association per key": a lookup that hides an entry (because it
// looks expired, say) makes the datagram code create a second association under the same key, and the first one's teardown
// then deletes and closes the wrong entry.
func ruleLookup(c *Ctx, rule string) {
	p := c.P
	m := getUDPModel(c, rule)
	if m == nil || m.get == nil {
		return
	}
	g := m.get
	var lookups []*ssa.Lookup
	for _, b := range g.Blocks {
		for _, ins := range b.Instrs {
			if lk, ok := ins.(*ssa.Lookup); ok && p.AnyFrom(lk.X, eng.Plain, func(v ssa.Value) bool { return eng.IsFieldLoad(v, m.mapT, m.mapField) }) {
				lookups = append(lookups, lk)
			}
		}
	}
	if !c.Floor(rule, "map lookups in "+short(g), len(lookups), 1) {
		return
	}
	fromLookup := func(v ssa.Value) bool {
		ok, _ := p.AllFrom(v, eng.Plain, func(x ssa.Value) bool {
			for _, lk := range lookups {
				if x == ssa.Value(lk) {
					return true
				}
				if ex, isEx := x.(*ssa.Extract); isEx && ex.Tuple == ssa.Value(lk) && ex.Index == 0 {
					return true
				}
			}
			return false
		})
		return ok
	}
	// edges on which the lookup is known to have found nothing: !ok of the comma-ok form, or value == nil
	missEdges := eng.EdgeSet{}
	for _, lk := range lookups {
		if lk.CommaOk {
			for _, r := range *lk.Referrers() {
				if ex, isEx := r.(*ssa.Extract); isEx && ex.Index == 1 {
					_, fe := eng.BoolEdges(g, func(v ssa.Value) bool { return v == ssa.Value(ex) })
					for e := range fe {
						missEdges[e] = true
					}
				}
			}
		}
	}
	ne, _ := p.NilEdges(g, fromLookup)
	for e := range ne {
		missEdges[e] = true
	}
	for i, r := range eng.Returns(g) {
		if r.Block().Comment == "recover" || len(r.Results) == 0 {
			continue
		}
		rv := r.Results[0]
		ok := fromLookup(rv)
		if !ok {
			if cst, isC := rv.(*ssa.Const); isC && cst.IsNil() && len(missEdges) > 0 && eng.Cut(g, r.Block(), missEdges) {
				ok = true
			}
		}
		c.CheckAt(rule, fmt.Sprintf("%s:return#%d:returns-what-the-table-holds", short(g), i), r, ok, "the lookup can report \"no association\" although the table holds one under this key (or returns something else): a second association is then created under the same key and the teardown of the first deletes and closes the wrong one")
	}
}

// C14.SOLEDELETER
func ruleSoleDeleter(c *Ctx) {
	p := c.P
	m := getUDPModel(c, "SOLEDELETER")
	if m == nil {
		return
	}
	assoc := map[*ssa.Function]bool{}
	for _, g := range m.assocGo {
		assoc[g] = true
		for _, h := range c.NewRegion(g, 2, m.stopFn(c)).Fns {
			assoc[h] = true
		}
	}
	nDel, nSet := 0, 0
	for _, acc := range p.FieldAccesses(m.mapT, m.mapField) {
		if !acc.Write || acc.Fresh {
			continue
		}
		fa := acc.Ins.(*ssa.FieldAddr)
		for _, r := range *fa.Referrers() {
			u, ok := r.(*ssa.UnOp)
			if !ok {
				continue
			}
			for _, rr := range *u.Referrers() {
				switch x := rr.(type) {
				case *ssa.Call:
					if _, isDel := isBuiltinCall(x, "delete"); isDel {
						nDel++
						c.CheckAt("SOLEDELETER", short(acc.Fn)+":delete", x, acc.Fn == m.del, "table entries are removed outside the deletion helper: the owning association goroutine then finds nothing to close and its socket leaks")
					}
				case *ssa.MapUpdate:
					nSet++
					c.CheckAt("SOLEDELETER", short(acc.Fn)+":insert", x, acc.Fn == m.set || acc.Fn == m.add, "table entries are inserted outside Add / its insertion helper")
				}
			}
		}
	}
	c.Floor("SOLEDELETER", "delete sites", nDel, 1)
	c.Floor("SOLEDELETER", "insert sites", nSet, 1)
	if m.del != nil {
		for _, s := range p.CallSitesOf(m.del) {
			c.CheckAt("SOLEDELETER", "delete-caller:"+short(s.Fn), s.Ins, assoc[s.Fn], "the deletion helper is called from outside an association goroutine")
		}
	}
	if m.set != nil {
		for _, s := range p.CallSitesOf(m.set) {
			c.CheckAt("SOLEDELETER", "insert-caller:"+short(s.Fn), s.Ins, s.Fn == m.add, "the insertion helper is called from outside Add: an entry without an owning goroutine is never reclaimed")
		}
	}
}

// deadlineExtenders: association methods (and their helpers) that store the deadline field.
func deadlineExtenders(c *Ctx, m *udpModel) []*ssa.Function {
	seen := map[*ssa.Function]bool{}
	var out []*ssa.Function
	for _, st := range c.P.FieldStores(m.dlT, m.dlField) {
		if !st.Fresh && !seen[st.Fn] {
			seen[st.Fn] = true
			out = append(out, st.Fn)
		}
	}
	return out
}

// C14.ARM
func ruleArm(c *Ctx) {
	p := c.P
	m := getUDPModel(c, "ARM")
	if m == nil {
		return
	}
	ext := deadlineExtenders(c, m)
	if !c.Floor("ARM", "functions that extend the association deadline", len(ext), 1) {
		return
	}
	wt := m.connWrite
	isExt := func(ins ssa.Instruction) bool {
		cl, ok := ins.(*ssa.Call)
		if !ok {
			return false
		}
		for _, e := range ext {
			if callTo(c, cl, e) {
				return true
			}
		}
		_, isSt := isStoreToField(ins, m.dlT, m.dlField)
		return isSt
	}
	isSend := func(ins ssa.Instruction) bool {
		cl, ok := ins.(*ssa.Call)
		return ok && eng.CalleeName(&cl.Call) == "(net.PacketConn).WriteTo"
	}
	reg := c.NewRegion(wt, 3, func(h *ssa.Function) bool { return eng.PkgPathOf(h) != eng.Mod+"/service" })
	n := len(reg.FindCalls(func(nm string, _ *ssa.Call) bool { return nm == "(net.PacketConn).WriteTo" }))
	c.Floor("ARM", "underlying sends in "+short(wt), n, 1)
	// on every path, the deadline hook runs before the underlying send can run
	armedCalls := func(ins ssa.Instruction) bool {
		cl, ok := ins.(*ssa.Call)
		if !ok {
			return false
		}
		for _, e := range ext {
			if callTo(c, cl, e) {
				return true
			}
		}
		return false
	}
	armed := func(ins ssa.Instruction) bool {
		if armedCalls(ins) {
			return true
		}
		// the extension attempt itself, wherever it lives: the comparison of the new deadline with the recorded one
		cl, isC := ins.(*ssa.Call)
		if !isC || eng.CalleeName(&cl.Call) != "(time.Time).After" {
			return false
		}
		return p.AnyFrom(cl.Call.Args[1], eng.Plain, func(v ssa.Value) bool { return eng.IsFieldLoad(v, m.dlT, m.dlField) })
	}
	ok, bad := reg.BeforeDeep(armed, isSend)
	c.Check("ARM", short(wt)+":deadline-extended-before-send", p.Pos(wt.Pos()), ok, fmt.Sprintf("a datagram can be sent through the association (%s) without the deadline hook having run first (e.g. only after a successful send): an association whose first send fails never gets a deadline and is never reclaimed", p.IPos(bad)))
	_ = isExt
	// the hook is given the destination address of this write (or something computed from it)
	isStoreDL := func(ins ssa.Instruction) bool { _, ok := isStoreToField(ins, m.dlT, m.dlField); return ok }
	mayStore := reg.May(isStoreDL)
	argsOf := func(cc *ssa.Call) []ssa.Value { return cc.Call.Args }
	for _, cl := range eng.Calls(wt) {
		call, isC := cl.(*ssa.Call)
		if !isC || !mayStore(call) || isStoreDL(call) {
			continue
		}
		okAddr := false
		for _, ar := range call.Call.Args {
			if p.AnyFrom(ar, eng.OriginOpts{ThroughConvert: true, ThroughCalls: argsOf}, func(v ssa.Value) bool {
				pa, isP := v.(*ssa.Parameter)
				return isP && pa.Parent() == wt && pa.Type().String() == "net.Addr"
			}) {
				okAddr = true
			}
		}
		c.CheckAt("ARM", short(wt)+":deadline-hook-gets-destination", call, okAddr, "the deadline hook is not given (anything derived from) the destination address of this write")
	}
	// ORDER: on the write path the one-shot fast-close latch is consumed BEFORE the deadline is extended, never after: otherwise a
	// reply read in between still wins the latch and sets the deadline to now, i.e. earlier than the one just promised
	onceField := ""
	for _, fl := range p.StructFields(m.connT) {
		if fl.Type().String() == "sync.Once" {
			onceField = fl.Name()
		}
	}
	if onceField != "" {
		isOnceDo := func(ins ssa.Instruction) bool {
			cl, ok := ins.(*ssa.Call)
			if !ok || eng.CalleeName(&cl.Call) != "(*sync.Once).Do" {
				return false
			}
			t, f, _, ok := eng.FieldOf(cl.Call.Args[0])
			return ok && t == m.connT && f == onceField
		}
		isSetDL := func(ins ssa.Instruction) bool {
			cl, ok := ins.(*ssa.Call)
			return ok && eng.MethodName(&cl.Call) == "SetReadDeadline"
		}
		mayOnce, maySet := reg.May(isOnceDo), reg.May(isSetDL)
		nOnce := 0
		for _, f := range reg.Fns {
			for _, b := range f.Blocks {
				for _, ins := range b.Instrs {
					if isOnceDo(ins) {
						nOnce++
					}
					if !maySet(ins) {
						continue
					}
					late := eng.ReachableInstrs(eng.After(ins), mayOnce, nil)
					if len(late) > 0 {
						c.CheckAt("ARM", short(f)+":latch-consumed-before-deadline-extended", ins, false, fmt.Sprintf("on the write path the deadline is extended here and the fast-close latch is only consumed afterwards (%s): a reply read in between sets the deadline to now, earlier than the deadline just installed", p.IPos(late[0])))
					}
				}
			}
		}
		if nOnce > 0 {
			c.Check("ARM", short(wt)+":latch-before-extension-checked", p.Pos(wt.Pos()), true, fmt.Sprintf("%d latch uses on the write path, none after a deadline extension||", nOnce))
		}
	}
	// every target write in the datagram region goes through the association's WriteTo (not the raw socket)
	if a := findUDP(c, "ARM"); a != nil {
		for _, cl := range a.R.Calls() {
			if eng.CalleeName(cl.Common()) == "(net.PacketConn).WriteTo" {
				c.CheckAt("ARM", short(cl.Parent())+":writes-through-association", cl, false, "the datagram code writes to the target through the raw socket, bypassing the association's deadline hook")
			}
		}
	}
}

// C14.MONOTONE
func ruleMonotone(c *Ctx) {
	p := c.P
	m := getUDPModel(c, "MONOTONE")
	if m == nil {
		return
	}
	n := 0
	for _, f := range p.FnsIn("service") {
		root := eng.Root(f)
		if root.Signature.Recv() == nil || eng.TypeName(root.Signature.Recv().Type()) != m.connT {
			continue
		}
		for _, cl := range eng.Calls(f) {
			call, ok := cl.(*ssa.Call)
			if !ok || eng.MethodName(&call.Call) != "SetReadDeadline" {
				continue
			}
			v := p.Resolve(eng.Arg(&call.Call, 0))
			// the table's shutdown expiring an entry through a forwarding method of the association (expireAt(t)): the deadline is
			// the caller's, and every caller is a method of the table — judged there (SHUTDOWN), not as an extension of the lifetime
			if pa, isP := v.(*ssa.Parameter); isP && pa.Parent() == f && f.Parent() == nil {
				onlyTable, ns := true, 0
				for _, st := range p.CallSitesOf(f) {
					if p.IsTestSupport(st.Fn) {
						continue
					}
					ns++
					r := eng.Root(st.Fn)
					if r.Signature.Recv() == nil || eng.TypeName(r.Signature.Recv().Type()) != m.mapT {
						onlyTable = false
					}
				}
				if onlyTable && ns > 0 {
					continue
				}
			}
			n++
			key := short(f) + ":SetReadDeadline"
			if vc, isCall := v.(*ssa.Call); isCall && eng.CalleeName(&vc.Call) == "time.Now" {
				// run only by the one-shot latch: f is the closure handed to Once.Do, or a method all of whose callers are
				var onceOnly func(g *ssa.Function, d int) bool
				onceOnly = func(g *ssa.Function, d int) bool {
					if par := g.Parent(); par != nil {
						for _, pc := range eng.Calls(par) {
							if eng.CalleeName(pc.Common()) == "(*sync.Once).Do" {
								if mc, ok := pc.Common().Args[1].(*ssa.MakeClosure); ok && mc.Fn == ssa.Value(g) {
									return true
								}
							}
						}
					}
					if d >= 2 {
						return false
					}
					sites := p.CallSitesOf(g)
					n := 0
					for _, s := range sites {
						if p.IsTestSupport(s.Fn) {
							continue
						}
						n++
						if !onceOnly(s.Fn, d+1) {
							return false
						}
					}
					return n > 0
				}
				inOnce := onceOnly(f, 0)
				fromWrite := c.P.Reach(c.L(), m.connWrite)[f]
				c.CheckAt("MONOTONE", key+":immediate-expiry", call, inOnce && !fromWrite, "an immediate deadline (time.Now()) is set outside the one-shot fast-close latch or on the write path: the association's deadline can move earlier")
				// ... and only for a datagram whose source is classified as DNS ("the first response from a DNS server"): cut by
				// the true edge of the port-53 classifier applied to something derived from the read's source address
				if cls := dnsClassifier(c); cls != nil {
					gd := c.BoolGuard(func(cc *ssa.Call) bool { return callTo(c, cc, cls) }, true)
					ed := gd.Edges(f)
					c.CheckAt("MONOTONE", key+":immediate-expiry-only-for-a-DNS-source", call, len(ed) > 0 && eng.Cut(f, call.Block(), ed), "the fast close is not conditional on the datagram's source being a DNS server: any inbound datagram after a single DNS query closes the association at once, 17 s before the promised deadline")
				}
				continue
			}
			isAfter := func(x ssa.Value) bool {
				ac, ok := x.(*ssa.Call)
				if !ok || eng.CalleeName(&ac.Call) != "(time.Time).After" {
					return false
				}
				return p.Resolve(ac.Call.Args[0]) == v && p.AnyFrom(ac.Call.Args[1], eng.Plain, func(y ssa.Value) bool { return eng.IsFieldLoad(y, m.dlT, m.dlField) })
			}
			tEdges, _ := eng.BoolEdges(f, isAfter)
			recorded := false
			// ... or the test-and-record step is a helper of the deadline (advance(to) bool): true exactly when `to` is later
			// than the recorded deadline, which it then replaces
			for _, cl2 := range eng.Calls(f) {
				hc, isC := cl2.(*ssa.Call)
				if !isC {
					continue
				}
				h := hc.Call.StaticCallee()
				if h == nil || !p.InRepo(h) || len(h.Blocks) == 0 || h.Signature.Results().Len() != 1 || h.Signature.Results().At(0).Type().String() != "bool" {
					continue
				}
				for i, pa := range h.Params {
					if i >= len(hc.Call.Args) || p.Resolve(hc.Call.Args[i]) != v || pa.Type().String() != "time.Time" {
						continue
					}
					later, _ := eng.BoolEdges(h, func(x ssa.Value) bool {
						ac, ok := x.(*ssa.Call)
						return ok && eng.CalleeName(&ac.Call) == "(time.Time).After" && p.Resolve(ac.Call.Args[0]) == ssa.Value(pa) &&
							p.AnyFrom(ac.Call.Args[1], eng.Plain, func(y ssa.Value) bool { return eng.IsFieldLoad(y, m.dlT, m.dlField) })
					})
					if len(later) == 0 {
						continue
					}
					okH := true
					for _, r := range eng.Returns(h) {
						cst, isK := retVal(p, r).(*ssa.Const)
						if !isK || cst.Value == nil {
							okH = false
							continue
						}
						isTrue := cst.Value.ExactString() == "true"
						cut := eng.Cut(h, r.Block(), later)
						if isTrue != cut {
							okH = false
						}
						if isTrue {
							stored := false
							for _, b := range h.Blocks {
								for _, ins := range b.Instrs {
									if st, ok := isStoreToField(ins, m.dlT, m.dlField); ok && p.Resolve(st.Val) == ssa.Value(pa) && eng.Dominates(ins, r) {
										stored = true
									}
								}
							}
							if !stored {
								okH = false
							}
						}
					}
					// no store of the deadline on the not-later side
					for _, b := range h.Blocks {
						for _, ins := range b.Instrs {
							if _, ok := isStoreToField(ins, m.dlT, m.dlField); ok && !eng.Cut(h, b, later) {
								okH = false
							}
						}
					}
					if okH {
						te, _ := eng.BoolEdges(f, func(x ssa.Value) bool { return x == ssa.Value(hc) })
						tEdges = eng.Union(tEdges, te)
						if len(te) > 0 && eng.Cut(f, call.Block(), te) {
							recorded = true
						}
					}
				}
			}
			c.CheckAt("MONOTONE", key+":only-when-later", call, len(tEdges) > 0 && eng.Cut(f, call.Block(), tEdges), "a new read deadline is installed without testing that it is later than the current one: the deadline can move earlier")
			for _, b := range f.Blocks {
				for _, ins := range b.Instrs {
					if st, ok := isStoreToField(ins, m.dlT, m.dlField); ok && p.Resolve(st.Val) == v && len(tEdges) > 0 && eng.Cut(f, b, tEdges) {
						recorded = true
					}
				}
			}
			c.CheckAt("MONOTONE", key+":recorded", call, recorded, "the installed deadline is not recorded in the association's deadline field on the same edge: later comparisons use a stale value")
			isNowAdd := func(x ssa.Value) bool {
				ac, ok := x.(*ssa.Call)
				if !ok || eng.CalleeName(&ac.Call) != "(time.Time).Add" {
					return false
				}
				nc, ok := p.Resolve(ac.Call.Args[0]).(*ssa.Call)
				return ok && eng.CalleeName(&nc.Call) == "time.Now"
			}
			okForm, _ := p.AllFrom(v, deepF, isNowAdd)
			c.CheckAt("MONOTONE", key+":now-plus-timeout", call, okForm, "the deadline is not computed as time.Now().Add(timeout)")
		}
	}
	c.Floor("MONOTONE", "SetReadDeadline calls in association methods", n, 2)
	for _, st := range p.FieldStores(m.dlT, m.dlField) {
		if st.Fresh {
			continue
		}
		root := eng.Root(st.Fn)
		rt := ""
		if root.Signature.Recv() != nil {
			rt = eng.TypeName(root.Signature.Recv().Type())
		}
		ok := rt == m.connT || rt == m.dlT
		c.CheckAt("MONOTONE", "deadline-field-store:"+short(st.Fn), st.Ins, ok, "the association's deadline field is written outside the association's own methods")
	}
}

// C14.SHUTDOWN
func ruleShutdown(c *Ctx) {
	p := c.P
	m := getUDPModel(c, "SHUTDOWN")
	if m == nil {
		return
	}
	a := findUDP(c, "SHUTDOWN")
	if a == nil {
		return
	}
	if m.closeAll == nil {
		c.Undecided("SHUTDOWN", "anchor:table-close", "-", "the association table has no method that ranges over its entries")
		return
	}
	f := a.loopFn
	okDefer := false
	for _, b := range f.Blocks {
		for _, ins := range b.Instrs {
			d, ok := ins.(*ssa.Defer)
			if !ok || !callTo(c, d, m.closeAll) && !(qDefer(d, isCallTo(c, m.closeAll))) {
				continue
			}
			// registered before the receive loop: dominates the listener read
			if a.readFrom != nil && eng.Dominates(d, a.readFrom) && eng.InnermostLoop(eng.Loops(f), d.Block()) == nil {
				okDefer = true
				if callTo(c, d, m.closeAll) && m.newMap != nil {
					same, _ := p.AllFrom(d.Call.Args[0], eng.Plain, func(v ssa.Value) bool {
						cc, _, ok := eng.AsResult(v)
						return ok && callTo(c, cc, m.newMap)
					})
					c.CheckAt("SHUTDOWN", short(f)+":closes-own-table", d, same, "the deferred Close is not on the table created by this loop")
				}
			}
		}
	}
	c.Check("SHUTDOWN", short(f)+":table-close-deferred-before-loop", p.Pos(f.Pos()), okDefer, "the datagram loop does not defer the association table's Close before its receive loop: on listener shutdown associations are not expired and their goroutines and sockets linger")
	cl := m.closeAll
	okLoop := false
	var allLoops []*eng.Loop
	for _, g := range regionFns(c, cl, nil, 1) {
		allLoops = append(allLoops, eng.Loops(g)...)
	}
	tableOpts := eng.OriginOpts{ThroughConvert: true, Interproc: true, Stop: func(v ssa.Value) bool { return eng.IsFieldLoad(v, m.mapT, m.mapField) }}
	for _, l := range allLoops {
		hasNext, hasDeadline := false, false
		var dl ssa.Instruction
		for b := range l.Body {
			for _, ins := range b.Instrs {
				if nx, ok := ins.(*ssa.Next); ok {
					if rg, ok := nx.Iter.(*ssa.Range); ok && p.AnyFrom(rg.X, tableOpts, func(v ssa.Value) bool { return eng.IsFieldLoad(v, m.mapT, m.mapField) }) {
						hasNext = true
					}
				}
				if call, ok := ins.(*ssa.Call); ok && eng.MethodName(&call.Call) == "SetReadDeadline" {
					hasDeadline = true
					dl = call
				}
				// ... or through a forwarding method of the association (entry.expireAt(now)): every path of it sets the read
				// deadline to its time parameter
				if call, ok := ins.(*ssa.Call); ok {
					if h := call.Call.StaticCallee(); h != nil && p.InRepo(h) && len(h.Blocks) > 0 && h.Signature.Recv() != nil && eng.TypeName(h.Signature.Recv().Type()) == m.connT {
						fw := func(i2 ssa.Instruction) bool {
							hc, ok := i2.(*ssa.Call)
							if !ok || eng.MethodName(&hc.Call) != "SetReadDeadline" {
								return false
							}
							_, isP := p.Resolve(eng.Arg(&hc.Call, 0)).(*ssa.Parameter)
							return isP
						}
						if okF, _ := eng.MustPass(eng.Point{B: h.Blocks[0], Idx: 0}, fw); okF {
							hasDeadline = true
							dl = call
						}
					}
				}
			}
		}
		if hasNext && hasDeadline {
			okLoop = true
			c.CheckAt("SHUTDOWN", short(cl)+":under-write-lock", dl, m.mapLock != "" && c.L().Held(dl).HasW(m.mapLock), "entries are visited without the table's write lock")
			for i, e := range l.Exits {
				okExit := false
				if iff, isIf := e.From.Instrs[len(e.From.Instrs)-1].(*ssa.If); isIf {
					if ex, ok := iff.Cond.(*ssa.Extract); ok {
						_, okExit = ex.Tuple.(*ssa.Next)
					}
				}
				c.Check("SHUTDOWN", fmt.Sprintf("%s:visits-every-entry:exit#%d", short(cl), i), blockPos(p, e.From), okExit, "the shutdown loop can stop before every association was expired")
			}
		}
	}
	c.Check("SHUTDOWN", short(cl)+":expires-every-entry", p.Pos(cl.Pos()), okLoop, "the table's Close does not range over the table setting a read deadline on each entry")
}

// dnsClassifier: the function of package service that classifies an address as DNS by comparing its port with "53".
func dnsClassifier(c *Ctx) *ssa.Function {
	for _, f := range c.P.FnsIn("service") {
		if f.Signature.Results().Len() != 1 || f.Signature.Results().At(0).Type().String() != "bool" || f.Signature.Params().Len() != 1 {
			continue
		}
		for _, b := range f.Blocks {
			for _, ins := range b.Instrs {
				if bo, ok := ins.(*ssa.BinOp); ok && bo.Op == token.EQL {
					if s, ok := eng.ConstString(bo.Y); ok && s == "53" {
						return f
					}
				}
			}
		}
	}
	return nil
}

// C14.DNS
func ruleDNS(c *Ctx) {
	p := c.P
	m := getUDPModel(c, "DNS")
	if m == nil {
		return
	}
	ext := deadlineExtenders(c, m)
	found17 := false
	for _, f := range ext {
		for _, b := range f.Blocks {
			for _, ins := range b.Instrs {
				for _, op := range ins.Operands(nil) {
					if cst, ok := (*op).(*ssa.Const); ok && cst.Type().String() == "time.Duration" && cst.Value != nil {
						if n := cst.Int64(); n == 17_000_000_000 {
							found17 = true
						} else if n > 0 && n < 17_000_000_000 {
							c.CheckAt("DNS", short(f)+":short-timeout-constant", ins, false, fmt.Sprintf("a timeout constant of %d ns (< 17 s) is used for the association deadline", n))
						}
					}
				}
			}
		}
	}
	// the constant may also be a named package-level constant used through a helper: search the service package
	if !found17 {
		for _, f := range p.FnsIn("service") {
			r := eng.Root(f)
			if r.Signature.Recv() == nil || eng.TypeName(r.Signature.Recv().Type()) != m.connT {
				continue
			}
			for _, b := range f.Blocks {
				for _, ins := range b.Instrs {
					for _, op := range ins.Operands(nil) {
						if cst, ok := (*op).(*ssa.Const); ok && cst.Type().String() == "time.Duration" && cst.Value != nil && cst.Int64() == 17_000_000_000 {
							found17 = true
						}
					}
				}
			}
		}
	}
	c.Check("DNS", "dns-timeout-is-17s", "-", found17, "no 17 s duration constant in the deadline extension code")
	var isDNSFn *ssa.Function
	for _, f := range p.FnsIn("service") {
		if f.Signature.Results().Len() == 1 && f.Signature.Results().At(0).Type().String() == "bool" && f.Signature.Params().Len() == 1 {
			for _, b := range f.Blocks {
				for _, ins := range b.Instrs {
					if bo, ok := ins.(*ssa.BinOp); ok && bo.Op == token.EQL {
						if s, ok := eng.ConstString(bo.Y); ok && s == "53" {
							if ex, ok := bo.X.(*ssa.Extract); ok && ex.Index == 1 {
								if sc, ok := ex.Tuple.(*ssa.Call); ok && eng.CalleeName(&sc.Call) == "net.SplitHostPort" {
									isDNSFn = f
									fromParam := p.AnyFrom(sc.Call.Args[0], eng.OriginOpts{ThroughCalls: stringOf}, func(v ssa.Value) bool { _, isP := v.(*ssa.Parameter); return isP })
									c.CheckAt("DNS", short(f)+":port-of-parameter", bo, fromParam, "the port compared with 53 is not the port of the address passed in")
								}
							}
						}
					}
				}
			}
		}
	}
	c.Check("DNS", "dns-classifier-compares-port-53", "-", isDNSFn != nil, "no function classifies an address as DNS by comparing its port with \"53\"")
	if isDNSFn != nil {
		uses := false
		roots := append([]*ssa.Function{}, ext...)
		if m.connWrite != nil {
			roots = append(roots, m.connWrite)
		}
		seenCall := map[ssa.Instruction]bool{}
		for _, f := range roots {
			reg := c.NewRegion(f, 3, func(h *ssa.Function) bool { return eng.PkgPathOf(h) != eng.Mod+"/service" })
			for _, cl := range reg.Calls() {
				if seenCall[cl] {
					continue
				}
				seenCall[cl] = true
				if call, ok := cl.(*ssa.Call); ok && callTo(c, call, isDNSFn) {
					uses = true
					okArg, _ := p.AllFrom(call.Call.Args[0], deepF, func(v ssa.Value) bool { _, ok := v.(*ssa.Parameter); return ok })
					c.CheckAt("DNS", short(call.Parent())+":classifies-the-written-address", call, okArg, "the DNS classification is not applied to the destination address parameter")
				}
			}
		}
		c.Check("DNS", "deadline-extension-uses-classifier", "-", uses, "the deadline extension does not consult the DNS classifier")
		ruleDNSTimeoutValue(c, m, isDNSFn, ext)
	}
}

// ruleDNSTimeoutValue: whenever the written address is classified DNS, the timeout added to "now" is the 17 s constant —
// on every path, whatever the configured timeout is. Every other value that can reach the addition does so only over
// edges taken when the classification is false.
func ruleDNSTimeoutValue(c *Ctx, m *udpModel, cls *ssa.Function, ext []*ssa.Function) {
	p := c.P
	is17 := func(v ssa.Value) bool {
		cst, ok := v.(*ssa.Const)
		return ok && cst.Value != nil && cst.Type().String() == "time.Duration" && cst.Int64() == 17_000_000_000
	}
	// edges of f on which the DNS classification is false
	notDNS := func(f *ssa.Function) eng.EdgeSet {
		isCls := func(v ssa.Value) bool {
			return p.AnyFrom(v, eng.OriginOpts{Interproc: true}, func(x ssa.Value) bool {
				cc, ok := x.(*ssa.Call)
				return ok && callTo(c, cc, cls)
			})
		}
		_, fe := eng.BoolEdges(f, isCls)
		return fe
	}
	var bad []string
	seen := map[ssa.Value]bool{}
	// walk(v, f, okCtx): okCtx = the place v is taken from is reachable only with the classification false
	var walk func(v ssa.Value, f *ssa.Function, okCtx bool, d int)
	walk = func(v ssa.Value, f *ssa.Function, okCtx bool, d int) {
		if d > 12 {
			bad = append(bad, "too deep")
			return
		}
		if is17(v) {
			return
		}
		switch x := v.(type) {
		case *ssa.Phi:
			if seen[x] {
				return
			}
			seen[x] = true
			fe := notDNS(f)
			for i, ev := range x.Edges {
				pred := x.Block().Preds[i]
				ectx := okCtx || fe[eng.Edge{From: pred, To: x.Block()}] || (len(fe) > 0 && eng.Cut(f, pred, fe))
				walk(ev, f, ectx, d+1)
			}
			return
		case *ssa.Call:
			if h := x.Call.StaticCallee(); h != nil && p.InRepo(h) && len(h.Blocks) > 0 && h.Signature.Results().Len() == 1 {
				fe := notDNS(h)
				for _, r := range eng.Returns(h) {
					if len(r.Results) == 1 {
						rv := r.Results[0]
						if s := p.ReachingStore(rv, r); s != nil {
							rv = s
						}
						walk(rv, h, okCtx || (len(fe) > 0 && eng.Cut(h, r.Block(), fe)), d+1)
					}
				}
				return
			}
		case *ssa.UnOp:
			if r := p.Resolve(x); r != ssa.Value(x) {
				walk(r, f, okCtx, d+1)
				return
			}
		}
		if !okCtx {
			bad = append(bad, valStr(p, v))
		}
	}
	n := 0
	fns := map[*ssa.Function]bool{}
	roots := append([]*ssa.Function{}, ext...)
	if m.connWrite != nil {
		roots = append(roots, m.connWrite)
	}
	for _, e := range roots {
		for _, g := range regionFns(c, e, nil, 3) {
			fns[g] = true
		}
		fns[e] = true
	}
	for f := range fns {
		for _, cl := range eng.Calls(f) {
			call, ok := cl.(*ssa.Call)
			if !ok || eng.CalleeName(&call.Call) != "(time.Time).Add" {
				continue
			}
			nc, ok := p.Resolve(call.Call.Args[0]).(*ssa.Call)
			if !ok || eng.CalleeName(&nc.Call) != "time.Now" {
				continue
			}
			n++
			bad = nil
			fe := notDNS(f)
			walk(call.Call.Args[1], f, len(fe) > 0 && eng.Cut(f, call.Block(), fe), 0)
			c.CheckAt("DNS", short(f)+":timeout-is-17s-whenever-the-destination-is-DNS", call, len(bad) == 0, "for a datagram to a DNS server the deadline can be extended by something other than 17 s ("+strings.Join(bad, ", ")+"): with a configured timeout below 17 s the association dies before the promised 17 s after its latest DNS datagram")
		}
	}
	c.Floor("DNS", "now+timeout computations in the deadline extension", n, 1)
}
