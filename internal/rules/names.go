package rules

import (
	"go/token"
	"go/types"
	"strings"

	"golang.org/x/tools/go/ssa"

	"verif/internal/eng"
)

// Role-based lookup of the unexported types, functions and constants the rules refer to: a rename of any of them is a
// behaviour-preserving change and must not make a rule fail. Exported API names (interfaces of package service, the SDK,
// the standard library) are used as they are.

type mainModel struct {
	serverT  string // the long-lived server object: struct of the command package with a service.ReplayCache field
	lsT      string // per-generation listener set: type of the command package with ListenStream and ListenPacket methods
	configT  string // the configuration type readCfg returns
	readCfg  *ssa.Function
	validate *ssa.Function
	newList  *ssa.Function // builds a service.CipherList from a configuration entry
	// listCtors: every function of the command that returns a key list it created (newList, and small constructors such
	// as newCipherListFromEntries(entries)); a call of one of them is a key-list creation site
	listCtors map[string]bool
}

var mainModels = map[*eng.Prog]*mainModel{}

func (m *mainModel) name(f *ssa.Function) string {
	if f == nil {
		return "<missing>"
	}
	return eng.CalleeNameOf(f)
}

func mainM(c *Ctx) *mainModel {
	if m, ok := mainModels[c.P]; ok {
		return m
	}
	p := c.P
	m := &mainModel{}
	mainModels[p] = m
	pkg := p.AllPkgs[eng.Mod+"/"+mainPkg]
	if pkg == nil || pkg.Types == nil {
		return m
	}
	sc := pkg.Types.Scope()
	for _, name := range sc.Names() {
		tn, ok := sc.Lookup(name).(*types.TypeName)
		if !ok {
			continue
		}
		T := mainPkg + "." + name
		if st, ok := tn.Type().Underlying().(*types.Struct); ok {
			for i := 0; i < st.NumFields(); i++ {
				// held by value: a struct that merely carries a pointer to the history (a settings bundle) is not the server object
				if _, isPtr := st.Field(i).Type().(*types.Pointer); !isPtr && eng.TypeName(st.Field(i).Type()) == "service.ReplayCache" {
					m.serverT = T
				}
			}
		}
		if hasMethod(tn.Type(), "ListenStream") && hasMethod(tn.Type(), "ListenPacket") && hasMethod(tn.Type(), "Close") {
			m.lsT = T
		}
	}
	for _, f := range p.FnsIn(mainPkg) {
		if f.Parent() != nil || f.Synthetic != "" || p.IsTestSupport(f) {
			continue
		}
		rs := f.Signature.Results()
		if f.Signature.Recv() == nil && rs.Len() == 2 && rs.At(1).Type().String() == "error" {
			if eng.TypeName(rs.At(0).Type()) == "service.CipherList" {
				m.newList = f
			}
			if pt, ok := rs.At(0).Type().(*types.Pointer); ok && f.Signature.Params().Len() == 1 && f.Signature.Params().At(0).Type().String() == "[]byte" {
				if _, isS := pt.Elem().Underlying().(*types.Struct); isS && strings.HasPrefix(eng.TypeName(pt.Elem()), mainPkg+".") {
					m.readCfg, m.configT = f, eng.TypeName(pt.Elem())
				}
			}
		}
	}
	if m.serverT == "" {
		// no struct holds a replay history (any more): the server object is the receiver of the configuration function, the
		// one that creates the services
		for _, f := range p.FnsIn(mainPkg) {
			if p.IsTestSupport(f) {
				continue
			}
			for _, cl := range eng.Calls(f) {
				if eng.CalleeName(cl.Common()) == "service.NewShadowsocksService" {
					if r := eng.Root(f); r.Signature.Recv() != nil {
						m.serverT = eng.TypeName(r.Signature.Recv().Type())
					}
				}
			}
		}
	}
	m.listCtors = map[string]bool{}
	for changed := true; changed; {
		changed = false
		for _, f := range p.FnsIn(mainPkg) {
			if f.Parent() != nil || f.Synthetic != "" || p.IsTestSupport(f) || m.listCtors[eng.CalleeNameOf(f)] {
				continue
			}
			rs := f.Signature.Results()
			if rs.Len() == 0 || eng.TypeName(rs.At(0).Type()) != "service.CipherList" {
				continue
			}
			all, n := true, 0
			for _, r := range eng.Returns(f) {
				if len(r.Results) == 0 || eng.IsZeroValue(r.Results[0]) {
					continue
				}
				n++
				g, _ := p.AllFrom(r.Results[0], eng.Plain, func(v ssa.Value) bool {
					cc, _, ok := eng.AsResult(v)
					if !ok {
						return false
					}
					nm := eng.CalleeName(&cc.Call)
					return nm == "service.NewCipherList" || m.listCtors[nm]
				})
				if !g {
					all = false
				}
			}
			if all && n > 0 {
				m.listCtors[eng.CalleeNameOf(f)] = true
				changed = true
			}
		}
	}
	for _, f := range p.FnsIn(mainPkg) {
		if f.Parent() != nil || f.Signature.Recv() == nil || eng.TypeName(f.Signature.Recv().Type()) != m.configT {
			continue
		}
		if f.Signature.Params().Len() == 0 && f.Signature.Results().Len() == 1 && f.Signature.Results().At(0).Type().String() == "error" {
			if m.validate == nil || f.Name() == "Validate" {
				m.validate = f
			}
		}
	}
	return m
}

// streamHandlerT: the struct of package service that holds the target StreamDialer.
func streamHandlerT(c *Ctx) string {
	return svcStructWithField(c, func(t types.Type) bool { return eng.TypeName(t) == "sdk/transport.StreamDialer" })
}

// packetHandlerT: the struct of package service that holds the target IP validator.
func packetHandlerT(c *Ctx) string {
	return svcStructWithField(c, func(t types.Type) bool {
		return strings.Contains(t.String(), "func(net.IP) error") || strings.HasSuffix(t.String(), ".TargetIPValidator")
	})
}

func svcStructWithField(c *Ctx, pred func(types.Type) bool) string {
	pkg := c.P.AllPkgs[eng.Mod+"/service"]
	if pkg == nil || pkg.Types == nil {
		return ""
	}
	sc := pkg.Types.Scope()
	for _, name := range sc.Names() {
		tn, ok := sc.Lookup(name).(*types.TypeName)
		if !ok {
			continue
		}
		st, ok := tn.Type().Underlying().(*types.Struct)
		if !ok {
			continue
		}
		for i := 0; i < st.NumFields(); i++ {
			if pred(st.Field(i).Type()) {
				return "service." + name
			}
		}
	}
	return ""
}

// firstBytesLen: the constant number of bytes the TCP key finder reads before deciding (the size of the buffer handed to
// io.ReadFull), taken from the code rather than from a named constant.
func firstBytesLen(c *Ctx) (int64, bool) {
	for _, kf := range findKeyFinders(c) {
		for _, o := range c.P.Origins(kf.rf.Call.Args[1], eng.Deep) {
			switch x := o.(type) {
			case *ssa.MakeSlice:
				if k, ok := eng.ConstInt(x.Len); ok {
					return k, true
				}
			case *ssa.Alloc:
				if pt, ok := x.Type().(*types.Pointer); ok {
					if arr, ok := pt.Elem().Underlying().(*types.Array); ok {
						return arr.Len(), true
					}
				}
			}
		}
	}
	return 0, false
}

// saltMarkLen: the constant the marking generator's split helper subtracts from len(salt).
func saltMarkLen(c *Ctx, split *ssa.Function) (int64, bool) {
	if split == nil {
		return 0, false
	}
	for _, b := range split.Blocks {
		for _, ins := range b.Instrs {
			bo, ok := ins.(*ssa.BinOp)
			if !ok || bo.Op != token.SUB {
				continue
			}
			k, ok := eng.ConstInt(bo.Y)
			if !ok {
				continue
			}
			if call, ok := bo.X.(*ssa.Call); ok {
				if bi, ok := call.Call.Value.(*ssa.Builtin); ok && bi.Name() == "len" {
					return k, true
				}
			}
			// an index helper that is handed len(salt): saltLen - K
			if pa, ok := bo.X.(*ssa.Parameter); ok && pa.Parent() == split && pa.Type().String() == "int" {
				return k, true
			}
		}
	}
	return 0, false
}
