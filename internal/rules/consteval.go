package rules

import (
	"go/constant"
	"go/token"

	"golang.org/x/tools/go/ssa"

	"verif/internal/eng"
)

// A small constant propagator over SSA, used to decide finite decision tables ("which generator for which salt size")
// without depending on how the decision is written (one comparison, an enum returned by a helper, a switch …). It
// follows the control flow of a function with some values fixed to constants; branches whose condition evaluates are
// followed on one side only, the others on both. Nothing is executed: values are integers/booleans folded from the
// instruction operands.

type cval struct {
	known bool
	k     int64
	isB   bool
	b     bool
}

type constEval struct {
	p     *eng.Prog
	ext   func(call *ssa.Call) (cval, bool) // values of calls fixed by the caller of the evaluator
	steps int
}

func (ev *constEval) value(v ssa.Value, env map[ssa.Value]cval, d int) cval {
	if d > 40 {
		return cval{}
	}
	if c, ok := env[v]; ok {
		return c
	}
	switch x := v.(type) {
	case *ssa.Const:
		if x.Value == nil {
			return cval{}
		}
		switch x.Value.Kind() {
		case constant.Int:
			if k, ok := constant.Int64Val(x.Value); ok {
				return cval{known: true, k: k}
			}
		case constant.Bool:
			return cval{known: true, isB: true, b: constant.BoolVal(x.Value)}
		}
	case *ssa.Convert:
		return ev.value(x.X, env, d+1)
	case *ssa.ChangeType:
		return ev.value(x.X, env, d+1)
	case *ssa.UnOp:
		a := ev.value(x.X, env, d+1)
		if !a.known {
			return cval{}
		}
		switch x.Op {
		case token.NOT:
			return cval{known: true, isB: true, b: !a.b}
		case token.SUB:
			return cval{known: true, k: -a.k}
		}
	case *ssa.BinOp:
		a, b := ev.value(x.X, env, d+1), ev.value(x.Y, env, d+1)
		if !a.known || !b.known {
			return cval{}
		}
		if a.isB {
			switch x.Op {
			case token.EQL:
				return cval{known: true, isB: true, b: a.b == b.b}
			case token.NEQ:
				return cval{known: true, isB: true, b: a.b != b.b}
			}
			return cval{}
		}
		switch x.Op {
		case token.ADD:
			return cval{known: true, k: a.k + b.k}
		case token.SUB:
			return cval{known: true, k: a.k - b.k}
		case token.MUL:
			return cval{known: true, k: a.k * b.k}
		case token.QUO:
			if b.k != 0 {
				return cval{known: true, k: a.k / b.k}
			}
		case token.EQL:
			return cval{known: true, isB: true, b: a.k == b.k}
		case token.NEQ:
			return cval{known: true, isB: true, b: a.k != b.k}
		case token.LSS:
			return cval{known: true, isB: true, b: a.k < b.k}
		case token.LEQ:
			return cval{known: true, isB: true, b: a.k <= b.k}
		case token.GTR:
			return cval{known: true, isB: true, b: a.k > b.k}
		case token.GEQ:
			return cval{known: true, isB: true, b: a.k >= b.k}
		}
	case *ssa.Call:
		if ev.ext != nil {
			if c, ok := ev.ext(x); ok {
				return c
			}
		}
		if h := x.Call.StaticCallee(); h != nil && ev.p.InRepo(h) && len(h.Blocks) > 0 && h.Signature.Results().Len() == 1 && d < 8 {
			henv := map[ssa.Value]cval{}
			for i, pa := range h.Params {
				if i < len(x.Call.Args) {
					if c := ev.value(x.Call.Args[i], env, d+1); c.known {
						henv[pa] = c
					}
				}
			}
			_, rets := ev.walk(h, henv)
			if len(rets) > 0 {
				r0 := rets[0]
				for _, r := range rets {
					if !r.known || r != r0 {
						return cval{}
					}
				}
				return r0
			}
		}
	}
	return cval{}
}

// walk follows fn's control flow under env; returns the instructions' blocks that can be reached and the (constant or
// unknown) values returned.
func (ev *constEval) walk(fn *ssa.Function, env map[ssa.Value]cval) (map[*ssa.BasicBlock]bool, []cval) {
	reached := map[*ssa.BasicBlock]bool{}
	var rets []cval
	type edge struct{ from, to *ssa.BasicBlock }
	var visit func(b, pred *ssa.BasicBlock, env map[ssa.Value]cval, onPath map[edge]bool)
	visit = func(b, pred *ssa.BasicBlock, env map[ssa.Value]cval, onPath map[edge]bool) {
		ev.steps++
		if ev.steps > 20000 || onPath[edge{pred, b}] {
			return
		}
		onPath[edge{pred, b}] = true
		defer delete(onPath, edge{pred, b})
		reached[b] = true
		// phis take the value of the edge we came over
		local := env
		if pred != nil {
			for _, ins := range b.Instrs {
				ph, ok := ins.(*ssa.Phi)
				if !ok {
					break
				}
				for i, pb := range b.Preds {
					if pb == pred {
						if local == nil || &local == &env {
							local = copyEnv(env)
						}
						c := ev.value(ph.Edges[i], env, 0)
						if c.known {
							local[ph] = c
						} else {
							delete(local, ph)
						}
					}
				}
			}
		}
		if len(b.Instrs) == 0 {
			return
		}
		switch t := b.Instrs[len(b.Instrs)-1].(type) {
		case *ssa.If:
			c := ev.value(t.Cond, local, 0)
			if c.known && c.isB {
				if c.b {
					visit(b.Succs[0], b, local, onPath)
				} else {
					visit(b.Succs[1], b, local, onPath)
				}
				return
			}
			visit(b.Succs[0], b, local, onPath)
			visit(b.Succs[1], b, local, onPath)
		case *ssa.Return:
			if len(t.Results) > 0 {
				rets = append(rets, ev.value(t.Results[0], local, 0))
			}
		default:
			for _, s := range b.Succs {
				visit(s, b, local, onPath)
			}
		}
	}
	if len(fn.Blocks) > 0 {
		visit(fn.Blocks[0], nil, copyEnv(env), map[edge]bool{})
	}
	return reached, rets
}

func copyEnv(env map[ssa.Value]cval) map[ssa.Value]cval {
	out := make(map[ssa.Value]cval, len(env)+2)
	for k, v := range env {
		out[k] = v
	}
	return out
}
