package rules

import (
	"fmt"
	"go/token"
	"strings"

	"golang.org/x/tools/go/ssa"

	"verif/internal/eng"
)

func init() {
	register(&PropDef{ID: "C09", Level: "other", Run: runC09,
		Explanation: "Binding of keys to listeners in the configuration start code, as value-provenance facts with loop-iteration identity: (BIND) every serving goroutine pairs a listener and a service that come from the same iteration of the configuration loop — " +
			"the listener address and the key material given to that service derive from the same range element (the same services entry, or the same (port, list) tuple of the legacy map), the service is created inside the loop and the listener in the same or a nested loop; " +
			"(NOSHARE) every key list is created per iteration and reaches exactly one WithCiphers; (DEDUP) the per-service key list is built by a forward range over the entry's keys that skips a key exactly when (cipher, secret) is already in a map created in that call, " +
			"pushes in order (first ID wins), records the pair after pushing, and builds each entry from the ID, cipher and secret of the same key element; the legacy map groups each key under its own port; (SEARCH) the per-key trial decryption tries every key of the list with that key's own header size.",
		NotDecided: "YAML decoding, what authentication then does at run time (C01/C03).",
	})
}

func runC09(c *Ctx) {
	a := findReload(c, "ANCHOR")
	if a == nil {
		return
	}
	ruleBind(c, a)
	ruleDedup(c, a)
	ruleSearch(c, "SEARCH", 2)
}

// rangeSources walks backwards from v and collects the loop-iteration sources it derives from: IndexAddr instructions whose
// index is a range induction variable, and Next instructions of map ranges. It looks through cells, struct copies, field
// loads, conversions, Sprintf/String calls and varargs arrays.
func rangeSources(c *Ctx, v ssa.Value) map[ssa.Instruction]bool {
	out := map[ssa.Instruction]bool{}
	seen := map[ssa.Value]bool{}
	var walk func(v ssa.Value, d int)
	walk = func(v ssa.Value, d int) {
		if v == nil || seen[v] || d > 80 {
			return
		}
		seen[v] = true
		switch x := v.(type) {
		case *ssa.Phi:
			if strings.HasPrefix(x.Comment, "rangeindex") {
				return
			}
			for _, e := range x.Edges {
				walk(e, d+1)
			}
		case *ssa.Extract:
			if nx, ok := x.Tuple.(*ssa.Next); ok {
				out[nx] = true
				return
			}
			walk(x.Tuple, d+1)
		case *ssa.UnOp:
			if x.Op != token.MUL {
				walk(x.X, d+1)
				return
			}
			if cell := eng.CellRoot(x.X); cell != nil {
				for _, st := range c.P.CellStores(cell) {
					walk(st.Val, d+1)
				}
				// struct locals filled field by field
				for _, r := range *cell.Referrers() {
					if fa, ok := r.(*ssa.FieldAddr); ok {
						for _, rr := range *fa.Referrers() {
							if st, ok := rr.(*ssa.Store); ok && st.Addr == ssa.Value(fa) {
								walk(st.Val, d+1)
							}
						}
					}
				}
				return
			}
			walk(x.X, d+1)
		case *ssa.FieldAddr:
			walk(x.X, d+1)
		case *ssa.Field:
			walk(x.X, d+1)
		case *ssa.IndexAddr:
			if isRangeIndex(x.Index) {
				out[x] = true
			}
			walk(x.X, d+1)
		case *ssa.Index:
			walk(x.X, d+1)
		case *ssa.Alloc:
			// array filled element-wise (varargs), or struct local
			for _, r := range *x.Referrers() {
				switch u := r.(type) {
				case *ssa.IndexAddr:
					for _, rr := range *u.Referrers() {
						if st, ok := rr.(*ssa.Store); ok && st.Addr == ssa.Value(u) {
							walk(st.Val, d+1)
						}
					}
				case *ssa.FieldAddr:
					for _, rr := range *u.Referrers() {
						if st, ok := rr.(*ssa.Store); ok && st.Addr == ssa.Value(u) {
							walk(st.Val, d+1)
						}
					}
				case *ssa.Store:
					if u.Addr == ssa.Value(x) {
						walk(u.Val, d+1)
					}
				}
			}
		case *ssa.Slice:
			walk(x.X, d+1)
		case *ssa.Convert:
			walk(x.X, d+1)
		case *ssa.ChangeType:
			walk(x.X, d+1)
		case *ssa.MakeInterface:
			walk(x.X, d+1)
		case *ssa.ChangeInterface:
			walk(x.X, d+1)
		case *ssa.TypeAssert:
			walk(x.X, d+1)
		case *ssa.BinOp:
			walk(x.X, d+1)
			walk(x.Y, d+1)
		case *ssa.FreeVar:
			if b := eng.FreeVarBinding(x); b != nil {
				walk(b, d+1)
			}
		case *ssa.Parameter:
			// helper functions called per iteration: the parameter derives from the arguments at the call sites
			fn := x.Parent()
			idx := -1
			for i, q := range fn.Params {
				if q == x {
					idx = i
				}
			}
			for _, s := range c.P.CallSitesOf(fn) {
				cc := s.Ins.(ssa.CallInstruction).Common()
				if cc.StaticCallee() != nil && idx >= 0 && idx < len(cc.Args) {
					walk(cc.Args[idx], d+1)
				}
			}
		case *ssa.Lookup:
			walk(x.X, d+1)
			walk(x.Index, d+1)
		case *ssa.Call:
			// results derive from arguments (over-approximation: every argument of a static call; receiver of String())
			if !x.Call.IsInvoke() {
				for _, a := range x.Call.Args {
					walk(a, d+1)
				}
			} else if x.Call.Method.Name() == "String" {
				walk(x.Call.Value, d+1)
			}
		}
	}
	walk(v, 0)
	return out
}

func isRangeIndex(v ssa.Value) bool {
	// t9 = t8 + 1 where t8 = phi #rangeindex
	if bo, ok := v.(*ssa.BinOp); ok && bo.Op == token.ADD {
		if ph, ok := bo.X.(*ssa.Phi); ok && strings.HasPrefix(ph.Comment, "rangeindex") {
			return true
		}
	}
	if ph, ok := v.(*ssa.Phi); ok && strings.HasPrefix(ph.Comment, "rangeindex") {
		return true
	}
	return false
}

// boundReceiver: for a bound-method closure value (x.M as func), the receiver x.
func boundReceiver(v ssa.Value) ssa.Value {
	if ct, ok := v.(*ssa.ChangeType); ok {
		v = ct.X
	}
	if mc, ok := v.(*ssa.MakeClosure); ok && len(mc.Bindings) == 1 {
		if fn, ok := mc.Fn.(*ssa.Function); ok && strings.HasPrefix(fn.Synthetic, "bound method wrapper") {
			return mc.Bindings[0]
		}
	}
	return nil
}

func originCall(c *Ctx, v ssa.Value, name ...string) *ssa.Call {
	for _, o := range c.P.Origins(v, eng.Plain) {
		if cc, _, ok := eng.AsResult(o); ok {
			n := eng.CalleeName(&cc.Call)
			for _, want := range name {
				if n == want {
					return cc
				}
			}
		}
	}
	return nil
}

func intersects(a, b map[ssa.Instruction]bool) bool {
	for k := range a {
		if b[k] {
			return true
		}
	}
	return false
}

// C09.BIND and NOSHARE
func ruleBind(c *Ctx, a *reloadAnchors) {
	p := c.P
	s := a.startFn
	sreg := c.NewRegion(s, 3, func(h *ssa.Function) bool {
		return eng.PkgPathOf(h) != eng.Mod+"/"+mainPkg || (h.Signature.Recv() != nil && eng.TypeName(h.Signature.Recv().Type()) == a.lsType)
	})
	lsT := "(*" + a.lsType + ")."
	nGo := 0
	listenUses := map[*ssa.Call]int{}
	for _, cl := range sreg.Calls() {
		g, ok := cl.(*ssa.Go)
		if !ok {
			continue
		}
		loops := eng.Loops(g.Parent())
		nGo++
		key := fmt.Sprintf("%s:serve#%d", short(s), nGo)
		var svcVal, lnVal ssa.Value
		switch {
		case eng.CalleeName(&g.Call) == "service.StreamServe":
			lnVal = boundReceiver(g.Call.Args[0])
			svcVal = boundReceiver(g.Call.Args[1])
		case g.Call.IsInvoke() && g.Call.Method.Name() == "HandlePacket":
			svcVal = g.Call.Value
			lnVal = g.Call.Args[0]
		default:
			c.CheckAt("BIND", key+":recognised-serving-call", g, false, "a goroutine is started in the configuration start code that is neither StreamServe(listener.AcceptStream, service.HandleStream) nor service.HandlePacket(conn)")
			continue
		}
		if svcVal == nil || lnVal == nil {
			c.Undecided("BIND", key+":operands", p.IPos(g), "cannot identify the listener and service operands of the serving goroutine")
			continue
		}
		svcCall := originCall(c, svcVal, "service.NewShadowsocksService")
		lnCall := originCall(c, lnVal, lsT+"ListenStream", lsT+"ListenPacket")
		if svcCall == nil || lnCall == nil {
			c.CheckAt("BIND", key+":service-and-listener-created-here", g, false, "the service or the listener served by this goroutine is not created by NewShadowsocksService / the listener set in the start code")
			continue
		}
		listenUses[lnCall]++
		// stream accept goes with stream handle, packets with packets
		if eng.CalleeName(&g.Call) == "service.StreamServe" {
			c.CheckAt("BIND", key+":stream-listener-for-stream-serving", g, strings.HasSuffix(eng.CalleeName(&lnCall.Call), "ListenStream"), "StreamServe is fed by something other than a stream listener")
		}
		// same iteration / activation: service, listener and go live in one function; when the service is created inside a loop of
		// that function, the listener and the go are inside the same loop (the provenance check below covers the case where a
		// helper is called once per configuration entry)
		sameFn := svcCall.Parent() == g.Parent() && lnCall.Parent() == g.Parent()
		ls := eng.InnermostLoop(loops, svcCall.Block())
		okIter := sameFn && (ls == nil || (ls.Body[lnCall.Block()] && ls.Body[g.Block()]))
		c.CheckAt("BIND", key+":same-iteration", g, okIter, "the service and the listener served together are not created in the same iteration of the configuration loop (e.g. the service is created once outside the loop): keys of one entry would authenticate on another entry's listeners")
		// cipher list of the service
		var wc *ssa.Call
		if sl, ok := svcCall.Call.Args[0].(*ssa.Slice); ok {
			if arr, ok := sl.X.(*ssa.Alloc); ok {
				for _, r := range *arr.Referrers() {
					if ia, ok := r.(*ssa.IndexAddr); ok {
						for _, rr := range *ia.Referrers() {
							if st, ok := rr.(*ssa.Store); ok {
								if cc := originCall(c, st.Val, "service.WithCiphers"); cc != nil {
									wc = cc
								}
							}
						}
					}
				}
			}
		}
		if wc == nil {
			c.CheckAt("BIND", key+":service-gets-a-key-list", svcCall, false, "the service is created without WithCiphers")
			continue
		}
		listVal := wc.Call.Args[0]
		mk := originCall(c, listVal, "service.NewCipherList", mainPkg+".newCipherListFromConfig")
		if mk == nil {
			c.CheckAt("BIND", key+":key-list-built-here", wc, false, "the key list given to the service is not built by NewCipherList / newCipherListFromConfig in the start code")
			continue
		}
		lm := eng.InnermostLoop(loops, mk.Block())
		c.CheckAt("NOSHARE", key+":key-list-created-per-iteration", mk, mk.Parent() == svcCall.Parent() && lm == ls, "the key list is not created in the same loop iteration as the service that uses it: several services would share one list")
		// key material input
		var keyInput ssa.Value
		if eng.CalleeName(&mk.Call) == mainPkg+".newCipherListFromConfig" {
			keyInput = mk.Call.Args[0]
		} else {
			// NewCipherList().Update(list)
			for _, r := range *mk.Referrers() {
				if uc, ok := r.(*ssa.Call); ok && uc.Call.IsInvoke() && uc.Call.Method.Name() == "Update" {
					keyInput = uc.Call.Args[0]
				}
			}
		}
		if keyInput == nil {
			c.CheckAt("BIND", key+":key-list-filled", mk, false, "the key list given to the service is never filled")
			continue
		}
		ks := rangeSources(c, keyInput)
		as := rangeSources(c, lnCall.Call.Args[1])
		c.CheckAt("BIND", key+":keys-and-address-from-the-same-entry", g, len(ks) > 0 && len(as) > 0 && intersects(ks, as),
			fmt.Sprintf("the keys given to the service (%d range sources) and the address it listens on (%d range sources) do not derive from the same configuration entry of the same loop iteration", len(ks), len(as)))
	}
	c.Floor("BIND", "serving goroutines in the start code", nGo, 4)
	for lc, k := range listenUses {
		c.CheckAt("BIND", short(s)+":listener-served-once", lc, k == 1, fmt.Sprintf("one listener is served by %d goroutines", k))
	}
	// NOSHARE: every key-list creation result reaches exactly one WithCiphers
	for _, cl := range sreg.Calls() {
		call, ok := cl.(*ssa.Call)
		if !ok {
			continue
		}
		n := eng.CalleeName(&call.Call)
		if n != "service.NewCipherList" && n != mainPkg+".newCipherListFromConfig" {
			continue
		}
		uses := 0
		for _, c2 := range sreg.Calls() {
			if wc, ok := c2.(*ssa.Call); ok && eng.CalleeName(&wc.Call) == "service.WithCiphers" {
				if p.AnyFrom(wc.Call.Args[0], deepF, func(v ssa.Value) bool { cc, _, ok := eng.AsResult(v); return ok && cc == call }) {
					uses++
				}
			}
		}
		c.CheckAt("NOSHARE", short(s)+":"+n+":one-service-per-key-list", call, uses == 1, fmt.Sprintf("a key list reaches %d WithCiphers calls (must be exactly one)", uses))
	}
	// legacy map: each key is filed under the port of the same key element, and its entry is built from that element
	sreg.Instrs(func(_ *ssa.Function, ins ssa.Instruction) {
		mu, ok := ins.(*ssa.MapUpdate)
		if !ok || !strings.Contains(mu.Map.Type().String(), "container/list.List") {
			return
		}
		ksrc := rangeSources(c, mu.Key)
		c.CheckAt("BIND", short(s)+":legacy-list-filed-under-its-own-port", mu, len(ksrc) > 0, "the legacy per-port list is not filed under the port of the key being processed")
	})
	dedupFn := p.Fn(mainPkg + ".newCipherListFromConfig")
	for _, cl := range sreg.Calls() {
		call, ok := cl.(*ssa.Call)
		if !ok || eng.CalleeName(&call.Call) != "(*container/list.List).PushBack" || call.Parent() == dedupFn {
			continue
		}
		// the list pushed to was looked up with the port of the same element the entry is built from
		ls := rangeSources(c, call.Call.Args[0])
		es := rangeSources(c, call.Call.Args[1])
		c.CheckAt("BIND", short(s)+":legacy-key-pushed-to-its-own-port-list", call, len(ls) > 0 && intersects(ls, es), "a legacy key is appended to a list that was not selected by the port of that same key")
	}
}

// C09.DEDUP
func ruleDedup(c *Ctx, a *reloadAnchors) {
	p := c.P
	f := p.Fn(mainPkg + ".newCipherListFromConfig")
	if f == nil {
		c.Undecided("DEDUP", "anchor:newCipherListFromConfig", "-", "per-service key-list builder not found")
		return
	}
	key := short(f)
	var push, mkEntry, newKey *ssa.Call
	for _, cl := range eng.Calls(f) {
		if call, ok := cl.(*ssa.Call); ok {
			switch eng.CalleeName(&call.Call) {
			case "(*container/list.List).PushBack":
				push = call
			case "service.MakeCipherEntry":
				mkEntry = call
			case "sdk/shadowsocks.NewEncryptionKey":
				newKey = call
			case "(*container/list.List).Remove", "(*container/list.List).PushFront", "(*container/list.List).MoveToBack", "(*container/list.List).MoveToFront", "(*container/list.List).InsertBefore":
				c.CheckAt("DEDUP", key+":append-only", call, false, "the key list is reordered or pruned while it is built: the first ID of a duplicated (cipher, secret) would not be the one kept")
			}
		}
	}
	if push == nil || mkEntry == nil || newKey == nil {
		c.Undecided("DEDUP", key+":anchors", p.Pos(f.Pos()), "the builder lost its PushBack / MakeCipherEntry / NewEncryptionKey calls")
		return
	}
	// the lookup that guards the push
	var lk *ssa.Lookup
	for _, b := range f.Blocks {
		for _, ins := range b.Instrs {
			if l, ok := ins.(*ssa.Lookup); ok && l.CommaOk {
				lk = l
			}
		}
	}
	if lk == nil {
		c.CheckAt("DEDUP", key+":duplicate-test", push, false, "keys are pushed without testing whether (cipher, secret) was already seen")
		return
	}
	// map created in this call
	freshMap, _ := p.AllFrom(lk.X, eng.Plain, func(v ssa.Value) bool { mm, ok := v.(*ssa.MakeMap); return ok && mm.Parent() == f })
	c.CheckAt("DEDUP", key+":seen-set-is-per-call", lk, freshMap, "the set of seen (cipher, secret) pairs is not created by this call (e.g. shared across services): a key that also appears in another service is silently dropped from this one")
	// miss edge cuts the push
	miss := eng.EdgeSet{}
	for _, b := range f.Blocks {
		iff, ok := b.Instrs[len(b.Instrs)-1].(*ssa.If)
		if !ok {
			continue
		}
		if ex, ok := iff.Cond.(*ssa.Extract); ok && ex.Tuple == ssa.Value(lk) && ex.Index == 1 {
			miss[eng.Edge{From: b, To: b.Succs[1]}] = true
		}
		if u, ok := iff.Cond.(*ssa.UnOp); ok && u.Op == token.NOT {
			if ex, ok := u.X.(*ssa.Extract); ok && ex.Tuple == ssa.Value(lk) && ex.Index == 1 {
				miss[eng.Edge{From: b, To: b.Succs[0]}] = true
			}
		}
	}
	c.CheckAt("DEDUP", key+":push-only-when-unseen", push, len(miss) > 0 && eng.Cut(f, push.Block(), miss), "a key is pushed although its (cipher, secret) is already in the list: one secret would authenticate under two IDs, or the later ID would win")
	// every unseen key is pushed (unless its cipher is invalid → error return)
	for _, e := range sortedEdges(miss) {
		ok, bad := eng.MustPassBefore(edgePoint(e), func(ins ssa.Instruction) bool { return ins == ssa.Instruction(push) }, func(ins ssa.Instruction) bool {
			if r, isR := ins.(*ssa.Return); isR {
				return eng.IsZeroValue(r.Results[len(r.Results)-1])
			}
			// reaching the loop header again without pushing
			if ph, isP := ins.(*ssa.Phi); isP && strings.HasPrefix(ph.Comment, "rangeindex") {
				return true
			}
			return false
		})
		c.Check("DEDUP", key+":every-unseen-key-is-pushed", blockPos(p, e.To), ok, fmt.Sprintf("an unseen key can be skipped without an error (%s): a configured key would not authenticate", p.IPos(bad)))
	}
	// record after push with the same key value
	var upd *ssa.MapUpdate
	for _, b := range f.Blocks {
		for _, ins := range b.Instrs {
			if mu, ok := ins.(*ssa.MapUpdate); ok && sameOrigin(c, mu.Map, lk.X) {
				upd = mu
			}
		}
	}
	c.CheckAt("DEDUP", key+":pair-recorded-after-push", push, upd != nil && eng.Dominates(push, upd) && sameLoad(p.Resolve(upd.Key), p.Resolve(lk.Index)), "the (cipher, secret) pair is not recorded in the seen-set after the push with the same key value that was looked up")
	// the key value is (Cipher, Secret) of the same key element the entry is built from
	elemFields := func(v ssa.Value) map[string]bool {
		out := map[string]bool{}
		seen := map[ssa.Value]bool{}
		var walk func(v ssa.Value, d int)
		walk = func(v ssa.Value, d int) {
			if v == nil || seen[v] || d > 40 {
				return
			}
			seen[v] = true
			switch x := v.(type) {
			case *ssa.UnOp:
				if x.Op == token.MUL {
					if fa, ok := x.X.(*ssa.FieldAddr); ok {
						if t, fl, _, ok := eng.FieldOf(fa); ok && strings.HasSuffix(t, "KeyConfig") {
							out[fl] = true
							return
						}
					}
					if cell := eng.CellRoot(x.X); cell != nil {
						for _, st := range p.CellStores(cell) {
							walk(st.Val, d+1)
						}
						for _, r := range *cell.Referrers() {
							if fa, ok := r.(*ssa.FieldAddr); ok {
								for _, rr := range *fa.Referrers() {
									if st, ok := rr.(*ssa.Store); ok && st.Addr == ssa.Value(fa) {
										walk(st.Val, d+1)
									}
								}
							}
						}
						return
					}
				}
			case *ssa.Field:
				if t, fl, _, ok := eng.FieldOf(x); ok && strings.HasSuffix(t, "KeyConfig") {
					out[fl] = true
					return
				}
				walk(x.X, d+1)
			case *ssa.Phi:
				for _, e := range x.Edges {
					walk(e, d+1)
				}
			case *ssa.ChangeType:
				walk(x.X, d+1)
			case *ssa.Convert:
				walk(x.X, d+1)
			}
		}
		walk(v, 0)
		return out
	}
	kf := elemFields(lk.Index)
	c.CheckAt("DEDUP", key+":duplicates-are-(cipher,secret)", lk, len(kf) == 2 && kf["Cipher"] && kf["Secret"], fmt.Sprintf("duplicates are detected on %v instead of exactly (Cipher, Secret)", kf))
	// entry built from ID / key(Cipher, Secret) / Secret of the same element
	okID := elemFields(mkEntry.Call.Args[0])["ID"]
	okSec := elemFields(mkEntry.Call.Args[2])["Secret"]
	okKey, _ := p.AllFrom(mkEntry.Call.Args[1], eng.Plain, func(v ssa.Value) bool { return eng.ResultOf(v, newKey, 0) })
	nk0, nk1 := elemFields(newKey.Call.Args[0]), elemFields(newKey.Call.Args[1])
	c.CheckAt("DEDUP", key+":entry-built-from-this-key", mkEntry, okID && okSec && okKey && nk0["Cipher"] && nk1["Secret"], "the entry pushed is not MakeCipherEntry(key.ID, NewEncryptionKey(key.Cipher, key.Secret), key.Secret) of the key being processed")
	same := intersects(rangeSources(c, lk.Index), rangeSources(c, mkEntry.Call.Args[0]))
	c.CheckAt("DEDUP", key+":test-and-entry-use-the-same-key-element", mkEntry, same, "the duplicate test and the entry use different key elements")
	okPush, _ := p.AllFrom(push.Call.Args[1], eng.OriginOpts{ThroughConvert: true}, func(v ssa.Value) bool {
		al, ok := v.(*ssa.Alloc)
		if !ok {
			return false
		}
		for _, st := range p.CellStores(al) {
			if st.Val == ssa.Value(mkEntry) {
				return true
			}
		}
		return false
	})
	c.CheckAt("DEDUP", key+":pushes-the-entry-just-built", push, okPush, "what is pushed is not the entry built for this key")
	// the loop is a forward range over config.Keys, and the list returned is the one pushed to
	l := eng.InnermostLoop(eng.Loops(f), push.Block())
	isRange := false
	if l != nil {
		for _, ins := range l.Header.Instrs {
			if ph, ok := ins.(*ssa.Phi); ok && strings.HasPrefix(ph.Comment, "rangeindex") {
				isRange = true
			}
		}
	}
	c.CheckAt("DEDUP", key+":forward-range-over-keys", push, isRange, "the builder does not range forward over the configured keys (first occurrence would not win)")
	for _, r := range eng.Returns(f) {
		if !eng.IsZeroValue(r.Results[1]) {
			continue
		}
		// returned CipherList was Update()d with the list pushed to
		okU := false
		for _, cl := range eng.Calls(f) {
			if uc, ok := cl.(*ssa.Call); ok && uc.Call.IsInvoke() && uc.Call.Method.Name() == "Update" {
				if sameOrigin(c, uc.Call.Value, r.Results[0]) && sameOrigin(c, uc.Call.Args[0], push.Call.Args[0]) {
					okU = true
				}
			}
		}
		c.CheckAt("DEDUP", key+":returns-the-list-it-filled", r, okU, "the CipherList returned was not updated with the list the keys were pushed to")
	}
}

// sameLoad: identical values, or two loads of the same local cell (no CSE in go/ssa).
func sameLoad(a, b ssa.Value) bool {
	if a == b {
		return true
	}
	ua, ok1 := a.(*ssa.UnOp)
	ub, ok2 := b.(*ssa.UnOp)
	if ok1 && ok2 && ua.Op == token.MUL && ub.Op == token.MUL {
		if _, isAlloc := ua.X.(*ssa.Alloc); isAlloc && ua.X == ub.X {
			return true
		}
	}
	return false
}
