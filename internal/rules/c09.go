package rules

import (
	"fmt"
	"go/token"
	"go/types"
	"sort"
	"strings"

	"golang.org/x/tools/go/ssa"

	"verif/internal/eng"
)

func init() {
	register(&PropDef{ID: "C09", Level: "other", Run: runC09,
		Explanation: "Binding of keys to listeners in the configuration start code, as value-provenance facts with loop-iteration identity: (BIND) every serving goroutine pairs a listener and a service that come from the same iteration of the configuration loop — " +
			"the listener address and the key material given to that service derive from the same range element (the same services entry, or the same (port, list) tuple of the legacy map), the service is created inside the loop and the listener in the same or a nested loop; " +
			"(NOSHARE) every key list is created per iteration and reaches exactly one WithCiphers; (DEDUP) the per-service key list is built by a forward range over the entry's keys that skips a key exactly when (cipher, secret) is already in a map created in that call, " +
			"pushes in order (first ID wins), records the pair after pushing, and builds each entry from the ID, cipher and secret of the same key element; the legacy map groups each key under its own port; (SEARCH) the per-key trial decryption tries every key of the list with that key's own header size; (CLOSEDGUARD, HANDLECLOSE) a released listener handle of an old generation excludes the closed state before competing for the shared socket and its Close always closes the close channel, so old keys stop working on a retained address. (SNAPSHOT) the per-connection snapshot holds every key of the list; lists built in the start code are appended to, never prepended (configuration order: the first configured ID wins).",
		NotDecided: "YAML decoding, what authentication then does at run time (C01/C03).",
	})
}

func runC09(c *Ctx) {
	a := findReload(c, "ANCHOR")
	if a == nil {
		return
	}
	ruleBind(c, a)
	ruleDedup(c, a)
	// every listener the validator accepts is started: Validate and the start code test the listener type itself, the same way
	ruleValidate(c, a)
	ruleSearch(c, "SEARCH", 2)
	ruleSnapshot(c) // every key bound to the listener is tried, whatever the last-client-IP state
	ruleRegister(c, "REGISTER")
	ruleKeyBytes(c) // a bound key authenticates however the first bytes are segmented: the finder reads them all before searching
	// "exactly": after a reload that keeps an address, the handle of the old generation must stop taking connections and
	// datagrams of the shared socket the moment it is released, or the old generation's keys keep working there
	for _, m := range findMultiListeners(c, "CLOSEDGUARD") {
		ruleClosedGuard(c, m)
		ruleCancelPump(c, m, "HANDOFF")
	}
	// every key of the list is tried on the datagram as it arrived: trial decryption must not write into the ciphertext
	if ua := findUDP(c, "NOALIAS"); ua != nil {
		ruleBuffers(c, ua, "NOALIAS")
	}
}

// rangeSources walks backwards from v and collects the loop-iteration sources it derives from: IndexAddr instructions whose
// index is a range induction variable, and Next instructions of map ranges. It looks through cells, struct copies, field
// loads, conversions, Sprintf/String calls and varargs arrays.
func rangeSources(c *Ctx, v ssa.Value, a *reloadAnchors) map[ssa.Value]bool {
	out := map[ssa.Value]bool{}
	seen := map[ssa.Value]bool{}
	var walk func(v ssa.Value, d int)
	walk = func(v ssa.Value, d int) {
		if v == nil || seen[v] || d > 80 {
			return
		}
		seen[v] = true
		switch x := v.(type) {
		case *ssa.Phi:
			if strings.HasPrefix(x.Comment, "rangeindex") {
				return
			}
			for _, e := range x.Edges {
				walk(e, d+1)
			}
		case *ssa.Extract:
			if nx, ok := x.Tuple.(*ssa.Next); ok {
				out[nx] = true
				return
			}
			walk(x.Tuple, d+1)
		case *ssa.UnOp:
			if x.Op != token.MUL {
				walk(x.X, d+1)
				return
			}
			if cell := eng.CellRoot(x.X); cell != nil {
				for _, st := range c.P.CellStores(cell) {
					walk(st.Val, d+1)
				}
				// struct locals filled field by field
				for _, r := range *cell.Referrers() {
					if fa, ok := r.(*ssa.FieldAddr); ok {
						for _, rr := range *fa.Referrers() {
							if st, ok := rr.(*ssa.Store); ok && st.Addr == ssa.Value(fa) {
								walk(st.Val, d+1)
							}
						}
					}
				}
				return
			}
			walk(x.X, d+1)
		case *ssa.FieldAddr:
			walk(x.X, d+1)
		case *ssa.Field:
			walk(x.X, d+1)
		case *ssa.IndexAddr:
			if isRangeIndex(x.Index) {
				out[x] = true
			}
			walk(x.X, d+1)
		case *ssa.Index:
			walk(x.X, d+1)
		case *ssa.Alloc:
			// array filled element-wise (varargs), or struct local
			for _, r := range *x.Referrers() {
				switch u := r.(type) {
				case *ssa.IndexAddr:
					for _, rr := range *u.Referrers() {
						if st, ok := rr.(*ssa.Store); ok && st.Addr == ssa.Value(u) {
							walk(st.Val, d+1)
						}
					}
				case *ssa.FieldAddr:
					for _, rr := range *u.Referrers() {
						if st, ok := rr.(*ssa.Store); ok && st.Addr == ssa.Value(u) {
							walk(st.Val, d+1)
						}
					}
				case *ssa.Store:
					if u.Addr == ssa.Value(x) {
						walk(u.Val, d+1)
					}
				}
			}
		case *ssa.Slice:
			walk(x.X, d+1)
		case *ssa.Convert:
			walk(x.X, d+1)
		case *ssa.ChangeType:
			walk(x.X, d+1)
		case *ssa.MakeInterface:
			walk(x.X, d+1)
		case *ssa.ChangeInterface:
			walk(x.X, d+1)
		case *ssa.TypeAssert:
			walk(x.X, d+1)
		case *ssa.BinOp:
			walk(x.X, d+1)
			walk(x.Y, d+1)
		case *ssa.FreeVar:
			if b := eng.FreeVarBinding(x); b != nil {
				walk(b, d+1)
			}
		case *ssa.Parameter:
			// helper functions called per iteration: the parameter derives from the arguments at the call sites
			fn := x.Parent()
			if a != nil && entryParam(x, a) {
				out[x] = true // one activation of a per-entry helper: the parameter itself identifies the entry
			}
			idx := -1
			for i, q := range fn.Params {
				if q == x {
					idx = i
				}
			}
			for _, s := range c.P.CallSitesOf(fn) {
				cc := s.Ins.(ssa.CallInstruction).Common()
				if cc.StaticCallee() != nil && idx >= 0 && idx < len(cc.Args) {
					walk(cc.Args[idx], d+1)
				}
			}
		case *ssa.Lookup:
			walk(x.X, d+1)
			walk(x.Index, d+1)
		case *ssa.Call:
			// results derive from arguments (over-approximation: every argument of a static call; receiver of String())
			if !x.Call.IsInvoke() {
				for _, a := range x.Call.Args {
					walk(a, d+1)
				}
			} else if x.Call.Method.Name() == "String" {
				walk(x.Call.Value, d+1)
			}
		}
	}
	walk(v, 0)
	return out
}

// entryParam: a parameter of a start-code helper that can stand for "the configuration entry of this activation": not the
// receiver/server, not the listener set, not a function-typed or interface-typed value.
func entryParam(x *ssa.Parameter, a *reloadAnchors) bool {
	fn := x.Parent()
	if fn == a.startFn || fn == a.owner || fn == a.runCfg || !a.startRegion[fn] {
		return false
	}
	tn := eng.TypeName(x.Type())
	if tn == a.lsType || tn == a.serverT {
		return false
	}
	switch x.Type().Underlying().(type) {
	case *types.Signature, *types.Interface, *types.Chan:
		return false
	}
	return true
}

func isRangeIndex(v ssa.Value) bool {
	// t9 = t8 + 1 where t8 = phi #rangeindex
	if bo, ok := v.(*ssa.BinOp); ok && bo.Op == token.ADD {
		if ph, ok := bo.X.(*ssa.Phi); ok && strings.HasPrefix(ph.Comment, "rangeindex") {
			return true
		}
	}
	if ph, ok := v.(*ssa.Phi); ok && strings.HasPrefix(ph.Comment, "rangeindex") {
		return true
	}
	return false
}

// boundReceiver: for a bound-method closure value (x.M as func), the receiver x.
func boundReceiver(v ssa.Value) ssa.Value {
	if ct, ok := v.(*ssa.ChangeType); ok {
		v = ct.X
	}
	if mc, ok := v.(*ssa.MakeClosure); ok && len(mc.Bindings) == 1 {
		if fn, ok := mc.Fn.(*ssa.Function); ok && strings.HasPrefix(fn.Synthetic, "bound method wrapper") {
			return mc.Bindings[0]
		}
	}
	return nil
}

// originCallPlain: like originCall but inside the current function only.
func originCallPlain(c *Ctx, v ssa.Value, name ...string) *ssa.Call {
	for _, o := range c.P.Origins(v, eng.Plain) {
		if cc, _, ok := eng.AsResult(o); ok {
			n := eng.CalleeName(&cc.Call)
			for _, want := range name {
				if n == want {
					return cc
				}
			}
		}
	}
	return nil
}

func originCall(c *Ctx, v ssa.Value, name ...string) *ssa.Call {
	// through helpers that only forward the constructor's results (newShadowsocksService(ciphers) (Service, error))
	oo := eng.Deep
	oo.Stop = func(x ssa.Value) bool {
		cc, _, ok := eng.AsResult(x)
		if !ok {
			return false
		}
		n := eng.CalleeName(&cc.Call)
		for _, want := range name {
			if n == want {
				return true
			}
		}
		return false
	}
	for _, o := range c.P.Origins(v, oo) {
		if cc, _, ok := eng.AsResult(o); ok {
			n := eng.CalleeName(&cc.Call)
			for _, want := range name {
				if n == want {
					return cc
				}
			}
		}
	}
	return nil
}

func srcNames(c *Ctx, m map[ssa.Value]bool) string {
	var out []string
	for v := range m {
		pos := ""
		if ins, ok := v.(ssa.Instruction); ok {
			pos = c.P.IPos(ins)
		} else {
			pos = c.P.Pos(v.Pos())
		}
		out = append(out, valStr(c.P, v)+"@"+pos)
	}
	sort.Strings(out)
	return strings.Join(out, ", ")
}

func intersects(a, b map[ssa.Value]bool) bool {
	for k := range a {
		if b[k] {
			return true
		}
	}
	return false
}

// bindState is one calling context of a serving goroutine: the values of interest expressed in terms of frame, lifted
// through helper parameters towards the start code until the service, the listener and the key list are all created in view.
type bindState struct {
	frame             *ssa.Function
	svc, ln, list     ssa.Value       // still to be resolved (nil once resolved)
	addr, keyInput    ssa.Value       // resolved operands, in frame terms where they were bare parameters
	svcCall, lnCall   *ssa.Call       // NewShadowsocksService / Listen* calls
	mk                *ssa.Call       // key-list creation
	svcAt, lnAt, goAt ssa.Instruction // where, in frame, each of these happens (the instruction itself or the call leading to it)
	mkAt              ssa.Instruction
	g                 *ssa.Go
	lnLoops, mkLoops  []loopRef // loops (of any frame passed through) around the listening / the key-list creation
	stale             string    // a value that may come from an earlier loop iteration
}

// bareParam: v is (a conversion of) a parameter of f; returns its index.
func bareParam(c *Ctx, f *ssa.Function, v ssa.Value) int {
	os := c.P.Origins(v, eng.Plain)
	if len(os) != 1 {
		return -1
	}
	pr, ok := os[0].(*ssa.Parameter)
	if !ok || pr.Parent() != f {
		return -1
	}
	for i, q := range f.Params {
		if q == pr {
			return i
		}
	}
	return -1
}

// withCiphersArg: the key list handed to a NewShadowsocksService call through WithCiphers.
func withCiphersArg(c *Ctx, svcCall *ssa.Call) *ssa.Call {
	opts, _ := siteOptions(c, &svcCall.Call)
	if l := opts["service.WithCiphers"]; len(l) > 0 {
		return l[len(l)-1]
	}
	return nil
}

// carriedAcrossIterations: some def-use path from v back to the call def goes around a loop that contains def — through a
// header phi of that loop, or through a variable that lives outside the loop and is not definitely (re)assigned before the
// use — so v may hold the result of an EARLIER iteration's def.
func carriedAcrossIterations(c *Ctx, v ssa.Value, def *ssa.Call) bool {
	fn := def.Parent()
	var around []*eng.Loop
	for _, l := range eng.Loops(fn) {
		if l.Body[def.Block()] {
			around = append(around, l)
		}
	}
	if len(around) == 0 {
		return false
	}
	type key struct {
		v ssa.Value
		x bool
	}
	seen := map[key]bool{}
	carried := false
	var walk func(v ssa.Value, crossed bool, d int)
	walk = func(v ssa.Value, crossed bool, d int) {
		if v == nil || seen[key{v, crossed}] || d > 60 || carried {
			return
		}
		seen[key{v, crossed}] = true
		if cc, _, ok := eng.AsResult(v); ok && cc == def {
			if crossed {
				carried = true
			}
			return
		}
		switch x := v.(type) {
		case *ssa.Phi:
			hdr := false
			for _, l := range around {
				if x.Block() == l.Header && x.Parent() == fn {
					hdr = true
				}
			}
			for _, e := range x.Edges {
				walk(e, crossed || hdr, d+1)
			}
		case *ssa.Extract:
			walk(x.Tuple, crossed, d+1)
		case *ssa.UnOp:
			if x.Op != token.MUL {
				walk(x.X, crossed, d+1)
				return
			}
			cell := eng.CellRoot(x.X)
			if cell == nil {
				walk(x.X, crossed, d+1)
				return
			}
			if rv := c.P.ReachingStore(x, x); rv != nil {
				walk(rv, crossed, d+1)
				return
			}
			outside := cell.Parent() != fn
			for _, l := range around {
				if cell.Parent() == fn && !l.Body[cell.Block()] {
					outside = true
				}
			}
			for _, st := range c.P.CellStores(cell) {
				walk(st.Val, crossed || outside, d+1)
			}
		case *ssa.ChangeType:
			walk(x.X, crossed, d+1)
		case *ssa.ChangeInterface:
			walk(x.X, crossed, d+1)
		case *ssa.MakeInterface:
			walk(x.X, crossed, d+1)
		case *ssa.TypeAssert:
			walk(x.X, crossed, d+1)
		case *ssa.MakeClosure:
			for _, b := range x.Bindings {
				walk(b, crossed, d+1)
			}
		}
	}
	walk(v, false, 0)
	return carried
}

// loopRef is a loop of some frame that encloses the listening / the key-list creation of one serving context.
type loopRef struct {
	fn *ssa.Function
	l  *eng.Loop
}

func enclosing(at ssa.Instruction) []loopRef {
	var out []loopRef
	for _, l := range eng.Loops(at.Parent()) {
		if l.Body[at.Block()] {
			out = append(out, loopRef{at.Parent(), l})
		}
	}
	return out
}

// variesWith: some range source of the set belongs to the loop (its element changes with every iteration of it).
func variesWith(src map[ssa.Value]bool, lr loopRef) bool {
	for v := range src {
		ins, ok := v.(ssa.Instruction)
		if !ok || ins.Parent() != lr.fn {
			continue
		}
		if lr.l.Body[ins.Block()] {
			return true
		}
	}
	return false
}

// C09.BIND and NOSHARE
func ruleBind(c *Ctx, a *reloadAnchors) {
	p := c.P
	s := a.startFn
	sreg := c.NewRegion(s, 4, func(h *ssa.Function) bool {
		return eng.PkgPathOf(h) != eng.Mod+"/"+mainPkg || (h.Signature.Recv() != nil && eng.TypeName(h.Signature.Recv().Type()) == a.lsType)
	})
	inReg := sreg.In
	a.startRegion = sreg.In
	lsT := "(*" + a.lsType + ")."
	nCtx := 0
	listenUses := map[*ssa.Call]map[*ssa.Go]bool{}
	var finish func(st bindState)
	var step func(st bindState, depth int)
	step = func(st bindState, depth int) {
		f := st.frame
		// resolve what can be resolved in this frame
		if st.ln != nil {
			if lc := originCall(c, st.ln, lsT+"ListenStream", lsT+"ListenPacket"); lc != nil {
				if carriedAcrossIterations(c, st.ln, lc) {
					st.stale = "listener"
				}
				st.lnCall, st.addr, st.lnAt, st.ln = lc, lc.Call.Args[1], lc, nil
				st.lnLoops = append(st.lnLoops, enclosing(lc)...)
			}
		}
		if st.svc != nil {
			if sc := originCallPlain(c, st.svc, "service.NewShadowsocksService"); sc != nil {
				if carriedAcrossIterations(c, st.svc, sc) {
					st.stale = "service"
				}
				st.svcCall, st.svcAt, st.svc = sc, sc, nil
				if wc := withCiphersArg(c, sc); wc != nil {
					st.list = wc.Call.Args[0]
					// options built by a list helper (settings.options(ciphers)): the key list is the argument of the call to
					// that helper which feeds THIS construction
					if os := p.Origins(st.list, eng.Plain); len(os) == 1 {
						if pa, isP := os[0].(*ssa.Parameter); isP && pa.Parent() != nil && pa.Parent() != f {
							k := -1
							for i, q := range pa.Parent().Params {
								if q == pa {
									k = i
								}
							}
							if n := len(sc.Call.Args); n > 0 && k >= 0 {
								for _, o := range p.Origins(sc.Call.Args[n-1], eng.Plain) {
									if cc, _, ok := eng.AsResult(o); ok && cc.Call.StaticCallee() == pa.Parent() && k < len(cc.Call.Args) {
										st.list = cc.Call.Args[k]
									}
								}
							}
						}
					}
				} else {
					c.CheckAt("BIND", fmt.Sprintf("%s:serve#%d:service-gets-a-key-list", short(s), nCtx+1), sc, false, "the service is created without WithCiphers")
					nCtx++
					return
				}
			} else {
				// a helper of the start code that returns the service it creates
				for _, o := range p.Origins(st.svc, eng.Plain) {
					hc, _, ok := eng.AsResult(o)
					if !ok {
						continue
					}
					h := hc.Call.StaticCallee()
					if h == nil || !inReg[h] {
						continue
					}
					var inner *ssa.Call
					for _, r := range eng.Returns(h) {
						if len(r.Results) > 0 {
							if sc := originCall(c, r.Results[0], "service.NewShadowsocksService"); sc != nil {
								inner = sc
							}
						}
					}
					if inner == nil {
						continue
					}
					wc := withCiphersArg(c, inner)
					if wc == nil {
						continue
					}
					if carriedAcrossIterations(c, st.svc, hc) {
						st.stale = "service"
					}
					st.svcCall, st.svcAt, st.svc = inner, hc, nil
					// the key list may pass through nested helpers (newShadowsocksService(ciphers) → serviceOptions(ciphers)):
					// lift it through single call sites until it is a parameter of the helper called from the start code
					lv := wc.Call.Args[0]
					for d := 0; d < 3 && bareParam(c, h, lv) < 0; d++ {
						os := p.Origins(lv, eng.Plain)
						if len(os) != 1 {
							break
						}
						pa, isP := os[0].(*ssa.Parameter)
						if !isP || pa.Parent() == nil {
							break
						}
						sites := p.CallSitesOf(pa.Parent())
						k := -1
						for i, q := range pa.Parent().Params {
							if q == pa {
								k = i
							}
						}
						if len(sites) != 1 || k < 0 {
							break
						}
						args := sites[0].Ins.(ssa.CallInstruction).Common().Args
						if k >= len(args) {
							break
						}
						lv = args[k]
					}
					if i := bareParam(c, h, lv); i >= 0 && i < len(hc.Call.Args) {
						st.list = hc.Call.Args[i]
					} else {
						st.list = wc.Call.Args[0]
					}
				}
			}
		}
		if st.svc == nil && st.list != nil {
			ctorNames := []string{"service.NewCipherList"}
			for nm := range mainM(c).listCtors {
				ctorNames = append(ctorNames, nm)
			}
			if mk := originCall(c, st.list, ctorNames...); mk != nil {
				if carriedAcrossIterations(c, st.list, mk) {
					st.stale = "key list"
				}
				st.mk, st.mkAt, st.list = mk, mk, nil
				st.mkLoops = append(st.mkLoops, enclosing(mk)...)
				if mainM(c).listCtors[eng.CalleeName(&mk.Call)] && len(mk.Call.Args) > 0 {
					st.keyInput = mk.Call.Args[0]
				} else {
					for _, r := range *mk.Referrers() {
						if uc, ok := r.(*ssa.Call); ok && uc.Call.IsInvoke() && uc.Call.Method.Name() == "Update" {
							st.keyInput = uc.Call.Args[0]
						}
					}
				}
			}
		}
		if st.ln == nil && st.svc == nil && st.list == nil {
			finish(st)
			return
		}
		// lift through the parameters of this frame
		key := fmt.Sprintf("%s:serve#%d", short(s), nCtx+1)
		pend := map[string]ssa.Value{"listener": st.ln, "service": st.svc, "key list": st.list}
		idx := map[string]int{}
		for what, v := range pend {
			if v == nil {
				continue
			}
			i := bareParam(c, f, v)
			if i < 0 || depth >= 4 || f == s {
				nCtx++
				c.CheckAt("BIND", key+":service-and-listener-created-here", st.g, false, "the "+what+" served by this goroutine is not created by NewShadowsocksService / the listener set / NewCipherList in the start code")
				return
			}
			idx[what] = i
		}
		var sites []ssa.CallInstruction
		for _, cs := range p.CallSitesOf(f) {
			ci := cs.Ins.(ssa.CallInstruction)
			if inReg[cs.Fn] && ci.Common().StaticCallee() == f {
				sites = append(sites, ci)
			}
		}
		if len(sites) == 0 {
			nCtx++
			c.Undecided("BIND", key+":callers", p.IPos(st.g), "the helper "+short(f)+" that serves a listener has no static call site in the start code")
			return
		}
		for _, ci := range sites {
			n := st
			n.frame = ci.Parent()
			args := ci.Common().Args
			sub := func(v ssa.Value) ssa.Value {
				if v == nil {
					return nil
				}
				if i := bareParam(c, f, v); i >= 0 && i < len(args) {
					return args[i]
				}
				return v
			}
			n.ln, n.svc, n.list, n.addr, n.keyInput = sub(st.ln), sub(st.svc), sub(st.list), sub(st.addr), sub(st.keyInput)
			if st.svcAt != nil {
				n.svcAt = ci
			}
			if st.lnAt != nil {
				n.lnAt = ci
			}
			if st.mkAt != nil {
				n.mkAt = ci
				n.mkLoops = append(append([]loopRef{}, st.mkLoops...), enclosing(ci)...)
			}
			if st.lnAt != nil {
				n.lnLoops = append(append([]loopRef{}, st.lnLoops...), enclosing(ci)...)
			}
			n.goAt = ci
			step(n, depth+1)
		}
	}
	finish = func(st bindState) {
		nCtx++
		key := fmt.Sprintf("%s:serve#%d", short(s), nCtx)
		g := st.g
		if listenUses[st.lnCall] == nil {
			listenUses[st.lnCall] = map[*ssa.Go]bool{}
		}
		listenUses[st.lnCall][g] = true
		// stream accept goes with stream handle, packets with packets
		if eng.CalleeName(&g.Call) == "service.StreamServe" {
			c.CheckAt("BIND", key+":stream-listener-for-stream-serving", g, strings.HasSuffix(eng.CalleeName(&st.lnCall.Call), "ListenStream"), "StreamServe is fed by something other than a stream listener")
		}
		// same iteration / activation: in the frame where service, listener and go come together, when the service is created inside
		// a loop the listener and the go are inside the same loop (a helper called once per entry is one activation per entry; the
		// provenance check below covers what flows into it)
		loops := eng.Loops(st.frame)
		ls := eng.InnermostLoop(loops, st.svcAt.Block())
		okIter := ls == nil || (ls.Body[st.lnAt.Block()] && ls.Body[st.goAt.Block()])
		c.CheckAt("BIND", key+":same-iteration", g, okIter, "the service and the listener served together are not created in the same iteration of the configuration loop (e.g. the service is created once outside the loop): keys of one entry would authenticate on another entry's listeners")
		lm := eng.InnermostLoop(loops, st.mkAt.Block())
		c.CheckAt("NOSHARE", key+":key-list-created-per-iteration", st.mk, lm == ls, "the key list is not created in the same loop iteration as the service that uses it: several services would share one list")
		c.CheckAt("BIND", key+":created-in-this-iteration", g, st.stale == "", "the "+st.stale+" served here may be the one created in an earlier iteration of the configuration loop (it is carried in a variable that outlives the iteration): keys of one entry would serve another entry's listeners")
		if st.keyInput == nil {
			c.CheckAt("BIND", key+":key-list-filled", st.mk, false, "the key list given to the service is never filled")
			return
		}
		ks := rangeSources(c, st.keyInput, a)
		as := rangeSources(c, st.addr, a)
		okA, okK := true, true
		for _, lr := range st.lnLoops {
			if !variesWith(as, lr) {
				okA = false
			}
		}
		for _, lr := range st.mkLoops {
			if !variesWith(ks, lr) {
				okK = false
			}
		}
		c.CheckAt("BIND", key+":address-of-this-listener-entry", st.lnCall, okA, "the address listened on does not change with every loop around the listening (e.g. always the first listener of the service): some configured listener is never bound to its keys")
		c.CheckAt("BIND", key+":keys-of-this-service-entry", st.mk, okK, "the keys of the service do not change with every loop around its creation (e.g. always the first service's keys)")
		c.CheckAt("BIND", key+":keys-and-address-from-the-same-entry", g, len(ks) > 0 && len(as) > 0 && intersects(ks, as),
			fmt.Sprintf("keys from %s; address from %s||the keys given to the service (%d range sources) and the address it listens on (%d range sources) do not derive from the same configuration entry of the same loop iteration", srcNames(c, ks), srcNames(c, as), len(ks), len(as)))
	}
	for _, cl := range sreg.Calls() {
		g, ok := cl.(*ssa.Go)
		if !ok {
			continue
		}
		key := fmt.Sprintf("%s:serve#%d", short(s), nCtx+1)
		var svcVal, lnVal ssa.Value
		switch {
		case eng.CalleeName(&g.Call) == "service.StreamServe":
			lnVal = boundReceiver(g.Call.Args[0])
			svcVal = boundReceiver(g.Call.Args[1])
		case g.Call.IsInvoke() && g.Call.Method.Name() == "HandlePacket":
			svcVal = g.Call.Value
			lnVal = g.Call.Args[0]
		default:
			nCtx++
			c.CheckAt("BIND", key+":recognised-serving-call", g, false, "a goroutine is started in the configuration start code that is neither StreamServe(listener.AcceptStream, service.HandleStream) nor service.HandlePacket(conn)")
			continue
		}
		if svcVal == nil || lnVal == nil {
			nCtx++
			c.Undecided("BIND", key+":operands", p.IPos(g), "cannot identify the listener and service operands of the serving goroutine")
			continue
		}
		step(bindState{frame: g.Parent(), svc: svcVal, ln: lnVal, goAt: g, g: g}, 0)
	}
	c.Floor("BIND", "serving contexts in the start code", nCtx, 4)
	for lc, gs := range listenUses {
		c.CheckAt("BIND", short(s)+":listener-served-once", lc, len(gs) == 1, fmt.Sprintf("one listener is served by %d goroutines", len(gs)))
	}
	// NOSHARE: every key-list creation result reaches exactly one WithCiphers
	for _, cl := range sreg.Calls() {
		call, ok := cl.(*ssa.Call)
		if !ok {
			continue
		}
		n := eng.CalleeName(&call.Call)
		if n != "service.NewCipherList" && !mainM(c).listCtors[n] {
			continue
		}
		// creation sites are the outermost ones: a NewCipherList inside a list constructor is that constructor's business
		if mainM(c).listCtors[eng.CalleeNameOf(eng.Root(call.Parent()))] {
			continue
		}
		isCtorCall := func(v ssa.Value) bool {
			cc, _, ok := eng.AsResult(v)
			if !ok {
				return false
			}
			nm := eng.CalleeName(&cc.Call)
			return (nm == "service.NewCipherList" || mainM(c).listCtors[nm]) && !mainM(c).listCtors[eng.CalleeNameOf(eng.Root(cc.Parent()))]
		}
		oo := deepF
		oo.Stop = isCtorCall
		uses := 0
		for _, c2 := range sreg.Calls() {
			if wc, ok := c2.(*ssa.Call); ok && eng.CalleeName(&wc.Call) == "service.WithCiphers" {
				if p.AnyFrom(wc.Call.Args[0], oo, func(v ssa.Value) bool { cc, _, ok := eng.AsResult(v); return ok && cc == call }) {
					uses++
				}
			}
		}
		c.CheckAt("NOSHARE", short(s)+":"+n+":one-service-per-key-list", call, uses == 1, fmt.Sprintf("a key list reaches %d WithCiphers calls (must be exactly one)", uses))
	}
	// legacy map: each key is filed under the port of the same key element, and its entry is built from that element
	sreg.Instrs(func(_ *ssa.Function, ins ssa.Instruction) {
		mu, ok := ins.(*ssa.MapUpdate)
		if !ok || !strings.Contains(mu.Map.Type().String(), "container/list.List") {
			return
		}
		ksrc := rangeSources(c, mu.Key, nil)
		c.CheckAt("BIND", short(s)+":legacy-list-filed-under-its-own-port", mu, len(ksrc) > 0, "the legacy per-port list is not filed under the port of the key being processed")
	})
	// configuration order is kept: lists built in the start code are appended to (first configured ID wins for duplicates)
	for _, cl := range sreg.Calls() {
		if call, ok := cl.(*ssa.Call); ok {
			switch eng.CalleeName(&call.Call) {
			case "(*container/list.List).PushFront", "(*container/list.List).InsertBefore", "(*container/list.List).PushFrontList":
				c.CheckAt("BIND", short(call.Parent())+":keys-kept-in-configuration-order", call, false, "keys are prepended to the list: the list order is the reverse of the configuration order, so a duplicated (cipher, secret) is attributed to the last configured ID instead of the first")
			}
		}
	}
	dedupFn := mainM(c).newList
	for _, cl := range sreg.Calls() {
		call, ok := cl.(*ssa.Call)
		if !ok || eng.CalleeName(&call.Call) != "(*container/list.List).PushBack" || call.Parent() == dedupFn {
			continue
		}
		// the list pushed to was looked up with the port of the same element the entry is built from
		ls := rangeSources(c, call.Call.Args[0], nil)
		es := rangeSources(c, call.Call.Args[1], nil)
		c.CheckAt("BIND", short(s)+":legacy-key-pushed-to-its-own-port-list", call, len(ls) > 0 && intersects(ls, es), "a legacy key is appended to a list that was not selected by the port of that same key")
	}
}

// C09.DEDUP
func ruleDedup(c *Ctx, a *reloadAnchors) {
	p := c.P
	f := mainM(c).newList
	if f == nil {
		c.Undecided("DEDUP", "anchor:newCipherListFromConfig", "-", "per-service key-list builder not found")
		return
	}
	key := short(f)
	// the builder's region: the function and the small helpers of the command it calls (newCipherEntry(keyConfig), a set
	// type with has/add methods …)
	regFns := regionFns(c, f, nil, 2)
	inReg := map[*ssa.Function]bool{}
	for _, g := range regFns {
		inReg[g] = true
	}
	var push, mkEntry, newKey *ssa.Call
	for _, g := range regFns {
		for _, cl := range eng.Calls(g) {
			if call, ok := cl.(*ssa.Call); ok {
				switch eng.CalleeName(&call.Call) {
				case "(*container/list.List).PushBack":
					if g == f {
						push = call
					}
				case "service.MakeCipherEntry":
					mkEntry = call
				case "sdk/shadowsocks.NewEncryptionKey":
					newKey = call
				case "(*container/list.List).Remove", "(*container/list.List).PushFront", "(*container/list.List).MoveToBack", "(*container/list.List).MoveToFront", "(*container/list.List).InsertBefore":
					c.CheckAt("DEDUP", key+":append-only", call, false, "the key list is reordered or pruned while it is built: the first ID of a duplicated (cipher, secret) would not be the one kept")
				}
			}
		}
	}
	if push == nil || mkEntry == nil || newKey == nil {
		c.Undecided("DEDUP", key+":anchors", p.Pos(f.Pos()), "the builder lost its PushBack / MakeCipherEntry / NewEncryptionKey calls")
		return
	}
	// the seen-set: a map created by this call; the lookup that guards the push may sit in a helper that is handed the set
	isSeenSet := func(v ssa.Value) bool {
		g, _ := p.AllFrom(v, deepF, func(x ssa.Value) bool { mm, ok := x.(*ssa.MakeMap); return ok && mm.Parent() == f })
		return g
	}
	var lk *ssa.Lookup
	var anyLk *ssa.Lookup
	for _, g := range regFns {
		for _, b := range g.Blocks {
			for _, ins := range b.Instrs {
				if l, ok := ins.(*ssa.Lookup); ok && l.CommaOk {
					anyLk = l
					if isSeenSet(l.X) {
						lk = l
					}
				}
			}
		}
	}
	if lk == nil {
		if anyLk != nil {
			c.CheckAt("DEDUP", key+":seen-set-is-per-call", anyLk, false, "the set of seen (cipher, secret) pairs is not created by this call (e.g. shared across services): a key that also appears in another service is silently dropped from this one")
			return
		}
		c.CheckAt("DEDUP", key+":duplicate-test", push, false, "keys are pushed without testing whether (cipher, secret) was already seen")
		return
	}
	c.CheckAt("DEDUP", key+":seen-set-is-per-call", lk, true, "")
	// the value in f that says "already seen": the lookup's ok, or the result of the helper that returns it unchanged
	var hit ssa.Value
	if lk.Parent() == f {
		for _, r := range *lk.Referrers() {
			if ex, ok := r.(*ssa.Extract); ok && ex.Index == 1 {
				hit = ex
			}
		}
	} else {
		h := lk.Parent()
		faithful := h.Signature.Results().Len() == 1
		for _, r := range eng.Returns(h) {
			if len(r.Results) != 1 {
				faithful = false
				continue
			}
			ex, isEx := p.Resolve(retVal(p, r)).(*ssa.Extract)
			if !isEx || ex.Index != 1 || ex.Tuple != ssa.Value(lk) {
				faithful = false
			}
		}
		if faithful {
			for _, cl := range eng.Calls(f) {
				if call, ok := cl.(*ssa.Call); ok && call.Call.StaticCallee() == h {
					hit = call
				}
			}
		}
	}
	if hit == nil {
		c.CheckAt("DEDUP", key+":duplicate-test", push, false, "the result of the duplicate test does not reach the builder")
		return
	}
	// miss edge cuts the push
	_, miss := eng.BoolEdges(f, func(v ssa.Value) bool { return v == hit })
	c.CheckAt("DEDUP", key+":push-only-when-unseen", push, len(miss) > 0 && eng.Cut(f, push.Block(), miss), "a key is pushed although its (cipher, secret) is already in the list: one secret would authenticate under two IDs, or the later ID would win")
	// every unseen key is pushed (unless its cipher is invalid → error return)
	for _, e := range sortedEdges(miss) {
		ok, bad := eng.MustPassBefore(edgePoint(e), func(ins ssa.Instruction) bool { return ins == ssa.Instruction(push) }, func(ins ssa.Instruction) bool {
			if r, isR := ins.(*ssa.Return); isR {
				return eng.IsZeroValue(r.Results[len(r.Results)-1])
			}
			// reaching the loop header again without pushing
			if ph, isP := ins.(*ssa.Phi); isP && strings.HasPrefix(ph.Comment, "rangeindex") {
				return true
			}
			return false
		})
		c.Check("DEDUP", key+":every-unseen-key-is-pushed", blockPos(p, e.To), ok, fmt.Sprintf("an unseen key can be skipped without an error (%s): a configured key would not authenticate", p.IPos(bad)))
	}
	// record after push, under the same pair of the same key element
	var upd *ssa.MapUpdate
	for _, g := range regFns {
		for _, b := range g.Blocks {
			for _, ins := range b.Instrs {
				if mu, ok := ins.(*ssa.MapUpdate); ok && isSeenSet(mu.Map) {
					upd = mu
				}
			}
		}
	}
	var updSite ssa.Instruction
	if upd != nil {
		if upd.Parent() == f {
			updSite = upd
		} else {
			for _, cl := range eng.Calls(f) {
				if call, ok := cl.(*ssa.Call); ok && call.Call.StaticCallee() == upd.Parent() {
					updSite = call
				}
			}
		}
	}
	// the key value is (Cipher, Secret) of the same key element the entry is built from
	elemFields := func(v ssa.Value) map[string]bool {
		out := map[string]bool{}
		seen := map[ssa.Value]bool{}
		var walk func(v ssa.Value, d int)
		walk = func(v ssa.Value, d int) {
			if v == nil || seen[v] || d > 40 {
				return
			}
			seen[v] = true
			switch x := v.(type) {
			case *ssa.UnOp:
				if x.Op == token.MUL {
					if fa, ok := x.X.(*ssa.FieldAddr); ok {
						if t, fl, _, ok := eng.FieldOf(fa); ok && strings.HasSuffix(t, "KeyConfig") {
							out[fl] = true
							return
						}
					}
					if cell := eng.CellRoot(x.X); cell != nil {
						for _, st := range p.CellStores(cell) {
							walk(st.Val, d+1)
						}
						for _, r := range *cell.Referrers() {
							if fa, ok := r.(*ssa.FieldAddr); ok {
								for _, rr := range *fa.Referrers() {
									if st, ok := rr.(*ssa.Store); ok && st.Addr == ssa.Value(fa) {
										walk(st.Val, d+1)
									}
								}
							}
						}
						return
					}
				}
			case *ssa.Field:
				if t, fl, _, ok := eng.FieldOf(x); ok && strings.HasSuffix(t, "KeyConfig") {
					out[fl] = true
					return
				}
				walk(x.X, d+1)
			case *ssa.Phi:
				for _, e := range x.Edges {
					walk(e, d+1)
				}
			case *ssa.ChangeType:
				walk(x.X, d+1)
			case *ssa.Convert:
				walk(x.X, d+1)
			}
		}
		walk(v, 0)
		return out
	}
	kf := elemFields(lk.Index)
	c.CheckAt("DEDUP", key+":duplicates-are-(cipher,secret)", lk, len(kf) == 2 && kf["Cipher"] && kf["Secret"], fmt.Sprintf("duplicates are detected on %v instead of exactly (Cipher, Secret)", kf))
	sameKey := false
	if upd != nil {
		uf := elemFields(upd.Key)
		sameKey = sameLoad(p.Resolve(upd.Key), p.Resolve(lk.Index)) || (len(uf) == 2 && uf["Cipher"] && uf["Secret"] && intersects(rangeSources(c, upd.Key, nil), rangeSources(c, lk.Index, nil)))
	}
	c.CheckAt("DEDUP", key+":pair-recorded-after-push", push, updSite != nil && eng.Dominates(push, updSite) && sameKey, "the (cipher, secret) pair is not recorded in the seen-set after the push with the same key value that was looked up")
	// entry built from ID / key(Cipher, Secret) / Secret of the same element
	okID := elemFields(mkEntry.Call.Args[0])["ID"]
	okSec := elemFields(mkEntry.Call.Args[2])["Secret"]
	okKey, _ := p.AllFrom(mkEntry.Call.Args[1], deepF, func(v ssa.Value) bool { return eng.ResultOf(v, newKey, 0) })
	nk0, nk1 := elemFields(newKey.Call.Args[0]), elemFields(newKey.Call.Args[1])
	c.CheckAt("DEDUP", key+":entry-built-from-this-key", mkEntry, okID && okSec && okKey && nk0["Cipher"] && nk1["Secret"], "the entry pushed is not MakeCipherEntry(key.ID, NewEncryptionKey(key.Cipher, key.Secret), key.Secret) of the key being processed")
	same := intersects(rangeSources(c, lk.Index, nil), rangeSources(c, mkEntry.Call.Args[0], nil))
	c.CheckAt("DEDUP", key+":test-and-entry-use-the-same-key-element", mkEntry, same, "the duplicate test and the entry use different key elements")
	okPush, _ := p.AllFrom(push.Call.Args[1], deepF, func(v ssa.Value) bool {
		al, ok := v.(*ssa.Alloc)
		if !ok {
			return false
		}
		for _, st := range p.CellStores(al) {
			if st.Val == ssa.Value(mkEntry) {
				return true
			}
		}
		return false
	})
	c.CheckAt("DEDUP", key+":pushes-the-entry-just-built", push, okPush, "what is pushed is not the entry built for this key")
	// the loop is a forward range over config.Keys, and the list returned is the one pushed to
	l := eng.InnermostLoop(eng.Loops(f), push.Block())
	isRange := false
	if l != nil {
		for _, ins := range l.Header.Instrs {
			if ph, ok := ins.(*ssa.Phi); ok && strings.HasPrefix(ph.Comment, "rangeindex") {
				isRange = true
			}
		}
	}
	c.CheckAt("DEDUP", key+":forward-range-over-keys", push, isRange, "the builder does not range forward over the configured keys (first occurrence would not win)")
	for _, r := range eng.Returns(f) {
		if !eng.IsZeroValue(r.Results[1]) {
			continue
		}
		// returned CipherList was Update()d with the list pushed to
		okU := false
		for _, g := range regFns {
			for _, cl := range eng.Calls(g) {
				uc, ok := cl.(*ssa.Call)
				if !ok || !uc.Call.IsInvoke() || uc.Call.Method.Name() != "Update" {
					continue
				}
				if g == f {
					if sameOrigin(c, uc.Call.Value, r.Results[0]) && sameOrigin(c, uc.Call.Args[0], push.Call.Args[0]) {
						okU = true
					}
					continue
				}
				// in a list constructor called here (newCipherListFromEntries(entries)): what is returned is that call's
				// result, the list updated is the one created there, and the entries handed in are the list pushed to
				for _, cl2 := range eng.Calls(f) {
					hc, isC := cl2.(*ssa.Call)
					if !isC || hc.Call.StaticCallee() != g {
						continue
					}
					retFromCall := p.AnyFrom(r.Results[0], eng.Plain, func(v ssa.Value) bool { return v == ssa.Value(hc) })
					recvFresh, _ := p.AllFrom(uc.Call.Value, eng.Plain, func(v ssa.Value) bool {
						cc, _, ok := eng.AsResult(v)
						return ok && eng.CalleeName(&cc.Call) == "service.NewCipherList" && cc.Parent() == g
					})
					argIsParam := -1
					for i, pa := range g.Params {
						if p.AnyFrom(uc.Call.Args[0], eng.Plain, func(v ssa.Value) bool { return v == ssa.Value(pa) }) {
							argIsParam = i
						}
					}
					if retFromCall && recvFresh && argIsParam >= 0 && argIsParam < len(hc.Call.Args) && sameOrigin(c, hc.Call.Args[argIsParam], push.Call.Args[0]) {
						okU = true
					}
				}
			}
		}
		c.CheckAt("DEDUP", key+":returns-the-list-it-filled", r, okU, "the CipherList returned was not updated with the list the keys were pushed to")
	}
}

// sameLoad: identical values, or two loads of the same local cell (no CSE in go/ssa).
func sameLoad(a, b ssa.Value) bool {
	if a == b {
		return true
	}
	ua, ok1 := a.(*ssa.UnOp)
	ub, ok2 := b.(*ssa.UnOp)
	if ok1 && ok2 && ua.Op == token.MUL && ub.Op == token.MUL {
		if _, isAlloc := ua.X.(*ssa.Alloc); isAlloc && ua.X == ub.X {
			return true
		}
	}
	return false
}

// ruleRegister (C09/C10): the listener set's bookkeeping of close functions never overwrites an entry — every insertion is
// behind the "absent" edge of a lookup of the same map under the same key. An overwritten close function belongs to a
// listener that the next reload no longer closes: the old generation keeps serving its keys there.
func ruleRegister(c *Ctx, rule string) {
	p := c.P
	lsT := mainM(c).lsT
	var fields []string
	for _, fl := range p.StructFields(lsT) {
		if mt, ok := fl.Type().Underlying().(*types.Map); ok {
			if _, isFn := mt.Elem().Underlying().(*types.Signature); isFn {
				fields = append(fields, fl.Name())
			} else if hasMethod(mt.Elem(), "Close") {
				fields = append(fields, fl.Name()) // the handles themselves (io.Closer) instead of their Close functions
			}
		}
	}
	if !c.Floor(rule, "close-function maps of the listener set", len(fields), 1) {
		return
	}
	isField := func(v ssa.Value) bool {
		return p.AnyFrom(v, eng.OriginOpts{ThroughConvert: true}, func(x ssa.Value) bool {
			for _, f := range fields {
				if eng.IsFieldLoad(x, lsT, f) {
					return true
				}
			}
			return false
		})
	}
	// absentCut: block b of f is only reached over the not-present edge of a lookup of the map under key
	absentCut := func(f *ssa.Function, b *ssa.BasicBlock, key ssa.Value) bool {
		for _, bb := range f.Blocks {
			for _, ins := range bb.Instrs {
				lk, ok := ins.(*ssa.Lookup)
				if !ok || !lk.CommaOk || !isField(lk.X) || !p.SameValue(lk.Index, key) {
					continue
				}
				for _, r := range *lk.Referrers() {
					ex, isEx := r.(*ssa.Extract)
					if !isEx || ex.Index != 1 {
						continue
					}
					_, absent := eng.BoolEdges(f, func(v ssa.Value) bool { return v == ssa.Value(ex) })
					if len(absent) > 0 && eng.Cut(f, b, absent) {
						return true
					}
				}
			}
		}
		// ... or of a presence predicate (contains(key)) that returns the lookup's ok for its parameter
		for _, cl := range eng.Calls(f) {
			call, ok := cl.(*ssa.Call)
			if !ok {
				continue
			}
			h := call.Call.StaticCallee()
			if h == nil || !p.InRepo(h) || len(h.Blocks) == 0 || h.Signature.Results().Len() != 1 {
				continue
			}
			for _, bb := range h.Blocks {
				for _, ins := range bb.Instrs {
					lk, ok := ins.(*ssa.Lookup)
					if !ok || !lk.CommaOk || !isField(lk.X) {
						continue
					}
					pa, isP := p.Resolve(lk.Index).(*ssa.Parameter)
					if !isP {
						continue
					}
					idx := -1
					for i, q := range h.Params {
						if q == pa {
							idx = i
						}
					}
					if idx < 0 || idx >= len(call.Call.Args) || !p.SameValue(call.Call.Args[idx], key) {
						continue
					}
					faithful := true
					for _, r := range eng.Returns(h) {
						if len(r.Results) != 1 {
							faithful = false
							continue
						}
						ex, isEx := p.Resolve(retVal(p, r)).(*ssa.Extract)
						if !isEx || ex.Index != 1 || ex.Tuple != ssa.Value(lk) {
							faithful = false
						}
					}
					if !faithful {
						continue
					}
					_, absent := eng.BoolEdges(f, func(v ssa.Value) bool { return v == ssa.Value(call) })
					if len(absent) > 0 && eng.Cut(f, b, absent) {
						return true
					}
				}
			}
		}
		return false
	}
	// keySig: the key as a function of the parameters of g — a bare parameter ("", [i]), or K(p_i, p_j, …) for a repo function K
	keySig := func(g *ssa.Function, key ssa.Value) (string, []int, bool) {
		paramIdx := func(v ssa.Value) int {
			pa, isP := p.Resolve(v).(*ssa.Parameter)
			if !isP {
				return -1
			}
			for i, q := range g.Params {
				if q == pa {
					return i
				}
			}
			return -1
		}
		if i := paramIdx(key); i >= 0 {
			return "", []int{i}, true
		}
		kc, isCall := p.Resolve(key).(*ssa.Call)
		if !isCall || kc.Call.StaticCallee() == nil || !p.InRepo(kc.Call.StaticCallee()) {
			return "", nil, false
		}
		var idxs []int
		for _, a := range kc.Call.Args {
			i := paramIdx(a)
			if i < 0 {
				return "", nil, false
			}
			idxs = append(idxs, i)
		}
		return eng.CalleeName(&kc.Call), idxs, true
	}
	// absentCutSig: block b of F is only reached over the "absent" answer of a check helper that looks the map up under
	// K(args…) of its own parameters, called with exactly keyArgs
	absentCutSig := func(F *ssa.Function, b *ssa.BasicBlock, K string, keyArgs []ssa.Value) bool {
		for _, cl := range eng.Calls(F) {
			call, ok := cl.(*ssa.Call)
			if !ok {
				continue
			}
			h := call.Call.StaticCallee()
			if h == nil || !p.InRepo(h) || len(h.Blocks) == 0 || h.Signature.Results().Len() != 1 {
				continue
			}
			for _, bb := range h.Blocks {
				for _, ins := range bb.Instrs {
					lk, ok := ins.(*ssa.Lookup)
					if !ok || !lk.CommaOk || !isField(lk.X) {
						continue
					}
					k2, idx2, ok2 := keySig(h, lk.Index)
					if !ok2 || k2 != K || len(idx2) != len(keyArgs) {
						continue
					}
					same := true
					for k, i := range idx2 {
						if i >= len(call.Call.Args) || !p.SameValue(call.Call.Args[i], keyArgs[k]) {
							same = false
						}
					}
					if !same {
						continue
					}
					var okV ssa.Value
					for _, r := range *lk.Referrers() {
						if ex, isEx := r.(*ssa.Extract); isEx && ex.Index == 1 {
							okV = ex
						}
					}
					if okV == nil {
						continue
					}
					present, absentH := eng.BoolEdges(h, func(v ssa.Value) bool { return v == okV })
					isErr := errorResultIndex(h.Signature) == 0
					isBool := h.Signature.Results().At(0).Type().String() == "bool"
					faithful := len(present) > 0 && (isErr || isBool)
					for _, r := range eng.Returns(h) {
						rv := retVal(p, r)
						if isErr {
							// "no error" only when absent; an error when present
							if eng.Cut(h, r.Block(), present) && !p.DefinitelyNonNil(rv, r) {
								faithful = false
							}
							if !eng.Cut(h, r.Block(), present) && !eng.Cut(h, r.Block(), absentH) {
								faithful = false
							}
						} else if isBool {
							if ex, isEx := p.Resolve(rv).(*ssa.Extract); !isEx || ex != okV {
								faithful = false
							}
						}
					}
					if !faithful {
						continue
					}
					var absent eng.EdgeSet
					if isErr {
						absent, _ = p.NilEdges(F, func(v ssa.Value) bool { return v == ssa.Value(call) })
					} else {
						_, absent = eng.BoolEdges(F, func(v ssa.Value) bool { return v == ssa.Value(call) })
					}
					if len(absent) > 0 && eng.Cut(F, b, absent) {
						return true
					}
				}
			}
		}
		return false
	}
	n := 0
	for _, f := range p.Fns {
		if p.IsTestSupport(f) {
			continue
		}
		for _, b := range f.Blocks {
			for _, ins := range b.Instrs {
				mu, ok := ins.(*ssa.MapUpdate)
				if !ok || !isField(mu.Map) {
					continue
				}
				n++
				good := absentCut(f, b, mu.Key)
				if !good {
					// register(kind, addr, fn) / check(kind, addr): the key is the same function of the same arguments
					if K, idxs, okS := keySig(f, mu.Key); okS && K != "" {
						sites := p.CallSitesOf(f)
						good = len(sites) > 0
						for _, s := range sites {
							args := s.Ins.(ssa.CallInstruction).Common().Args
							var ka []ssa.Value
							for _, i := range idxs {
								if i < len(args) {
									ka = append(ka, args[i])
								}
							}
							if len(ka) != len(idxs) || !absentCutSig(s.Fn, s.Ins.Block(), K, ka) {
								good = false
							}
						}
						if good {
							n += len(sites) - 1 // one insertion per call site of the helper
						}
					}
				}
				if !good {
					// the test may sit in the callers of a small register(key, fn) helper
					if pa, isP := mu.Key.(*ssa.Parameter); isP {
						idx := -1
						for i, fp := range f.Params {
							if fp == pa {
								idx = i
							}
						}
						sites := p.CallSitesOf(f)
						good = idx >= 0 && len(sites) > 0
						for _, s := range sites {
							args := s.Ins.(ssa.CallInstruction).Common().Args
							if idx >= len(args) || !absentCut(s.Fn, s.Ins.Block(), args[idx]) {
								good = false
							}
						}
					}
				}
				c.CheckAt(rule, short(f)+":close-function-registered-under-a-key-tested-absent", mu, good, "a close function is stored in the listener set under a key that was not tested absent on this path (another key was tested, or none): two listeners can share a slot, the overwritten one is never closed on reload and its generation keeps serving")
			}
		}
	}
	c.Floor(rule, "insertions into the close-function map", n, 2)
}
