package rules

import (
	"fmt"
	"go/token"
	"go/types"
	"sort"
	"strings"

	"golang.org/x/tools/go/ssa"

	"verif/internal/eng"
)

// multiModel is the role-based model of one shared-listener type (a struct with an Acquire method).
type multiModel struct {
	T          string // "service.multiStreamListener"
	acquire    *ssa.Function
	sockField  string
	sockT      string // the struct type that declares sockField: T, or a struct embedded by value in T (socket + channels)
	sockEmbed  string // the field of T that holds that embedded struct ("" when sockT == T)
	countField string
	cbField    string // func-typed callback field (manager notification), may be ""
	createIf   *ssa.If
	createEdge eng.Edge // socket == nil edge
	skipEdge   eng.Edge // socket != nil edge
	goSites    []*ssa.Go
	pumps      []*ssa.Function
	release    []*ssa.Function // closures created in Acquire that decrement the count
	lockClass  string
	handleT    string          // type of the handle allocated in Acquire
	R          *Region         // Acquire and its helpers
	gCreate    *Guard          // socket == nil edge of Acquire
	createFn   *ssa.Function   // function holding the socket == nil test (Acquire or a helper)
	holders    map[string]bool // T and the struct types T's socket field points to (a "socket with its channels" bundle)
}

// closable: t has a Close method, or is a pointer to a struct one of whose fields has (a bundle holding the socket).
func closableOrBundle(t types.Type) (bool, string) {
	if hasMethod(t, "Close") {
		return true, ""
	}
	if pt, ok := t.Underlying().(*types.Pointer); ok {
		if st, ok := pt.Elem().Underlying().(*types.Struct); ok {
			for i := 0; i < st.NumFields(); i++ {
				if hasMethod(st.Field(i).Type(), "Close") {
					return true, eng.TypeName(pt.Elem())
				}
			}
		}
	}
	return false, ""
}

func fieldType(p *eng.Prog, typ, field string) types.Type {
	for _, f := range p.StructFields(typ) {
		if f.Name() == field {
			return f.Type()
		}
	}
	return nil
}

// findMultiListeners locates every struct type in package service with an Acquire method and derives the roles of
// its fields from how Acquire uses them.
func findMultiListeners(c *Ctx, rule string) []*multiModel {
	var out []*multiModel
	for _, f := range c.P.FnsIn("service") {
		if f.Name() != "Acquire" || f.Signature.Recv() == nil || f.Parent() != nil {
			continue
		}
		m := &multiModel{T: eng.TypeName(f.Signature.Recv().Type()), acquire: f}
		m.holders = map[string]bool{m.T: true}
		m.R = c.NewRegion(f, 2, func(h *ssa.Function) bool {
			if eng.PkgPathOf(h) != eng.Mod+"/service" {
				return true
			}
			// helpers are methods of T or plain functions of the package; not other types' methods
			if h.Signature.Recv() != nil && eng.TypeName(h.Signature.Recv().Type()) != m.T {
				return true
			}
			return false
		})
		// socket field: the first `if <load of field F of T> == nil` (or != nil) in Acquire or a helper whose field holds
		// something closable
		for _, g := range m.R.Fns {
			if m.sockField != "" {
				break
			}
			for _, b := range g.Blocks {
				iff, ok := b.Instrs[len(b.Instrs)-1].(*ssa.If)
				if !ok {
					continue
				}
				x, trueNonNil, ok := eng.NilCompare(iff.Cond)
				if !ok {
					continue
				}
				t, fl, _, ok := eng.FieldLoad(x)
				if !ok {
					continue
				}
				embed := ""
				if t != m.T {
					// a field of a struct that T holds by value (an embedded "socket with its channels" bundle)
					for _, tf := range c.P.StructFields(m.T) {
						if _, isStruct := tf.Type().Underlying().(*types.Struct); isStruct && eng.TypeName(tf.Type()) == t {
							embed = tf.Name()
						}
					}
					if embed == "" {
						continue
					}
				}
				ft := fieldType(c.P, t, fl)
				if ft == nil {
					continue
				}
				okC, bundle := closableOrBundle(ft)
				if !okC {
					continue
				}
				if bundle != "" {
					m.holders[bundle] = true
				}
				m.sockField, m.createIf, m.createFn = fl, iff, g
				m.sockT, m.sockEmbed = t, embed
				m.holders[t] = true
				m.createEdge, m.skipEdge = eng.Edge{From: b, To: b.Succs[0]}, eng.Edge{From: b, To: b.Succs[1]}
				if trueNonNil {
					m.createEdge, m.skipEdge = m.skipEdge, m.createEdge
				}
				break
			}
		}
		if m.sockField == "" {
			c.Undecided(rule, "anchor:"+m.T+":socket-field", c.P.Pos(f.Pos()), "Acquire (with its helpers) has no `socket == nil` test on a field of its receiver that holds something closable")
			continue
		}
		// count field: an integer field of T stored in Acquire with value load+const
		for _, fl := range c.P.StructFields(m.T) {
			if b, ok := fl.Type().Underlying().(*types.Basic); ok && b.Info()&types.IsInteger != 0 {
				for _, st := range c.P.FieldStores(m.T, fl.Name()) {
					if st.Val != nil {
						if d, ok := incrementOf(st.Val, m.T, fl.Name()); ok && d == 1 {
							m.countField = fl.Name()
						}
					}
				}
			}
			if _, ok := fl.Type().Underlying().(*types.Signature); ok {
				m.cbField = fl.Name()
			}
		}
		if m.countField == "" {
			c.Undecided(rule, "anchor:"+m.T+":count-field", c.P.Pos(f.Pos()), "Acquire increments no integer field of its receiver")
			continue
		}
		acq := m.createFn
		ce := m.createEdge
		m.gCreate = c.NewGuard(func(fn *ssa.Function) eng.EdgeSet {
			if fn == acq {
				return eng.EdgeSet{ce: true}
			}
			return eng.EdgeSet{}
		})
		for _, cl := range m.R.Calls() {
			if g, ok := cl.(*ssa.Go); ok {
				m.goSites = append(m.goSites, g)
				for _, t := range c.P.Callees(g) {
					if c.P.InRepo(t) {
						m.pumps = append(m.pumps, t)
					}
				}
			}
		}
		// release functions: closures of Acquire or methods of T that decrement the count
		seenRel := map[*ssa.Function]bool{}
		for _, st := range c.P.FieldStores(m.T, m.countField) {
			if st.Val == nil || seenRel[st.Fn] {
				continue
			}
			if d, ok := incrementOf(st.Val, m.T, m.countField); ok && d == -1 {
				seenRel[st.Fn] = true
				m.release = append(m.release, st.Fn)
			}
		}
		// lock class of T
		for _, fl := range c.P.StructFields(m.T) {
			if s := fl.Type().String(); s == "sync.Mutex" || s == "sync.RWMutex" {
				m.lockClass = m.T + "." + fl.Name()
			}
		}
		// handle type: the struct whose pointer Acquire returns (it has a chan struct{} close channel)
		for _, r := range eng.Returns(f) {
			if len(r.Results) == 0 || r.Block().Comment == "recover" {
				continue
			}
			rv0 := r.Results[0]
			if sv := c.P.ReachingStore(rv0, r); sv != nil {
				rv0 = sv
			}
			// (the handle may be built by a helper of Acquire: newHandleLocked())
			for _, o := range c.P.Origins(rv0, eng.OriginOpts{ThroughConvert: true, Interproc: true}) {
				al, ok := o.(*ssa.Alloc)
				if !ok {
					continue
				}
				tn := eng.TypeName(al.Type())
				if !strings.HasPrefix(tn, "service.") || tn == m.T {
					continue
				}
				for _, fl := range c.P.StructFields(tn) {
					if ch, ok := fl.Type().Underlying().(*types.Chan); ok {
						if st, ok := ch.Elem().Underlying().(*types.Struct); ok && st.NumFields() == 0 {
							m.handleT = tn
						}
					}
				}
			}
		}
		out = append(out, m)
	}
	sort.Slice(out, func(i, j int) bool { return out[i].T < out[j].T })
	return out
}

func hasMethod(t types.Type, name string) bool {
	ms := types.NewMethodSet(t)
	for i := 0; i < ms.Len(); i++ {
		if ms.At(i).Obj().Name() == name {
			return true
		}
	}
	if _, ok := t.(*types.Pointer); !ok {
		ms = types.NewMethodSet(types.NewPointer(t))
		for i := 0; i < ms.Len(); i++ {
			if ms.At(i).Obj().Name() == name {
				return true
			}
		}
	}
	return false
}

// incrementOf decodes v as (load of field typ.field) ± const, returning the signed delta.
func incrementOf(v ssa.Value, typ, field string) (int64, bool) {
	b, ok := v.(*ssa.BinOp)
	if !ok || (b.Op != token.ADD && b.Op != token.SUB) {
		return 0, false
	}
	if !eng.IsFieldLoad(b.X, typ, field) {
		return 0, false
	}
	n, ok := eng.ConstInt(b.Y)
	if !ok {
		return 0, false
	}
	if b.Op == token.SUB {
		n = -n
	}
	return n, true
}

// returnIsSuccess classifies a Return of a (T, error) function: the error result is the nil constant, directly or
// through the result cell's reaching store (functions with defers spill their results).
func returnKind(p *eng.Prog, r *ssa.Return) string {
	if len(r.Results) == 0 {
		return "void"
	}
	ev := r.Results[len(r.Results)-1]
	if eng.IsZeroValue(ev) {
		return "success"
	}
	if rv := p.ReachingStore(ev, r); rv != nil {
		if eng.IsZeroValue(rv) {
			return "success"
		}
		return "failure"
	}
	if _, ok := ev.(*ssa.Const); ok {
		return "failure"
	}
	return "unknown"
}

func isStoreToField(ins ssa.Instruction, typ, field string) (*ssa.Store, bool) {
	st, ok := ins.(*ssa.Store)
	if !ok {
		return nil, false
	}
	fa, ok := st.Addr.(*ssa.FieldAddr)
	if !ok {
		return nil, false
	}
	t, f, _, ok := eng.FieldOf(fa)
	return st, ok && t == typ && f == field
}

// zeroTestEdges finds `if <load typ.field> == 0` (or <= 0, < 1) tests in fn and returns the edges on which the field is zero.
func zeroTestEdges(fn *ssa.Function, typ, field string) (zero eng.EdgeSet, tests []*ssa.If) {
	zero = eng.EdgeSet{}
	for _, b := range fn.Blocks {
		iff, ok := b.Instrs[len(b.Instrs)-1].(*ssa.If)
		if !ok {
			continue
		}
		bo, ok := iff.Cond.(*ssa.BinOp)
		if !ok || !eng.IsFieldLoad(bo.X, typ, field) {
			continue
		}
		n, ok := eng.ConstInt(bo.Y)
		if !ok {
			continue
		}
		switch {
		case bo.Op == token.EQL && n == 0, bo.Op == token.LEQ && n == 0, bo.Op == token.LSS && n == 1:
			zero[eng.Edge{From: b, To: b.Succs[0]}] = true
			tests = append(tests, iff)
		case bo.Op == token.NEQ && n == 0, bo.Op == token.GTR && n == 0, bo.Op == token.GEQ && n == 1:
			zero[eng.Edge{From: b, To: b.Succs[1]}] = true
			tests = append(tests, iff)
		}
	}
	return
}

func isBuiltinCall(ins ssa.Instruction, name string) (*ssa.Call, bool) {
	c, ok := ins.(*ssa.Call)
	if !ok {
		return nil, false
	}
	b, ok := c.Call.Value.(*ssa.Builtin)
	return c, ok && b.Name() == name
}

// closeOfField matches close(<load of typ.field>).
func closeOfField(p *eng.Prog, typ, field string) func(ssa.Instruction) bool {
	return func(ins ssa.Instruction) bool {
		c, ok := isBuiltinCall(ins, "close")
		if !ok {
			return false
		}
		return p.AnyFrom(c.Call.Args[0], eng.Plain, func(v ssa.Value) bool { return eng.IsFieldLoad(v, typ, field) })
	}
}

// methodCallOnField matches x.Method(...) where x is loaded from typ.field.
func methodCallOnField(p *eng.Prog, method, typ, field string) func(ssa.Instruction) bool {
	return func(ins ssa.Instruction) bool {
		c, ok := ins.(*ssa.Call)
		if !ok || eng.MethodName(&c.Call) != method {
			return false
		}
		r := eng.Receiver(&c.Call)
		return r != nil && p.AnyFrom(r, eng.OriginOpts{ThroughSlice: true, ThroughConvert: true, ThroughFieldLoad: true}, func(v ssa.Value) bool { return eng.IsFieldLoad(v, typ, field) })
	}
}

// C11.REFCOUNT for one shared-listener type.
func ruleRefcount(c *Ctx, m *multiModel) {
	p, f, l := c.P, m.acquire, c.L()
	// (a) socket creation only on the socket == nil edge (also when the bind lives in a helper)
	nCreate := 0
	for _, cl := range m.R.Calls() {
		n := eng.CalleeName(cl.Common())
		if strings.HasPrefix(n, "net.Listen") {
			nCreate++
			c.CheckAt("REFCOUNT", m.T+":create-socket-only-when-absent:"+n, cl, m.R.CutDeep(cl, m.gCreate), "the socket is (re)created on a path where one already exists: handles would no longer share one socket")
		}
	}
	c.Floor("REFCOUNT", "socket creation calls in "+short(f)+" and its helpers", nCreate, 1)
	sockStores := p.FieldStores(m.sockT, m.sockField)
	if m.sockEmbed != "" {
		sockStores = append(sockStores, p.FieldStores(m.T, m.sockEmbed)...)
	}
	for _, st := range sockStores {
		if m.R.In[st.Fn] && !st.Fresh {
			c.CheckAt("REFCOUNT", m.T+":store-socket-only-when-absent", st.Ins, m.R.CutDeep(st.Ins, m.gCreate), "the socket field is overwritten while a socket exists")
		}
	}
	// (b) every success return passes exactly one increment; failure returns pass none
	isIncr := func(ins ssa.Instruction) bool {
		st, ok := isStoreToField(ins, m.T, m.countField)
		if !ok {
			return false
		}
		d, isInc := incrementOf(st.Val, m.T, m.countField)
		return isInc && d == 1
	}
	must, may := m.R.Must(isIncr, nil), m.R.May(isIncr)
	entry := eng.Point{B: f.Blocks[0], Idx: 0}
	for i, r := range eng.Returns(f) {
		if r.Block().Comment == "recover" {
			continue
		}
		kind := returnKind(p, r)
		mn, _ := countTo(entry, must, r)
		_, mx := countTo(entry, may, r)
		switch kind {
		case "success":
			c.CheckAt("REFCOUNT", fmt.Sprintf("%s:count-incremented-once:return#%d", m.T, i), r, mn == 1 && mx == 1, fmt.Sprintf("a handle is returned after %d..%d increments of the handle count (must be exactly 1)", mn, mx))
		case "failure":
			c.CheckAt("REFCOUNT", fmt.Sprintf("%s:count-untouched-on-failure:return#%d", m.T, i), r, mx == 0, fmt.Sprintf("an error return is reachable after %d increment(s) of the handle count: a failed acquire leaks a reference and the socket is never released", mx))
		default:
			c.Undecided("REFCOUNT", fmt.Sprintf("%s:return#%d", m.T, i), p.IPos(r), "cannot classify the return as success or failure")
		}
	}
	// (c) count and socket accesses under the type's mutex
	for _, fld := range []string{m.countField, m.sockField} {
		ft := m.T
		if fld == m.sockField {
			ft = m.sockT
		}
		for _, acc := range p.FieldAccesses(ft, fld) {
			if acc.Fresh {
				continue
			}
			held := l.Held(acc.Ins)
			ok := held.Has(m.lockClass)
			if !ok && !acc.Write && isPump(m, acc.Fn) {
				if wo, why := writeOnceBeforeGo(c, m, fld); wo {
					c.Exempt("REFCOUNT", m.T+"."+fld, "unlocked read in the reader goroutine accepted: "+why)
					ok = true
				}
			}
			c.CheckAt("REFCOUNT", fmt.Sprintf("%s.%s:under-mutex:%s", m.T, fld, short(acc.Fn)), acc.Ins, ok, fmt.Sprintf("field accessed without holding %s (held: %s)", m.lockClass, held))
		}
	}
	// (d) release closure: decrement, then close the socket only on count == 0
	if !c.Floor("REFCOUNT", "release closures of "+m.T, len(m.release), 1) {
		return
	}
	for _, r := range m.release {
		zero, tests := zeroTestEdges(r, m.T, m.countField)
		if len(tests) == 0 {
			c.Check("REFCOUNT", m.T+":release:zero-test", p.Pos(r.Pos()), false, "the release closure never tests the handle count against zero")
			continue
		}
		var dec *ssa.Store
		for _, b := range r.Blocks {
			for _, ins := range b.Instrs {
				if st, ok := isStoreToField(ins, m.T, m.countField); ok {
					if d, ok := incrementOf(st.Val, m.T, m.countField); ok && d == -1 {
						dec = st
					}
				}
			}
		}
		for _, t := range tests {
			c.CheckAt("REFCOUNT", m.T+":release:decrement-before-zero-test", t, dec != nil && eng.Dominates(dec, t), "the zero test is not preceded by the decrement")
		}
		// the Close itself, or a call of a helper of the release code that closes the socket (closeSocketLocked())
		closeSock := liftMay(c, methodCallOnField(p, "Close", m.sockT, m.sockField))
		n := 0
		for _, b := range r.Blocks {
			for _, ins := range b.Instrs {
				if closeSock(ins) {
					n++
					c.CheckAt("REFCOUNT", m.T+":release:close-socket-only-at-zero", ins, eng.Cut(r, b, zero), "the shared socket is closed on a path where other handles may still be open")
				}
			}
		}
		c.Floor("REFCOUNT", "socket Close calls in the release closure of "+m.T, n, 1)
	}
}

// countTo: min/max matches of q over acyclic paths from pt that end exactly at instruction end.
func countTo(pt eng.Point, q func(ssa.Instruction) bool, end ssa.Instruction) (int, int) {
	mn, mx := 1<<30, -1
	on := map[*ssa.BasicBlock]bool{pt.B: true}
	var walk func(b *ssa.BasicBlock, from, n int)
	walk = func(b *ssa.BasicBlock, from, n int) {
		for i := from; i < len(b.Instrs); i++ {
			ins := b.Instrs[i]
			if ins == end {
				if n < mn {
					mn = n
				}
				if n > mx {
					mx = n
				}
				return
			}
			if q(ins) {
				n++
			}
		}
		for _, s := range b.Succs {
			if on[s] {
				continue
			}
			on[s] = true
			walk(s, 0, n)
			on[s] = false
		}
	}
	walk(pt.B, pt.Idx, 0)
	if mx < 0 {
		return 0, 0
	}
	return mn, mx
}

func isPump(m *multiModel, f *ssa.Function) bool {
	for _, p := range m.pumps {
		if p == f {
			return true
		}
	}
	return false
}

// writeOnceBeforeGo: every store to T.field on an existing object happens in Acquire on the socket == nil edge and
// dominates the go statement (published by the go statement's happens-before), and no store anywhere resets the socket
// field to nil (so the creating edge cannot be taken again while a reader goroutine may still be running).
func writeOnceBeforeGo(c *Ctx, m *multiModel, field string) (bool, string) {
	isGo := func(ins ssa.Instruction) bool { _, ok := ins.(*ssa.Go); return ok }
	for _, st := range c.P.FieldStores(m.T, field) {
		if st.Fresh {
			continue
		}
		if !m.R.In[st.Fn] || !m.R.CutDeep(st.Ins, m.gCreate) {
			return false, "stored outside the socket-creation edge of Acquire at " + c.P.IPos(st.Ins)
		}
		// the store executes before the go statement on every path
		var theStore ssa.Instruction
		for _, r := range *st.Ins.(*ssa.FieldAddr).Referrers() {
			if s2, ok := r.(*ssa.Store); ok {
				theStore = s2
			}
		}
		if theStore == nil {
			return false, "field address escapes at " + c.P.IPos(st.Ins)
		}
		if ok, _ := m.R.BeforeDeep(func(ins ssa.Instruction) bool { return ins == theStore }, isGo); !ok {
			return false, "store at " + c.P.IPos(st.Ins) + " does not precede the go statement"
		}
	}
	resetStores := c.P.FieldStores(m.sockT, m.sockField)
	if m.sockEmbed != "" {
		resetStores = append(resetStores, c.P.FieldStores(m.T, m.sockEmbed)...)
	}
	for _, st := range resetStores {
		if st.Fresh {
			continue
		}
		if st.Val == nil || eng.IsZeroValue(st.Val) {
			return false, "the socket field is reset at " + c.P.IPos(st.Ins) + ", so the creation edge can be taken again and rewrite the field while the old reader goroutine still reads it"
		}
	}
	return true, "the field is written only on the socket-creation edge before the go statement and the socket field is never reset (re-verified on this run)"
}
