package rules

import (
	"fmt"
	"go/ast"
	"go/constant"
	"go/token"
	"go/types"
	"strings"

	"golang.org/x/tools/go/ssa"

	"verif/internal/eng"
)

// ---------------------------------------------------------------------------------------------
// TCP anchors (found by role)
// ---------------------------------------------------------------------------------------------

type tcpAnchors struct {
	handler  *ssa.Function // the function that invokes a StreamAuthenticateFunc
	authCall *ssa.Call
	succ     eng.EdgeSet // authErr == nil
	fail     eng.EdgeSet // authErr != nil
	conn     ssa.Value   // the client connection handed to the authenticator
	auths    []*ssa.Function
	// top is the per-connection function: the handler itself, or — when the handler is one phase of a split connection
	// function — the function reached by climbing through single callers of the same package up to (not including) the
	// one that reports the end of the connection. chain lists the levels from top down to the handler; each level's call
	// leads to the next level (the handler's is the authenticator call) and has its own success / failure edges.
	top   *ssa.Function
	chain []tcpLevel
}

type tcpLevel struct {
	fn         *ssa.Function
	call       *ssa.Call
	succ, fail eng.EdgeSet
}

// isPre: ins (in one of the chain functions) runs before the authentication result is known.
func (a *tcpAnchors) isPreChain(ins ssa.Instruction) (inChain, pre bool) {
	for _, l := range a.chain {
		if ins.Parent() == l.fn {
			reach := eng.ReachBlocks(l.fn.Blocks[0], eng.Union(l.succ, l.fail))
			return true, reach[ins.Block()]
		}
	}
	return false, false
}

func findTCP(c *Ctx, rule string) *tcpAnchors {
	a := &tcpAnchors{}
	for _, f := range c.P.FnsIn("service") {
		for _, cl := range eng.Calls(f) {
			if call, ok := cl.(*ssa.Call); ok && strings.HasPrefix(eng.CalleeName(&call.Call), "dyn:service.StreamAuthenticateFunc") {
				if a.handler != nil {
					c.Undecided(rule, "anchor:stream-handler", c.P.IPos(call), "more than one function invokes a StreamAuthenticateFunc")
					return nil
				}
				a.handler, a.authCall = f, call
			}
		}
	}
	if a.handler == nil {
		c.Undecided(rule, "anchor:stream-handler", "-", "no function invokes a StreamAuthenticateFunc")
		return nil
	}
	a.succ, a.fail = c.P.SuccessEdges(a.handler, []ssa.CallInstruction{a.authCall}, 2)
	if len(a.succ) == 0 {
		c.Undecided(rule, "anchor:auth-result-test", c.P.IPos(a.authCall), "the authentication error is never tested")
		return nil
	}
	a.conn = a.authCall.Call.Args[0]
	for _, f := range c.P.Callees(a.authCall) {
		if c.P.InRepo(f) && !c.P.IsTestSupport(f) {
			a.auths = append(a.auths, f)
		}
	}
	if len(a.auths) == 0 {
		// the call graph may not see a field-stored closure without a caller in non-test code: fall back to every function of that type
		for _, f := range c.P.FnsIn("service") {
			if f.Parent() != nil && f.Signature.Results().Len() == 3 && strings.HasSuffix(f.Parent().Name(), "Authenticator") {
				a.auths = append(a.auths, f)
			}
		}
	}
	if len(a.auths) == 0 {
		c.Undecided(rule, "anchor:authenticator", c.P.IPos(a.authCall), "no authenticator implementation resolved")
		return nil
	}
	// climb to the per-connection function
	a.top = a.handler
	a.chain = []tcpLevel{{a.handler, a.authCall, a.succ, a.fail}}
	closed := methodQ("AddClosed")
	for i := 0; i < 3; i++ {
		var sites []eng.Site
		for _, s := range c.P.CallSitesOf(a.top) {
			if !c.P.IsTestSupport(s.Fn) {
				sites = append(sites, s)
			}
		}
		if len(sites) != 1 || eng.PkgPathOf(sites[0].Fn) != eng.PkgPathOf(a.top) || bodyHas(sites[0].Fn, closed) {
			break
		}
		call, ok := sites[0].Ins.(*ssa.Call)
		ei := errLikeResultIndex(a.top.Signature)
		if !ok || ei < 0 {
			break
		}
		up := sites[0].Fn
		succ, fail := c.P.SuccessEdges(up, []ssa.CallInstruction{call}, ei)
		if len(succ) == 0 {
			break
		}
		a.chain = append([]tcpLevel{{up, call, succ, fail}}, a.chain...)
		a.top = up
	}
	return a
}

// sameConn: v derives (through conversions, helper parameters and results) from the same origin as the handler's client connection.
func (a *tcpAnchors) sameConn(c *Ctx, v ssa.Value) bool {
	base := c.P.Origins(a.conn, deepF)
	for _, o := range c.P.Origins(v, deepF) {
		for _, b := range base {
			if o == b {
				return true
			}
		}
	}
	return false
}

// drainQ matches a drain of the connection (a value predicate): a direct io.Copy(io.Discard, conn), lifted through helper
// functions every path of which drains before any denied effect.
func drainQ(c *Ctx, isConn func(ssa.Value) bool) func(ssa.Instruction) bool {
	direct := func(ins ssa.Instruction) bool {
		dc, ok := isDrainCall(ins)
		return ok && isConn(dc.Call.Args[1])
	}
	deniedStop := func(x ssa.Instruction) bool {
		cl, ok := x.(ssa.CallInstruction)
		if !ok || direct(x) {
			return false
		}
		e, _ := classifyEffect(c, cl)
		return e == effDenied
	}
	return liftMust(c, direct, deniedStop)
}

// C01.SILENT (shared by C06, C07, C08)
func ruleSilent(c *Ctx, a *tcpAnchors) {
	p := c.P
	h := a.handler
	both := eng.Union(a.succ, a.fail)
	pre := eng.ReachBlocks(h.Blocks[0], both) // blocks reachable without learning the auth result
	isConn := func(v ssa.Value) bool { return a.sameConn(c, v) }
	drain := drainQ(c, isConn)
	n := 0
	var preCalls []ssa.CallInstruction
	for _, l := range a.chain {
		for _, cl := range eng.Calls(l.fn) {
			if ssa.Instruction(l.call) == cl.(ssa.Instruction) {
				continue
			}
			if _, isPre := a.isPreChain(cl); isPre {
				preCalls = append(preCalls, cl)
			}
		}
	}
	_ = pre
	for _, cl := range preCalls {
		e, why := classifyEffect(c, cl)
		// pre-auth instruction (positioned before the result is known)
		n++
		key := short(h) + ":pre-auth:" + eng.CalleeName(cl.Common())
		switch e {
		case effDenied:
			c.CheckAt("SILENT", key, cl, false, "before the client has authenticated the handler "+why)
		case effUnknown:
			c.Undecided("SILENT", key, p.IPos(cl), "before authentication: "+why)
		case effRepo:
			fs, _ := regionEffects(c, repoCallees(c, cl))
			okR := true
			for _, f := range fs {
				okR = false
				if f.eff == effDenied {
					c.CheckAt("SILENT", key+"->"+short(f.fn), f.ins, false, "reachable before authentication: "+f.why+" (via "+strings.Join(f.chain, " > ")+")")
				} else {
					c.Undecided("SILENT", key+"->"+short(f.fn), p.IPos(f.ins), f.why)
				}
			}
			if okR {
				c.CheckAt("SILENT", key, cl, true, "effect-free||")
			}
		default:
			c.CheckAt("SILENT", key, cl, true, "effect-free||")
		}
	}
	c.Floor("SILENT", "pre-authentication calls in the handler", n, 1)

	// (b) the authenticator region
	fs, fns := regionEffects(c, a.auths)
	c.Note("pre_auth_region_functions", len(fns))
	c.Floor("SILENT", "repo functions in the pre-authentication region", len(fns), 12)
	for _, f := range fs {
		key := "auth-region:" + short(f.fn) + ":" + eng.CalleeName(f.ins.(ssa.CallInstruction).Common())
		if f.eff == effDenied {
			c.CheckAt("SILENT", key, f.ins, false, "the authenticator region "+f.why+" before the client is known to be authentic (via "+strings.Join(f.chain, " > ")+")")
		} else {
			c.Undecided("SILENT", key, p.IPos(f.ins), f.why+" (via "+strings.Join(f.chain, " > ")+")")
		}
	}
	if len(fs) == 0 {
		c.Check("SILENT", "auth-region-effect-free", p.Pos(a.auths[0].Pos()), true, fmt.Sprintf("%d functions reachable from the authenticator: no write, close, dial or listen, no callee with unknown effect||", len(fns)))
	}

	// (c) failure edge: drain before anything else, on every path
	deniedStop := func(x ssa.Instruction) bool {
		cl, ok := x.(ssa.CallInstruction)
		if !ok || drain(x) {
			return false
		}
		e, _ := classifyEffect(c, cl)
		if e == effRepo {
			fs, _ := regionEffects(c, repoCallees(c, cl))
			for _, f := range fs {
				if f.eff == effDenied {
					return true
				}
			}
		}
		return e == effDenied
	}
	for _, e := range sortedEdges(a.fail) {
		ok, bad := eng.MustPass(edgePoint(e), drain)
		c.Check("SILENT", short(h)+":auth-failure-drains", blockPos(p, e.To), ok, fmt.Sprintf("on the authentication-failure edge the handler can return at %s without draining the client connection (io.Copy(io.Discard, conn) of the connection itself, unbounded): the probe sees an immediate close", p.IPos(bad)))
		ok2, bad2 := eng.MustPassBefore(edgePoint(e), drain, deniedStop)
		c.Check("SILENT", short(h)+":auth-failure-nothing-before-drain", blockPos(p, e.To), ok2, fmt.Sprintf("on the authentication-failure edge %s happens before the drain", p.IPos(bad2)))
	}
}

// ---------------------------------------------------------------------------------------------
// key search
// ---------------------------------------------------------------------------------------------

// searchLoops: functions that range over a SnapshotForClientIP result and call shadowsocks.Unpack in the loop.
type searchLoop struct {
	fn     *ssa.Function
	unpack *ssa.Call // the trial decryption as it appears in the loop: shadowsocks.Unpack itself, or a call of a wrapper around it
	loop   *eng.Loop
	snap   *ssa.Call // the SnapshotForClientIP call, or nil when the snapshot is a parameter
	// inner is the Unpack call inside the wrapper (== unpack when there is no wrapper); keyArg / ctArg / errIdx describe the
	// call in the loop: the key tried, the ciphertext handed over and the index of the error result
	inner  *ssa.Call
	keyArg ssa.Value
	ctArg  ssa.Value
	errIdx int
}

// unpackWrapper: w contains exactly one shadowsocks.Unpack call whose key is a parameter of w and every return of w hands
// back that call's error. Returns the call and the parameter indices of key and ciphertext (-1: computed inside).
func unpackWrapper(c *Ctx, w *ssa.Function) (inner *ssa.Call, keyIdx, ctIdx, errIdx int, ok bool) {
	p := c.P
	keyIdx, ctIdx = -1, -1
	for _, cl := range eng.Calls(w) {
		if call, isC := cl.(*ssa.Call); isC && eng.CalleeName(&call.Call) == "sdk/shadowsocks.Unpack" {
			if inner != nil {
				return nil, -1, -1, -1, false
			}
			inner = call
		}
	}
	errIdx = errorResultIndex(w.Signature)
	if inner == nil || errIdx < 0 || eng.InnermostLoop(eng.Loops(w), inner.Block()) != nil {
		return nil, -1, -1, -1, false
	}
	for i, pa := range w.Params {
		if p.Resolve(inner.Call.Args[2]) == ssa.Value(pa) {
			keyIdx = i
		} else if keyIdx < 0 && strings.Contains(pa.Type().String(), "list.Element") && p.AnyFrom(inner.Call.Args[2], eng.OriginOpts{ThroughConvert: true, ThroughFieldLoad: true, ThroughIndex: true}, func(v ssa.Value) bool { return v == ssa.Value(pa) }) {
			keyIdx = i // the wrapper is handed the list element and takes the key out of it
		}
		if p.AnyFrom(inner.Call.Args[1], eng.OriginOpts{ThroughSlice: true, ThroughConvert: true}, func(v ssa.Value) bool { return v == ssa.Value(pa) }) {
			ctIdx = i
		}
	}
	if keyIdx < 0 {
		return nil, -1, -1, -1, false
	}
	var uerr ssa.Value
	for _, r := range *inner.Referrers() {
		if ex, isEx := r.(*ssa.Extract); isEx && ex.Index == 1 {
			uerr = ex
		}
	}
	for _, r := range eng.Returns(w) {
		if errIdx >= len(r.Results) || uerr == nil {
			return nil, -1, -1, -1, false
		}
		rv := r.Results[errIdx]
		if sv := p.ReachingStore(rv, r); sv != nil {
			rv = sv
		}
		if g, _ := p.AllFrom(rv, eng.Plain, func(v ssa.Value) bool { return v == uerr }); !g {
			return nil, -1, -1, -1, false
		}
	}
	return inner, keyIdx, ctIdx, errIdx, true
}

func findSearchLoops(c *Ctx) []searchLoop {
	var out []searchLoop
	for _, f := range c.P.FnsIn("service") {
		if c.P.IsTestSupport(f) {
			continue
		}
		loops := eng.Loops(f)
		for _, cl := range eng.Calls(f) {
			call, ok := cl.(*ssa.Call)
			if !ok || eng.CalleeName(&call.Call) != "sdk/shadowsocks.Unpack" {
				continue
			}
			l := eng.InnermostLoop(loops, call.Block())
			if l == nil {
				continue
			}
			// the key must come from a list element
			fromElem := c.P.AnyFrom(call.Call.Args[2], eng.OriginOpts{ThroughConvert: true, ThroughFieldLoad: true, ThroughIndex: true}, func(v ssa.Value) bool {
				return strings.Contains(v.Type().String(), "container/list.Element") || strings.Contains(v.Type().String(), "list.Element")
			})
			if !fromElem {
				continue
			}
			out = append(out, searchLoop{fn: f, unpack: call, loop: l, inner: call, keyArg: call.Call.Args[2], ctArg: call.Call.Args[1], errIdx: 1})
		}
		// the trial decryption behind a small wrapper (decryptChunkLen(dst, firstBytes, key) error)
		for _, cl := range eng.Calls(f) {
			call, ok := cl.(*ssa.Call)
			if !ok {
				continue
			}
			w := call.Call.StaticCallee()
			if w == nil || !c.P.InRepo(w) || len(w.Blocks) == 0 || w == f {
				continue
			}
			l := eng.InnermostLoop(loops, call.Block())
			if l == nil {
				continue
			}
			inner, keyIdx, ctIdx, errIdx, isW := unpackWrapper(c, w)
			if !isW || keyIdx >= len(call.Call.Args) {
				continue
			}
			fromElem := c.P.AnyFrom(call.Call.Args[keyIdx], eng.OriginOpts{ThroughConvert: true, ThroughFieldLoad: true, ThroughIndex: true}, func(v ssa.Value) bool {
				return strings.Contains(v.Type().String(), "list.Element")
			})
			if !fromElem {
				continue
			}
			sl := searchLoop{fn: f, unpack: call, loop: l, inner: inner, keyArg: call.Call.Args[keyIdx], errIdx: errIdx}
			if ctIdx >= 0 && ctIdx < len(call.Call.Args) {
				sl.ctArg = call.Call.Args[ctIdx]
			}
			out = append(out, sl)
		}
	}
	return out
}

// setOnlyOnSuccess: every non-nil value that can reach v inside the loop is assigned behind a success edge of the trial decryption.
func setOnlyOnSuccess(p *eng.Prog, v ssa.Value, l *eng.Loop, succ eng.EdgeSet, seen map[ssa.Value]bool) bool {
	if seen[v] {
		return true
	}
	seen[v] = true
	switch x := v.(type) {
	case *ssa.Const:
		return x.IsNil()
	case *ssa.Phi:
		for i, e := range x.Edges {
			if cst, ok := e.(*ssa.Const); ok && cst.IsNil() {
				continue
			}
			if _, isPhi := e.(*ssa.Phi); isPhi {
				if !setOnlyOnSuccess(p, e, l, succ, seen) {
					return false
				}
				continue
			}
			if i >= len(x.Block().Preds) {
				return false
			}
			pb := x.Block().Preds[i]
			if !l.Body[pb] || !eng.CutFrom(l.Header, pb, succ) {
				return false
			}
		}
		return true
	case *ssa.UnOp:
		if x.Op != token.MUL {
			return false
		}
		cell := eng.CellRoot(x.X)
		if cell == nil {
			return false
		}
		for _, st := range p.CellStores(cell) {
			if cst, ok := st.Val.(*ssa.Const); ok && cst.IsNil() {
				continue
			}
			if st.Parent() != l.Header.Parent() || !l.Body[st.Block()] || !eng.CutFrom(l.Header, st.Block(), succ) {
				return false
			}
		}
		return true
	}
	return false
}

// C01.SEARCH
func ruleSearch(c *Ctx, rule string, minLoops int) {
	p := c.P
	sls := findSearchLoops(c)
	if !c.Floor(rule, "trial-decryption loops over a key-list snapshot", len(sls), minLoops) {
		return
	}
	for _, sl := range sls {
		key := short(sl.fn)
		succ, _ := p.SuccessEdges(sl.fn, []ssa.CallInstruction{sl.unpack}, sl.errIdx)
		if len(succ) == 0 {
			c.CheckAt(rule, key+":unpack-result-tested", sl.unpack, false, "the result of the trial decryption is not tested")
			continue
		}
		for i, e := range sl.loop.Exits {
			if e.From == sl.loop.Header {
				c.Check(rule, fmt.Sprintf("%s:exit#%d:exhausted", key, i), blockPos(p, e.From), true, "range exhausted||")
				continue
			}
			if iff, isIf := e.From.Instrs[len(e.From.Instrs)-1].(*ssa.If); isIf {
				if bo, isB := iff.Cond.(*ssa.BinOp); isB && bo.Op == token.LSS {
					if lc, isC := bo.Y.(*ssa.Call); isC {
						if bi, isBi := lc.Call.Value.(*ssa.Builtin); isBi && bi.Name() == "len" {
							c.Check(rule, fmt.Sprintf("%s:exit#%d:exhausted", key, i), blockPos(p, e.From), true, "range exhausted||")
							continue
						}
					}
				}
			}
			ok := succ[e] || eng.CutFrom(sl.loop.Header, e.From, succ)
			if !ok {
				// `for …; i < n && match == nil; …`: left when the match variable is set, and it is set only after a successful Unpack
				if iff, isIf := e.From.Instrs[len(e.From.Instrs)-1].(*ssa.If); isIf {
					if x, trueNonNil, isNil := eng.NilCompare(iff.Cond); isNil {
						exitOnNonNil := (e.From.Succs[0] == e.To) == trueNonNil
						if exitOnNonNil && setOnlyOnSuccess(p, x, sl.loop, succ, map[ssa.Value]bool{}) {
							ok = true
						}
					}
				}
			}
			c.Check(rule, fmt.Sprintf("%s:exit#%d:only-on-match", key, i), blockPos(p, e.From), ok, "the key search can stop (break or return) after a key that failed to decrypt: keys later in the list can never authenticate")
		}
		// the loop visits every element: index is the range induction variable starting at 0/-1 with step 1 (range over slice) — accept only range loops
		hdr := sl.loop.Header
		c.Check(rule, key+":traverses-whole-snapshot", blockPos(p, hdr), fullTraversal(sl.loop), "the search loop is not a full forward traversal (range, or index from 0 by 1 up to len) of the snapshot")
		// the header length given to Unpack is computed from the same key that decrypts
		// (when the trial decryption sits in a wrapper, the prefix is computed inside it, from the key it is given: the same
		// checks are made there, and "in this iteration" holds by construction)
		keyArg := sl.inner.Call.Args[2]
		wrapped := sl.inner != sl.unpack
		// when the ciphertext handed to Unpack is a computed prefix (TCP), it must be computed in this very iteration
		ctArg := p.Resolve(sl.inner.Call.Args[1])
		prefixed := false
		for _, o := range p.Origins(ctArg, eng.OriginOpts{ThroughConvert: true}) {
			if so, isS := o.(*ssa.Slice); isS && so.High != nil {
				if _, isC := so.High.(*ssa.Const); !isC {
					prefixed = true
				}
			}
		}
		if prefixed {
			so, isS := ctArg.(*ssa.Slice)
			c.CheckAt(rule, key+":prefix-computed-per-key", sl.unpack, isS && (wrapped || sl.loop.Body[so.Block()]), "the ciphertext prefix handed to the trial decryption is carried over from an earlier iteration (or computed outside the loop) instead of being sliced for the key being tried: keys whose cipher has a different salt size than the first key tried can never match")
		}
		if s, ok := ctArg.(*ssa.Slice); ok && s.High != nil {
			okKey := true
			why := ""
			n := 0
			for _, lf := range c.boundLeaves(s.High) {
				if call, isCall := lf.v.(*ssa.Call); isCall {
					nm := eng.CalleeName(&call.Call)
					if nm == "(*sdk/shadowsocks.EncryptionKey).SaltSize" || nm == "(*sdk/shadowsocks.EncryptionKey).TagSize" {
						n++
						if p.Resolve(call.Call.Args[0]) != p.Resolve(keyArg) && !sameFieldLoad(p.Resolve(call.Call.Args[0]), p.Resolve(keyArg)) {
							okKey = false
							why = fmt.Sprintf("%s at %s is taken from a different key value than the one passed to Unpack", nm, p.IPos(call))
						}
					}
				}
			}
			if n > 0 {
				c.CheckAt(rule, key+":header-length-from-same-key", sl.unpack, okKey, "the ciphertext prefix handed to the trial decryption is sized with another key's salt/tag size ("+why+"): keys whose cipher has a different salt size than that key can never match")
				// salt + 2 + tag
				c.CheckAt(rule, key+":header-length-is-salt+2+tag", sl.unpack, n == 2 && hasConstLeaf(c, s.High, 2), "the prefix length is not SaltSize() + 2 + TagSize()")
			}
		}
		// what is returned on the match derives from the matched element
		for _, r := range eng.Returns(sl.fn) {
			if !eng.CutFrom(sl.loop.Header, r.Block(), succ) || !sl.loop.Body[r.Block()] && !reachOnlyVia(sl, r, succ) {
				continue
			}
		}
	}
}

func reachOnlyVia(sl searchLoop, r *ssa.Return, succ eng.EdgeSet) bool {
	return eng.Cut(sl.fn, r.Block(), succ)
}

func hasConstLeaf(c *Ctx, v ssa.Value, n int64) bool {
	for _, lf := range c.boundLeaves(v) {
		if k, ok := eng.ConstInt(lf.v); ok && k == n {
			return true
		}
	}
	return false
}

// cipherSpecs reads the SDK's cipherSpec composite literals: (saltSize, tagSize) per spec.
type cipherSpec struct {
	Name     string
	KeySize  int64
	SaltSize int64
	TagSize  int64
	Pos      string
}

func sdkCipherSpecs(c *Ctx) []cipherSpec {
	var out []cipherSpec
	pkg := c.P.AllPkgs[eng.SDK+"/transport/shadowsocks"]
	if pkg == nil {
		return nil
	}
	for _, f := range pkg.Syntax {
		ast.Inspect(f, func(n ast.Node) bool {
			vs, ok := n.(*ast.ValueSpec)
			if !ok {
				return true
			}
			for i, val := range vs.Values {
				var cl *ast.CompositeLit
				if u, ok := val.(*ast.UnaryExpr); ok && u.Op == token.AND {
					cl, _ = u.X.(*ast.CompositeLit)
				} else {
					cl, _ = val.(*ast.CompositeLit)
				}
				if cl == nil {
					continue
				}
				tv, ok := pkg.TypesInfo.Types[cl]
				if !ok || eng.TypeName(tv.Type) != "sdk/shadowsocks.cipherSpec" {
					continue
				}
				st := tv.Type.Underlying().(*types.Struct)
				spec := cipherSpec{Name: vs.Names[i].Name, Pos: c.P.Pos(cl.Pos())}
				vals := map[string]int64{}
				for j, e := range cl.Elts {
					name := ""
					var ve ast.Expr = e
					if kv, ok := e.(*ast.KeyValueExpr); ok {
						name = kv.Key.(*ast.Ident).Name
						ve = kv.Value
					} else if j < st.NumFields() {
						name = st.Field(j).Name()
					}
					if tv2, ok := pkg.TypesInfo.Types[ve]; ok && tv2.Value != nil && tv2.Value.Kind() == constant.Int {
						k, _ := constant.Int64Val(tv2.Value)
						vals[name] = k
					}
				}
				spec.KeySize, spec.SaltSize, spec.TagSize = vals["keySize"], vals["saltSize"], vals["tagSize"]
				out = append(out, spec)
			}
			return true
		})
	}
	return out
}

func constInt(c *Ctx, name string) (int64, bool) {
	k, ok := c.P.LookupConst(name)
	if !ok {
		return 0, false
	}
	v, ok := constant.Int64Val(k.Val())
	return v, ok
}

// C01.KEYBYTES
func ruleKeyBytes(c *Ctx) {
	specs := sdkCipherSpecs(c)
	if !c.Floor("KEYBYTES", "cipher specs in the SDK", len(specs), 4) {
		return
	}
	n, ok := firstBytesLen(c)
	if !ok {
		c.Undecided("KEYBYTES", "anchor:first-bytes-length", "-", "the TCP key finder does not read into a buffer of constant length")
		return
	}
	for _, s := range specs {
		req, prov := s.SaltSize+2+s.TagSize, s.SaltSize+2+2*s.TagSize
		c.Check("KEYBYTES", "spec:"+s.Name, s.Pos, s.SaltSize > 0 && s.TagSize > 0 && req <= n && n <= prov,
			fmt.Sprintf("required=%d <= bytes read for key finding=%d <= provided=%d holds for salt=%d tag=%d||the %d bytes read for key finding do not satisfy salt+2+tag=%d <= n <= salt+2+2*tag=%d for cipher spec %s: either the key cannot be authenticated from the bytes read, or a valid minimal first chunk is shorter than what the server waits for", req, n, prov, s.SaltSize, s.TagSize, n, req, prov, s.Name))
	}
	// the buffer read before the search has constant length, is filled by io.ReadFull, and is what the search gets
	for _, kf := range findKeyFinders(c) {
		f, call := kf.f, kf.rf
		okLen, _ := c.P.AllFrom(call.Call.Args[1], eng.Deep, func(v ssa.Value) bool {
			switch x := v.(type) {
			case *ssa.MakeSlice:
				_, isC := eng.ConstInt(x.Len)
				return isC
			case *ssa.Alloc:
				pt, ok := x.Type().(*types.Pointer)
				if !ok {
					return false
				}
				_, isArr := pt.Elem().Underlying().(*types.Array)
				return isArr
			}
			return false
		})
		// ... and whole: no sub-slice between the allocation and the read
		whole := true
		for _, o := range c.P.Origins(call.Call.Args[1], deepF) {
			if sl, ok := o.(*ssa.Slice); ok {
				_, fromArr := sl.X.(*ssa.Alloc)
				if !fromArr || sl.Low != nil {
					whole = false
				}
			}
		}
		c.CheckAt("FIXEDREAD", short(f)+":reads-a-fixed-number-of-bytes", call, okLen && whole, "the key finder does not read into a whole buffer of constant length with io.ReadFull: the amount read before deciding depends on the client")
		if kf.search != nil {
			sc := kf.search
			okBefore, _ := kf.reg.BeforeDeep(func(ins ssa.Instruction) bool { return ins == ssa.Instruction(call) }, func(ins ssa.Instruction) bool { return ins == ssa.Instruction(sc) })
			c.CheckAt("FIXEDREAD", short(f)+":read-before-search", sc, okBefore, "the key search runs before the fixed-size read completed")
			same := false
			for _, a := range sc.Call.Args {
				if kf.sameBuf(c, a) {
					same = true
				}
			}
			c.CheckAt("FIXEDREAD", short(f)+":search-gets-the-bytes-read", sc, same, "the key search is not given the buffer that io.ReadFull filled")
		} else {
			// the search loop is inline in the finder
			nIn := 0
			for _, sl := range findSearchLoops(c) {
				if sl.fn != f {
					continue
				}
				nIn++
				c.CheckAt("FIXEDREAD", short(f)+":read-before-search", sl.unpack, call.Parent() == f && eng.Dominates(call, sl.unpack), "the key search runs before the fixed-size read completed")
				if sl.ctArg == nil {
					c.CheckAt("FIXEDREAD", short(f)+":search-gets-the-bytes-read", sl.unpack, false, "the trial decryption is not handed the bytes that were read")
					continue
				}
				same := c.P.AnyFrom(sl.ctArg, eng.Deep, func(v ssa.Value) bool {
					for _, b := range c.P.Origins(call.Call.Args[1], eng.Deep) {
						if v == b {
							return true
						}
					}
					return false
				})
				c.CheckAt("FIXEDREAD", short(f)+":search-gets-the-bytes-read", sl.unpack, same, "the key search is not given the buffer that io.ReadFull filled")
			}
			if nIn == 0 {
				c.Undecided("FIXEDREAD", short(f)+":search-call", c.P.Pos(f.Pos()), "the key finder neither calls a function that performs the trial decryption nor contains the search loop")
			}
		}
	}
}

// ---------------------------------------------------------------------------------------------
// authenticator coherence and gates
// ---------------------------------------------------------------------------------------------

type authModel struct {
	fn      *ssa.Function
	R       *Region
	search  *ssa.Call // returns (*CipherEntry, reader, salt, dur, err)
	entry   ssa.Value
	reader  ssa.Value
	salt    ssa.Value
	succ    eng.EdgeSet
	okRets  []*ssa.Return // returns of fn with nil error
	adds    []*ssa.Call
	isSrvs  []*ssa.Call
	newRs   []*ssa.Call
	newWs   []*ssa.Call
	setGens []*ssa.Call
}

func modelAuth(c *Ctx, f *ssa.Function, rule string) *authModel {
	m := &authModel{fn: f}
	searchFns := map[*ssa.Function]bool{}
	for _, sl := range findSearchLoops(c) {
		searchFns[sl.fn] = true
	}
	isFinder := func(h *ssa.Function) bool {
		// the key finder and below are not part of the authenticator's own logic
		res := h.Signature.Results()
		return searchFns[h] || (res.Len() >= 2 && eng.TypeName(res.At(0).Type()) == "service.CipherEntry")
	}
	m.R = c.NewRegion(f, 3, func(h *ssa.Function) bool {
		return eng.PkgPathOf(h) != eng.Mod+"/service" || isFinder(h) || h.Signature.Recv() != nil && strings.Contains(eng.TypeName(h.Signature.Recv().Type()), "SaltGenerator") || strings.HasSuffix(eng.TypeName(recvType(h)), "ReplayCache") || strings.HasSuffix(eng.TypeName(recvType(h)), "ipherList")
	})
	for _, cl := range m.R.Calls() {
		call, ok := cl.(*ssa.Call)
		if !ok {
			continue
		}
		res := call.Call.Signature().Results()
		if res.Len() >= 2 && eng.TypeName(res.At(0).Type()) == "service.CipherEntry" && m.search == nil {
			m.search = call
		}
		switch {
		case eng.CalleeName(&call.Call) == "(*service.ReplayCache).Add":
			m.adds = append(m.adds, call)
		case eng.MethodName(&call.Call) == "IsServerSalt":
			m.isSrvs = append(m.isSrvs, call)
		case eng.CalleeName(&call.Call) == "sdk/shadowsocks.NewReader":
			m.newRs = append(m.newRs, call)
		case eng.CalleeName(&call.Call) == "sdk/shadowsocks.NewWriter":
			m.newWs = append(m.newWs, call)
		case eng.CalleeName(&call.Call) == "(*sdk/shadowsocks.Writer).SetSaltGenerator":
			m.setGens = append(m.setGens, call)
		}
	}
	if m.search == nil || m.search.Parent() != f {
		c.Undecided(rule, "anchor:"+short(f)+":key-search-call", c.P.Pos(f.Pos()), "the authenticator makes no call returning a *CipherEntry")
		return nil
	}
	res := m.search.Call.Signature().Results()
	for _, r := range *m.search.Referrers() {
		ex, ok := r.(*ssa.Extract)
		if !ok {
			continue
		}
		t := res.At(ex.Index).Type().String()
		switch {
		case ex.Index == 0:
			m.entry = ex
		case t == "io.Reader":
			m.reader = ex
		case t == "[]byte":
			m.salt = ex
		}
	}
	m.succ, _ = c.P.SuccessEdges(f, []ssa.CallInstruction{m.search}, res.Len()-1)
	for _, r := range eng.Returns(f) {
		if eng.IsZeroValue(r.Results[len(r.Results)-1]) {
			m.okRets = append(m.okRets, r)
		}
	}
	if m.entry == nil || m.salt == nil || len(m.succ) == 0 || len(m.okRets) == 0 {
		c.Undecided(rule, "anchor:"+short(f)+":key-search-results", c.P.IPos(m.search), "cannot identify entry/salt results, the error test or the success return of the authenticator")
		return nil
	}
	return m
}

func recvType(f *ssa.Function) types.Type {
	if f.Signature.Recv() != nil {
		return f.Signature.Recv().Type()
	}
	return types.Typ[types.Invalid]
}

// fromEntryField: v is (only) loads of CipherEntry.<field> whose base is the matched entry (through helper parameters).
func (m *authModel) fromEntryField(c *Ctx, v ssa.Value, field string) (bool, []ssa.Value) {
	return c.P.AllFrom(v, deepF, func(x ssa.Value) bool {
		t, f, base, ok := eng.FieldLoad(x)
		if !ok || t != "service.CipherEntry" || f != field {
			return false
		}
		g, _ := c.P.AllFrom(base, deepF, func(b ssa.Value) bool { return b == m.entry })
		return g
	})
}

func (m *authModel) isSalt(c *Ctx, v ssa.Value) bool {
	g, _ := c.P.AllFrom(v, deepF, func(x ssa.Value) bool { return x == m.salt })
	return g
}

func isSuccessReturn(ins ssa.Instruction) bool {
	r, ok := ins.(*ssa.Return)
	return ok && len(r.Results) > 0 && eng.IsZeroValue(r.Results[len(r.Results)-1])
}

// C01.COHERENT
func ruleCoherent(c *Ctx, a *tcpAnchors) {
	p := c.P
	for _, f := range a.auths {
		m := modelAuth(c, f, "COHERENT")
		if m == nil {
			continue
		}
		key := short(f)
		n := 0
		for _, r := range m.okRets {
			ok, bad := p.AllFrom(r.Results[0], deepF, func(x ssa.Value) bool {
				if _, isC := x.(*ssa.Const); isC {
					s, _ := eng.ConstString(x)
					return s == ""
				}
				g, _ := m.fromEntryField(c, x, "ID")
				return g
			})
			n++
			c.CheckAt("COHERENT", key+":returned-id-is-matched-entry", r, ok, "the access key id returned on success is not the ID of the entry that decrypted the handshake: "+valsStr(p, bad))
		}
		for _, call := range append(append([]*ssa.Call{}, m.newRs...), m.newWs...) {
			n++
			ok, bad := m.fromEntryField(c, call.Call.Args[1], "CryptoKey")
			c.CheckAt("COHERENT", key+":"+eng.CalleeName(&call.Call)+":key-of-matched-entry", call, ok, "the stream cipher is created with a key other than the matched entry's: "+valsStr(p, bad))
		}
		for _, call := range m.newRs {
			if m.reader != nil {
				okR, _ := p.AllFrom(call.Call.Args[0], deepF, func(x ssa.Value) bool { return x == m.reader })
				c.CheckAt("COHERENT", key+":NewReader:reader-from-key-search", call, okR, "the decrypting reader does not read from the reader returned by the key search (which replays the bytes consumed for the search)")
			}
		}
		for _, call := range m.adds {
			n++
			okID, _ := m.fromEntryField(c, call.Call.Args[1], "ID")
			c.CheckAt("COHERENT", key+":replay-add:id-and-salt", call, okID && m.isSalt(c, call.Call.Args[2]), "the replay history is not keyed by (matched entry ID, client salt of this handshake)")
		}
		for _, call := range m.setGens {
			n++
			ok, bad := m.fromEntryField(c, call.Call.Args[1], "SaltGenerator")
			c.CheckAt("COHERENT", key+":salt-generator-of-matched-entry", call, ok, "the response writer gets a salt generator other than the matched entry's: "+valsStr(p, bad))
		}
		for _, call := range m.isSrvs {
			n++
			ok, _ := m.fromEntryField(c, eng.Receiver(&call.Call), "SaltGenerator")
			c.CheckAt("COHERENT", key+":server-salt-test:generator-and-salt", call, ok && m.isSalt(c, eng.Arg(&call.Call, 0)), "the reflected-salt test does not use the matched entry's generator on this handshake's salt")
		}
		c.Floor("COHERENT", "uses of the matched entry in the authenticator region of "+key, n, 6)
	}
	// in the key finder: MarkUsed gets the found element, with the same client IP as the snapshot
	for _, f := range c.P.FnsIn("service") {
		var mark *ssa.Call
		for _, cl := range eng.Calls(f) {
			if call, ok := cl.(*ssa.Call); ok && eng.MethodName(&call.Call) == "MarkUsedByClientIP" {
				mark = call
			}
		}
		if mark == nil || c.P.IsTestSupport(f) {
			continue
		}
		elem := eng.Arg(&mark.Call, 0)
		okElem := p.AnyFrom(elem, eng.OriginOpts{ThroughConvert: true, ThroughIndex: true, Interproc: true}, func(x ssa.Value) bool {
			if cc, _, ok := eng.AsResult(x); ok {
				return eng.MethodName(&cc.Call) == "SnapshotForClientIP"
			}
			return false
		})
		c.CheckAt("COHERENT", short(f)+":marks-the-matched-element", mark, okElem, "the element moved to the front / stamped with the client IP is not an element of the snapshot that was searched")
		for _, cl := range eng.Calls(f) {
			if call, ok := cl.(*ssa.Call); ok && eng.MethodName(&call.Call) == "SnapshotForClientIP" {
				same := p.Resolve(eng.Arg(&call.Call, 0)) == p.Resolve(eng.Arg(&mark.Call, 1))
				c.CheckAt("COHERENT", short(f)+":same-client-ip", mark, same, "the snapshot and the usage mark use different client IP values")
			}
		}
	}
}

// C07.GATE, C08.GATE, C08.INSTALL
func ruleGates(c *Ctx, a *tcpAnchors, which string) {
	p := c.P
	for _, f := range a.auths {
		m := modelAuth(c, f, which)
		if m == nil {
			continue
		}
		key := short(f)
		isAdd := func(ins ssa.Instruction) bool {
			cl, ok := ins.(*ssa.Call)
			return ok && eng.CalleeName(&cl.Call) == "(*service.ReplayCache).Add"
		}
		isSrv := func(ins ssa.Instruction) bool {
			cl, ok := ins.(*ssa.Call)
			return ok && eng.MethodName(&cl.Call) == "IsServerSalt"
		}
		switch which {
		case "GATE7":
			if len(m.adds) == 0 {
				c.Check("GATE", key+":replay-history-consulted", p.Pos(f.Pos()), false, "the authenticator never consults the replay history")
				continue
			}
			g := c.BoolGuard(func(call *ssa.Call) bool { return isAdd(call) }, true)
			edges := g.Edges(f)
			for i, r := range m.okRets {
				c.CheckAt("GATE", fmt.Sprintf("%s:success#%d-needs-new-handshake", key, i), r, len(edges) > 0 && eng.Cut(f, r.Block(), edges), "the authenticator can report success on a path where ReplayCache.Add did not return true (a replayed handshake is served)")
			}
		case "GATE8":
			if len(m.isSrvs) == 0 {
				c.Check("GATE", key+":server-salt-tested", p.Pos(f.Pos()), false, "the authenticator never tests whether the client salt is server-issued")
				continue
			}
			g := c.BoolGuard(func(call *ssa.Call) bool { return isSrv(call) }, false)
			edges := g.Edges(f)
			for i, r := range m.okRets {
				c.CheckAt("GATE", fmt.Sprintf("%s:success#%d-needs-foreign-salt", key, i), r, len(edges) > 0 && eng.Cut(f, r.Block(), edges), "the authenticator can report success on a path where IsServerSalt did not return false (a reflected server stream is served)")
			}
			if len(m.adds) > 0 {
				ok, bad := m.R.BeforeDeep(isSrv, isAdd)
				c.Check("GATE", key+":server-salt-test-before-replay-history", p.Pos(f.Pos()), ok, fmt.Sprintf("the replay history can be consulted (%s) before the server-salt test", p.IPos(bad)))
			}
		case "INSTALL":
			if len(m.newWs) == 0 {
				c.Undecided("INSTALL", key+":NewWriter", p.Pos(f.Pos()), "the authenticator creates no shadowsocks.Writer")
				continue
			}
			isSet := func(ins ssa.Instruction) bool {
				cl, ok := ins.(*ssa.Call)
				if !ok || eng.CalleeName(&cl.Call) != "(*sdk/shadowsocks.Writer).SetSaltGenerator" {
					return false
				}
				g, _ := p.AllFrom(cl.Call.Args[0], deepF, func(x ssa.Value) bool { return inCalls(x, m.newWs, 0) })
				return g
			}
			lq := liftMust(c, isSet, nil)
			for _, e := range sortedEdges(m.succ) {
				ok, bad := eng.MustPassBefore(edgePoint(e), lq, isSuccessReturn)
				c.Check("INSTALL", key+":generator-installed-on-response-writer", blockPos(p, e.To), ok, fmt.Sprintf("a success return at %s is reachable without SetSaltGenerator on the response writer: the server's salts are not marked and cannot be recognised when reflected", p.IPos(bad)))
			}
			for _, sg := range m.setGens {
				okG, bad2 := m.fromEntryField(c, sg.Call.Args[1], "SaltGenerator")
				c.CheckAt("INSTALL", key+":generator-of-matched-entry", sg, okG, "the installed generator is not the matched entry's: "+valsStr(p, bad2))
			}
			for _, r := range m.okRets {
				okW := p.AnyFrom(r.Results[1], eng.OriginOpts{ThroughConvert: true, Interproc: true, ThroughCalls: func(cc *ssa.Call) []ssa.Value {
					if eng.CalleeName(&cc.Call) == "sdk/transport.WrapConn" {
						return cc.Call.Args
					}
					return nil
				}}, func(x ssa.Value) bool { return inCalls(x, m.newWs, 0) })
				c.CheckAt("INSTALL", key+":returned-conn-writes-through-that-writer", r, okW, "the connection returned on success does not write through the writer that got the salt generator")
			}
		}
	}
}

// ruleSaltSlice (C01.COHERENT / C07 / C08): in the key finder, the salt handed back is firstBytes[:SaltSize()] of the matched entry's key.
func ruleSaltSlice(c *Ctx, rule string) {
	p := c.P
	n := 0
	for _, kf := range findKeyFinders(c) {
		f := kf.f
		// the entry that matched: a result of the search call, or — when the search loop is inline — the entry whose key the
		// trial decryption was given
		var inlineKeys []ssa.Value
		if kf.search == nil {
			for _, sl := range findSearchLoops(c) {
				if sl.fn == f {
					if t, fl, base, ok := eng.FieldLoad(p.Resolve(sl.keyArg)); ok && t == "service.CipherEntry" && fl == "CryptoKey" {
						inlineKeys = append(inlineKeys, p.Origins(base, eng.Plain)...)
					}
				}
			}
		}
		isMatched := func(v ssa.Value) bool {
			if kf.search != nil {
				return p.AnyFrom(v, eng.OriginOpts{ThroughConvert: true, ThroughFieldLoad: true}, func(x ssa.Value) bool { return eng.ResultOf(x, kf.search, -1) })
			}
			for _, o := range p.Origins(v, eng.Plain) {
				if cst, ok := o.(*ssa.Const); ok && cst.IsNil() {
					continue
				}
				hit := false
				for _, k := range inlineKeys {
					if o == k {
						hit = true
					}
				}
				if !hit {
					return false
				}
			}
			return len(inlineKeys) > 0
		}
		for _, r := range eng.Returns(f) {
			if len(r.Results) == 0 || !eng.IsZeroValue(r.Results[len(r.Results)-1]) {
				continue
			}
			for _, rv := range r.Results {
				if rv.Type().String() != "[]byte" {
					continue
				}
				n++
				s, ok := p.Resolve(rv).(*ssa.Slice)
				good := false
				why := "the returned salt is not a prefix slice of the bytes read"
				if ok && s.Low == nil && s.High != nil && kf.sameBuf(c, s.X) {
					if hc, ok := p.Resolve(s.High).(*ssa.Call); ok && eng.CalleeName(&hc.Call) == "(*sdk/shadowsocks.EncryptionKey).SaltSize" {
						t, fl, base, isF := eng.FieldLoad(p.Resolve(hc.Call.Args[0]))
						if isF && t == "service.CipherEntry" && fl == "CryptoKey" && isMatched(base) {
							good = true
						} else {
							why = "the salt length is the SaltSize() of something other than the matched entry's key"
						}
					} else {
						why = "the salt length is not SaltSize() of the matched key (e.g. derived from the buffer length): for ciphers with a different salt size the replay history and the server-salt test see the wrong bytes"
					}
				}
				c.CheckAt(rule, short(f)+":salt-is-firstBytes[:SaltSize(matched key)]", r, good, why)
			}
		}
	}
	c.Floor(rule, "salt results returned by the key finder", n, 1)
}

// fullTraversal: the loop header has an induction variable that starts at 0 (or -1 for a lowered range) and is incremented by
// 1 on every back edge, and the header's continue condition is i < len(x) (or i+1 < len(x) for range).
func fullTraversal(l *eng.Loop) bool {
	for _, ins := range l.Header.Instrs {
		ph, ok := ins.(*ssa.Phi)
		if !ok {
			break
		}
		init, step := false, true
		for i, e := range ph.Edges {
			pred := l.Header.Preds[i]
			if l.Body[pred] {
				bo, ok := e.(*ssa.BinOp)
				if !ok || bo.Op != token.ADD || bo.X != ssa.Value(ph) {
					step = false
					continue
				}
				if k, ok := eng.ConstInt(bo.Y); !ok || k != 1 {
					step = false
				}
			} else {
				if k, ok := eng.ConstInt(e); ok && (k == 0 || k == -1) {
					init = true
				}
			}
		}
		if !init || !step {
			continue
		}
		// header condition compares the induction variable (or +1) with len(...)
		if iff, ok := l.Header.Instrs[len(l.Header.Instrs)-1].(*ssa.If); ok {
			if bo, ok := iff.Cond.(*ssa.BinOp); ok && bo.Op == token.LSS {
				lhs := bo.X
				if add, ok := lhs.(*ssa.BinOp); ok && add.Op == token.ADD {
					lhs = add.X
				}
				if lhs == ssa.Value(ph) {
					if lc, ok := bo.Y.(*ssa.Call); ok {
						if bi, ok := lc.Call.Value.(*ssa.Builtin); ok && bi.Name() == "len" {
							return true
						}
					}
				}
			}
		}
	}
	return false
}
