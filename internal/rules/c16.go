package rules

import (
	"fmt"
	"go/token"
	"strings"

	"golang.org/x/tools/go/ssa"

	"verif/internal/eng"
)

func runC16(c *Ctx) {
	a := findUDP(c, "ANCHOR")
	if a == nil {
		return
	}
	ruleEntry(c, a)
	// "a status naming its outcome": the stages run in order — decrypt, then parse/validate, then send — so the first failing stage names the status
	ruleSendGuard(c, a, "STAGES")
	ruleVerdictKept(c, a, "STAGES")
	ruleSendFailure(c, a, "STAGES")
	ruleBufSize(c, a, "BUFSIZE") // "its wire size": a datagram cut short by a small buffer is reported with the wrong size
	ruleClientReport(c, a)
	ruleTargetReport(c, a)
	ruleCountsOne(c, "WIRING") // UDP byte counters go through the same helper: an amount of 1 is counted
	ruleArityAll(c, "ARITY")
	ruleDirWiring(c, "WIRING")
	ruleServiceOptions(c, "WIRING", "service.WithMetrics", "its datagrams are relayed but never reported")
	ruleAdapterStatus(c, "WIRING")
}

// perIteration: the cell behind load v is allocated inside a loop body of its function (fresh per iteration), or v is not a cell at all.
func perIterationCell(c *Ctx, v ssa.Value) (ok bool, isCell bool, cell *ssa.Alloc) {
	u, isU := v.(*ssa.UnOp)
	if !isU || u.Op != token.MUL {
		return true, false, nil
	}
	cell = eng.CellRoot(u.X)
	if cell == nil {
		return true, false, nil
	}
	f := cell.Parent()
	l := eng.InnermostLoop(eng.Loops(f), cell.Block())
	return l != nil, true, cell
}

// statusOK: v is "OK" on the nil edge and the Status field of the returned error otherwise: origins are the constant "OK" and loads of ConnectionError.Status.
func statusOK(c *Ctx, v ssa.Value) (bool, []ssa.Value) {
	return c.P.AllFrom(v, deepF, func(x ssa.Value) bool {
		if s, ok := eng.ConstString(x); ok {
			return s == "OK"
		}
		t, f, _, ok := eng.FieldLoad(x)
		return ok && t == "net.ConnectionError" && f == "Status"
	})
}

// C16.ENTRY
func ruleEntry(c *Ctx, a *udpAnchors) {
	p := c.P
	add := a.m.add
	isAddEntry := func(ins ssa.Instruction) bool {
		cl, ok := ins.(*ssa.Call)
		return ok && eng.MethodName(&cl.Call) == "AddUDPNatEntry"
	}
	mn, mx, _ := eng.CountOnPaths(eng.Point{B: add.Blocks[0]}, isAddEntry, nil)
	c.Check("ENTRY", short(add)+":entry-reported-exactly-once", p.Pos(add.Pos()), mn == 1 && mx == 1, fmt.Sprintf("Add reports the new association %d..%d times", mn, mx))
	for _, cl := range eng.Calls(add) {
		call, ok := cl.(*ssa.Call)
		if !ok || eng.MethodName(&call.Call) != "AddUDPNatEntry" {
			continue
		}
		okA, _ := p.AllFrom(eng.Arg(&call.Call, 0), eng.Plain, func(v ssa.Value) bool {
			pa, isP := v.(*ssa.Parameter)
			return isP && pa.Parent() == add && pa.Type().String() == "net.Addr"
		})
		okK, _ := p.AllFrom(eng.Arg(&call.Call, 1), eng.Plain, func(v ssa.Value) bool {
			pa, isP := v.(*ssa.Parameter)
			return isP && pa.Parent() == add && pa.Type().String() == "string"
		})
		c.CheckAt("ENTRY", short(add)+":entry-reported-with-client-address-and-key-id", call, okA && okK, "the association is reported with something other than Add's client address and key id parameters")
		// the metrics object returned is the one stored in the entry (and used for removal): every construction of an entry that
		// Add's region performs stores it in the entry's metrics field
		nEntry, okM := 0, true
		for _, st := range p.FieldStores(a.m.connT, a.m.metField) {
			if !st.Fresh || st.Val == nil {
				continue
			}
			nEntry++
			if !p.AnyFrom(st.Val, deepF, func(v ssa.Value) bool { return v == ssa.Value(call) }) {
				okM = false
			}
		}
		c.CheckAt("ENTRY", short(add)+":entry-keeps-its-metrics-object", call, okM && nEntry > 0, "the entry does not keep the metrics object returned for this association")
	}
	// at the call site the id is the id of this datagram's key search
	for i, ad := range a.adds {
		var idArg ssa.Value
		for _, ar := range ad.Call.Args {
			if ar.Type().String() == "string" {
				idArg = ar
			}
		}
		okID := false
		if idArg != nil {
			okID, _ = p.AllFrom(idArg, deepAt(ad), func(v ssa.Value) bool {
				// the ID of the list element that decrypted this datagram, or the id result of a search call
				if _, fl, _, ok := eng.FieldLoad(v); ok && fl == "ID" {
					return true
				}
				return inCalls(v, a.searchC, -1)
			})
		}
		c.CheckAt("ENTRY", fmt.Sprintf("%s:add#%d:key-id-of-this-search", short(a.dg), i), ad, okID, "the association is attributed to an id other than the one returned by the key search that authenticated this datagram")
	}
	ruleTeardown(c, "ENTRY-REMOVAL")
}

// C16.CLIENT
func ruleClientReport(c *Ctx, a *udpAnchors) {
	p := c.P
	f := a.loopFn
	var reports []*ssa.Call
	inFamily := map[*ssa.Function]bool{}
	for _, g := range eng.Family(f) {
		inFamily[g] = true
	}
	// the loop function, its closures, and the small helpers of the package they call (reportClientPacket(assoc, err, n, m))
	scan := append([]*ssa.Function{}, eng.Family(f)...)
	helperSite := map[*ssa.Function][]*ssa.Call{}
	for _, g := range eng.Family(f) {
		for _, cl := range eng.Calls(g) {
			call, ok := cl.(*ssa.Call)
			if !ok {
				continue
			}
			if h := call.Call.StaticCallee(); h != nil && p.InRepo(h) && len(h.Blocks) > 0 && !inFamily[h] && eng.PkgPathOf(h) == eng.PkgPathOf(f) {
				if len(helperSite[h]) == 0 {
					scan = append(scan, h)
				}
				helperSite[h] = append(helperSite[h], call)
			}
		}
	}
	for _, g := range scan {
		for _, cl := range eng.Calls(g) {
			if call, ok := cl.(*ssa.Call); ok && eng.MethodName(&call.Call) == "AddPacketFromClient" {
				reports = append(reports, call)
			}
		}
	}
	c.Check("CLIENT", short(f)+":one-report-site", p.Pos(f.Pos()), len(reports) == 1, fmt.Sprintf("%d AddPacketFromClient call sites in the datagram loop (expected 1)", len(reports)))
	if len(reports) != 1 {
		return
	}
	r := reports[0]
	rf := r.Parent()
	key := short(rf)
	// in the loop, once per iteration; when the report sits in a helper, the helper's (single) call in the loop stands for it
	var at ssa.Instruction = r
	if !inFamily[rf] {
		// calls that pass no association (a nil constant for a pointer parameter) report nothing: they only log
		var sites []*ssa.Call
		for _, sc := range helperSite[rf] {
			nilAssoc := false
			for _, ar := range sc.Call.Args {
				if k, isC := ar.(*ssa.Const); isC && k.IsNil() && eng.TypeName(ar.Type()) == a.m.connT {
					nilAssoc = true
				}
			}
			if !nilAssoc {
				sites = append(sites, sc)
			}
		}
		if len(sites) == 1 {
			at = sites[0]
		}
	}
	loops := eng.Loops(at.Parent())
	l := eng.InnermostLoop(loops, at.Block())
	c.CheckAt("CLIENT", key+":inside-the-datagram-loop", r, l != nil && at.Parent() == f, "the client packet report is not made in the datagram loop itself (once per datagram, also when handling failed)")
	if l != nil {
		isR := func(ins ssa.Instruction) bool { return ins == at }
		_, mx, _ := eng.CountOnPaths(eng.Point{B: l.Header}, isR, func(ins ssa.Instruction) bool {
			// stop when control returns to the header
			return false
		})
		c.CheckAt("CLIENT", key+":at-most-once-per-iteration", r, mx <= 1, "reported more than once per datagram")
	}
	// exactly when an association exists: cut by targetConn != nil, where targetConn is the per-iteration association variable
	recv := eng.Receiver(&r.Call)
	// the association the report is made on: a per-datagram variable (captured by the per-datagram closure) or the result of the
	// per-datagram helper; in both cases it lives in a cell somewhere, which is what "recorded on every path" is checked against
	var base ssa.Value
	for _, o := range p.Origins(recv, eng.OriginOpts{}) {
		if t, fl, b, ok := eng.FieldLoad(o); ok && t == a.m.connT && fl == a.m.metField {
			base = b
		}
	}
	// the places the association is kept in: a variable (cell), or a field of a per-datagram record that is handed to the
	// per-datagram helper by pointer
	type loc struct {
		cell  *ssa.Alloc
		field int // -1: the cell itself
	}
	structAllocOf := func(ptr ssa.Value) *ssa.Alloc {
		var found *ssa.Alloc
		for _, o := range p.Origins(ptr, eng.OriginOpts{ThroughConvert: true, Interproc: true}) {
			al, ok := o.(*ssa.Alloc)
			if !ok {
				return nil
			}
			if found != nil && found != al {
				return nil
			}
			found = al
		}
		return found
	}
	locOfAddr := func(addr ssa.Value) (loc, bool) {
		if cell := eng.CellRoot(addr); cell != nil {
			return loc{cell, -1}, true
		}
		if fa, ok := addr.(*ssa.FieldAddr); ok {
			if al := structAllocOf(fa.X); al != nil {
				return loc{al, fa.Field}, true
			}
		}
		return loc{}, false
	}
	locOfLoad := func(v ssa.Value) (loc, bool) {
		u, ok := v.(*ssa.UnOp)
		if !ok || u.Op != token.MUL {
			return loc{}, false
		}
		return locOfAddr(u.X)
	}
	var locs []loc
	hasLoc := func(l loc) bool {
		for _, x := range locs {
			if x == l {
				return true
			}
		}
		return false
	}
	if base != nil {
		stopAtLoc := deepF
		stopAtLoc.Stop = func(v ssa.Value) bool {
			_, ok := locOfLoad(v)
			return ok
		}
		for _, o := range p.Origins(base, stopAtLoc) {
			if l, ok := locOfLoad(o); ok && !hasLoc(l) {
				locs = append(locs, l)
			}
		}
	}
	// every store into one of those places, anywhere in the repo
	var locStores []*ssa.Store
	for _, l := range locs {
		if l.field < 0 {
			locStores = append(locStores, p.CellStores(l.cell)...)
			continue
		}
		for _, g := range p.Fns {
			for _, b := range g.Blocks {
				for _, ins := range b.Instrs {
					if st, ok := ins.(*ssa.Store); ok {
						if sl, ok := locOfAddr(st.Addr); ok && sl == l {
							locStores = append(locStores, st)
						}
					}
				}
			}
		}
	}
	if base == nil || len(locs) == 0 {
		c.CheckAt("CLIENT", key+":reported-on-the-association's-metrics", r, false, "the report is not made on the metrics object of this datagram's association")
	} else {
		isAssoc := func(v ssa.Value) bool {
			if v == base {
				return true
			}
			if l, ok := locOfLoad(v); ok && hasLoc(l) {
				return true
			}
			return false
		}
		_, nn := p.NilEdges(rf, isAssoc)
		c.CheckAt("CLIENT", key+":only-when-an-association-exists", r, len(nn) > 0 && eng.Cut(rf, r.Block(), nn), "the report is reachable when no association exists (nil dereference) or is not guarded by the association test")
		// per datagram: the tested value is produced inside the loop (a variable declared in it, or the helper's result)
		perIter := true
		if bi, ok := base.(ssa.Instruction); ok && bi.Parent() == rf {
			perIter = l != nil && l.Body[bi.Block()]
		}
		for _, lc := range locs {
			if lc.cell.Parent() == rf {
				if inner := eng.InnermostLoop(eng.Loops(rf), lc.cell.Block()); inner == nil {
					perIter = false
				}
			}
		}
		c.CheckAt("CLIENT", key+":association-variable-is-per-datagram", r, perIter, "the association variable is declared outside the loop: a datagram that finds no association is reported against the previous datagram's association")
		// the only stores: Get result and Add result
		for _, st := range locStores {
			g, _ := p.AllFrom(st.Val, deepF, func(v ssa.Value) bool {
				if cst, isC := v.(*ssa.Const); isC && cst.IsNil() {
					return true
				}
				cc, _, ok := eng.AsResult(v)
				return ok && (callTo(c, cc, a.m.get) || callTo(c, cc, a.m.add))
			})
			c.CheckAt("CLIENT", key+":association-variable-from-Get-or-Add", st, g, "the association variable receives something other than the result of the table lookup or of Add")
		}
		// ... and as soon as an association is known it is recorded in that variable, on every way out: a datagram that then
		// fails (wrong key, rejected destination) is still a datagram on a live association and must be reported
		for i, src := range append(append([]*ssa.Call{}, a.gets...), a.adds...) {
			src := src
			isRec := func(ins ssa.Instruction) bool {
				st, ok := ins.(*ssa.Store)
				if !ok {
					return false
				}
				sl, ok := locOfAddr(st.Addr)
				if !ok || !hasLoc(sl) {
					return false
				}
				return p.AnyFrom(st.Val, deepF, func(v ssa.Value) bool { return eng.ResultOf(v, src, 0) })
			}
			_, nonNil := p.NilEdges(src.Parent(), func(v ssa.Value) bool { return v == ssa.Value(src) || eng.ResultOf(v, src, 0) })
			okRec := true
			var bad ssa.Instruction
			if len(nonNil) > 0 {
				for _, e := range sortedEdges(nonNil) {
					if ok, b := a.R.MustPassUp(edgePoint(e), isRec); !ok {
						okRec, bad = false, b
					}
				}
			} else {
				okRec, bad = a.R.MustPassUp(eng.After(src), isRec)
			}
			c.CheckAt("CLIENT", fmt.Sprintf("%s:association#%d-recorded-on-every-path", key, i), src, okRec, fmt.Sprintf("an association was found/created here but a path leaves (%s) without recording it in the variable the report tests: datagrams that fail on a live association are not reported", p.IPos(bad)))
		}
	}
	// status
	okS, badS := statusOK(c, eng.Arg(&r.Call, 0))
	c.CheckAt("CLIENT", key+":status-is-OK-or-error-status", r, okS, "the status reported is neither \"OK\" nor the Status of the returned error: "+valsStr(p, badS))
	if ph, ok := eng.Arg(&r.Call, 0).(*ssa.Phi); ok {
		// "OK" must come from the nil edge
		_ = ph
	}
	// sizes: int64(n of this iteration's ReadFrom), int64(per-iteration cell stored from natconn.WriteTo result 0)
	sizeFrom := func(arg ssa.Value, want func(ssa.Value) bool) (bool, bool, []ssa.Value) {
		conv, ok := arg.(*ssa.Convert)
		if !ok {
			return false, true, []ssa.Value{arg}
		}
		fresh, _, _ := perIterationCell(c, conv.X)
		g, bad := p.AllFrom(conv.X, deepF, func(v ssa.Value) bool {
			if n, ok := eng.ConstInt(v); ok && n == 0 {
				return true
			}
			return want(v)
		})
		return g, fresh, bad
	}
	g1, f1, b1 := sizeFrom(eng.Arg(&r.Call, 1), func(v ssa.Value) bool { return a.readFrom != nil && eng.ResultOf(v, a.readFrom, 0) })
	c.CheckAt("CLIENT", key+":client-bytes-are-this-datagram's-read-size", r, g1 && f1, "clientProxyBytes is not the size returned by this iteration's ReadFrom: "+valsStr(p, b1))
	isSend := func(v ssa.Value) bool {
		for _, s := range a.sends {
			if eng.ResultOf(v, s, 0) {
				return true
			}
		}
		return false
	}
	g2, f2, b2 := sizeFrom(eng.Arg(&r.Call, 2), isSend)
	c.CheckAt("CLIENT", key+":target-bytes-are-this-datagram's-write-size", r, g2, "proxyTargetBytes is not the byte count returned by this datagram's write to the target: "+valsStr(p, b2))
	c.CheckAt("CLIENT", key+":target-bytes-variable-is-per-datagram", r, f2, "the variable holding the bytes sent to the target is declared outside the loop: a datagram that fails before the send is reported with the previous datagram's size instead of 0")
}

// C16.TARGET
func ruleTargetReport(c *Ctx, a *udpAnchors) {
	p := c.P
	n := 0
	for _, rf := range a.replyFns {
		var reports []*ssa.Call
		for _, g := range eng.Family(rf) {
			for _, cl := range eng.Calls(g) {
				if call, ok := cl.(*ssa.Call); ok && eng.MethodName(&call.Call) == "AddPacketFromTarget" {
					reports = append(reports, call)
				}
			}
		}
		c.Check("TARGET", short(rf)+":one-report-site", p.Pos(rf.Pos()), len(reports) == 1, fmt.Sprintf("%d AddPacketFromTarget call sites in the reply loop (expected 1)", len(reports)))
		if len(reports) != 1 {
			continue
		}
		n++
		r := reports[0]
		g := r.Parent()
		key := short(g)
		l := eng.InnermostLoop(eng.Loops(g), r.Block())
		c.CheckAt("TARGET", key+":inside-the-reply-loop", r, l != nil && g == rf, "the target packet report is not made in the reply loop itself")
		// not on expiry: the report is cut by the expired == false edge of the loop-exit test
		if l != nil {
			okExp := false
			for _, e := range l.Exits {
				iff, ok := e.From.Instrs[len(e.From.Instrs)-1].(*ssa.If)
				if !ok {
					continue
				}
				// the other successor of the exit test leads to the report
				for _, s := range e.From.Succs {
					if s != e.To && (s == r.Block() || s.Dominates(r.Block())) {
						okExp = true
					}
				}
				_ = iff
			}
			c.CheckAt("TARGET", key+":not-reported-on-expiry", r, okExp, "the report is not placed after the expiry test: the timeout that ends the association is counted as a packet")
			// every non-expiry iteration reports: from the loop header, every path to the back edge passes the report or exits
			isR := func(ins ssa.Instruction) bool { return ins == ssa.Instruction(r) }
			mn, mx := 1<<30, -1
			// count over acyclic paths header → back edge
			// flag facts along a path: the value a boolean variable (cell) was tested to have, valid until something can
			// assign it again (a store, or a call of one of this function's closures)
			family := map[*ssa.Function]bool{}
			for _, ff := range eng.Family(g) {
				family[ff] = true
			}
			flagOf := func(cond ssa.Value) (*ssa.Alloc, bool, bool) {
				neg := false
				for {
					u, ok := cond.(*ssa.UnOp)
					if !ok || u.Op != token.NOT {
						break
					}
					cond, neg = u.X, !neg
				}
				u, ok := cond.(*ssa.UnOp)
				if !ok || u.Op != token.MUL {
					return nil, false, false
				}
				cell := eng.CellRoot(u.X)
				return cell, neg, cell != nil
			}
			var walk func(b *ssa.BasicBlock, k int, seen map[*ssa.BasicBlock]bool, facts map[*ssa.Alloc]bool)
			walk = func(b *ssa.BasicBlock, k int, seen map[*ssa.BasicBlock]bool, facts map[*ssa.Alloc]bool) {
				for _, ins := range b.Instrs {
					if isR(ins) {
						k++
					}
					switch x := ins.(type) {
					case *ssa.Store:
						if cell := eng.CellRoot(x.Addr); cell != nil {
							delete(facts, cell)
						}
					case ssa.CallInstruction:
						invalidate := false
						for _, h := range p.Callees(x) {
							if family[h] {
								invalidate = true
							}
						}
						if _, isMC := x.Common().Value.(*ssa.MakeClosure); isMC {
							invalidate = true
						}
						if invalidate {
							for cell := range facts {
								delete(facts, cell)
							}
						}
					}
				}
				for si, s := range b.Succs {
					nf := facts
					if iff, isIf := b.Instrs[len(b.Instrs)-1].(*ssa.If); isIf && len(b.Succs) == 2 {
						if cell, neg, ok := flagOf(iff.Cond); ok {
							nf = map[*ssa.Alloc]bool{}
							for kk, vv := range facts {
								nf[kk] = vv
							}
							nf[cell] = (si == 0) != neg
						}
					}
					if s == l.Header {
						// a path on which the loop condition is already known to fail does not start another iteration
						continues := true
						if hif, isIf := l.Header.Instrs[len(l.Header.Instrs)-1].(*ssa.If); isIf && len(l.Header.Succs) == 2 {
							if cell, neg, ok := flagOf(hif.Cond); ok {
								if val, known := nf[cell]; known {
									// the header has no store/call before its test (it only loads the flag)
									clean := true
									for _, hi := range l.Header.Instrs {
										switch hi.(type) {
										case *ssa.Store, ssa.CallInstruction:
											clean = false
										}
									}
									taken := 1
									if val != neg {
										taken = 0
									}
									if clean && !l.Body[l.Header.Succs[taken]] {
										continues = false
									}
								}
							}
						}
						if !continues {
							continue
						}
						if k < mn {
							mn = k
						}
						if k > mx {
							mx = k
						}
						continue
					}
					if !l.Body[s] || seen[s] {
						continue
					}
					seen[s] = true
					walk(s, k, seen, nf)
					delete(seen, s)
				}
			}
			walk(l.Header, 0, map[*ssa.BasicBlock]bool{l.Header: true}, map[*ssa.Alloc]bool{})
			c.CheckAt("TARGET", key+":exactly-once-per-iteration", r, mn == 1 && mx == 1, fmt.Sprintf("a reply iteration that continues the loop reports %d..%d times (must be exactly once)", mn, mx))
		}
		okS, badS := statusOK(c, eng.Arg(&r.Call, 0))
		c.CheckAt("TARGET", key+":status-is-OK-or-error-status", r, okS, "the status reported is neither \"OK\" nor the Status of the returned error: "+valsStr(p, badS))
		// sizes
		var rd, wr *ssa.Call
		for _, rs := range findReplySites(c, a) {
			if rs.rf != rf {
				continue
			}
			if len(rs.reads) > 0 {
				rd = rs.reads[0]
			}
			if len(rs.writes) > 0 {
				wr = rs.writes[0]
			}
		}
		chk := func(arg ssa.Value, src *ssa.Call, what, why string) {
			conv, ok := arg.(*ssa.Convert)
			good, fresh := false, false
			var bad []ssa.Value
			if ok {
				fresh, _, _ = perIterationCell(c, conv.X)
				good, bad = p.AllFrom(conv.X, deepF, func(v ssa.Value) bool {
					if n, ok := eng.ConstInt(v); ok && n == 0 {
						return true
					}
					return src != nil && eng.ResultOf(v, src, 0)
				})
			}
			c.CheckAt("TARGET", key+":"+what, r, good, why+": "+valsStr(p, bad))
			c.CheckAt("TARGET", key+":"+what+":per-iteration-variable", r, fresh, "the variable is declared outside the reply loop: a failed iteration is reported with the previous reply's size")
		}
		chk(eng.Arg(&r.Call, 1), rd, "target-bytes-are-this-reply's-read-size", "targetProxyBytes is not the size returned by this iteration's read from the target")
		chk(eng.Arg(&r.Call, 2), wr, "client-bytes-are-this-reply's-write-result", "proxyClientBytes is not the byte count returned by this iteration's write to the client (e.g. the length of the packed buffer): a failed write is reported as sent")
	}
	c.Floor("TARGET", "reply loops with a report", n, 1)
}

// ARITY over every WithLabelValues call in the Prometheus adapters and the server command (shared with C15, C20).
func ruleArityAll(c *Ctx, rule string) {
	n := 0
	for _, f := range c.P.Fns {
		pp := eng.PkgPathOf(f)
		if pp != eng.Mod+"/prometheus" && !strings.HasPrefix(pp, eng.Mod+"/cmd/") {
			continue
		}
		for _, cl := range eng.Calls(f) {
			call, ok := cl.(*ssa.Call)
			if !ok || !strings.HasSuffix(eng.CalleeName(&call.Call), ").WithLabelValues") {
				continue
			}
			n++
			ok2, why := arityDischarge(c, call)
			c.CheckAt(rule, short(f)+":"+labelVecName(c, call), call, ok2, why)
		}
	}
	c.Floor(rule, "WithLabelValues call sites", n, 10)
}

// WIRING: in the proxy collector the four sizes go to the direction labels c>p, p>t, p<t, c<p, in the functions for the matching flow.
func ruleDirWiring(c *Ctx, rule string) {
	p := c.P
	want := map[string][2]string{
		"addClientTarget": {"c>p", "p>t"}, // (clientProxyBytes, proxyTargetBytes)
		"addTargetClient": {"p<t", "c<p"}, // (targetProxyBytes, proxyClientBytes)
	}
	n := 0
	for _, f := range p.FnsIn("prometheus") {
		w, ok := want[f.Name()]
		if !ok || f.Signature.Recv() == nil {
			continue
		}
		n++
		for _, cl := range eng.Calls(f) {
			call, ok := cl.(*ssa.Call)
			if !ok || len(repoCallees(c, call)) == 0 || call.Call.Signature().Variadic() == false {
				continue
			}
			// addIfNonZero(value, vec, dir, ...)
			val := call.Call.Args[0]
			pi := -1
			for i, pa := range f.Params {
				if p.Resolve(val) == ssa.Value(pa) {
					pi = i
				}
			}
			if pi < 1 || pi > 2 {
				c.CheckAt(rule, short(f)+":value-is-a-size-parameter", call, false, "the value added is not one of the two size parameters")
				continue
			}
			dir := ""
			if sl, ok := call.Call.Args[2].(*ssa.Slice); ok {
				if al, ok := sl.X.(*ssa.Alloc); ok {
					for _, r := range *al.Referrers() {
						if ia, ok := r.(*ssa.IndexAddr); ok {
							if k, ok := eng.ConstInt(ia.Index); ok && k == 0 {
								for _, rr := range *ia.Referrers() {
									if st, ok := rr.(*ssa.Store); ok {
										dir, _ = eng.ConstString(st.Val)
									}
								}
							}
						}
					}
				}
			}
			c.CheckAt(rule, fmt.Sprintf("%s:param#%d->%s", short(f), pi, w[pi-1]), call, dir == w[pi-1], fmt.Sprintf("size parameter %d of %s is reported under direction %q, expected %q", pi, f.Name(), dir, w[pi-1]))
			// the report of one size never depends on the other size (an early return on "nothing sent" would drop the bytes
			// that were received: an empty datagram still has a wire size)
			other := ""
			for _, b := range f.Blocks {
				iff, ok := b.Instrs[len(b.Instrs)-1].(*ssa.If)
				if !ok {
					continue
				}
				r0, r1 := eng.ReachBlocks(b.Succs[0], nil), eng.ReachBlocks(b.Succs[1], nil)
				r0[b.Succs[0]], r1[b.Succs[1]] = true, true
				if r0[call.Block()] == r1[call.Block()] {
					continue
				}
				for _, o := range p.Origins(iff.Cond, eng.OriginOpts{ThroughBinOp: true, ThroughConvert: true}) {
					for i, pa := range f.Params {
						if o == ssa.Value(pa) && i != pi && (i == 1 || i == 2) {
							other = pa.Name()
						}
					}
				}
			}
			c.CheckAt(rule, fmt.Sprintf("%s:param#%d:reported-whatever-the-other-size", short(f), pi), call, other == "", fmt.Sprintf("whether size parameter %d of %s is reported depends on the other size (%s): bytes of a datagram whose counterpart is empty are dropped from the counters", pi, f.Name(), other))
		}
	}
	c.Floor(rule, "direction-mapping functions in the proxy collector", n, 2)
	// the adapters pass (a, b) in declaration order
	for _, f := range p.FnsIn("prometheus") {
		for _, cl := range eng.Calls(f) {
			call, ok := cl.(*ssa.Call)
			if !ok {
				continue
			}
			for _, callee := range repoCallees(c, call) {
				if _, ok := want[callee.Name()]; !ok || callee.Signature.Recv() == nil {
					continue
				}
				// arguments 1 and 2 must be the caller's matching size values: parameters in the same order, or fields ClientProxy/ProxyTarget/TargetProxy/ProxyClient
				fields := map[string][2]string{"addClientTarget": {"ClientProxy", "ProxyTarget"}, "addTargetClient": {"TargetProxy", "ProxyClient"}}[callee.Name()]
				for k := 0; k < 2; k++ {
					arg := p.Resolve(call.Call.Args[1+k])
					good := false
					if pa, ok := arg.(*ssa.Parameter); ok {
						// same relative order among the caller's int64 parameters
						var ints []*ssa.Parameter
						for _, q := range f.Params {
							if q.Type().String() == "int64" {
								ints = append(ints, q)
							}
						}
						good = k < len(ints) && ints[k] == pa
					} else if _, fl, _, ok := eng.FieldLoad(arg); ok {
						good = fl == fields[k]
					}
					c.CheckAt(rule, fmt.Sprintf("%s:%s:arg#%d", short(f), callee.Name(), k), call, good, fmt.Sprintf("argument %d passed to %s is not the matching size (%s): directions are swapped", k, callee.Name(), fields[k]))
				}
			}
		}
	}
}

// ruleVerdictKept (C16.STAGES): a destination the validator rejects is reported with the validator's own status when its
// error carries one — the failure edge of every validator call returns the error through a status-preserving conversion
// (errors.As into a *ConnectionError, or a helper built on it), not a new error with a fixed status that keeps the
// validator's verdict only as a cause. Otherwise a datagram to a private address on a live association is counted under
// a status that names another outcome.
func ruleVerdictKept(c *Ctx, a *udpAnchors, rule string) {
	p := c.P
	// status-preserving helpers: take an error, apply errors.As(err, &x) with x a *ConnectionError, and return x
	preserving := map[*ssa.Function]int{}
	for _, f := range p.Fns {
		if p.IsTestSupport(f) || f.Signature.Results().Len() != 1 || eng.TypeName(f.Signature.Results().At(0).Type()) != "net.ConnectionError" {
			continue
		}
		for _, cl := range eng.Calls(f) {
			call, ok := cl.(*ssa.Call)
			if !ok || eng.CalleeName(&call.Call) != "errors.As" {
				continue
			}
			for i, pa := range f.Params {
				if p.AnyFrom(call.Call.Args[0], eng.OriginOpts{ThroughConvert: true}, func(v ssa.Value) bool { return v == ssa.Value(pa) }) {
					cell := eng.CellRoot(call.Call.Args[1])
					if cell == nil {
						// &x converted to any: look through the MakeInterface
						if mi, ok := call.Call.Args[1].(*ssa.MakeInterface); ok {
							cell = eng.CellRoot(mi.X)
						}
					}
					for _, r := range eng.Returns(f) {
						if len(r.Results) == 1 && cell != nil && p.AnyFrom(r.Results[0], eng.OriginOpts{}, func(v ssa.Value) bool {
							u, ok := v.(*ssa.UnOp)
							return ok && eng.CellRoot(u.X) == cell
						}) {
							preserving[f] = i
						}
					}
				}
			}
		}
	}
	// ... and wrappers of those (targetRejectedError(err) = ensureConnectionError(err, status, msg))
	for changed := true; changed; {
		changed = false
		for _, f := range p.Fns {
			if _, done := preserving[f]; done || p.IsTestSupport(f) || f.Signature.Results().Len() != 1 || eng.TypeName(f.Signature.Results().At(0).Type()) != "net.ConnectionError" {
				continue
			}
			for i, pa := range f.Params {
				all, nr := true, 0
				for _, r := range eng.Returns(f) {
					nr++
					g, _ := p.AllFrom(r.Results[0], eng.Plain, func(v ssa.Value) bool {
						cc, ok := v.(*ssa.Call)
						if !ok {
							return false
						}
						idx, isP := preserving[cc.Call.StaticCallee()]
						return isP && idx < len(cc.Call.Args) && p.AnyFrom(cc.Call.Args[idx], eng.OriginOpts{ThroughConvert: true}, func(y ssa.Value) bool { return y == ssa.Value(pa) })
					})
					if !g {
						all = false
					}
				}
				if all && nr > 0 {
					preserving[f] = i
					changed = true
				}
			}
		}
	}
	n := 0
	for _, v := range a.vals {
		f := v.Parent()
		ei := errorResultIndex(v.Call.Signature())
		if ei < 0 {
			continue
		}
		_, fail := p.SuccessEdges(f, []ssa.CallInstruction{v}, ei)
		var verr ssa.Value = v
		if v.Call.Signature().Results().Len() > 1 {
			for _, r := range *v.Referrers() {
				if ex, ok := r.(*ssa.Extract); ok && ex.Index == ei {
					verr = ex
				}
			}
		}
		check := func(at ssa.Instruction, i int, rv ssa.Value) {
			n++
			good, bad := p.AllFrom(rv, eng.OriginOpts{ThroughConvert: true}, func(x ssa.Value) bool {
				if x == verr {
					return true
				}
				cc, ok := x.(*ssa.Call)
				if !ok {
					return false
				}
				h := cc.Call.StaticCallee()
				idx, isP := preserving[h]
				if !isP || idx >= len(cc.Call.Args) {
					return false
				}
				return p.AnyFrom(cc.Call.Args[idx], eng.OriginOpts{ThroughConvert: true}, func(y ssa.Value) bool { return y == verr })
			})
			c.CheckAt(rule, fmt.Sprintf("%s:validator-verdict-keeps-its-status#%d", short(f), i), at, good, "a destination rejected by the validator is reported with a status chosen here, not with the status the validator's error carries ("+valsStr(p, bad)+"): the datagram is counted under a status that names another outcome")
		}
		for _, e := range sortedEdges(fail) {
			reach := eng.ReachBlocks(e.To, nil)
			only := eng.EdgeSet{e: true}
			for _, r := range eng.Returns(f) {
				if !reach[r.Block()] {
					continue
				}
				for i, res := range r.Results {
					if eng.TypeName(res.Type()) != "net.ConnectionError" {
						continue
					}
					rv := res
					if s := p.ReachingStore(rv, r); s != nil {
						rv = s
					}
					if len(e.To.Preds) == 1 && eng.Cut(f, r.Block(), only) {
						// a return that belongs to this failure only
						check(r, i, rv)
						continue
					}
					// a single exit: the value that arrives from the failure branch
					if ph, isPhi := rv.(*ssa.Phi); isPhi {
						for k, ev := range ph.Edges {
							pred := ph.Block().Preds[k]
							if (pred == e.From && ph.Block() == e.To) || (len(e.To.Preds) == 1 && (pred == e.To || eng.Cut(f, pred, only))) {
								check(r, i, ev)
							}
						}
					}
				}
			}
		}
	}
	c.Floor(rule, "returns on the validator's failure edge", n, 1)
}

// ruleSendFailure: "a status naming its outcome" — the error of the send to the target is tested, and from the send the function
// can return "no error" only over the success edge of that test. (A shadowed err, or a test of another variable, reports a
// datagram that was never relayed as OK with a payload size.)
func ruleSendFailure(c *Ctx, a *udpAnchors, rule string) {
	p := c.P
	for i, s := range a.sends {
		f := s.Parent()
		key := fmt.Sprintf("send-to-target#%d", i)
		ei := errorResultIndex(s.Call.Signature())
		if ei < 0 {
			continue
		}
		succ, fail := p.SuccessEdges(f, []ssa.CallInstruction{s}, ei)
		c.CheckAt(rule, key+":send-error-is-tested", s, len(succ) > 0 && len(fail) > 0, "the error returned by the send to the target is never tested")
		if len(succ) == 0 {
			continue
		}
		reach := eng.ReachBlocks(s.Block(), nil)
		reach[s.Block()] = true
		behindBlock := func(b *ssa.BasicBlock) bool { return !reach[b] || eng.CutFrom(s.Block(), b, succ) }
		var okVal func(v ssa.Value, r *ssa.Return, d int) bool
		okVal = func(v ssa.Value, r *ssa.Return, d int) bool {
			if p.DefinitelyNonNil(v, r) {
				return true
			}
			if ph, isPhi := v.(*ssa.Phi); isPhi && d < 8 {
				for k, ev := range ph.Edges {
					pred := ph.Block().Preds[k]
					if succ[eng.Edge{From: pred, To: ph.Block()}] || behindBlock(pred) {
						continue
					}
					if !okVal(ev, r, d+1) {
						return false
					}
				}
				return true
			}
			if ins, isIns := v.(ssa.Instruction); isIns && ins.Block() != nil && ins.Parent() == f {
				if _, isC := v.(*ssa.Const); !isC {
					return behindBlock(ins.Block())
				}
			}
			return false
		}
		nr := 0
		for j, r := range eng.Returns(f) {
			if !reach[r.Block()] || r.Block().Comment == "recover" {
				continue
			}
			for k, res := range r.Results {
				tn := eng.TypeName(res.Type())
				if tn != "net.ConnectionError" && tn != "error" {
					continue
				}
				nr++
				v := res
				if k == 0 {
					v = retVal(p, r)
				} else if sv := p.ReachingStore(res, r); sv != nil {
					v = sv
				}
				good := behindBlock(r.Block()) || okVal(v, r, 0)
				c.CheckAt(rule, fmt.Sprintf("%s:failure-is-returned:return#%d", key, j), r, good, "after the send to the target this return can report \"no error\" on a path that does not cross the success edge of the send's error test (the test looks at another variable, e.g. a shadowed err): a datagram that was not relayed is reported as OK")
			}
		}
		c.Floor(rule, "error-typed returns after "+key, nr, 1)
	}
}
