package rules

import (
	"fmt"
	"go/token"
	"sort"
	"strings"

	"golang.org/x/tools/go/ssa"

	"verif/internal/eng"
)

// C01.SNAPSHOT: the per-connection snapshot of the key list contains every key of the list exactly once, whatever the
// last-client-IP state is. Decided as a finite case analysis over the branch predicates of the traversal loops:
//
//   - every loop that walks the guarded list (Front … Next) leaves only when the list is exhausted;
//   - the conditions under which a loop places the current element into a slice are canonicalised (same pure callee / same
//     comparison over "the element", parameters of the function and constants ⇒ same predicate, a negation flips it);
//   - for every truth assignment of those predicates the element is placed by exactly one loop, on every path of that loop;
//   - every slice an element is placed into flows into the returned slice (append / copy / return).
//
// Assumes the predicates are pure and stable between the loops (they run under the list's read lock; C19 decides that the
// fields they read are written only under the write lock).

type snapLoop struct {
	ctx    *ssa.Call // call site of the traversal helper this instance stands for (nil: the traversal is in the method itself)
	l      *eng.Loop
	elem   *ssa.Phi
	places map[ssa.Instruction]ssa.Value // placement instruction → slice value it places into
}

func ruleSnapshot(c *Ctx) {
	p := c.P
	n := 0
	for _, f := range p.FnsIn("service") {
		if f.Name() != "SnapshotForClientIP" || f.Parent() != nil || f.Synthetic != "" || len(f.Blocks) == 0 || f.Signature.Recv() == nil {
			continue
		}
		n++
		// the traversal may live in a helper (e.g. a "locked" variant): analyse the function of the region that walks the list
		recvT := eng.TypeName(f.Signature.Recv().Type())
		g := f
		reg := c.NewRegion(f, 2, func(h *ssa.Function) bool { return eng.PkgPathOf(h) != eng.Mod+"/service" })
		for _, h := range reg.Fns {
			if bodyHas(h, isCall("(*container/list.List).Front")) {
				g = h
			}
		}
		var ctxs []*ssa.Call
		if g != f {
			ctxs = reg.FindCalls(func(_ string, call *ssa.Call) bool { return call.Call.StaticCallee() == g && call.Parent() == f })
			if len(ctxs) == 0 {
				c.Undecided("SNAPSHOT", short(f)+":traversal-helper-called-directly", p.Pos(f.Pos()), "the list is walked in a helper that the method does not call directly")
				continue
			}
		}
		snapshotFn(c, f, g, ctxs, recvT)
	}
	c.Floor("SNAPSHOT", "implementations of CipherList.SnapshotForClientIP", n, 1)
}

func snapshotFn(c *Ctx, root, f *ssa.Function, ctxs []*ssa.Call, recvT string) {
	p := c.P
	key := short(f)
	if len(ctxs) == 0 {
		ctxs = []*ssa.Call{nil}
	}
	var loops []*snapLoop
	for _, l := range eng.Loops(f) {
		var elem *ssa.Phi
		for _, ins := range l.Header.Instrs {
			ph, ok := ins.(*ssa.Phi)
			if !ok || ph.Type().String() != "*container/list.Element" {
				continue
			}
			front, next := false, false
			for _, e := range ph.Edges {
				if call, ok := e.(*ssa.Call); ok {
					switch eng.CalleeName(&call.Call) {
					case "(*container/list.List).Front":
						if p.AnyFrom(call.Call.Args[0], eng.Deep, func(v ssa.Value) bool { t, _, _, ok := eng.FieldLoad(v); return ok && t == recvT }) {
							front = true // the guarded list itself, or a parameter that receives it from the locking method
						}
					case "(*container/list.Element).Next":
						if call.Call.Args[0] == ssa.Value(ph) {
							next = true
						}
					}
				}
			}
			if front && next {
				elem = ph
			}
		}
		if elem == nil {
			continue
		}
		for _, cx := range ctxs {
			loops = append(loops, &snapLoop{ctx: cx, l: l, elem: elem, places: map[ssa.Instruction]ssa.Value{}})
		}
	}
	if !c.Floor("SNAPSHOT", "loops over the guarded list in "+key, len(loops), 1) {
		return
	}
	// exits: only "element == nil"
	for i, sl := range loops {
		for j, e := range sl.l.Exits {
			ok := false
			if e.From == sl.l.Header {
				if iff, isIf := e.From.Instrs[len(e.From.Instrs)-1].(*ssa.If); isIf {
					if x, _, isNil := eng.NilCompare(iff.Cond); isNil && x == ssa.Value(sl.elem) {
						ok = true
					}
				}
			}
			c.Check("SNAPSHOT", fmt.Sprintf("%s:loop#%d:exit#%d:only-when-exhausted", key, i, j), blockPos(p, e.From), ok, "a loop over the key list can stop before the end of the list (break / return inside the loop): the keys after that point are missing from the snapshot, so valid clients using them are rejected")
		}
	}
	// placements
	for _, sl := range loops {
		for b := range sl.l.Body {
			for _, ins := range b.Instrs {
				st, ok := ins.(*ssa.Store)
				if !ok || st.Val != ssa.Value(sl.elem) {
					continue
				}
				ia, ok := st.Addr.(*ssa.IndexAddr)
				if !ok {
					continue
				}
				if arr, isArr := ia.X.(*ssa.Alloc); isArr {
					// varargs array of an append call
					for _, r := range *arr.Referrers() {
						if s, ok := r.(*ssa.Slice); ok {
							for _, rr := range *s.Referrers() {
								if call, ok := rr.(*ssa.Call); ok {
									if bi, ok := call.Call.Value.(*ssa.Builtin); ok && bi.Name() == "append" && sl.l.Body[call.Block()] {
										sl.places[call] = call
									}
								}
							}
						}
					}
					continue
				}
				sl.places[st] = ia.X
			}
		}
	}
	// canonical predicates
	canon := func(sl *snapLoop) func(v ssa.Value) (string, bool) {
		var arg func(v ssa.Value, d int) (string, bool)
		arg = func(v ssa.Value, d int) (string, bool) {
			if d > 8 {
				return "", false
			}
			switch x := v.(type) {
			case *ssa.Phi:
				if x == sl.elem {
					return "E", true
				}
			case *ssa.Parameter:
				for i, q := range f.Params {
					if q != x {
						continue
					}
					if sl.ctx == nil {
						return fmt.Sprintf("R%d", i), true
					}
					// the helper's parameter, expressed in the method's terms: a constant or a parameter of the method
					if i < len(sl.ctx.Call.Args) {
						switch a := sl.ctx.Call.Args[i].(type) {
						case *ssa.Const:
							return "const:" + a.String(), true
						case *ssa.Parameter:
							for j, rq := range root.Params {
								if rq == a {
									return fmt.Sprintf("R%d", j), true
								}
							}
						}
					}
					return "", false
				}
			case *ssa.Const:
				return "const:" + x.String(), true
			case *ssa.UnOp:
				if x.Op == token.MUL {
					return arg(x.X, d+1)
				}
			case *ssa.FieldAddr:
				s, ok := arg(x.X, d+1)
				return fmt.Sprintf("%s.f%d", s, x.Field), ok
			case *ssa.Field:
				s, ok := arg(x.X, d+1)
				return fmt.Sprintf("%s.f%d", s, x.Field), ok
			case *ssa.TypeAssert:
				s, ok := arg(x.X, d+1)
				return s + ".(" + x.AssertedType.String() + ")", ok
			case *ssa.Extract:
				s, ok := arg(x.Tuple, d+1)
				return fmt.Sprintf("%s#%d", s, x.Index), ok
			case *ssa.MakeInterface:
				return arg(x.X, d+1)
			case *ssa.ChangeType:
				return arg(x.X, d+1)
			case *ssa.Alloc:
				// zero-value composite (netip.Addr{}): stores of constants only
				return "zero:" + x.Type().String(), true
			case *ssa.Call:
				g := x.Call.StaticCallee()
				if g == nil {
					return "", false
				}
				var parts []string
				for _, a := range x.Call.Args {
					s, ok := arg(a, d+1)
					if !ok {
						return "", false
					}
					parts = append(parts, s)
				}
				return g.String() + "(" + strings.Join(parts, ",") + ")", true
			}
			return "", false
		}
		return func(v ssa.Value) (string, bool) { return arg(v, 0) }
	}
	type lit struct {
		key string
		pos bool
	}
	litOf := func(sl *snapLoop, cond ssa.Value) (lit, bool) {
		pos := true
		for {
			u, ok := cond.(*ssa.UnOp)
			if !ok || u.Op != token.NOT {
				break
			}
			pos = !pos
			cond = u.X
		}
		cn := canon(sl)
		if bo, ok := cond.(*ssa.BinOp); ok && (bo.Op == token.EQL || bo.Op == token.NEQ) {
			a, ok1 := cn(bo.X)
			b, ok2 := cn(bo.Y)
			if ok1 && ok2 {
				if bo.Op == token.NEQ {
					pos = !pos
				}
				// x == true / x == false
				for _, pr := range [][2]string{{a, b}, {b, a}} {
					if pr[1] == "const:true:bool" {
						return lit{pr[0], pos}, true
					}
					if pr[1] == "const:false:bool" {
						return lit{pr[0], !pos}, true
					}
				}
				if a > b {
					a, b = b, a
				}
				return lit{"cmp:" + a + "==" + b, pos}, true
			}
			return lit{}, false
		}
		s, ok := cn(cond)
		return lit{s, pos}, ok
	}
	keys := map[string]bool{}
	for _, sl := range loops {
		for b := range sl.l.Body {
			if b == sl.l.Header {
				continue
			}
			if iff, ok := b.Instrs[len(b.Instrs)-1].(*ssa.If); ok {
				if lt, ok := litOf(sl, iff.Cond); ok {
					keys[lt.key] = true
				}
			}
		}
	}
	var ks []string
	for k := range keys {
		ks = append(ks, k)
	}
	sort.Strings(ks)
	if len(ks) > 6 {
		c.Undecided("SNAPSHOT", key+":case-analysis", p.Pos(f.Pos()), fmt.Sprintf("%d distinct branch predicates in the traversal loops: too many for the case analysis", len(ks)))
		return
	}
	// placed(sl, A): on every path through one iteration consistent with A the element is placed
	placed := func(sl *snapLoop, A map[string]bool) bool {
		var body *ssa.BasicBlock
		for _, s := range sl.l.Header.Succs {
			if sl.l.Body[s] && s != sl.l.Header {
				body = s
			}
		}
		if body == nil {
			return false
		}
		var walk func(b *ssa.BasicBlock, done bool, onPath map[*ssa.BasicBlock]bool) bool
		walk = func(b *ssa.BasicBlock, done bool, onPath map[*ssa.BasicBlock]bool) bool {
			if b == sl.l.Header || !sl.l.Body[b] {
				return done
			}
			if onPath[b] {
				return false // inner loop: not analysed
			}
			onPath[b] = true
			defer delete(onPath, b)
			for _, ins := range b.Instrs {
				if _, ok := sl.places[ins]; ok {
					done = true
				}
			}
			if iff, ok := b.Instrs[len(b.Instrs)-1].(*ssa.If); ok {
				if lt, ok := litOf(sl, iff.Cond); ok {
					v, known := A[lt.key]
					if known {
						if v == lt.pos {
							return walk(b.Succs[0], done, onPath)
						}
						return walk(b.Succs[1], done, onPath)
					}
				}
				return walk(b.Succs[0], done, onPath) && walk(b.Succs[1], done, onPath)
			}
			for _, s := range b.Succs {
				if !walk(s, done, onPath) {
					return false
				}
			}
			return len(b.Succs) > 0
		}
		return walk(body, false, map[*ssa.BasicBlock]bool{})
	}
	// may-place (some path places): used for the "at most once" half
	mayPlace := func(sl *snapLoop, A map[string]bool) bool {
		var body *ssa.BasicBlock
		for _, s := range sl.l.Header.Succs {
			if sl.l.Body[s] && s != sl.l.Header {
				body = s
			}
		}
		seen := map[*ssa.BasicBlock]bool{}
		found := false
		var walk func(b *ssa.BasicBlock)
		walk = func(b *ssa.BasicBlock) {
			if b == nil || b == sl.l.Header || !sl.l.Body[b] || seen[b] {
				return
			}
			seen[b] = true
			for _, ins := range b.Instrs {
				if _, ok := sl.places[ins]; ok {
					found = true
				}
			}
			if iff, ok := b.Instrs[len(b.Instrs)-1].(*ssa.If); ok {
				if lt, ok := litOf(sl, iff.Cond); ok {
					if v, known := A[lt.key]; known {
						if v == lt.pos {
							walk(b.Succs[0])
						} else {
							walk(b.Succs[1])
						}
						return
					}
				}
			}
			for _, s := range b.Succs {
				walk(s)
			}
		}
		walk(body)
		return found
	}
	// conditions outside the loops under which a whole pass is skipped (`if len(result) == 0 { second pass }`): a pass that does
	// not run places nothing. They are enumerated like the element predicates; a combination under which no pass runs at all is
	// an emptiness shortcut and is not a case.
	inAnyLoop := func(b *ssa.BasicBlock) bool {
		for _, sl := range loops {
			if sl.l.Body[b] {
				return true
			}
		}
		return false
	}
	type gfact struct {
		cond ssa.Value
		val  bool
	}
	gfacts := map[*snapLoop][]gfact{}
	var gconds []ssa.Value
	for _, sl := range loops {
		for _, bf := range eng.BranchFacts(sl.l.Header) {
			ci, isI := bf.Cond.(ssa.Instruction)
			if isI && inAnyLoop(ci.Block()) {
				continue
			}
			gfacts[sl] = append(gfacts[sl], gfact{bf.Cond, bf.Val})
			dup := false
			for _, g := range gconds {
				if g == bf.Cond {
					dup = true
				}
			}
			if !dup {
				gconds = append(gconds, bf.Cond)
			}
		}
	}
	if len(gconds) > 4 {
		c.Undecided("SNAPSHOT", key+":case-analysis", p.Pos(f.Pos()), fmt.Sprintf("%d conditions guard the passes over the list: too many for the case analysis", len(gconds)))
		return
	}
	okAll, okOnce := true, true
	why := ""
	for gmask := 0; gmask < 1<<len(gconds); gmask++ {
		G := map[ssa.Value]bool{}
		for i, g := range gconds {
			G[g] = gmask&(1<<i) != 0
		}
		var running []*snapLoop
		for _, sl := range loops {
			runs := true
			for _, gf := range gfacts[sl] {
				if G[gf.cond] != gf.val {
					runs = false
				}
			}
			if runs {
				running = append(running, sl)
			}
		}
		if len(running) == 0 {
			continue
		}
		for mask := 0; mask < 1<<len(ks); mask++ {
			A := map[string]bool{}
			var desc []string
			for i, k := range ks {
				A[k] = mask&(1<<i) != 0
				desc = append(desc, fmt.Sprintf("p%d=%v", i, A[k]))
			}
			if len(running) < len(loops) {
				desc = append(desc, fmt.Sprintf("with %d of %d passes skipped by a condition outside the loops", len(loops)-len(running), len(loops)))
			}
			must, may := 0, 0
			for _, sl := range running {
				if placed(sl, A) {
					must++
				}
				if mayPlace(sl, A) {
					may++
				}
			}
			if must == 0 {
				okAll = false
				why = "case " + strings.Join(desc, ",")
			}
			if may > 1 {
				okOnce = false
				why = "case " + strings.Join(desc, ",")
			}
		}
	}
	c.Check("SNAPSHOT", key+":every-key-is-placed-in-every-case", p.Pos(f.Pos()), okAll, fmt.Sprintf("for some last-client-IP state (%s; predicates: %s) no loop places the current key into the snapshot: that key is missing and its clients are rejected", why, strings.Join(ks, " | ")))
	c.Check("SNAPSHOT", key+":no-key-is-placed-twice", p.Pos(f.Pos()), okOnce, fmt.Sprintf("for some last-client-IP state (%s) more than one loop places the current key: the snapshot overflows or lists a key twice", why))
	// the slices elements are placed into reach the returned value
	reach := map[ssa.Value]bool{}
	var back func(v ssa.Value, d int)
	back = func(v ssa.Value, d int) {
		if v == nil || reach[v] || d > 40 {
			return
		}
		reach[v] = true
		switch x := v.(type) {
		case *ssa.Phi:
			for _, e := range x.Edges {
				back(e, d+1)
			}
		case *ssa.Slice:
			back(x.X, d+1)
		case *ssa.UnOp:
			if x.Op == token.MUL {
				if cell := eng.CellRoot(x.X); cell != nil {
					for _, st := range p.CellStores(cell) {
						back(st.Val, d+1)
					}
				}
			}
		case *ssa.Call:
			if bi, ok := x.Call.Value.(*ssa.Builtin); ok && bi.Name() == "append" {
				for _, a := range x.Call.Args {
					back(a, d+1)
				}
			}
			if root != f && x.Call.StaticCallee() == f {
				for _, a := range x.Call.Args {
					back(a, d+1)
				}
			}
		case *ssa.ChangeType:
			back(x.X, d+1)
		}
	}
	if root != f {
		for _, r := range eng.Returns(root) {
			if r.Block().Comment != "recover" && len(r.Results) > 0 {
				back(r.Results[0], 0)
			}
		}
		for i, cx := range ctxs {
			c.CheckAt("SNAPSHOT", fmt.Sprintf("%s:helper-call#%d:result-reaches-the-snapshot", short(root), i), cx, reach[cx], "the keys collected by this call of the traversal helper do not end up in the returned snapshot")
		}
	}
	for _, r := range eng.Returns(f) {
		if r.Block().Comment == "recover" {
			continue
		}
		if len(r.Results) > 0 {
			back(r.Results[0], 0)
		}
	}
	// copy(dst, src) with dst reaching the result: src reaches it too (iterate to a fixpoint)
	for changed := true; changed; {
		changed = false
		for _, cl := range eng.Calls(f) {
			call, ok := cl.(*ssa.Call)
			if !ok {
				continue
			}
			bi, ok := call.Call.Value.(*ssa.Builtin)
			if !ok || bi.Name() != "copy" {
				continue
			}
			dst := call.Call.Args[0]
			for {
				if s, ok := dst.(*ssa.Slice); ok {
					dst = s.X
					continue
				}
				break
			}
			if reach[dst] && !reach[call.Call.Args[1]] {
				back(call.Call.Args[1], 0)
				changed = true
			}
		}
	}
	nP := 0
	for i, sl := range loops {
		for ins, tgt := range sl.places {
			nP++
			c.CheckAt("SNAPSHOT", fmt.Sprintf("%s:loop#%d:placed-keys-reach-the-result", key, i), ins, reach[tgt] || reach[p.Resolve(tgt)], "keys are collected into a slice that does not end up in the returned snapshot")
		}
	}
	c.Floor("SNAPSHOT", "places where a key is put into the snapshot", nP, 1)
}
