package rules

import (
	"fmt"
	"go/token"
	"strings"

	"golang.org/x/tools/go/ssa"

	"verif/internal/eng"
)

// ---------------------------------------------------------------------------------------------
// UDP anchors
// ---------------------------------------------------------------------------------------------

type udpAnchors struct {
	dg        *ssa.Function // per-datagram function
	loopFn    *ssa.Function // function containing the receive loop (root of dg)
	readFrom  *ssa.Call     // clientConn.ReadFrom in the loop
	get       *ssa.Call
	searchC   []*ssa.Call // calls to trial-decryption search functions
	unpackC   []*ssa.Call // direct Unpack calls in dg
	validate  *ssa.Function
	valCalls  []*ssa.Call
	gAuth     eng.EdgeSet
	gVal      eng.EdgeSet
	sends     []*ssa.Call // natconn.WriteTo
	listens   []*ssa.Call
	adds      []*ssa.Call
	absent    eng.EdgeSet // Get(...) == nil edges
	present   eng.EdgeSet
	replyFns  []*ssa.Function
	validator string // field of packetHandler holding the IP validator
}

func findUDP(c *Ctx, rule string) *udpAnchors {
	p := c.P
	a := &udpAnchors{dg: datagramFn(c)}
	if a.dg == nil {
		c.Undecided(rule, "anchor:datagram-function", "-", "no function calls both natmap.Get and natconn.WriteTo")
		return nil
	}
	a.loopFn = eng.Root(a.dg)
	for _, cl := range eng.Calls(a.loopFn) {
		if call, ok := cl.(*ssa.Call); ok && eng.CalleeName(&call.Call) == "(net.PacketConn).ReadFrom" {
			a.readFrom = call
		}
	}
	searchFns := map[*ssa.Function]bool{}
	for _, sl := range findSearchLoops(c) {
		searchFns[sl.fn] = true
	}
	// validator method: repo function that calls net.ResolveUDPAddr and a dynamic func(net.IP) error loaded from a field
	for _, f := range p.FnsIn("service") {
		res, dyn := false, false
		for _, cl := range eng.Calls(f) {
			n := eng.CalleeName(cl.Common())
			if n == "net.ResolveUDPAddr" {
				res = true
			}
			if isIPValidatorCall(cl) {
				dyn = true
				for _, o := range p.Origins(cl.Common().Value, eng.Plain) {
					if _, fl, _, ok := eng.FieldLoad(o); ok {
						a.validator = fl
					}
				}
			}
		}
		if res && dyn {
			a.validate = f
		}
	}
	if a.validate == nil {
		c.Undecided(rule, "anchor:packet-validator", "-", "no function resolves the destination and applies the target IP validator")
		return nil
	}
	for _, cl := range eng.Calls(a.dg) {
		call, ok := cl.(*ssa.Call)
		if !ok {
			continue
		}
		switch eng.CalleeName(&call.Call) {
		case "(*service.natmap).Get":
			a.get = call
		case "sdk/shadowsocks.Unpack":
			a.unpackC = append(a.unpackC, call)
		case "(*service.natconn).WriteTo":
			a.sends = append(a.sends, call)
		case "net.ListenPacket", "net.ListenUDP":
			a.listens = append(a.listens, call)
		case "(*service.natmap).Add":
			a.adds = append(a.adds, call)
		}
		for _, f := range repoCallees(c, call) {
			if searchFns[f] {
				a.searchC = append(a.searchC, call)
			}
			if f == a.validate {
				a.valCalls = append(a.valCalls, call)
			}
		}
	}
	a.gAuth = eng.EdgeSet{}
	for _, sc := range a.searchC {
		s, _ := p.SuccessEdges(a.dg, []ssa.CallInstruction{sc}, sc.Call.Signature().Results().Len()-1)
		a.gAuth = eng.Union(a.gAuth, s)
	}
	for _, uc := range a.unpackC {
		s, _ := p.SuccessEdges(a.dg, []ssa.CallInstruction{uc}, 1)
		a.gAuth = eng.Union(a.gAuth, s)
	}
	a.gVal = eng.EdgeSet{}
	for _, vc := range a.valCalls {
		s, _ := p.SuccessEdges(a.dg, []ssa.CallInstruction{vc}, vc.Call.Signature().Results().Len()-1)
		a.gVal = eng.Union(a.gVal, s)
	}
	if a.get != nil {
		a.absent, a.present = p.NilEdges(a.dg, func(v ssa.Value) bool { return v == ssa.Value(a.get) })
		if len(a.absent) == 0 {
			// through the targetConn cell
			for _, b := range a.dg.Blocks {
				iff, ok := b.Instrs[len(b.Instrs)-1].(*ssa.If)
				if !ok {
					continue
				}
				x, trueNonNil, ok := eng.NilCompare(iff.Cond)
				if ok && p.ReachingStore(x, iff) == ssa.Value(a.get) {
					nn, n := eng.Edge{From: b, To: b.Succs[0]}, eng.Edge{From: b, To: b.Succs[1]}
					if !trueNonNil {
						nn, n = n, nn
					}
					a.present[nn] = true
					a.absent[n] = true
				}
			}
		}
	}
	a.replyFns = replyLoopFns(c)
	return a
}

// C03.SENDGUARD (shared with C04.CREATE, C05.UDP)
func ruleSendGuard(c *Ctx, a *udpAnchors, rule string) {
	p := c.P
	c.Floor(rule, "authentication guards (key search + direct Unpack) in the datagram function", len(a.searchC)+len(a.unpackC), 2)
	c.Floor(rule, "destination validation calls in the datagram function", len(a.valCalls), 2)
	c.Floor(rule, "target sends in the datagram function", len(a.sends), 1)
	type tgt struct {
		call *ssa.Call
		what string
	}
	var ts []tgt
	for _, s := range a.sends {
		ts = append(ts, tgt{s, "send-to-target"})
	}
	for _, s := range a.listens {
		ts = append(ts, tgt{s, "create-outbound-socket"})
	}
	for _, s := range a.adds {
		ts = append(ts, tgt{s, "create-association"})
	}
	for i, t := range ts {
		key := fmt.Sprintf("%s:%s#%d", short(a.dg), t.what, i)
		c.CheckAt(rule, key+":after-authentication", t.call, len(a.gAuth) > 0 && eng.Cut(a.dg, t.call.Block(), a.gAuth), "reachable on a path on which the datagram was not successfully decrypted under a key (no success edge of the key search / Unpack is crossed)")
		c.CheckAt(rule, key+":after-destination-validation", t.call, len(a.gVal) > 0 && eng.Cut(a.dg, t.call.Block(), a.gVal), "reachable on a path on which the destination of this datagram was not validated (e.g. only the first datagram of an association is checked)")
	}
	isVal := func(call *ssa.Call) bool {
		for _, v := range a.valCalls {
			if v == call {
				return true
			}
		}
		return false
	}
	for i, s := range a.sends {
		key := fmt.Sprintf("%s:send-to-target#%d", short(a.dg), i)
		payload, addr := eng.Arg(&s.Call, 0), eng.Arg(&s.Call, 1)
		okP, badP := p.AllFrom(payload, eng.OriginOpts{ThroughConvert: true}, func(v ssa.Value) bool { cc, idx, ok := eng.AsResult(v); return ok && idx == 0 && isVal(cc) })
		okA, badA := p.AllFrom(addr, eng.OriginOpts{ThroughConvert: true}, func(v ssa.Value) bool { cc, idx, ok := eng.AsResult(v); return ok && idx == 1 && isVal(cc) })
		c.CheckAt(rule, key+":payload-from-validation", s, okP, "the payload sent to the target is not the payload returned by the destination validation of this datagram: "+valsStr(p, badP))
		c.CheckAt(rule, key+":address-from-validation", s, okA, "the address the datagram is sent to is not the address that was validated (e.g. re-resolved or cached): "+valsStr(p, badA))
	}
	// what is validated is the plaintext of this datagram
	for i, v := range a.valCalls {
		arg := eng.Arg(&v.Call, 0)
		ok, bad := p.AllFrom(arg, eng.OriginOpts{ThroughConvert: true}, func(x ssa.Value) bool {
			cc, idx, ok := eng.AsResult(x)
			if !ok || idx != 0 {
				return false
			}
			for _, s := range a.searchC {
				if s == cc {
					return true
				}
			}
			for _, u := range a.unpackC {
				if u == cc {
					return true
				}
			}
			return false
		})
		c.CheckAt(rule, fmt.Sprintf("%s:validate#%d:plaintext-of-this-datagram", short(a.dg), i), v, ok, "the validated bytes are not the decryption result of this datagram: "+valsStr(p, bad))
	}
	ruleValidatorInternals(c, a, rule)
}

// inside the validator method
func ruleValidatorInternals(c *Ctx, a *udpAnchors, rule string) {
	p := c.P
	f := a.validate
	key := short(f)
	var resolve, valCall, split *ssa.Call
	for _, cl := range eng.Calls(f) {
		call, ok := cl.(*ssa.Call)
		if !ok {
			continue
		}
		n := eng.CalleeName(&call.Call)
		switch {
		case n == "net.ResolveUDPAddr":
			resolve = call
		case n == "ss2/socks.SplitAddr":
			split = call
		case isIPValidatorCall(call):
			valCall = call
		}
	}
	if resolve == nil || valCall == nil {
		c.Undecided(rule, key+":anchors", p.Pos(f.Pos()), "validator method lost its resolve / validator calls")
		return
	}
	// validator applied to the IP field of the resolved address
	okIP, _ := p.AllFrom(valCall.Call.Args[0], eng.Plain, func(v ssa.Value) bool {
		t, fl, base, ok := eng.FieldLoad(v)
		return ok && t == "net.UDPAddr" && fl == "IP" && eng.ResultOf(p.Resolve(base), resolve, 0)
	})
	c.CheckAt(rule, key+":validator-sees-resolved-ip", valCall, okIP, "the IP validator is not applied to the IP of the address that ResolveUDPAddr returned (the address actually used)")
	succV, _ := p.SuccessEdges(f, []ssa.CallInstruction{valCall}, 0)
	succR, _ := p.SuccessEdges(f, []ssa.CallInstruction{resolve}, 1)
	for i, r := range eng.Returns(f) {
		if !eng.IsZeroValue(r.Results[len(r.Results)-1]) {
			continue
		}
		k := fmt.Sprintf("%s:success-return#%d", key, i)
		c.CheckAt(rule, k+":after-validator", r, len(succV) > 0 && eng.Cut(f, r.Block(), succV), "the validator method can report success on a path on which the IP validator was not consulted or failed (e.g. a cache hit that skips it)")
		c.CheckAt(rule, k+":after-resolve", r, len(succR) > 0 && eng.Cut(f, r.Block(), succR), "success without a successful resolution of the destination")
		okAddr, _ := p.AllFrom(r.Results[1], eng.Plain, func(v ssa.Value) bool { return eng.ResultOf(v, resolve, 0) })
		c.CheckAt(rule, k+":returns-the-validated-address", r, okAddr, "the address returned is not the one that was resolved and validated")
		// payload = textData[len(addr):] with addr = SplitAddr(textData), non-nil
		if split != nil {
			s, ok := p.Resolve(r.Results[0]).(*ssa.Slice)
			good := false
			if ok && s.High == nil && p.Resolve(s.X) == p.Resolve(split.Call.Args[0]) {
				if lc, ok := p.Resolve(s.Low).(*ssa.Call); ok {
					if bi, ok := lc.Call.Value.(*ssa.Builtin); ok && bi.Name() == "len" && p.Resolve(lc.Call.Args[0]) == ssa.Value(split) {
						good = true
					}
				}
			}
			c.CheckAt(rule, k+":payload-is-data-after-address", r, good, "the payload returned is not textData[len(SplitAddr(textData)):]: the target would receive something other than exactly the bytes after the address header")
			_, nn := p.NilEdges(f, func(v ssa.Value) bool { return v == ssa.Value(split) })
			c.CheckAt(rule, k+":address-header-parsed", r, len(nn) > 0 && eng.Cut(f, r.Block(), nn), "success although the address header did not parse")
		}
	}
	if split == nil {
		c.Undecided(rule, key+":SplitAddr", p.Pos(f.Pos()), "validator method does not parse the address header with socks.SplitAddr")
	} else {
		okArg, _ := p.AllFrom(split.Call.Args[0], eng.Plain, func(v ssa.Value) bool { return eng.IsParam(v, f, 1) })
		c.CheckAt(rule, key+":parses-the-plaintext-parameter", split, okArg, "the address header is not parsed from the plaintext parameter")
		okRes := p.AnyFrom(resolve.Call.Args[1], eng.OriginOpts{ThroughCalls: func(cc *ssa.Call) []ssa.Value {
			if eng.MethodName(&cc.Call) == "String" {
				return []ssa.Value{eng.Receiver(&cc.Call)}
			}
			return nil
		}}, func(v ssa.Value) bool { return v == ssa.Value(split) })
		c.CheckAt(rule, key+":resolves-the-parsed-address", resolve, okRes, "the address resolved is not the address parsed from this datagram")
	}
}

// C03.KEYBIND
func ruleKeyBind(c *Ctx, a *udpAnchors) {
	p := c.P
	// existing-association Unpack takes the key bound to the entry returned by Get
	for i, u := range a.unpackC {
		ok, bad := p.AllFrom(u.Call.Args[2], eng.Plain, func(v ssa.Value) bool {
			t, fl, base, isF := eng.FieldLoad(v)
			if !isF || t != natconnT || fl != "cryptoKey" {
				return false
			}
			if rs := p.ReachingStore(base, u); rs != nil {
				return a.get != nil && rs == ssa.Value(a.get)
			}
			g, _ := p.AllFrom(base, eng.Plain, func(b ssa.Value) bool { return a.get != nil && b == ssa.Value(a.get) })
			return g
		})
		c.CheckAt("KEYBIND", fmt.Sprintf("%s:unpack#%d:key-of-the-association", short(a.dg), i), u, ok, "a datagram on an existing association is decrypted with a key other than the one bound to that association: "+valsStr(p, bad))
		c.CheckAt("KEYBIND", fmt.Sprintf("%s:unpack#%d:only-when-association-exists", short(a.dg), i), u, len(a.present) > 0 && eng.Cut(a.dg, u.Block(), a.present), "the association key is used on a path where no association was found")
	}
	// cryptoKey immutable
	nst := 0
	for _, st := range p.FieldStores(natconnT, "cryptoKey") {
		if !st.Fresh {
			nst++
			c.CheckAt("KEYBIND", "store-cryptoKey:"+short(st.Fn), st.Ins, false, "the key bound to an association is changed after creation")
		}
	}
	if nst == 0 {
		c.Check("KEYBIND", "association-key-immutable", "-", true, "natconn.cryptoKey has no store outside construction||")
	}
	// Add receives the key and id of this datagram's search
	for i, ad := range a.adds {
		okK, _ := p.AllFrom(ad.Call.Args[3], eng.Plain, func(v ssa.Value) bool {
			cc, idx, ok := eng.AsResult(v)
			if !ok || idx != 2 {
				return false
			}
			for _, s := range a.searchC {
				if s == cc {
					return true
				}
			}
			return false
		})
		c.CheckAt("KEYBIND", fmt.Sprintf("%s:add#%d:binds-the-matching-key", short(a.dg), i), ad, okK, "the association is created with a key other than the one that decrypted its first datagram")
	}
	// set stores the key it was given; the reply is packed with the association's key
	if add := p.Fn("(*service.natmap).Add"); add != nil {
		for _, cl := range eng.Calls(add) {
			if call, ok := cl.(*ssa.Call); ok && eng.CalleeName(&call.Call) == "(*service.natmap).set" {
				okS, _ := p.AllFrom(call.Call.Args[3], eng.Plain, func(v ssa.Value) bool { return eng.IsParam(v, add, 3) })
				c.CheckAt("KEYBIND", short(add)+":entry-gets-the-key-parameter", call, okS, "the entry is created with a key other than Add's key parameter")
			}
		}
	}
	n := 0
	for _, rf := range a.replyFns {
		for _, g := range eng.Family(rf) {
			for _, cl := range eng.Calls(g) {
				call, ok := cl.(*ssa.Call)
				if !ok || eng.CalleeName(&call.Call) != "sdk/shadowsocks.Pack" {
					continue
				}
				n++
				okK, bad := p.AllFrom(call.Call.Args[2], eng.Plain, func(v ssa.Value) bool {
					t, fl, base, isF := eng.FieldLoad(v)
					if !isF || t != natconnT || fl != "cryptoKey" {
						return false
					}
					_, isP := baseRoot(base).(*ssa.Parameter)
					return isP
				})
				c.CheckAt("KEYBIND", short(g)+":reply-packed-with-association-key", call, okK, "replies are encrypted with a key other than the association's own: "+valsStr(p, bad))
			}
		}
	}
	c.Floor("KEYBIND", "Pack calls in reply loops", n, 1)
}

// allocatedIn: every origin of v (through slices) is a make/alloc located in the function family of root.
func allocatedIn(c *Ctx, v ssa.Value, root *ssa.Function) (bool, []ssa.Value) {
	fam := map[*ssa.Function]bool{}
	for _, f := range eng.Family(root) {
		fam[f] = true
	}
	return c.P.AllFrom(v, eng.Plain, func(x ssa.Value) bool {
		switch y := x.(type) {
		case *ssa.MakeSlice:
			return fam[y.Parent()]
		case *ssa.Alloc:
			return fam[y.Parent()]
		}
		return false
	})
}

// C03.NOALIAS / OWNBUF
func ruleBuffers(c *Ctx, a *udpAnchors, rule string) {
	p := c.P
	for i, sc := range a.searchC {
		dst, src := sc.Call.Args[1], sc.Call.Args[2]
		key := fmt.Sprintf("%s:key-search#%d", short(a.dg), i)
		okD, badD := allocatedIn(c, dst, a.loopFn)
		okS, badS := allocatedIn(c, src, a.loopFn)
		c.CheckAt(rule, key+":plaintext-buffer-owned-by-this-loop", sc, okD, "the buffer trial decryption writes into is not allocated by this listener loop (e.g. a field shared by all listeners of the handler): concurrent loops overwrite each other's plaintext between decryption and send ("+valsStr(p, badD)+")")
		c.CheckAt(rule, key+":ciphertext-buffer-owned-by-this-loop", sc, okS, "the receive buffer is not allocated by this listener loop: "+valsStr(p, badS))
		distinct := true
		do, so := p.Origins(dst, eng.Plain), p.Origins(src, eng.Plain)
		for _, x := range do {
			if cst, ok := x.(*ssa.Const); ok && cst.IsNil() {
				distinct = false
			}
			for _, y := range so {
				if x == y {
					distinct = false
				}
			}
		}
		c.CheckAt(rule, key+":separate-plaintext-and-ciphertext", sc, distinct && len(do) > 0, "trial decryption decrypts in place (dst is nil or aliases src): a failed AEAD open clears its output, so every key after the first wrong one sees corrupted ciphertext")
	}
	// inside the search function the buffers are passed to Unpack unchanged
	for _, sl := range findSearchLoops(c) {
		if len(sl.fn.Params) < 3 {
			continue
		}
		u := sl.unpack
		isP := func(v ssa.Value) bool { _, ok := v.(*ssa.Parameter); return ok }
		if _, isSlice := p.Resolve(u.Call.Args[1]).(*ssa.Slice); isSlice {
			continue // TCP form: prefix of first bytes
		}
		okA, _ := p.AllFrom(u.Call.Args[0], eng.Plain, isP)
		okB, _ := p.AllFrom(u.Call.Args[1], eng.Plain, isP)
		same := p.Resolve(u.Call.Args[0]) == p.Resolve(u.Call.Args[1])
		c.CheckAt(rule, short(sl.fn)+":unpack-uses-caller-buffers", u, okA && okB && !same, "the search function does not pass its dst and src parameters (distinct) to Unpack")
	}
	// reply loops: the packet buffer is allocated per goroutine
	for _, rf := range a.replyFns {
		for _, g := range eng.Family(rf) {
			for _, cl := range eng.Calls(g) {
				call, ok := cl.(*ssa.Call)
				if !ok || eng.CalleeName(&call.Call) != "(*service.natconn).ReadFrom" {
					continue
				}
				okB, bad := allocatedIn(c, call.Call.Args[1], rf)
				c.CheckAt(rule, short(g)+":reply-buffer-owned-by-this-association", call, okB, "the buffer replies are read into and encrypted in is not allocated by this association's goroutine (e.g. one buffer for the whole table): concurrent associations send each other's replies ("+valsStr(p, bad)+")")
			}
		}
	}
}

// C03.REPLYADDR
func ruleReplyAddr(c *Ctx, a *udpAnchors) {
	p := c.P
	n := 0
	for _, rf := range a.replyFns {
		for _, g := range eng.Family(rf) {
			var rd, wr, parse *ssa.Call
			for _, cl := range eng.Calls(g) {
				call, ok := cl.(*ssa.Call)
				if !ok {
					continue
				}
				switch eng.CalleeName(&call.Call) {
				case "(*service.natconn).ReadFrom":
					rd = call
				case "(net.PacketConn).WriteTo":
					wr = call
				case "ss2/socks.ParseAddr":
					parse = call
				}
			}
			if rd == nil {
				continue
			}
			n++
			key := short(g)
			if parse == nil {
				c.CheckAt("REPLYADDR", key+":sender-address-encoded-per-reply", rd, false, "the reply loop does not encode the sender address of each reply with socks.ParseAddr(raddr.String()) (e.g. it reuses a cached encoding): replies can carry another sender's address")
			} else {
				okSrc := p.AnyFrom(parse.Call.Args[0], eng.OriginOpts{ThroughCalls: func(cc *ssa.Call) []ssa.Value {
					if eng.MethodName(&cc.Call) == "String" {
						return []ssa.Value{eng.Receiver(&cc.Call)}
					}
					return nil
				}}, func(v ssa.Value) bool { return eng.ResultOf(v, rd, 1) })
				all, _ := p.AllFrom(parse.Call.Args[0], eng.OriginOpts{ThroughCalls: func(cc *ssa.Call) []ssa.Value {
					if eng.MethodName(&cc.Call) == "String" {
						return []ssa.Value{eng.Receiver(&cc.Call)}
					}
					return nil
				}}, func(v ssa.Value) bool { return eng.ResultOf(v, rd, 1) })
				c.CheckAt("REPLYADDR", key+":sender-address-is-this-reply's-source", parse, okSrc && all, "the address packed into the reply is not the source address returned by this iteration's ReadFrom")
				// the parsed address is what is copied in front of the body
				copied := false
				for _, cl := range eng.Calls(g) {
					if call, ok := cl.(*ssa.Call); ok {
						if bi, ok := call.Call.Value.(*ssa.Builtin); ok && bi.Name() == "copy" {
							if gd, _ := p.AllFrom(call.Call.Args[1], eng.OriginOpts{ThroughConvert: true}, func(v ssa.Value) bool { return v == ssa.Value(parse) }); gd {
								copied = true
							}
						}
					}
				}
				c.CheckAt("REPLYADDR", key+":encoded-address-written-into-packet", parse, copied, "the encoded sender address is not what is copied into the packet header")
			}
			if wr == nil {
				c.CheckAt("REPLYADDR", key+":reply-sent-to-client", rd, false, "the reply loop never writes to the client connection")
				continue
			}
			okDst, bad := p.AllFrom(eng.Arg(&wr.Call, 1), eng.Plain, func(v ssa.Value) bool {
				_, isP := baseRoot(v).(*ssa.Parameter)
				return isP
			})
			c.CheckAt("REPLYADDR", key+":reply-goes-to-the-association's-client", wr, okDst, "the reply is written to an address other than the association's own client address parameter: "+valsStr(p, bad))
			// what is sent is the result of Pack
			okBuf := p.AnyFrom(eng.Arg(&wr.Call, 0), eng.Plain, func(v ssa.Value) bool {
				cc, idx, ok := eng.AsResult(v)
				return ok && idx == 0 && eng.CalleeName(&cc.Call) == "sdk/shadowsocks.Pack"
			})
			c.CheckAt("REPLYADDR", key+":sends-the-packed-buffer", wr, okBuf, "what is written to the client is not the buffer returned by Pack")
		}
	}
	c.Floor("REPLYADDR", "reply loop bodies", n, 1)
}

// C04.NATKEY
func ruleNatKey(c *Ctx, a *udpAnchors) {
	p := c.P
	isAddrString := func(v ssa.Value) (ssa.Value, bool) {
		call, ok := p.Resolve(v).(*ssa.Call)
		if !ok || eng.CalleeName(&call.Call) != "(net.Addr).String" {
			return nil, false
		}
		os := p.Origins(call.Call.Value, eng.Plain)
		if len(os) != 1 {
			return nil, false
		}
		return os[0], true
	}
	if a.get != nil {
		x, ok := isAddrString(eng.Arg(&a.get.Call, 0))
		fromRead := ok && a.readFrom != nil && eng.ResultOf(x, a.readFrom, 1)
		c.CheckAt("NATKEY", short(a.dg)+":lookup-key-is-full-source-address", a.get, fromRead, "the association lookup key is not String() of the whole source address returned by this datagram's ReadFrom (e.g. IP only, or another address): different clients would share — or one client would split — an association")
	}
	for i, ad := range a.adds {
		okA := false
		for _, o := range p.Origins(ad.Call.Args[1], eng.Plain) {
			if a.readFrom != nil && eng.ResultOf(o, a.readFrom, 1) {
				okA = true
			}
		}
		c.CheckAt("NATKEY", fmt.Sprintf("%s:add#%d:client-address-is-the-datagram-source", short(a.dg), i), ad, okA, "the association is created for an address other than this datagram's source")
		okC, _ := p.AllFrom(ad.Call.Args[2], eng.Plain, func(v ssa.Value) bool { _, isP := baseRoot(v).(*ssa.Parameter); return isP })
		c.CheckAt("NATKEY", fmt.Sprintf("%s:add#%d:replies-go-out-through-the-listening-socket", short(a.dg), i), ad, okC, "the association's client-facing connection is not the listener the datagram arrived on")
	}
	add := p.Fn("(*service.natmap).Add")
	if add == nil {
		c.Undecided("NATKEY", "anchor:natmap.Add", "-", "natmap.Add not found")
		return
	}
	n := 0
	for _, g := range eng.Family(add) {
		for _, cl := range eng.Calls(g) {
			call, ok := cl.(*ssa.Call)
			if !ok {
				continue
			}
			nm := eng.CalleeName(&call.Call)
			if nm != "(*service.natmap).set" && nm != "(*service.natmap).del" {
				continue
			}
			n++
			x, ok := isAddrString(eng.Arg(&call.Call, 0))
			good := false
			if ok {
				if pa, isP := baseRoot(x).(*ssa.Parameter); isP && eng.IsParam(pa, add, 1) {
					good = true
				}
			}
			c.CheckAt("NATKEY", short(g)+":"+nm+":key-is-String()-of-Add's-client-address", call, good, "the table key used by "+nm+" is not String() of Add's client address parameter")
		}
	}
	c.Floor("NATKEY", "set/del calls in Add", n, 2)
}

// C04.OWNSOCK
func ruleOwnSock(c *Ctx, a *udpAnchors) {
	p := c.P
	for i, ls := range a.listens {
		// result 0 flows only into natmap.Add
		var sock ssa.Value
		for _, r := range *ls.Referrers() {
			if ex, ok := r.(*ssa.Extract); ok && ex.Index == 0 {
				sock = ex
			}
		}
		key := fmt.Sprintf("%s:outbound-socket#%d", short(a.dg), i)
		if sock == nil {
			c.CheckAt("OWNSOCK", key, ls, false, "the created socket is discarded")
			continue
		}
		uses, onlyAdd := 0, true
		for _, r := range *sock.Referrers() {
			switch u := r.(type) {
			case *ssa.DebugRef:
			case *ssa.Call:
				uses++
				if eng.CalleeName(&u.Call) != "(*service.natmap).Add" {
					onlyAdd = false
				}
			default:
				uses++
				onlyAdd = false
			}
		}
		c.CheckAt("OWNSOCK", key+":handed-only-to-one-association", ls, uses == 1 && onlyAdd, "the outbound socket created for this client is stored or used elsewhere than as the argument of one natmap.Add (it could be shared between associations)")
		// created only when no association exists
		c.CheckAt("OWNSOCK", key+":created-only-when-absent", ls, len(a.absent) > 0 && eng.Cut(a.dg, ls.Block(), a.absent), "a new outbound socket is created although an association exists for this client address")
	}
	for i, ad := range a.adds {
		c.CheckAt("OWNSOCK", fmt.Sprintf("%s:add#%d:only-when-absent", short(a.dg), i), ad, len(a.absent) > 0 && eng.Cut(a.dg, ad.Block(), a.absent), "an association is created although one already exists for this client address: the live entry is overwritten, the client gets a second source address and the old goroutine later deletes the new entry")
	}
	add := p.Fn("(*service.natmap).Add")
	if add == nil {
		return
	}
	var gos []*ssa.Go
	for _, cl := range eng.Calls(add) {
		if g, ok := cl.(*ssa.Go); ok {
			gos = append(gos, g)
		}
	}
	c.Check("OWNSOCK", short(add)+":one-goroutine-per-association", p.Pos(add.Pos()), len(gos) == 1 && eng.InnermostLoop(eng.Loops(add), gos[0].Block()) == nil, fmt.Sprintf("Add starts %d goroutines (expected exactly one reply goroutine per association)", len(gos)))
	// the entry stored wraps Add's socket parameter
	for _, cl := range eng.Calls(add) {
		if call, ok := cl.(*ssa.Call); ok && eng.CalleeName(&call.Call) == "(*service.natmap).set" {
			okS, _ := p.AllFrom(call.Call.Args[2], eng.Plain, func(v ssa.Value) bool { return eng.IsParam(v, add, 4) })
			c.CheckAt("OWNSOCK", short(add)+":entry-wraps-the-socket-parameter", call, okS, "the association entry does not wrap the outbound socket passed to Add")
		}
	}
	// the reply goroutine serves exactly (client address, listener, entry) of this Add
	for _, g := range gos {
		for _, lit := range p.Callees(g) {
			for _, cl := range eng.Calls(lit) {
				call, ok := cl.(*ssa.Call)
				if !ok {
					continue
				}
				for _, rf := range a.replyFns {
					for _, callee := range repoCallees(c, call) {
						if callee != rf {
							continue
						}
						okAddr, _ := p.AllFrom(call.Call.Args[0], eng.Plain, func(v ssa.Value) bool { r := baseRoot(v); return eng.IsParam(r, add, 1) })
						okConn, _ := p.AllFrom(call.Call.Args[1], eng.Plain, func(v ssa.Value) bool { r := baseRoot(v); return eng.IsParam(r, add, 2) })
						okEnt, _ := p.AllFrom(call.Call.Args[2], eng.Plain, func(v ssa.Value) bool {
							cc, _, ok := eng.AsResult(baseRoot(v))
							return ok && eng.CalleeName(&cc.Call) == "(*service.natmap).set"
						})
						c.CheckAt("OWNSOCK", short(lit)+":reply-loop-serves-this-association", call, okAddr && okConn && okEnt, "the reply goroutine is not started with (Add's client address, Add's listener connection, the entry just stored)")
					}
				}
			}
		}
	}
}

// isBoolFlagLoad etc. live in c16.go
var _ = token.ADD
var _ = strings.Contains

// isIPValidatorCall: a dynamic call of a func(net.IP) error value.
func isIPValidatorCall(cl ssa.CallInstruction) bool {
	cc := cl.Common()
	if cc.IsInvoke() || cc.StaticCallee() != nil {
		return false
	}
	if _, isB := cc.Value.(*ssa.Builtin); isB {
		return false
	}
	sig := cc.Signature()
	return sig.Params().Len() == 1 && sig.Params().At(0).Type().String() == "net.IP" && errorResultIndex(sig) == 0
}
