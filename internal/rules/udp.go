package rules

import (
	"fmt"
	"go/token"
	"go/types"
	"net"
	"strings"

	"golang.org/x/tools/go/ssa"

	"verif/internal/eng"
)

// ---------------------------------------------------------------------------------------------
// UDP anchors (found by role) and region-based rules
// ---------------------------------------------------------------------------------------------

type udpAnchors struct {
	m        *udpModel
	dg       *ssa.Function // per-datagram function (region root)
	loopFn   *ssa.Function // function containing the receive loop
	R        *Region       // dg + helpers
	readFrom *ssa.Call     // listener ReadFrom in the loop
	gets     []*ssa.Call
	unpacks  []*ssa.Call // every shadowsocks.Unpack call in the region (search loops included)
	direct   []*ssa.Call // Unpack calls outside search loops (existing-association path)
	searchC  []*ssa.Call // calls to trial-decryption search functions
	sends    []*ssa.Call
	listens  []*ssa.Call
	adds     []*ssa.Call
	vals     []*ssa.Call // IP validator calls
	resolves []*ssa.Call
	splits   []*ssa.Call
	gAuth    *Guard
	gVal     *Guard
	gSplit   *Guard
	gAbsent  *Guard
	gPresent *Guard
	replyFns []*ssa.Function
}

func findUDP(c *Ctx, rule string) *udpAnchors {
	p := c.P
	m := getUDPModel(c, rule)
	if m == nil {
		return nil
	}
	a := &udpAnchors{m: m, replyFns: m.replyFns}
	// the receive loop: a function of package service with a ReadFrom on a net.PacketConn inside a loop, from which Get is reachable
	memo := map[*ssa.Function]int{}
	isGet := func(ins ssa.Instruction) bool {
		cl, ok := ins.(ssa.CallInstruction)
		return ok && callTo(c, cl, m.get)
	}
	for _, f := range p.FnsIn("service") {
		if f.Parent() != nil || p.IsTestSupport(f) {
			continue
		}
		for _, cl := range eng.Calls(f) {
			call, ok := cl.(*ssa.Call)
			if !ok || (eng.CalleeName(&call.Call) != "(net.PacketConn).ReadFrom" && !isReadWrapperCall(c, call)) || eng.InnermostLoop(eng.Loops(f), call.Block()) == nil {
				continue
			}
			if reaches(c, f, isGet, memo) || familyHas(f, isGet) {
				a.loopFn, a.readFrom = f, call
			}
		}
	}
	if a.loopFn == nil {
		c.Undecided(rule, "anchor:datagram-loop", "-", "no receive loop over a net.PacketConn from which the association table lookup is reachable")
		return nil
	}
	// per-datagram root: the callee invoked in the loop (closure or function) whose region reaches Get; else the loop function itself
	a.dg = a.loopFn
	for _, cl := range eng.Calls(a.loopFn) {
		if _, isGo := cl.(*ssa.Go); isGo {
			continue
		}
		for _, h := range c.L().SyncCallees(cl) {
			if eng.PkgPathOf(h) == eng.Mod+"/service" && !m.stopFn(c)(h) && (bodyHas(h, isGet) || reaches(c, h, isGet, map[*ssa.Function]int{})) {
				a.dg = h
			}
		}
	}
	a.R = c.NewRegion(a.dg, 4, m.stopFn(c))
	searchFns := map[*ssa.Function]bool{}
	for _, sl := range findSearchLoops(c) {
		searchFns[sl.fn] = true
		if sl.inner != nil {
			searchFns[sl.inner.Parent()] = true // the trial decryption behind a wrapper belongs to the search
		}
	}
	for _, cl := range a.R.Calls() {
		call, ok := cl.(*ssa.Call)
		if !ok {
			continue
		}
		n := eng.CalleeName(&call.Call)
		switch {
		case callTo(c, call, m.get):
			a.gets = append(a.gets, call)
		case n == "sdk/shadowsocks.Unpack":
			a.unpacks = append(a.unpacks, call)
			if !searchFns[call.Parent()] {
				a.direct = append(a.direct, call)
			}
		case callTo(c, call, m.connWrite):
			a.sends = append(a.sends, call)
		case n == "net.ListenPacket" || n == "net.ListenUDP":
			a.listens = append(a.listens, call)
		case callTo(c, call, m.add):
			a.adds = append(a.adds, call)
		case isIPValidatorCall(call):
			a.vals = append(a.vals, call)
		case n == "net.ResolveUDPAddr":
			a.resolves = append(a.resolves, call)
		case n == "ss2/socks.SplitAddr":
			a.splits = append(a.splits, call)
		}
		for _, f := range repoCallees(c, call) {
			if searchFns[f] {
				a.searchC = append(a.searchC, call)
			}
		}
	}
	a.gAuth = c.CallGuard(func(call *ssa.Call) (int, bool) {
		return 1, eng.CalleeName(&call.Call) == "sdk/shadowsocks.Unpack"
	})
	a.gVal = c.CallGuard(func(call *ssa.Call) (int, bool) { return 0, isIPValidatorCall(call) })
	a.gSplit = c.NewGuard(func(fn *ssa.Function) eng.EdgeSet {
		_, nn := p.NilEdges(fn, func(v ssa.Value) bool {
			cc, ok := v.(*ssa.Call)
			return ok && eng.CalleeName(&cc.Call) == "ss2/socks.SplitAddr"
		})
		return nn
	})
	isGetRes := func(v ssa.Value) bool {
		cc, ok := v.(*ssa.Call)
		return ok && callTo(c, cc, m.get)
	}
	getEdges := func(fn *ssa.Function, wantNil bool) eng.EdgeSet {
		out := eng.EdgeSet{}
		for _, b := range fn.Blocks {
			iff, ok := b.Instrs[len(b.Instrs)-1].(*ssa.If)
			if !ok {
				continue
			}
			x, trueNonNil, ok := eng.NilCompare(iff.Cond)
			if !ok {
				continue
			}
			hit := isGetRes(x) || isGetRes(p.Resolve(x))
			if !hit {
				if rs := p.ReachingStore(x, iff); rs != nil && isGetRes(rs) {
					hit = true
				}
			}
			if !hit {
				continue
			}
			nn, n := eng.Edge{From: b, To: b.Succs[0]}, eng.Edge{From: b, To: b.Succs[1]}
			if !trueNonNil {
				nn, n = n, nn
			}
			if wantNil {
				out[n] = true
			} else {
				out[nn] = true
			}
		}
		return out
	}
	a.gAbsent = c.NewGuard(func(fn *ssa.Function) eng.EdgeSet { return getEdges(fn, true) })
	a.gPresent = c.NewGuard(func(fn *ssa.Function) eng.EdgeSet { return getEdges(fn, false) })
	return a
}

func familyHas(f *ssa.Function, q func(ssa.Instruction) bool) bool {
	for _, g := range eng.Family(f) {
		if bodyHas(g, q) {
			return true
		}
	}
	return false
}

func inCalls(v ssa.Value, calls []*ssa.Call, idx int) bool {
	cc, i, ok := eng.AsResult(v)
	if !ok || (idx >= 0 && i != idx) {
		return false
	}
	for _, x := range calls {
		if x == cc {
			return true
		}
	}
	return false
}

var stringOf = func(cc *ssa.Call) []ssa.Value {
	if eng.MethodName(&cc.Call) == "String" {
		return []ssa.Value{eng.Receiver(&cc.Call)}
	}
	return nil
}

var deepF = eng.OriginOpts{ThroughConvert: true, Interproc: true}

// deepAt is deepF evaluated for a use at ins: phi operands arriving over branches that contradict ins's own branch facts
// are not origins.
func deepAt(ins ssa.Instruction) eng.OriginOpts {
	o := deepF
	o.At = ins
	return o
}

// C03.SENDGUARD (shared with C04.CREATE, C05.UDP)
func ruleSendGuard(c *Ctx, a *udpAnchors, rule string) {
	p := c.P
	c.Floor(rule, "decryption calls (shadowsocks.Unpack) in the datagram region", len(a.unpacks), 2)
	c.Floor(rule, "IP validator calls in the datagram region", len(a.vals), 1)
	c.Floor(rule, "target sends in the datagram region", len(a.sends), 1)
	c.Floor(rule, "socket creations in the datagram region", len(a.listens), 1)
	c.Floor(rule, "association creations in the datagram region", len(a.adds), 1)
	type tgt struct {
		call *ssa.Call
		what string
	}
	var ts []tgt
	for _, s := range a.sends {
		ts = append(ts, tgt{s, "send-to-target"})
	}
	for _, s := range a.listens {
		ts = append(ts, tgt{s, "create-outbound-socket"})
	}
	for _, s := range a.adds {
		ts = append(ts, tgt{s, "create-association"})
	}
	for i, t := range ts {
		key := fmt.Sprintf("%s#%d", t.what, i)
		c.CheckAt(rule, key+":after-authentication", t.call, a.R.CutDeep(t.call, a.gAuth), "reachable on a path on which the datagram was not successfully decrypted under a key (no success edge of shadowsocks.Unpack is crossed on the way from the start of datagram handling)")
		c.CheckAt(rule, key+":after-destination-validation", t.call, a.R.CutDeep(t.call, a.gVal), "reachable on a path on which the destination of this datagram was not validated by the IP validator (e.g. only the first datagram of an association is checked, or a cached verdict is used)")
		c.CheckAt(rule, key+":after-address-header-parsed", t.call, a.R.CutDeep(t.call, a.gSplit), "reachable on a path on which the SOCKS address header of this datagram did not parse")
	}
	// the stages run in order: the address header is parsed (and the destination resolved and validated) only from a datagram
	// that decrypted — so a datagram that fails to decrypt is reported as such, not as a malformed address
	for i, sp := range a.splits {
		c.CheckAt(rule, fmt.Sprintf("parse#%d:only-after-successful-decryption", i), sp, a.R.CutDeep(sp, a.gAuth), "the address header is parsed on a path on which decryption has not succeeded (its error is tested only afterwards): the datagram's real outcome, a decryption failure, is reported as an address error")
	}
	isRes := func(x ssa.Value) bool { return inCalls(x, a.resolves, 0) }
	for i, s := range a.sends {
		key := fmt.Sprintf("send-to-target#%d", i)
		payload, addr := eng.Arg(&s.Call, 0), eng.Arg(&s.Call, 1)
		// address: exactly a ResolveUDPAddr result, the same one whose IP the validator saw
		okA, badA := p.AllFrom(addr, deepF, isRes)
		c.CheckAt(rule, key+":address-is-the-resolved-address", s, okA, "the address the datagram is sent to is not (only) the result of resolving this datagram's destination (e.g. cached or re-derived): "+valsStr(p, badA))
		ro := p.Origins(addr, eng.OriginOpts{ThroughConvert: true, Interproc: true, Stop: isRes})
		for _, v := range a.vals {
			vo := p.Origins(v.Call.Args[0], eng.OriginOpts{ThroughConvert: true, ThroughFieldLoad: true, Interproc: true, Stop: isRes})
			sameRes := len(vo) > 0
			for _, x := range vo {
				found := false
				for _, y := range ro {
					if x == y {
						found = true
					}
				}
				if !found {
					sameRes = false
				}
			}
			okIP, _ := p.AllFrom(v.Call.Args[0], deepF, func(x ssa.Value) bool {
				t, fl, base, ok := eng.FieldLoad(x)
				if !ok || t != "net.UDPAddr" || fl != "IP" {
					return false
				}
				g, _ := p.AllFrom(base, deepF, isRes)
				return g
			})
			c.CheckAt(rule, key+":validator-saw-the-address-sent-to", v, okIP && sameRes, "the IP validator is not applied to the IP of the very address the datagram is then sent to (the resolved destination)")
		}
		// payload: exactly data[len(SplitAddr(data)):] of this datagram's plaintext
		isPayloadSlice := func(v ssa.Value) bool {
			sl, ok := v.(*ssa.Slice)
			if !ok || sl.High != nil || sl.Low == nil {
				return false
			}
			var sp *ssa.Call
			okLow, _ := p.AllFrom(sl.Low, deepF, func(x ssa.Value) bool {
				lc, ok := x.(*ssa.Call)
				if !ok {
					return false
				}
				bi, ok := lc.Call.Value.(*ssa.Builtin)
				if !ok || bi.Name() != "len" {
					return false
				}
				for _, o := range p.Origins(lc.Call.Args[0], deepF) {
					if cc, isC := o.(*ssa.Call); isC && eng.CalleeName(&cc.Call) == "ss2/socks.SplitAddr" {
						sp = cc
						return true
					}
				}
				return false
			})
			if !okLow || sp == nil {
				return false
			}
			// the slice is taken of the same data that was parsed
			xo, so := p.Origins(sl.X, deepF), p.Origins(sp.Call.Args[0], deepF)
			for _, x := range xo {
				for _, y := range so {
					if x == y {
						return true
					}
				}
			}
			return false
		}
		okP, badP := p.AllFrom(payload, deepF, isPayloadSlice)
		c.CheckAt(rule, key+":payload-is-the-data-after-the-address-header", s, okP, "the payload sent to the target is not plaintext[len(SplitAddr(plaintext)):] of this datagram: "+valsStr(p, badP))
	}
	// the plaintext parsed and the address resolved are this datagram's
	for i, sp := range a.splits {
		ok, bad := p.AllFrom(sp.Call.Args[0], eng.Deep, func(v ssa.Value) bool { return inCalls(v, a.unpacks, 0) })
		c.CheckAt(rule, fmt.Sprintf("parse#%d:plaintext-of-this-datagram", i), sp, ok, "the address header is not parsed from the decryption result of this datagram: "+valsStr(p, bad))
	}
	for i, rs := range a.resolves {
		ok := p.AnyFrom(rs.Call.Args[1], eng.OriginOpts{ThroughConvert: true, Interproc: true, ThroughCalls: stringOf}, func(v ssa.Value) bool {
			cc, isC := v.(*ssa.Call)
			return isC && eng.CalleeName(&cc.Call) == "ss2/socks.SplitAddr"
		})
		c.CheckAt(rule, fmt.Sprintf("resolve#%d:resolves-the-parsed-address", i), rs, ok, "the address resolved is not the address parsed from this datagram")
	}
	c.Floor(rule, "address-header parses in the datagram region", len(a.splits), 1)
	c.Floor(rule, "destination resolutions in the datagram region", len(a.resolves), 1)
}

// C03.KEYBIND
func ruleKeyBind(c *Ctx, a *udpAnchors) {
	p := c.P
	m := a.m
	isGetVal := func(b ssa.Value) bool {
		cc, ok := b.(*ssa.Call)
		return ok && callTo(c, cc, m.get)
	}
	isKeyOfGet := func(v ssa.Value) bool {
		t, fl, base, isF := eng.FieldLoad(v)
		if !isF || t != m.connT || fl != m.keyField {
			return false
		}
		if rs := p.ReachingStore(base, v.(ssa.Instruction)); rs != nil {
			g, _ := p.AllFrom(rs, deepF, isGetVal)
			return g
		}
		g, _ := p.AllFrom(base, deepF, isGetVal)
		return g
	}
	for i, u := range a.direct {
		ok, bad := p.AllFrom(u.Call.Args[2], deepF, isKeyOfGet)
		c.CheckAt("KEYBIND", fmt.Sprintf("unpack#%d:key-of-the-association", i), u, ok, "a datagram on an existing association is decrypted with a key other than the one bound to that association: "+valsStr(p, bad))
		c.CheckAt("KEYBIND", fmt.Sprintf("unpack#%d:only-when-association-exists", i), u, a.R.CutDeep(u, a.gPresent), "the association key is used on a path where no association was found")
	}
	c.Floor("KEYBIND", "decryptions with an association's key", len(a.direct), 1)
	nst := 0
	for _, st := range p.FieldStores(m.connT, m.keyField) {
		if !st.Fresh {
			nst++
			c.CheckAt("KEYBIND", "store-association-key:"+short(st.Fn), st.Ins, false, "the key bound to an association is changed after creation")
		}
	}
	if nst == 0 {
		c.Check("KEYBIND", "association-key-immutable", "-", true, m.connT+"."+m.keyField+" has no store outside construction||")
	}
	for i, ad := range a.adds {
		var keyArg ssa.Value
		for _, ar := range ad.Call.Args {
			if eng.Short(ar.Type().String()) == "*sdk/shadowsocks.EncryptionKey" {
				keyArg = ar
			}
		}
		okK := false
		if keyArg != nil {
			okK, _ = p.AllFrom(keyArg, deepAt(ad), func(v ssa.Value) bool {
				if _, fl, _, ok := eng.FieldLoad(v); ok && fl == "CryptoKey" {
					return true
				}
				return inCalls(v, a.searchC, -1)
			})
		}
		c.CheckAt("KEYBIND", fmt.Sprintf("add#%d:binds-the-matching-key", i), ad, okK, "the association is created with a key other than the one that decrypted its first datagram")
	}
	for _, st := range p.FieldStores(m.connT, m.keyField) {
		if !st.Fresh || st.Val == nil {
			continue
		}
		ok, _ := p.AllFrom(st.Val, deepF, func(v ssa.Value) bool {
			pa, isP := v.(*ssa.Parameter)
			return isP && pa.Parent() == m.add
		})
		c.CheckAt("KEYBIND", "entry-gets-Add's-key:"+short(st.Fn), st.Ins, ok, "the entry is created with a key other than Add's key parameter")
	}
	n := 0
	for _, rs := range findReplySites(c, a) {
		for _, call := range rs.packs {
			n++
			okK, bad := p.AllFrom(call.Call.Args[2], deepF, func(v ssa.Value) bool {
				t, fl, base, isF := eng.FieldLoad(v)
				if !isF || t != m.connT || fl != m.keyField {
					return false
				}
				g2, _ := p.AllFrom(base, deepF, func(b ssa.Value) bool {
					pa, isP := baseRoot(b).(*ssa.Parameter)
					return isP && eng.Root(pa.Parent()) == rs.rf
				})
				return g2
			})
			c.CheckAt("KEYBIND", short(call.Parent())+":reply-packed-with-association-key", call, okK, "replies are encrypted with a key other than the association's own: "+valsStr(p, bad))
		}
	}
	c.Floor("KEYBIND", "Pack calls in reply loops", n, 1)
}

// allocatedIn: every origin of v (through slices, helpers) is a make / array allocation located in the function family of root or its helpers.
func allocatedIn(c *Ctx, v ssa.Value, root *ssa.Function) (bool, []ssa.Value) {
	fam := map[*ssa.Function]bool{}
	for _, f := range eng.Family(root) {
		fam[f] = true
	}
	for _, f := range regionFns(c, root, nil, 3) {
		for _, g := range eng.Family(f) {
			fam[g] = true
		}
	}
	return c.P.AllFrom(v, eng.Deep, func(x ssa.Value) bool {
		switch y := x.(type) {
		case *ssa.MakeSlice:
			return fam[y.Parent()]
		case *ssa.Alloc:
			return fam[y.Parent()] && strings.HasPrefix(y.Type().String(), "*[")
		}
		return false
	})
}

// C03.NOALIAS / OWNBUF
func ruleBuffers(c *Ctx, a *udpAnchors, rule string) {
	p := c.P
	n := 0
	sls := findSearchLoops(c)
	for _, u := range a.unpacks {
		inSearch := false
		for _, sl := range sls {
			if sl.unpack == u || sl.inner == u {
				inSearch = true
			}
		}
		if !inSearch {
			continue
		}
		n++
		dst, src := u.Call.Args[0], u.Call.Args[1]
		key := short(u.Parent()) + ":trial-decryption"
		okD, badD := allocatedIn(c, dst, a.loopFn)
		okS, badS := allocatedIn(c, src, a.loopFn)
		c.CheckAt(rule, key+":plaintext-buffer-owned-by-this-loop", u, okD, "the buffer trial decryption writes into is not allocated by this listener loop (e.g. a field shared by all listeners of the handler): concurrent loops overwrite each other's plaintext between decryption and send ("+valsStr(p, badD)+")")
		c.CheckAt(rule, key+":ciphertext-buffer-owned-by-this-loop", u, okS, "the receive buffer is not allocated by this listener loop: "+valsStr(p, badS))
		distinct := true
		do, so := p.Origins(dst, eng.Deep), p.Origins(src, eng.Deep)
		for _, x := range do {
			if cst, ok := x.(*ssa.Const); ok && cst.IsNil() {
				distinct = false
			}
			for _, y := range so {
				if x == y {
					distinct = false
				}
			}
		}
		c.CheckAt(rule, key+":separate-plaintext-and-ciphertext", u, distinct && len(do) > 0, "trial decryption decrypts in place (dst is nil or aliases src): a failed AEAD open clears its output, so every key after the first wrong one sees corrupted ciphertext")
	}
	c.Floor(rule, "trial decryptions in the datagram region", n, 1)
	nr := 0
	for _, rs := range findReplySites(c, a) {
		for _, call := range rs.reads {
			nr++
			okB, bad := allocatedIn(c, call.Call.Args[1], rs.rf)
			c.CheckAt(rule, short(call.Parent())+":reply-buffer-owned-by-this-association", call, okB, "the buffer replies are read into and encrypted in is not allocated by this association's goroutine (e.g. one buffer for the whole table): concurrent associations send each other's replies ("+valsStr(p, bad)+")")
		}
	}
	c.Floor(rule, "reply reads", nr, 1)
}

// replySites collects, over a reply-loop region, the read, pack, parse, copy and write calls.
type replySites struct {
	rf     *ssa.Function
	fns    []*ssa.Function
	reads  []*ssa.Call
	writes []*ssa.Call
	parses []*ssa.Call
	packs  []*ssa.Call
	copies []*ssa.Call
}

func findReplySites(c *Ctx, a *udpAnchors) []replySites {
	var out []replySites
	for _, rf := range a.replyFns {
		rs := replySites{rf: rf}
		reg := c.NewRegion(rf, 3, a.m.stopFn(c))
		seen := map[*ssa.Function]bool{}
		for _, g := range append(eng.Family(rf), reg.Fns...) {
			if seen[g] {
				continue
			}
			seen[g] = true
			rs.fns = append(rs.fns, g)
			for _, h := range eng.Family(g) {
				if !seen[h] {
					seen[h] = true
					rs.fns = append(rs.fns, h)
				}
			}
		}
		for _, g := range rs.fns {
			for _, cl := range eng.Calls(g) {
				call, ok := cl.(*ssa.Call)
				if !ok {
					continue
				}
				n := eng.CalleeName(&call.Call)
				switch {
				case callTo(c, call, a.m.connRead):
					rs.reads = append(rs.reads, call)
				case n == "(net.PacketConn).WriteTo":
					rs.writes = append(rs.writes, call)
				case n == "ss2/socks.ParseAddr":
					rs.parses = append(rs.parses, call)
				case n == "sdk/shadowsocks.Pack":
					rs.packs = append(rs.packs, call)
				case n == "builtin.copy":
					rs.copies = append(rs.copies, call)
				}
			}
		}
		out = append(out, rs)
	}
	return out
}

// openEnded: v is an allocation, or x[lo:] / x[lo:len(x)] / x[lo:cap(x)] of an open-ended value: its end is the end of the
// underlying buffer.
func openEnded(c *Ctx, v ssa.Value, d int) (bool, string) {
	if d > 6 {
		return false, "slicing too deep to follow"
	}
	for _, o := range c.P.Origins(v, deepF) {
		switch x := o.(type) {
		case *ssa.Slice:
			if x.High != nil {
				isEnd := false
				// make([]T, N) with constant N is lowered to (new [N]T)[:N]
				if al, ok := x.X.(*ssa.Alloc); ok {
					if pt, ok := al.Type().Underlying().(*types.Pointer); ok {
						if at, ok := pt.Elem().Underlying().(*types.Array); ok {
							if k, ok := eng.ConstInt(x.High); ok && k == at.Len() {
								isEnd = true
							}
						}
					}
				}
				if call, ok := x.High.(*ssa.Call); ok {
					if bi, ok := call.Call.Value.(*ssa.Builtin); ok && (bi.Name() == "len" || bi.Name() == "cap") {
						isEnd = c.P.Resolve(call.Call.Args[0]) == c.P.Resolve(x.X)
					}
				}
				if !isEnd {
					return false, "upper bound at " + c.P.IPos(x)
				}
			}
			if _, isArr := x.X.(*ssa.Alloc); isArr {
				continue // new [N]T sliced whole: constant-size make
			}
			if ok, why := openEnded(c, x.X, d+1); !ok {
				return false, why
			}
		case *ssa.MakeSlice, *ssa.Alloc:
		default:
			return false, "not a slice of a locally allocated buffer: " + valStr(c.P, o)
		}
	}
	return true, ""
}

// initConstInt: v is a load of a package-level variable that only its package initialiser assigns, from an integer constant.
func initConstInt(p *eng.Prog, v ssa.Value) (int64, bool) {
	u, ok := v.(*ssa.UnOp)
	if !ok || u.Op != token.MUL {
		return 0, false
	}
	g, ok := u.X.(*ssa.Global)
	if !ok || !initOnlyGlobal(p, g) {
		return 0, false
	}
	var val int64
	n := 0
	for f := range p.All {
		if f.Pkg != g.Pkg {
			continue
		}
		for _, b := range f.Blocks {
			for _, ins := range b.Instrs {
				if st, ok := ins.(*ssa.Store); ok && st.Addr == ssa.Value(g) {
					k, isC := eng.ConstInt(st.Val)
					if !isC {
						k, isC = socksAddrLen(st.Val)
					}
					if !isC {
						return 0, false
					}
					val = k
					n++
				}
			}
		}
	}
	return val, n == 1
}

// socksAddrLen: v is len(socks.ParseAddr("<ip literal>:port")) — the encoded length of that address form (1 type byte, 4 or 16
// address bytes, 2 port bytes).
func socksAddrLen(v ssa.Value) (int64, bool) {
	lc, ok := v.(*ssa.Call)
	if !ok {
		return 0, false
	}
	if bi, ok := lc.Call.Value.(*ssa.Builtin); !ok || bi.Name() != "len" {
		return 0, false
	}
	pc, ok := lc.Call.Args[0].(*ssa.Call)
	if !ok || eng.CalleeName(&pc.Call) != "ss2/socks.ParseAddr" {
		return 0, false
	}
	str, ok := eng.ConstString(pc.Call.Args[0])
	if !ok {
		return 0, false
	}
	host, _, err := net.SplitHostPort(str)
	if err != nil {
		return 0, false
	}
	ip := net.ParseIP(host)
	switch {
	case ip == nil:
		return int64(1 + 1 + len(host) + 2), true
	case ip.To4() != nil:
		return 7, true
	default:
		return 19, true
	}
}

// ruleBufSize: every buffer a UDP datagram is read into is at least as large as the largest UDP payload (65507 bytes): a smaller
// buffer makes the kernel cut datagrams short silently — the datagram then fails to decrypt or is relayed/reported with a wrong size.
func ruleBufSize(c *Ctx, a *udpAnchors, rule string) {
	p := c.P
	const maxUDP = 65507
	var reads []*ssa.Call
	if a.readFrom != nil {
		reads = append(reads, a.readFrom)
	}
	for _, rs := range findReplySites(c, a) {
		reads = append(reads, rs.reads...)
	}
	for _, m := range findMultiListeners(&Ctx{P: p, Prop: c.Prop}, "x") {
		for _, pump := range m.pumps {
			for _, cl := range eng.Calls(pump) {
				if call, ok := cl.(*ssa.Call); ok && eng.CalleeName(&call.Call) == "(net.PacketConn).ReadFrom" {
					reads = append(reads, call)
				}
			}
		}
	}
	n := 0
	for _, rd := range reads {
		for _, o := range p.Origins(eng.Arg(&rd.Call, 0), eng.Deep) {
			var size int64 = -1
			switch x := o.(type) {
			case *ssa.MakeSlice:
				if k, ok := eng.ConstInt(x.Len); ok {
					size = k
				}
			case *ssa.Alloc:
				if pt, ok := x.Type().(*types.Pointer); ok {
					if arr, ok := pt.Elem().Underlying().(*types.Array); ok {
						size = arr.Len()
					}
				}
			case *ssa.Parameter:
				continue // a caller's buffer (the shared listener copies into it): sized by that caller's own read
			}
			if size < 0 {
				continue
			}
			n++
			c.CheckAt(rule, short(rd.Parent())+":datagram-buffer-holds-the-largest-UDP-payload", rd, size >= maxUDP, fmt.Sprintf("datagrams are read into a buffer of %d bytes, less than the largest UDP payload (%d): larger datagrams are truncated by the kernel without any error", size, maxUDP))
		}
	}
	c.Floor(rule, "constant-size datagram read buffers", n, 2)
}

// rootParam: v derives only from parameters of the reply-loop root function.
func rootParam(c *Ctx, v ssa.Value, rf *ssa.Function, typ string) bool {
	g, _ := c.P.AllFrom(v, deepF, func(x ssa.Value) bool {
		pa, isP := baseRoot(x).(*ssa.Parameter)
		if !isP {
			pa, isP = baseRoot2(x, true).(*ssa.Parameter)
		}
		if !isP || eng.Root(pa.Parent()) != rf {
			return false
		}
		if typ == "" || pa.Type().String() == typ {
			return true
		}
		// a field of that type of a parameter that groups the association's client (natClient{addr, conn}), passed by value
		if _, isStruct := pa.Type().Underlying().(*types.Struct); isStruct && x.Type().String() == typ && strings.HasPrefix(eng.TypeName(pa.Type()), "service.") {
			return true
		}
		return false
	})
	return g
}

// C03.REPLYADDR
func ruleReplyAddr(c *Ctx, a *udpAnchors) {
	p := c.P
	n := 0
	for _, rs := range findReplySites(c, a) {
		if len(rs.reads) == 0 {
			continue
		}
		n++
		key := short(rs.rf)
		// a reply that was read is sent to the client unless something failed: from the success edge of the read, every
		// return that is reached without passing the send to the client reports an error (no silent drop, e.g. of replies
		// with an empty payload)
		for _, rd := range rs.reads {
			g := rd.Parent()
			ei := errLikeResultIndex(g.Signature)
			sameFn := false
			for _, w := range rs.writes {
				if w.Parent() == g {
					sameFn = true
				}
			}
			if !sameFn || ei < 0 {
				continue
			}
			isWrite := func(ins ssa.Instruction) bool {
				for _, w := range rs.writes {
					if ins == ssa.Instruction(w) {
						return true
					}
				}
				return false
			}
			succ, _ := p.SuccessEdges(g, []ssa.CallInstruction{rd}, 2)
			for _, e := range sortedEdges(succ) {
				for _, ri := range eng.ReachableInstrs(edgePoint(e), func(ins ssa.Instruction) bool { _, ok := ins.(*ssa.Return); return ok }, isWrite) {
					r := ri.(*ssa.Return)
					if ei >= len(r.Results) {
						continue
					}
					c.CheckAt("REPLYADDR", key+":a-reply-read-is-sent-or-fails-with-an-error", r, p.DefinitelyNonNil(r.Results[ei], r), "a reply that was read from the association's socket can be dropped without being sent to the client and without an error (this return reports success): datagrams arriving at the association's address are not all delivered")
				}
			}
		}
		if len(rs.parses) == 0 {
			c.CheckAt("REPLYADDR", key+":sender-address-encoded-per-reply", rs.reads[0], false, "the reply path does not encode the sender address of each reply with socks.ParseAddr(raddr.String()) (e.g. it reuses a cached encoding): replies can carry another sender's address")
		}
		for _, parse := range rs.parses {
			all, _ := p.AllFrom(parse.Call.Args[0], eng.OriginOpts{ThroughConvert: true, Interproc: true, ThroughCalls: stringOf}, func(v ssa.Value) bool { return inCalls(v, rs.reads, 1) })
			c.CheckAt("REPLYADDR", key+":sender-address-is-this-reply's-source", parse, all, "the address packed into the reply is not the source address returned by this iteration's read from the target")
			copied := false
			for _, cp := range rs.copies {
				if gd, _ := p.AllFrom(cp.Call.Args[1], deepF, func(v ssa.Value) bool { return v == ssa.Value(parse) }); gd {
					copied = true
				}
			}
			c.CheckAt("REPLYADDR", key+":encoded-address-written-into-packet", parse, copied, "the encoded sender address is not what is copied into the packet header")
		}
		// intact or not at all: a reply that does not fit must fail to pack (and be dropped), never be relayed cut short. The
		// read buffer therefore reaches the very end of the packet buffer that Pack encrypts in: a read that fills it leaves no
		// room for the tag, so Pack fails. A read buffer that stops short of the end lets the kernel truncate silently.
		for _, rd := range rs.reads {
			ok, why := openEnded(c, eng.Arg(&rd.Call, 0), 0)
			c.CheckAt("REPLYADDR", key+":read-buffer-reaches-the-end-of-the-packet-buffer", rd, ok, "the buffer replies are read into is cut short of the end of the packet buffer ("+why+"): an oversize reply is truncated by the kernel to a size that still packs, and the client receives a modified payload")
		}
		// each reply is encrypted once: Pack works in place, so packing again (a "retry with a fresh salt") encrypts ciphertext
		for _, pk := range rs.packs {
			g := pk.Parent()
			isPack := func(ins ssa.Instruction) bool {
				cl, ok := ins.(*ssa.Call)
				return ok && eng.CalleeName(&cl.Call) == "sdk/shadowsocks.Pack"
			}
			_, mx, _ := eng.CountOnPaths(eng.Point{B: g.Blocks[0]}, isPack, nil)
			c.CheckAt("REPLYADDR", key+":reply-packed-at-most-once", pk, mx <= 1, fmt.Sprintf("a reply can be packed %d times on one path: Pack encrypts in place, so the second call encrypts the ciphertext of the first and the client receives neither the sender address nor the payload", mx))
		}
		// every fixed-size sender address form passes the length guard of the reply path: a SOCKS IPv4 address is 1+4+2 = 7
		// bytes, an IPv6 one 1+16+2 = 19 ("the true sender address (IPv4 or IPv6)")
		for _, parse := range rs.parses {
			g := parse.Parent()
			for _, b := range g.Blocks {
				iff, ok := b.Instrs[len(b.Instrs)-1].(*ssa.If)
				if !ok {
					continue
				}
				bo, ok := iff.Cond.(*ssa.BinOp)
				if !ok {
					continue
				}
				k, okK := eng.ConstInt(bo.Y)
				if !okK {
					k, okK = initConstInt(p, bo.Y)
				}
				lc, okL := bo.X.(*ssa.Call)
				if !okK || !okL {
					continue
				}
				bi, okB := lc.Call.Value.(*ssa.Builtin)
				if !okB || bi.Name() != "len" || !p.AnyFrom(lc.Call.Args[0], deepF, func(v ssa.Value) bool { return v == ssa.Value(parse) }) {
					continue
				}
				for _, L := range []int64{7, 19} {
					var val bool
					switch bo.Op {
					case token.GTR:
						val = L > k
					case token.GEQ:
						val = L >= k
					case token.LSS:
						val = L < k
					case token.LEQ:
						val = L <= k
					case token.EQL:
						val = L == k
					case token.NEQ:
						val = L != k
					default:
						continue
					}
					to := b.Succs[1]
					if val {
						to = b.Succs[0]
					}
					reach := eng.ReachBlocks(to, nil)
					okP := false
					for _, pk := range rs.packs {
						if pk.Parent() == g && reach[pk.Block()] {
							okP = true
						}
					}
					c.CheckAt("REPLYADDR", fmt.Sprintf("%s:sender-address-of-%d-bytes-passes-the-length-guard", key, L), iff, okP, fmt.Sprintf("a sender address that encodes to %d bytes (%s) is rejected by the length guard of the reply path: replies from such targets are dropped", L, map[int64]string{7: "IPv4", 19: "IPv6"}[L]))
				}
			}
		}
		if len(rs.writes) == 0 {
			c.CheckAt("REPLYADDR", key+":reply-sent-to-client", rs.reads[0], false, "the reply path never writes to the client connection")
			continue
		}
		for _, wr := range rs.writes {
			c.CheckAt("REPLYADDR", key+":reply-goes-to-the-association's-client", wr, rootParam(c, eng.Arg(&wr.Call, 1), rs.rf, "net.Addr"), "the reply is written to an address other than the association's own client address parameter")
			okBuf, _ := p.AllFrom(eng.Arg(&wr.Call, 0), deepF, func(v ssa.Value) bool { return inCalls(v, rs.packs, 0) })
			c.CheckAt("REPLYADDR", key+":sends-the-packed-buffer", wr, okBuf, "what is written to the client is not the buffer returned by Pack")
			c.CheckAt("REPLYADDR", key+":reply-goes-out-through-the-association's-listener", wr, rootParam(c, eng.Receiver(&wr.Call), rs.rf, "net.PacketConn"), "the reply is written through a connection other than the one the association was created with")
		}
	}
	c.Floor("REPLYADDR", "reply loops", n, 1)
}

// isReadWrapperCall: a call of a helper of the package that stands for the read on the listening socket: it returns
// (n int, addr net.Addr, err error) and reads a packet connection itself (directly or one level down).
func isReadWrapperCall(c *Ctx, call *ssa.Call) bool {
	h := call.Call.StaticCallee()
	if h == nil || !c.P.InRepo(h) || len(h.Blocks) == 0 || eng.PkgPathOf(h) != eng.Mod+"/service" || c.P.IsTestSupport(h) {
		return false
	}
	rs := h.Signature.Results()
	if rs.Len() != 3 || rs.At(0).Type().String() != "int" || rs.At(1).Type().String() != "net.Addr" || rs.At(2).Type().String() != "error" {
		return false
	}
	for _, g := range regionFns(c, h, nil, 2) {
		for _, cl := range eng.Calls(g) {
			if isBlockingSocketCall(cl) || strings.HasPrefix(eng.MethodName(cl.Common()), "ReadFrom") {
				return true
			}
		}
	}
	return false
}

// ruleClientAddrFresh: when the listening socket is read through a helper, the client address it hands out belongs to this
// datagram: every returned address is the socket read's own result, nil, or freshly built in that call — never the address of
// storage that outlives the call (a field of the reader, reused for the next datagram): associations keep the address they
// were created with, so a reused object silently re-addresses every earlier association to the latest sender.
func ruleClientAddrFresh(c *Ctx, a *udpAnchors, rule string) {
	p := c.P
	if a.readFrom == nil || !isReadWrapperCall(c, a.readFrom) {
		return
	}
	h := a.readFrom.Call.StaticCallee()
	for i, r := range eng.Returns(h) {
		if len(r.Results) != 3 {
			continue
		}
		rv := r.Results[1]
		if sv := p.ReachingStore(rv, r); sv != nil {
			rv = sv
		}
		good, bad := p.AllFrom(rv, eng.OriginOpts{ThroughConvert: true}, func(v ssa.Value) bool {
			switch x := v.(type) {
			case *ssa.Const:
				return x.IsNil()
			case *ssa.Alloc:
				return x.Heap && x.Parent() == h // &net.UDPAddr{…} built by this call
			case *ssa.FieldAddr, *ssa.IndexAddr, *ssa.Global:
				return false
			}
			if cc, _, ok := eng.AsResult(v); ok {
				// the socket's own answer, or a value built by a function outside the module (net.UDPAddrFromAddrPort)
				hh := cc.Call.StaticCallee()
				return hh == nil || !p.InRepo(hh)
			}
			return false
		})
		c.CheckAt(rule, fmt.Sprintf("%s:return#%d:client-address-belongs-to-this-datagram", short(h), i), r, good, "the read helper returns a client address that is not the socket's own answer nor freshly built (e.g. the address of a field it reuses for every datagram): the association created for one client is re-addressed to whoever sent the latest datagram ("+valsStr(p, bad)+")")
	}
}

// C04.NATKEY
func ruleNatKey(c *Ctx, a *udpAnchors) {
	p := c.P
	m := a.m
	// addrOf: v == X.String() on a net.Addr → the single origin of X
	var addrOf func(v ssa.Value) (ssa.Value, bool)
	addrOf = func(v ssa.Value) (ssa.Value, bool) {
		// a key helper (natKey(addr) string { return addr.String() }): judged at this call, with the argument it is given
		if call, isC := p.Resolve(v).(*ssa.Call); isC {
			if h := call.Call.StaticCallee(); h != nil && p.InRepo(h) && len(h.Blocks) > 0 && h.Signature.Results().Len() == 1 {
				idx := -1
				okH := true
				for _, r := range eng.Returns(h) {
					sc, isS := p.Resolve(r.Results[0]).(*ssa.Call)
					if !isS || eng.CalleeName(&sc.Call) != "(net.Addr).String" {
						okH = false
						continue
					}
					pa, isP := p.Resolve(sc.Call.Value).(*ssa.Parameter)
					if !isP {
						okH = false
						continue
					}
					for i, q := range h.Params {
						if q == pa {
							if idx >= 0 && idx != i {
								okH = false
							}
							idx = i
						}
					}
				}
				if okH && idx >= 0 && idx < len(call.Call.Args) {
					os := p.Origins(call.Call.Args[idx], eng.Plain)
					if len(os) == 1 {
						return baseRoot(os[0]), true
					}
					return nil, false
				}
			}
		}
		var found ssa.Value
		ok, _ := p.AllFrom(v, deepF, func(x ssa.Value) bool {
			call, isC := x.(*ssa.Call)
			if !isC || eng.CalleeName(&call.Call) != "(net.Addr).String" {
				return false
			}
			os := p.Origins(call.Call.Value, eng.Plain)
			if len(os) != 1 {
				return false
			}
			if found != nil && found != baseRoot(os[0]) {
				return false
			}
			found = baseRoot(os[0])
			return true
		})
		return found, ok && found != nil
	}
	fromRead := func(x ssa.Value) bool {
		if a.readFrom == nil || x == nil {
			return false
		}
		if eng.ResultOf(x, a.readFrom, 1) {
			return true
		}
		oo := deepF
		oo.Stop = func(v ssa.Value) bool { return eng.ResultOf(v, a.readFrom, 1) } // do not look inside a read helper
		for _, o := range p.Origins(x, oo) {
			if eng.ResultOf(o, a.readFrom, 1) {
				return true
			}
		}
		return false
	}
	for i, g := range a.gets {
		x, ok := addrOf(eng.Arg(&g.Call, 0))
		c.CheckAt("NATKEY", fmt.Sprintf("lookup#%d:key-is-full-source-address", i), g, ok && fromRead(x), "the association lookup key is not String() of the whole source address returned by this datagram's ReadFrom (e.g. IP only, or another address): different clients would share — or one client would split — an association")
	}
	c.Floor("NATKEY", "table lookups in the datagram region", len(a.gets), 1)
	for i, ad := range a.adds {
		okA, okC := false, false
		for _, ar := range ad.Call.Args {
			switch ar.Type().String() {
			case "net.Addr":
				oo := deepF
				oo.Stop = func(v ssa.Value) bool { return a.readFrom != nil && eng.ResultOf(v, a.readFrom, 1) }
				for _, o := range p.Origins(ar, oo) {
					if fromRead(baseRoot(o)) || fromRead(o) {
						okA = true
					}
				}
			case "net.PacketConn":
				// the listener connection: a parameter of the loop function (not the freshly created socket)
				if g, _ := p.AllFrom(ar, deepF, func(v ssa.Value) bool { _, isP := baseRoot(v).(*ssa.Parameter); return isP }); g {
					okC = true
				}
			}
		}
		c.CheckAt("NATKEY", fmt.Sprintf("add#%d:client-address-is-the-datagram-source", i), ad, okA, "the association is created for an address other than this datagram's source")
		c.CheckAt("NATKEY", fmt.Sprintf("add#%d:replies-go-out-through-the-listening-socket", i), ad, okC, "the association's client-facing connection is not the listener the datagram arrived on")
	}
	n := 0
	seen := map[*ssa.Function]bool{}
	var fns []*ssa.Function
	isAssocGo := map[*ssa.Function]bool{}
	for _, g := range m.assocGo {
		isAssocGo[g] = true
	}
	for _, g := range eng.Family(m.add) {
		if !seen[g] {
			seen[g] = true
			fns = append(fns, g)
		}
	}
	for _, ag := range m.assocGo {
		for _, g := range c.NewRegion(ag, 2, m.stopFn(c)).Fns {
			if !seen[g] {
				seen[g] = true
				fns = append(fns, g)
			}
		}
	}
	// addParam: x is Add's client-address parameter, directly or as the argument bound to a parameter of the goroutine Add starts
	addParam := func(x ssa.Value) bool {
		pa, isP := x.(*ssa.Parameter)
		if !isP || pa.Type().String() != "net.Addr" {
			return false
		}
		if eng.Root(pa.Parent()) == m.add {
			return true
		}
		if !isAssocGo[pa.Parent()] {
			return false
		}
		idx := -1
		for i, q := range pa.Parent().Params {
			if q == pa {
				idx = i
			}
		}
		ok := false
		for _, gs := range eng.Calls(m.add) {
			gg, isGo := gs.(*ssa.Go)
			if !isGo || gg.Call.StaticCallee() != pa.Parent() || idx < 0 || idx >= len(gg.Call.Args) {
				continue
			}
			ok, _ = p.AllFrom(gg.Call.Args[idx], eng.Plain, func(v ssa.Value) bool {
				q, isQ := v.(*ssa.Parameter)
				return isQ && q.Parent() == m.add && q.Type().String() == "net.Addr"
			})
		}
		return ok
	}
	for _, g := range fns {
		// an insertion written out in Add (no set helper)
		for _, b := range g.Blocks {
			for _, ins := range b.Instrs {
				mu, ok := ins.(*ssa.MapUpdate)
				if !ok || g == m.set || !p.AnyFrom(mu.Map, eng.Plain, func(x ssa.Value) bool { return eng.IsFieldLoad(x, m.mapT, m.mapField) }) {
					continue
				}
				n++
				x, ok := addrOf(mu.Key)
				c.CheckAt("NATKEY", short(g)+":table-key-is-String()-of-Add's-client-address", mu, ok && addParam(x), "the table key used for insert/delete is not String() of Add's client address parameter")
			}
		}
		for _, cl := range eng.Calls(g) {
			call, ok := cl.(*ssa.Call)
			if !ok || !((m.set != nil && callTo(c, call, m.set)) || callTo(c, call, m.del)) {
				continue
			}
			n++
			x, ok := addrOf(eng.Arg(&call.Call, 0))
			good := ok && addParam(x)
			c.CheckAt("NATKEY", short(g)+":table-key-is-String()-of-Add's-client-address", call, good, "the table key used for insert/delete is not String() of Add's client address parameter")
		}
	}
	c.Floor("NATKEY", "insert/delete calls of an association", n, 2)
}

// C04.OWNSOCK
func ruleOwnSock(c *Ctx, a *udpAnchors) {
	p := c.P
	m := a.m
	for i, ls := range a.listens {
		key := fmt.Sprintf("outbound-socket#%d", i)
		reachesAdd := false
		for _, ad := range a.adds {
			for _, ar := range ad.Call.Args {
				if p.AnyFrom(ar, deepF, func(v ssa.Value) bool { return eng.ResultOf(v, ls, 0) }) {
					reachesAdd = true
				}
			}
		}
		c.CheckAt("OWNSOCK", key+":handed-to-the-association", ls, reachesAdd, "the outbound socket created for this client is not handed to natmap.Add")
		stored := false
		a.R.Instrs(func(f *ssa.Function, ins ssa.Instruction) {
			switch st := ins.(type) {
			case *ssa.Store:
				_, isFA := st.Addr.(*ssa.FieldAddr)
				_, isG := st.Addr.(*ssa.Global)
				if (isFA || isG) && p.AnyFrom(st.Val, deepF, func(v ssa.Value) bool { return eng.ResultOf(v, ls, 0) }) {
					stored = true
				}
			case *ssa.MapUpdate:
				if p.AnyFrom(st.Value, deepF, func(v ssa.Value) bool { return eng.ResultOf(v, ls, 0) }) {
					stored = true
				}
			}
		})
		c.CheckAt("OWNSOCK", key+":not-stored-elsewhere", ls, !stored, "the outbound socket is also stored in a field, global or map by the datagram code: it could be shared between associations")
		c.CheckAt("OWNSOCK", key+":created-only-when-absent", ls, a.R.CutDeep(ls, a.gAbsent), "a new outbound socket is created although an association exists for this client address")
	}
	for i, ad := range a.adds {
		c.CheckAt("OWNSOCK", fmt.Sprintf("add#%d:only-when-absent", i), ad, a.R.CutDeep(ad, a.gAbsent), "an association is created although one already exists for this client address: the live entry is overwritten, the client gets a second source address and the old goroutine later deletes the new entry")
	}
	var gos []*ssa.Go
	for _, cl := range eng.Calls(m.add) {
		if g, ok := cl.(*ssa.Go); ok {
			gos = append(gos, g)
		}
	}
	c.Check("OWNSOCK", short(m.add)+":one-goroutine-per-association", p.Pos(m.add.Pos()), len(gos) == 1 && eng.InnermostLoop(eng.Loops(m.add), gos[0].Block()) == nil, fmt.Sprintf("Add starts %d goroutines (expected exactly one reply goroutine per association)", len(gos)))
	for _, st := range p.FieldStores(m.connT, m.connField) {
		if !st.Fresh || st.Val == nil {
			continue
		}
		okS, _ := p.AllFrom(st.Val, deepF, func(v ssa.Value) bool {
			pa, isP := v.(*ssa.Parameter)
			return isP && pa.Parent() == m.add && pa.Type().String() == "net.PacketConn"
		})
		c.CheckAt("OWNSOCK", "entry-wraps-Add's-socket:"+short(st.Fn), st.Ins, okS, "the association entry does not wrap the outbound socket passed to Add")
	}
	for _, lit := range m.assocGo {
		reg := c.NewRegion(lit, 2, m.stopFn(c))
		for _, cl := range reg.Calls() {
			call, ok := cl.(*ssa.Call)
			if !ok {
				continue
			}
			for _, rf := range a.replyFns {
				if !callTo(c, call, rf) {
					continue
				}
				okAll := true
				for _, ar := range call.Call.Args {
					ts := ar.Type().String()
					switch {
					case ts == "net.Addr" || ts == "net.PacketConn":
						g, _ := p.AllFrom(ar, deepF, func(v ssa.Value) bool {
							pa, isP := baseRoot(v).(*ssa.Parameter)
							return isP && pa.Parent() == m.add && pa.Type().String() == ts
						})
						if !g {
							okAll = false
						}
					case eng.TypeName(ar.Type()) == m.connT:
						// the entry this Add stored: the result of the insertion helper, or — when the insertion is written out
						// in Add — the fresh entry that Add puts into the table
						g, _ := p.AllFrom(ar, deepF, func(v ssa.Value) bool {
							if cc, isC := baseRoot(v).(*ssa.Call); isC && m.set != nil && callTo(c, cc, m.set) {
								return true
							}
							al, isAl := v.(*ssa.Alloc)
							if !isAl || eng.Root(al.Parent()) != m.add {
								return false
							}
							// ... or hands to the insertion helper
							if m.set != nil {
								for _, g := range eng.Family(m.add) {
									for _, cl2 := range eng.Calls(g) {
										if sc, ok := cl2.(*ssa.Call); ok && callTo(c, sc, m.set) {
											for _, sa := range sc.Call.Args {
												if p.AnyFrom(sa, eng.Plain, func(x ssa.Value) bool { return x == ssa.Value(al) }) {
													return true
												}
											}
										}
									}
								}
							}
							for _, g := range eng.Family(m.add) {
								for _, b := range g.Blocks {
									for _, ins := range b.Instrs {
										if mu, ok := ins.(*ssa.MapUpdate); ok && p.AnyFrom(mu.Map, eng.Plain, func(x ssa.Value) bool { return eng.IsFieldLoad(x, m.mapT, m.mapField) }) {
											if p.AnyFrom(mu.Value, eng.Plain, func(x ssa.Value) bool { return x == ssa.Value(al) }) {
												return true
											}
										}
									}
								}
							}
							return false
						})
						if !g {
							okAll = false
						}
					}
				}
				c.CheckAt("OWNSOCK", short(lit)+":reply-loop-serves-this-association", call, okAll, "the reply goroutine is not started with (Add's client address, Add's listener connection, the entry just stored)")
			}
		}
	}
}

// isIPValidatorCall: a dynamic call of a func(net.IP) error value.
func isIPValidatorCall(cl ssa.CallInstruction) bool {
	cc := cl.Common()
	if cc.IsInvoke() || cc.StaticCallee() != nil {
		return false
	}
	if _, isB := cc.Value.(*ssa.Builtin); isB {
		return false
	}
	sig := cc.Signature()
	return sig.Params().Len() == 1 && sig.Params().At(0).Type().String() == "net.IP" && errorResultIndex(sig) == 0
}
