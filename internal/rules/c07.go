package rules

import (
	"fmt"
	"go/constant"
	"go/token"
	"go/types"
	"strings"

	"golang.org/x/tools/go/ssa"

	"verif/internal/eng"
)

// C07.HISTORY — the structural part of "the most recent N checked handshakes are remembered".
//
// The replay history is a set of map-typed "generation" fields of ReplayCache plus one integer capacity. What the
// rule decides (necessary conditions of the property; the counting argument itself is not decided):
//
//	(a) remembered handshakes are forgotten only by rotation of a full generation: every store to a generation
//	    field outside construction either moves another generation there on an edge where that generation's
//	    size was compared against the capacity and found full, or installs an empty map into a generation whose
//	    previous content was moved out just before — or sits on an edge where the capacity is zero (history off);
//	    no delete/clear is applied to a generation map except on such an edge;
//	(b) Add consults every generation with the key it inserts, and a hit in any of them makes it return false;
//	(c) on every path on which Add can answer "new" with the history enabled, the key has been inserted
//	    (a refused replay is re-inserted too: "checked" handshakes count, not only accepted ones);
//	(d) the key is computed from both the access-key id and the salt.
const replayT = "service.ReplayCache"

type histModel struct {
	gens    []string // map-typed fields
	capF    string   // the capacity field
	capBusy map[*ssa.Parameter]bool
	genT    map[string]bool // the struct types that declare the generation fields: the cache itself, or a struct it holds by value
}

// isGenHolder: t is the replay cache type or the by-value struct inside it that holds the generations.
func (m *histModel) isGenHolder(t string) bool { return t == replayT || m.genT[t] }

func findHist(c *Ctx) *histModel {
	m := &histModel{genT: map[string]bool{}}
	for _, fl := range c.P.StructFields(replayT) {
		switch u := fl.Type().Underlying().(type) {
		case *types.Map:
			m.gens = append(m.gens, fl.Name())
		case *types.Struct:
			// the generations grouped in a struct held by value (embedded or named)
			tn := eng.TypeName(fl.Type())
			for i := 0; i < u.NumFields(); i++ {
				if _, isMap := u.Field(i).Type().Underlying().(*types.Map); isMap && strings.HasPrefix(tn, "service.") {
					m.gens = append(m.gens, u.Field(i).Name())
					m.genT[tn] = true
				}
			}
		case *types.Basic:
			if u.Info()&types.IsInteger != 0 {
				m.capF = fl.Name()
			}
		}
	}
	return m
}

// genLoad: v is a load of a generation field of the replay cache; returns the field name.
func (m *histModel) genLoad(v ssa.Value) (string, bool) {
	u, ok := v.(*ssa.UnOp)
	if !ok || u.Op != token.MUL {
		return "", false
	}
	fa, ok := u.X.(*ssa.FieldAddr)
	if !ok {
		return "", false
	}
	t, fl, _, ok := eng.FieldOf(fa)
	if !ok || !m.isGenHolder(t) {
		return "", false
	}
	for _, g := range m.gens {
		if g == fl {
			return g, true
		}
	}
	return "", false
}

// stopAtGen: origin walks stop at loads of generation fields (the engine would otherwise look through such a load to the
// map last stored into the field).
func (m *histModel) stopAtGen(v ssa.Value) bool {
	_, ok := m.genLoad(v)
	return ok
}

// genOf: every origin of v is a load of the same generation field.
func (m *histModel) genOf(p *eng.Prog, v ssa.Value) (string, bool) {
	g := ""
	for _, o := range p.Origins(v, eng.OriginOpts{ThroughConvert: true, Interproc: true, Stop: m.stopAtGen}) {
		x, ok := m.genLoad(o)
		if !ok || (g != "" && g != x) {
			return "", false
		}
		g = x
	}
	return g, g != ""
}

// anyGen: some origin of v is a load of a generation field.
func (m *histModel) anyGen(p *eng.Prog, v ssa.Value) bool {
	for _, o := range p.Origins(v, eng.OriginOpts{ThroughConvert: true, Interproc: true, Stop: m.stopAtGen}) {
		if _, ok := m.genLoad(o); ok {
			return true
		}
	}
	return false
}

// capLike: v is the capacity — a load of the capacity field, or a parameter of f that f stores into the capacity
// field — with no arithmetic in between.
func (m *histModel) capLike(p *eng.Prog, v ssa.Value, f *ssa.Function) bool {
	os := p.Origins(v, eng.OriginOpts{})
	if len(os) == 0 {
		return false
	}
	for _, o := range os {
		switch x := o.(type) {
		case *ssa.UnOp:
			fa, ok := x.X.(*ssa.FieldAddr)
			if !ok || x.Op != token.MUL {
				return false
			}
			t, fl, _, ok := eng.FieldOf(fa)
			if !ok || t != replayT || fl != m.capF {
				return false
			}
		case *ssa.Parameter:
			stored := false
			for _, st := range p.FieldStores(replayT, m.capF) {
				if st.Fn == eng.Root(f) || st.Fn == f {
					if st.Val != nil {
						for _, so := range p.Origins(st.Val, eng.OriginOpts{}) {
							if so == ssa.Value(x) {
								stored = true
							}
						}
					}
				}
			}
			if !stored {
				// a helper that is handed the capacity: every call site passes a capacity-like value
				fn := x.Parent()
				idx := -1
				for i, q := range fn.Params {
					if q == x {
						idx = i
					}
				}
				sites := p.CallSitesOf(fn)
				if idx < 0 || len(sites) == 0 || m.capBusy[x] {
					return false
				}
				if m.capBusy == nil {
					m.capBusy = map[*ssa.Parameter]bool{}
				}
				m.capBusy[x] = true
				okAll := true
				for _, site := range sites {
					args := site.Ins.(ssa.CallInstruction).Common().Args
					if p.IsTestSupport(site.Fn) {
						continue
					}
					if idx >= len(args) || !m.capLike(p, args[idx], site.Fn) {
						okAll = false
					}
				}
				delete(m.capBusy, x)
				if !okAll {
					return false
				}
			}
		default:
			return false
		}
	}
	return true
}

func (m *histModel) lenOfGen(p *eng.Prog, v ssa.Value) (string, bool) {
	for _, o := range p.Origins(v, eng.OriginOpts{}) {
		call, ok := o.(*ssa.Call)
		if !ok {
			return "", false
		}
		b, ok := call.Call.Value.(*ssa.Builtin)
		if !ok || b.Name() != "len" || len(call.Call.Args) != 1 {
			return "", false
		}
		return m.genOf(p, call.Call.Args[0])
	}
	return "", false
}

// fullCmp: bo compares len(generation) with the capacity; pol > 0: true means full, < 0: false means full, 0: no.
func (m *histModel) fullCmp(p *eng.Prog, bo *ssa.BinOp, f *ssa.Function) (string, int) {
	if g, ok := m.lenOfGen(p, bo.X); ok && m.capLike(p, bo.Y, f) {
		switch bo.Op {
		case token.GEQ, token.GTR, token.EQL:
			return g, 1
		case token.LSS, token.LEQ, token.NEQ:
			return g, -1
		}
	}
	if g, ok := m.lenOfGen(p, bo.Y); ok && m.capLike(p, bo.X, f) {
		switch bo.Op {
		case token.LEQ, token.LSS, token.EQL:
			return g, 1
		case token.GTR, token.GEQ, token.NEQ:
			return g, -1
		}
	}
	return "", 0
}

func constIntIs(v ssa.Value, k int64) bool {
	cst, ok := v.(*ssa.Const)
	if !ok || cst.Value == nil || cst.Value.Kind() != constant.Int {
		return false
	}
	x, ok := constant.Int64Val(cst.Value)
	return ok && x == k
}

// histEdges: the edges of f on which generation g was found full (len(g) ≥ capacity), and those on which the
// history is switched off (capacity == 0, or the cache pointer itself is nil).
func (m *histModel) histEdges(p *eng.Prog, f *ssa.Function) (full map[string]eng.EdgeSet, off eng.EdgeSet) {
	full = map[string]eng.EdgeSet{}
	off = eng.EdgeSet{}
	for _, b := range f.Blocks {
		if len(b.Instrs) == 0 {
			continue
		}
		iff, ok := b.Instrs[len(b.Instrs)-1].(*ssa.If)
		if !ok || len(b.Succs) != 2 {
			continue
		}
		cond := iff.Cond
		tIdx, fIdx := 0, 1
		for {
			u, ok := cond.(*ssa.UnOp)
			if !ok || u.Op != token.NOT {
				break
			}
			cond = u.X
			tIdx, fIdx = fIdx, tIdx
		}
		tE, fE := eng.Edge{From: b, To: b.Succs[tIdx]}, eng.Edge{From: b, To: b.Succs[fIdx]}
		// a predicate helper (activeIsFull()) whose every return is one such comparison
		if pc, isCall := cond.(*ssa.Call); isCall {
			if h := pc.Call.StaticCallee(); h != nil && p.InRepo(h) && len(h.Blocks) > 0 {
				// ... or "the history is off" (historyOff() = capacity == 0)
				offPol, okOff := 0, true
				for _, r := range eng.Returns(h) {
					if len(r.Results) != 1 {
						okOff = false
						continue
					}
					rb, isB := p.Resolve(retVal(p, r)).(*ssa.BinOp)
					if !isB || !m.capLike(p, rb.X, h) {
						okOff = false
						continue
					}
					pl := 0
					switch {
					case rb.Op == token.EQL && constIntIs(rb.Y, 0), rb.Op == token.LEQ && constIntIs(rb.Y, 0), rb.Op == token.LSS && constIntIs(rb.Y, 1):
						pl = 1
					case rb.Op == token.NEQ && constIntIs(rb.Y, 0), rb.Op == token.GTR && constIntIs(rb.Y, 0), rb.Op == token.GEQ && constIntIs(rb.Y, 1):
						pl = -1
					}
					if pl == 0 || (offPol != 0 && offPol != pl) {
						okOff = false
					}
					offPol = pl
				}
				if okOff && offPol > 0 {
					off[tE] = true
					continue
				} else if okOff && offPol < 0 {
					off[fE] = true
					continue
				}
				gen, pol, okP := "", 0, true
				for _, r := range eng.Returns(h) {
					if len(r.Results) != 1 {
						okP = false
						continue
					}
					rb, isB := p.Resolve(r.Results[0]).(*ssa.BinOp)
					if !isB {
						okP = false
						continue
					}
					g, pl := m.fullCmp(p, rb, h)
					if pl == 0 || (gen != "" && (g != gen || pl != pol)) {
						okP = false
					}
					gen, pol = g, pl
				}
				if okP && gen != "" {
					if full[gen] == nil {
						full[gen] = eng.EdgeSet{}
					}
					if pol > 0 {
						full[gen][tE] = true
					} else {
						full[gen][fE] = true
					}
				}
			}
			continue
		}
		bo, ok := cond.(*ssa.BinOp)
		if !ok {
			continue
		}
		add := func(g string, e eng.Edge) {
			if full[g] == nil {
				full[g] = eng.EdgeSet{}
			}
			full[g][e] = true
		}
		if g, ok := m.lenOfGen(p, bo.X); ok && m.capLike(p, bo.Y, f) {
			switch bo.Op {
			case token.GEQ, token.GTR, token.EQL:
				add(g, tE)
			case token.LSS, token.LEQ, token.NEQ:
				add(g, fE)
			}
		}
		if g, ok := m.lenOfGen(p, bo.Y); ok && m.capLike(p, bo.X, f) {
			switch bo.Op {
			case token.LEQ, token.LSS, token.EQL:
				add(g, tE)
			case token.GTR, token.GEQ, token.NEQ:
				add(g, fE)
			}
		}
		// history off
		if m.capLike(p, bo.X, f) {
			switch {
			case bo.Op == token.EQL && constIntIs(bo.Y, 0), bo.Op == token.LEQ && constIntIs(bo.Y, 0), bo.Op == token.LSS && constIntIs(bo.Y, 1):
				off[tE] = true
			case bo.Op == token.NEQ && constIntIs(bo.Y, 0), bo.Op == token.GTR && constIntIs(bo.Y, 0), bo.Op == token.GEQ && constIntIs(bo.Y, 1):
				off[fE] = true
			}
		}
		if m.capLike(p, bo.Y, f) && constIntIs(bo.X, 0) {
			switch bo.Op {
			case token.EQL, token.GEQ:
				off[tE] = true
			case token.NEQ, token.LSS:
				off[fE] = true
			}
		}
		// nil cache
		if x, nonNil, ok := eng.NilCompare(cond); ok {
			if pa, isP := x.(*ssa.Parameter); isP && eng.TypeName(pa.Type()) == replayT {
				if nonNil {
					off[fE] = true
				} else {
					off[tE] = true
				}
			}
		}
	}
	return
}

func ruleHistory(c *Ctx) {
	p := c.P
	m := findHist(c)
	if !c.Floor("HISTORY", "history generations (map fields of the replay cache)", len(m.gens), 2) || m.capF == "" {
		if m.capF == "" {
			c.Undecided("HISTORY", "anchor:capacity-field", "-", "the replay cache has no integer capacity field")
		}
		return
	}
	type edges struct {
		full map[string]eng.EdgeSet
		off  eng.EdgeSet
	}
	cache := map[*ssa.Function]*edges{}
	edgesOf := func(f *ssa.Function) *edges {
		if e, ok := cache[f]; ok {
			return e
		}
		e := &edges{}
		e.full, e.off = m.histEdges(p, f)
		cache[f] = e
		return e
	}
	// guarded: every path to block b of f crosses an edge of pick(f) — or f is a helper and every one of its call
	// sites is guarded in the same sense (the full/off test may sit in the caller of a rotate() helper).
	var guarded func(f *ssa.Function, b *ssa.BasicBlock, pick func(*edges) eng.EdgeSet, depth int) bool
	guarded = func(f *ssa.Function, b *ssa.BasicBlock, pick func(*edges) eng.EdgeSet, depth int) bool {
		if g := pick(edgesOf(f)); len(g) > 0 && eng.Cut(f, b, g) {
			return true
		}
		if depth >= 3 {
			return false
		}
		sites := p.CallSitesOf(f)
		if len(sites) == 0 {
			return false
		}
		for _, s := range sites {
			if p.IsTestSupport(s.Fn) {
				continue
			}
			if !guarded(s.Fn, s.Ins.Block(), pick, depth+1) {
				return false
			}
		}
		return true
	}
	isGenField := func(fa *ssa.FieldAddr) (string, bool) {
		t, fl, _, ok := eng.FieldOf(fa)
		if !ok || !m.isGenHolder(t) {
			return "", false
		}
		for _, g := range m.gens {
			if g == fl {
				return g, true
			}
		}
		return "", false
	}

	// (a) stores to generation fields
	type move struct {
		st   *ssa.Store
		from string
	}
	nStores := 0
	for _, f := range p.Fns {
		if p.IsTestSupport(f) {
			continue
		}
		var moves []move
		var stores []*ssa.Store
		for _, b := range f.Blocks {
			for _, ins := range b.Instrs {
				st, ok := ins.(*ssa.Store)
				if !ok {
					continue
				}
				fa, ok := st.Addr.(*ssa.FieldAddr)
				if !ok {
					continue
				}
				if _, ok := isGenField(fa); !ok {
					continue
				}
				if al := allocRoot(fa.X); al != nil && al.Parent() == f {
					continue // construction of a value this function has just allocated
				}
				stores = append(stores, st)
				if g, ok := m.genOf(p, st.Val); ok {
					moves = append(moves, move{st, g})
				}
			}
		}
		for _, st := range stores {
			nStores++
			fa := st.Addr.(*ssa.FieldAddr)
			dst, _ := isGenField(fa)
			offHere := guarded(f, st.Block(), func(e *edges) eng.EdgeSet { return e.off }, 0)
			key := short(f) + ":" + dst
			// a transition helper in functional style: `c.active, c.archive = nextGeneration(c.active, c.archive, c.capacity)`.
			// Each return of the helper is judged as the set of simultaneous stores it stands for.
			if ex, isEx := p.Resolve(st.Val).(*ssa.Extract); isEx {
				if tc, isCall := ex.Tuple.(*ssa.Call); isCall {
					if h := tc.Call.StaticCallee(); h != nil && p.InRepo(h) && len(h.Blocks) > 0 {
						// which result goes to which generation at this call
						dstOf := map[int]string{}
						for _, st2 := range stores {
							if ex2, ok := p.Resolve(st2.Val).(*ssa.Extract); ok && ex2.Tuple == ssa.Value(tc) {
								g2, _ := isGenField(st2.Addr.(*ssa.FieldAddr))
								dstOf[ex2.Index] = g2
							}
						}
						ctx := m.bindCtx(p, tc, h, nil)
						eh := edgesOf(h)
						okAll, why := true, ""
						for ri, r := range eng.Returns(h) {
							if ex.Index >= len(r.Results) {
								okAll, why = false, "result not found"
								continue
							}
							v := r.Results[ex.Index]
							if src, ok := m.genOfCtx(p, v, ctx); ok {
								if src == dst {
									continue
								}
								if !(len(eh.full[src]) > 0 && eng.Cut(h, r.Block(), eh.full[src])) && !offHere {
									okAll, why = false, fmt.Sprintf("return #%d of %s hands %q over to %q on a path on which %q was not found full", ri, short(h), src, dst, src)
								}
								continue
							}
							fresh := true
							for _, o := range p.Origins(v, eng.OriginOpts{ThroughConvert: true, Interproc: true, Stop: m.stopAtGen}) {
								if _, isMk := o.(*ssa.MakeMap); !isMk {
									fresh = false
								}
							}
							if !fresh {
								okAll, why = false, fmt.Sprintf("return #%d of %s replaces %q by something that is neither a generation nor an empty map", ri, short(h), dst)
								continue
							}
							// emptied: the same return moves dst's content to another generation
							moved := false
							for j, g2 := range dstOf {
								if j < len(r.Results) && g2 != dst {
									if src, ok := m.genOfCtx(p, r.Results[j], ctx); ok && src == dst {
										moved = true
									}
								}
							}
							if !moved && !offHere {
								okAll, why = false, fmt.Sprintf("return #%d of %s empties %q without moving its content to another generation", ri, short(h), dst)
							}
						}
						c.CheckAt("HISTORY", key+":transition-helper-only-rotates", st, okAll, why)
						continue
					}
				}
			}
			if src, ok := m.genOf(p, st.Val); ok {
				if src == dst {
					c.CheckAt("HISTORY", key+":self-store", st, true, "")
					continue
				}
				okFull := guarded(f, st.Block(), func(e *edges) eng.EdgeSet { return eng.Union(e.full[src], e.off) }, 0)
				c.CheckAt("HISTORY", key+":replaced-only-by-a-full-generation", st, okFull || offHere,
					fmt.Sprintf("generation %q is overwritten with %q (its remembered handshakes are forgotten) on a path on which %q was not found full — len(%s) ≥ capacity, compared directly — so fewer than the promised number of recent handshakes may remain", dst, src, src, src))
				continue
			}
			// a fresh / nil map
			freshVal := true
			for _, o := range p.Origins(st.Val, eng.OriginOpts{ThroughConvert: true, Interproc: true}) {
				switch x := o.(type) {
				case *ssa.MakeMap:
				case *ssa.Const:
					if !x.IsNil() {
						freshVal = false
					}
				default:
					freshVal = false
				}
			}
			movedOut := false
			for _, mv := range moves {
				if mv.from != dst || mv.st == st {
					continue
				}
				if eng.Dominates(mv.st, st) {
					movedOut = true
					continue
				}
				// `old := g; g = make(...); other = old`: the content was read before the reset and is stored on
				// every path after it
				readBefore := true
				for _, o := range p.Origins(mv.st.Val, eng.OriginOpts{ThroughConvert: true}) {
					ld, isLoad := o.(*ssa.UnOp)
					if !isLoad || !eng.Dominates(ld, st) {
						readBefore = false
					}
				}
				if readBefore {
					if ok, _ := eng.MustPass(eng.After(st), func(i ssa.Instruction) bool { return i == ssa.Instruction(mv.st) }); ok {
						movedOut = true
					}
				}
			}
			if !freshVal {
				c.CheckAt("HISTORY", key+":replaced-only-by-rotation", st, offHere, fmt.Sprintf("generation %q is replaced by a value that is neither another generation nor an empty map", dst))
				continue
			}
			c.CheckAt("HISTORY", key+":emptied-only-after-its-content-moved-on", st, movedOut,
				fmt.Sprintf("generation %q is emptied although its content was not moved to another generation first: every handshake remembered there is forgotten at once", dst))
		}
	}
	// delete / clear on generation maps
	for _, f := range p.Fns {
		if p.IsTestSupport(f) {
			continue
		}
		for _, cl := range eng.Calls(f) {
			b, ok := cl.Common().Value.(*ssa.Builtin)
			if !ok || (b.Name() != "delete" && b.Name() != "clear") || len(cl.Common().Args) == 0 {
				continue
			}
			if _, isMap := cl.Common().Args[0].Type().Underlying().(*types.Map); !isMap {
				continue
			}
			if !m.anyGen(p, cl.Common().Args[0]) {
				continue
			}
			c.CheckAt("HISTORY", short(f)+":"+b.Name()+":entries-leave-only-by-rotation", cl, guarded(f, cl.Block(), func(e *edges) eng.EdgeSet { return e.off }, 0),
				"a remembered handshake is removed from the history outside the rotation of a full generation")
		}
	}
	c.Floor("HISTORY", "stores that replace a generation of the history", nStores, 2)

	// (e) every cache a constructor hands out has its generations allocated: a cache built without maps (for size 0, say)
	// and resized later makes Add write into a nil map — the handler's recover frame then drops every connection
	insertGen := map[string]bool{}
	for _, f := range p.FnsIn("service") {
		for _, b := range f.Blocks {
			for _, ins := range b.Instrs {
				if mu, ok := ins.(*ssa.MapUpdate); ok {
					if g, ok := m.genOf(p, mu.Map); ok {
						insertGen[g] = true
					}
				}
			}
		}
	}
	for _, f := range p.FnsIn("service") {
		if p.IsTestSupport(f) || f.Parent() != nil || f.Signature.Results().Len() != 1 || eng.TypeName(f.Signature.Results().At(0).Type()) != replayT {
			continue
		}
		for i, r := range eng.Returns(f) {
			var allocs []*ssa.Alloc
			zeroValue := false
			for _, o := range p.Origins(r.Results[0], eng.OriginOpts{ThroughConvert: true, Stop: m.stopAtGen}) {
				switch x := o.(type) {
				case *ssa.Const:
					zeroValue = true // ReplayCache{}
				case *ssa.Alloc:
					allocs = append(allocs, x)
				case *ssa.UnOp:
					if al, ok := x.X.(*ssa.Alloc); ok {
						allocs = append(allocs, al)
					}
				}
			}
			if zeroValue {
				c.CheckAt("HISTORY", fmt.Sprintf("%s:return#%d:constructed-with-its-generations", short(f), i), r, false, "the constructor can hand out the zero cache (nil maps): once the history is resized above zero, Add writes into a nil map and panics for every handshake")
				continue
			}
			if len(allocs) == 0 {
				continue
			}
			for _, g := range m.gens {
				okG := true
				for _, al := range allocs {
					set := false
					var visit func(addr ssa.Value, d int)
					visit = func(addr ssa.Value, d int) {
						if d > 4 || addr.Referrers() == nil {
							return
						}
						for _, rr := range *addr.Referrers() {
							fa, isFA := rr.(*ssa.FieldAddr)
							if !isFA {
								continue
							}
							if _, fl, _, ok := eng.FieldOf(fa); !ok || fl != g {
								visit(fa, d+1) // a nested struct holding the generations
								continue
							}
							for _, r2 := range *fa.Referrers() {
								if st, isSt := r2.(*ssa.Store); isSt && st.Addr == ssa.Value(fa) {
									// make(map) here, or a helper all of whose results are make(map)
									if isMk, _ := p.AllFrom(st.Val, eng.Deep, func(v ssa.Value) bool { _, mk := v.(*ssa.MakeMap); return mk }); isMk {
										set = true
									}
								}
							}
						}
					}
					visit(al, 0)
					if !set && insertGen[g] {
						okG = false
					}
				}
				if insertGen[g] {
					c.CheckAt("HISTORY", fmt.Sprintf("%s:return#%d:constructed-with-its-%s-generation", short(f), i, g), r, okG, fmt.Sprintf("the constructor can hand out a cache whose %q map is nil: once the history is resized above zero, Add writes into a nil map and panics for every handshake", g))
				}
			}
		}
	}

	// (b)–(d): Add and its core
	add := p.Fn("(*" + replayT + ").Add")
	if add == nil {
		return // reported by runC07
	}
	// The body that looks up and inserts may be a helper Add delegates to (addLocked(hash)): descend while the function has
	// neither lookups nor insertions of its own and returns the result of one helper call. Every other return of the outer
	// function must be a constant false or lie on a history-off edge.
	core := add
	ctx := map[*ssa.Parameter]string{}
	for d := 0; d < 3; d++ {
		if len(m.hitsIn(c, core, ctx, 0))+len(m.insertsIn(c, core, ctx, 0)) > 0 {
			break
		}
		var tail *ssa.Call
		for _, cl := range eng.Calls(core) {
			call, ok := cl.(*ssa.Call)
			if !ok {
				continue
			}
			h := call.Call.StaticCallee()
			if h == nil || !p.InRepo(h) || h.Pkg != core.Pkg || len(h.Blocks) == 0 || h.Signature.Results().Len() != 1 {
				continue
			}
			if bt, ok := h.Signature.Results().At(0).Type().Underlying().(*types.Basic); !ok || bt.Kind() != types.Bool {
				continue
			}
			if len(m.hitsIn(c, h, m.bindCtx(p, call, h, ctx), 0))+len(m.insertsIn(c, h, m.bindCtx(p, call, h, ctx), 0)) > 0 || d < 2 {
				for _, r := range eng.Returns(core) {
					if len(r.Results) == 1 && p.AnyFrom(retVal(p, r), eng.OriginOpts{}, func(v ssa.Value) bool { return v == ssa.Value(call) }) {
						tail = call
					}
				}
			}
		}
		if tail == nil {
			break
		}
		eo := edgesOf(core)
		for _, r := range eng.Returns(core) {
			if len(r.Results) != 1 || len(r.Block().Preds) == 0 && r.Block() != core.Blocks[0] {
				continue
			}
			rv := retVal(p, r)
			if p.AnyFrom(rv, eng.OriginOpts{}, func(v ssa.Value) bool { return v == ssa.Value(tail) }) {
				continue
			}
			if cst, isC := rv.(*ssa.Const); isC && cst.Value != nil && cst.Value.Kind() == constant.Bool && !constant.BoolVal(cst.Value) {
				continue
			}
			c.CheckAt("HISTORY", "Add:answers-new-without-the-history-only-when-it-is-off", r, len(eo.off) > 0 && eng.Cut(core, r.Block(), eo.off), "Add answers \"new\" without consulting the history although the history is enabled")
		}
		h := tail.Call.StaticCallee()
		ctx = m.bindCtx(p, tail, h, ctx)
		core = h
	}
	e := edgesOf(core)
	hits := m.hitsIn(c, core, ctx, 0)
	ins := m.insertsIn(c, core, ctx, 0)
	consulted := map[string]bool{}
	for _, h := range hits {
		for _, g := range h.gens {
			consulted[g] = true
		}
	}
	for _, g := range m.gens {
		c.Check("HISTORY", "Add:consults:"+g, p.Pos(core.Pos()), consulted[g], fmt.Sprintf("Add never looks the handshake up in generation %q (or ignores what a helper found there): a handshake remembered only there is accepted again", g))
	}
	if len(ins) == 0 {
		c.Undecided("HISTORY", "Add:insert", p.Pos(core.Pos()), "Add contains no insertion into a generation map (idiom not recognised)")
		return
	}
	key := ins[0].key
	for _, in := range ins[1:] {
		c.CheckAt("HISTORY", "Add:one-key", in.at, p.SameValue(in.key, key), "Add inserts under two different keys")
	}
	for _, h := range hits {
		c.CheckAt("HISTORY", "Add:lookup-key-is-insert-key:"+fmt.Sprint(h.gens), h.at, h.key != nil && p.SameValue(h.key, key), "the handshake is looked up under another key than the one it is remembered under")
	}
	// (d) key from id and salt
	var idP, saltP *ssa.Parameter
	for _, pa := range add.Params {
		switch t := pa.Type().Underlying().(type) {
		case *types.Basic:
			if t.Kind() == types.String {
				idP = pa
			}
		case *types.Slice:
			saltP = pa
		}
	}
	if idP == nil || saltP == nil {
		c.Undecided("HISTORY", "Add:params", p.Pos(add.Pos()), "Add does not take (id string, salt []byte)")
	} else {
		through := eng.OriginOpts{ThroughSlice: true, ThroughConvert: true, ThroughBinOp: true, ThroughIndex: true,
			ThroughCalls: func(call *ssa.Call) []ssa.Value { return call.Call.Args }}
		// the key of a core helper is its parameter: climb to the arguments it is called with
		keys := []ssa.Value{key}
		for d := 0; d < 3; d++ {
			var next []ssa.Value
			climbed := false
			for _, k := range keys {
				pa, isP := p.Resolve(k).(*ssa.Parameter)
				if !isP || pa.Parent() == add {
					next = append(next, k)
					continue
				}
				idx := -1
				for i, q := range pa.Parent().Params {
					if q == pa {
						idx = i
					}
				}
				for _, site := range p.CallSitesOf(pa.Parent()) {
					if args := site.Ins.(ssa.CallInstruction).Common().Args; idx >= 0 && idx < len(args) && !p.IsTestSupport(site.Fn) {
						next = append(next, args[idx])
						climbed = true
					}
				}
			}
			keys = next
			if !climbed {
				break
			}
		}
		hasID, hasSalt := len(keys) > 0, len(keys) > 0
		for _, k := range keys {
			hasID = hasID && p.AnyFrom(k, through, func(v ssa.Value) bool { return v == ssa.Value(idP) })
			hasSalt = hasSalt && p.AnyFrom(k, through, func(v ssa.Value) bool { return v == ssa.Value(saltP) })
		}
		c.Check("HISTORY", "Add:key-covers-id-and-salt", p.Pos(add.Pos()), hasID && hasSalt, "the remembered key is not computed from both the access-key id and the salt (a handshake is the pair)")
	}
	// (b) a hit makes Add return false
	for _, h := range hits {
		okV := h.v
		_, missEdges := eng.BoolEdges(core, func(v ssa.Value) bool { return v == okV })
		bad := ""
		// paths on which the history is disabled promise nothing (the lookup may be made before that test)
		reach := eng.ReachBlocks(h.at.Block(), eng.Union(missEdges, e.off))
		for _, r := range eng.Returns(core) {
			if !reach[r.Block()] || len(r.Results) == 0 {
				continue
			}
			if v, known := evalBool(p, retVal(p, r), okV, true, missEdges, 0); !known || v {
				bad = p.IPos(r)
			}
		}
		c.CheckAt("HISTORY", "Add:hit-refused:"+fmt.Sprint(h.gens), h.at, bad == "", fmt.Sprintf("a handshake found in generation %v can still be answered \"new\" (return at %s)", h.gens, bad))
	}
	// (c) "new" only after the insert
	hasInsert := map[*ssa.BasicBlock]bool{}
	for _, in := range ins {
		hasInsert[in.at.Block()] = true
	}
	seen := map[*ssa.BasicBlock]bool{}
	var walk func(b *ssa.BasicBlock)
	bad := ""
	walk = func(b *ssa.BasicBlock) {
		if seen[b] || hasInsert[b] {
			return
		}
		seen[b] = true
		if len(b.Instrs) > 0 {
			if r, ok := b.Instrs[len(b.Instrs)-1].(*ssa.Return); ok && len(r.Results) > 0 {
				if cst, isC := retVal(p, r).(*ssa.Const); !(isC && cst.Value != nil && cst.Value.Kind() == constant.Bool && !constant.BoolVal(cst.Value)) {
					bad = p.IPos(r)
				}
			}
		}
		for _, s := range b.Succs {
			if !e.off[eng.Edge{From: b, To: s}] {
				walk(s)
			}
		}
	}
	if len(core.Blocks) > 0 {
		walk(core.Blocks[0])
	}
	c.Check("HISTORY", "Add:every-checked-handshake-is-remembered", p.Pos(core.Pos()), bad == "", fmt.Sprintf("with the history enabled Add can return without having inserted the handshake (return at %s): it is not among the remembered ones although it was just checked", bad))
}

// genOfCtx: like genOf but local to the function: origins are loads of one generation field, or parameters bound to a
// generation at the call site under analysis (a set type's contains/insert methods receive the generation as receiver).
func (m *histModel) genOfCtx(p *eng.Prog, v ssa.Value, ctx map[*ssa.Parameter]string) (string, bool) {
	g := ""
	for _, o := range p.Origins(v, eng.OriginOpts{ThroughConvert: true, Stop: m.stopAtGen}) {
		x, ok := m.genLoad(o)
		if !ok {
			if pa, isP := o.(*ssa.Parameter); isP && ctx[pa] != "" {
				x, ok = ctx[pa], true
			}
		}
		if !ok || (g != "" && g != x) {
			return "", false
		}
		g = x
	}
	return g, g != ""
}

// bindCtx: the generation bindings of h's parameters at this call.
func (m *histModel) bindCtx(p *eng.Prog, call *ssa.Call, h *ssa.Function, ctx map[*ssa.Parameter]string) map[*ssa.Parameter]string {
	out := map[*ssa.Parameter]string{}
	for i, a := range call.Call.Args {
		if i < len(h.Params) {
			if g, ok := m.genOfCtx(p, a, ctx); ok {
				out[h.Params[i]] = g
			}
		}
	}
	return out
}

// histHit: a boolean value of a function that is true when the handshake was found in the generations `gens`.
type histHit struct {
	v    ssa.Value
	gens []string
	at   ssa.Instruction
	key  ssa.Value // the key looked up, expressed in the function the hit belongs to (nil: not expressible)
}

// hitsIn: the lookups of f in generation maps, and the calls of f to helpers of the same package that report their
// own lookups faithfully (every return of the helper reachable after a hit evaluates to true under that hit).
func (m *histModel) hitsIn(c *Ctx, f *ssa.Function, ctx map[*ssa.Parameter]string, depth int) []histHit {
	p := c.P
	var out []histHit
	for _, b := range f.Blocks {
		for _, ins := range b.Instrs {
			switch x := ins.(type) {
			case *ssa.Lookup:
				if !x.CommaOk {
					continue
				}
				g, ok := m.genOfCtx(p, x.X, ctx)
				if !ok {
					continue
				}
				for _, r := range *x.Referrers() {
					if ex, isEx := r.(*ssa.Extract); isEx && ex.Index == 1 {
						out = append(out, histHit{ex, []string{g}, x, x.Index})
					}
				}
			case *ssa.Call:
				if depth >= 2 {
					continue
				}
				h := x.Call.StaticCallee()
				if h == nil || !p.InRepo(h) || h.Pkg != f.Pkg || h == f || len(h.Blocks) == 0 {
					continue
				}
				res := h.Signature.Results()
				if res.Len() != 1 {
					continue
				}
				if bt, ok := res.At(0).Type().Underlying().(*types.Basic); !ok || bt.Kind() != types.Bool {
					continue
				}
				inner := m.hitsIn(c, h, m.bindCtx(p, x, h, ctx), depth+1)
				if len(inner) == 0 {
					continue
				}
				var gens []string
				var key ssa.Value
				faithful := true
				for _, ih := range inner {
					_, miss := eng.BoolEdges(h, func(v ssa.Value) bool { return v == ih.v })
					reach := eng.ReachBlocks(ih.at.Block(), miss)
					for _, r := range eng.Returns(h) {
						if !reach[r.Block()] || len(r.Results) == 0 {
							continue
						}
						if v, known := evalBool(p, retVal(p, r), ih.v, true, miss, 0); !known || !v {
							faithful = false
						}
					}
					gens = append(gens, ih.gens...)
					if pa, isP := ih.key.(*ssa.Parameter); isP {
						for i, hp := range h.Params {
							if hp == pa && i < len(x.Call.Args) {
								key = x.Call.Args[i]
							}
						}
					}
				}
				if faithful {
					out = append(out, histHit{x, gens, x, key})
				}
			}
		}
	}
	return out
}

type histInsert struct {
	at  ssa.Instruction
	key ssa.Value
}

// insertsIn: insertions into a generation map in f, directly or through a helper every path of which inserts.
func (m *histModel) insertsIn(c *Ctx, f *ssa.Function, ctx map[*ssa.Parameter]string, depth int) []histInsert {
	p := c.P
	var out []histInsert
	for _, b := range f.Blocks {
		for _, ins := range b.Instrs {
			switch x := ins.(type) {
			case *ssa.MapUpdate:
				if _, ok := m.genOfCtx(p, x.Map, ctx); ok {
					out = append(out, histInsert{x, x.Key})
				}
			case *ssa.Call:
				if depth >= 2 {
					continue
				}
				h := x.Call.StaticCallee()
				if h == nil || !p.InRepo(h) || h.Pkg != f.Pkg || h == f || len(h.Blocks) == 0 {
					continue
				}
				inner := m.insertsIn(c, h, m.bindCtx(p, x, h, ctx), depth+1)
				if len(inner) == 0 {
					continue
				}
				has := map[*ssa.BasicBlock]bool{}
				for _, in := range inner {
					has[in.at.Block()] = true
				}
				// every path of the helper inserts
				seen := map[*ssa.BasicBlock]bool{}
				always := true
				var walk func(b *ssa.BasicBlock)
				walk = func(b *ssa.BasicBlock) {
					if seen[b] || has[b] {
						return
					}
					seen[b] = true
					if len(b.Instrs) > 0 {
						if _, ok := b.Instrs[len(b.Instrs)-1].(*ssa.Return); ok {
							always = false
						}
					}
					for _, s := range b.Succs {
						walk(s)
					}
				}
				walk(h.Blocks[0])
				if !always {
					continue
				}
				var key ssa.Value
				if pa, isP := inner[0].key.(*ssa.Parameter); isP {
					for i, hp := range h.Params {
						if hp == pa && i < len(x.Call.Args) {
							key = x.Call.Args[i]
						}
					}
				}
				if key != nil {
					out = append(out, histInsert{x, key})
				}
			}
		}
	}
	return out
}

// retVal: the first result of r, looking through the result cell go/ssa introduces in functions with defers.
func retVal(p *eng.Prog, r *ssa.Return) ssa.Value {
	v := r.Results[0]
	var at ssa.Instruction = r
	for i := 0; i < 8; i++ {
		rv := p.ReachingStore(v, at)
		if rv == nil || rv == v {
			break
		}
		v = rv
		ld, isLoad := v.(*ssa.UnOp)
		if !isLoad || ld.Op != token.MUL {
			break
		}
		at = ld // `return x` with named results re-stores the loaded value: look for the store that reaches that load
	}
	return v
}

// evalBool evaluates a boolean SSA value under the assumption that `assume` has the value `as`; edges in `dead`
// cannot be taken under that assumption.
func evalBool(p *eng.Prog, v, assume ssa.Value, as bool, dead eng.EdgeSet, depth int) (val, known bool) {
	if depth > 16 {
		return false, false
	}
	if v == assume {
		return as, true
	}
	switch x := v.(type) {
	case *ssa.Const:
		if x.Value != nil && x.Value.Kind() == constant.Bool {
			return constant.BoolVal(x.Value), true
		}
	case *ssa.UnOp:
		switch x.Op {
		case token.NOT:
			if r, ok := evalBool(p, x.X, assume, as, dead, depth+1); ok {
				return !r, true
			}
		case token.MUL:
			if rv := p.Resolve(x); rv != ssa.Value(x) {
				return evalBool(p, rv, assume, as, dead, depth+1)
			}
			if rv := p.ReachingStore(x, x); rv != nil && rv != ssa.Value(x) {
				return evalBool(p, rv, assume, as, dead, depth+1)
			}
		}
	case *ssa.Phi:
		first := true
		var res bool
		for i, ev := range x.Edges {
			pred := x.Block().Preds[i]
			if dead[eng.Edge{From: pred, To: x.Block()}] {
				continue
			}
			r, ok := evalBool(p, ev, assume, as, dead, depth+1)
			if !ok {
				return false, false
			}
			if first {
				res, first = r, false
			} else if res != r {
				return false, false
			}
		}
		if !first {
			return res, true
		}
	}
	return false, false
}
