package rules

import (
	"fmt"
	"go/token"
	"go/types"
	"sort"
	"strings"

	"golang.org/x/tools/go/ssa"

	"verif/internal/eng"
)

const mainPkg = "cmd/outline-ss-server"

func init() {
	register(&PropDef{ID: "C10", Level: "other", Run: runC10,
		Explanation: "All-or-nothing reload, decided as control-flow facts on every path of the reload code: (VALIDATE) starting a configuration is cut by the success edges of " +
			"reading, parsing and validating it, and the started configuration is the validated one; (KEEPOLD) the old configuration is stopped, and the stop-function field is " +
			"overwritten, only on the success edge of starting the new one, with exactly the stop function that start returned; (PROPAGATE) inside the start code every call that " +
			"can fail has its error tested on an edge that returns a non-nil error (so a failure at any stage is reported, never skipped); (RELEASE) the goroutine that owns the " +
			"listener set of a generation closes it on the start-failure edge before it can block, so nothing of a failed generation keeps running; (STOPFN) the stop function handed " +
			"out signals that goroutine and waits for its close; (VALIDATE, cont.) every value of an enumerated configuration field that Validate lets through is acted on by the start code (decided by following both codes' branches for each value), and Validate tests the configuration itself, not a rewritten local copy; " +
			"(FRESH) the start code writes no package-level variable and no field of the long-lived server object (no state carried from one generation into the next). (CLOSEDGUARD/HANDLECLOSE/DELIVER) a handle of the stopped generation no longer competes for the shared socket; (DEDUP) no key is skipped before validation unless it is a true duplicate.",
		NotDecided: "OS bind behaviour, YAML decoding, whether service goroutines have exited at a given time, which keys then authenticate at run time (C09/C01).",
	})
}

// reloadAnchors locates the reload machinery by role, not by name.
type reloadAnchors struct {
	owner       *ssa.Function   // goroutine literal that allocates the listenerSet
	runCfg      *ssa.Function   // its root function (runConfig)
	startFn     *ssa.Function   // closure that builds services/listeners and returns error
	startC      *ssa.Call       // the call of startFn inside owner
	callers     []*ssa.Function // functions calling runCfg (loadConfig)
	lsType      string
	serverT     string
	startRegion map[*ssa.Function]bool // functions of the start code (set by C09.BIND)
}

func findReload(c *Ctx, rule string) *reloadAnchors {
	a := &reloadAnchors{lsType: mainM(c).lsT, serverT: mainM(c).serverT}
	allocs := c.P.Allocs(a.lsType)
	if len(allocs) != 1 {
		c.Undecided(rule, "anchor:listenerSet-owner", "-", fmt.Sprintf("expected exactly one allocation site of %s, found %d", a.lsType, len(allocs)))
		return nil
	}
	a.owner = allocs[0].Fn
	// a constructor that returns the set it allocates is not the owner: climb to its (single) caller
	for i := 0; i < 3 && returnsType(a.owner, a.lsType); i++ {
		var ups []*ssa.Function
		for _, s := range c.P.CallSitesOf(a.owner) {
			if !c.P.IsTestSupport(s.Fn) && (len(ups) == 0 || ups[len(ups)-1] != s.Fn) {
				ups = append(ups, s.Fn)
			}
		}
		if len(ups) != 1 {
			c.Undecided(rule, "anchor:listenerSet-owner", c.P.Pos(a.owner.Pos()), fmt.Sprintf("the constructor of %s has %d callers (expected one owner)", a.lsType, len(ups)))
			return nil
		}
		a.owner = ups[0]
	}
	a.runCfg = eng.Root(a.owner)
	// the owner may be a named function started with `go` (go s.serveConfig(config, run)): the configuration function is
	// then the one that starts it
	if a.owner.Parent() == nil {
		var starters []*ssa.Function
		for _, s := range c.P.CallSitesOf(a.owner) {
			if _, isGo := s.Ins.(*ssa.Go); isGo && !c.P.IsTestSupport(s.Fn) {
				starters = append(starters, eng.Root(s.Fn))
			}
		}
		if len(starters) == 1 {
			a.runCfg = starters[0]
		}
	}
	// the start closure: a call in owner to a closure with an error result that reaches listenerSet.Listen*
	listenQ := isCall("(*"+a.lsType+").ListenStream", "(*"+a.lsType+").ListenPacket")
	memo := map[*ssa.Function]int{}
	for _, cl := range eng.Calls(a.owner) {
		call, ok := cl.(*ssa.Call)
		if !ok {
			continue
		}
		for _, f := range repoCallees(c, call) {
			if errorResultIndex(f.Signature) >= 0 && reaches(c, f, listenQ, memo) {
				a.startFn, a.startC = f, call
			}
		}
	}
	if a.startFn == nil {
		// the owner itself may contain the start code inline
		c.Undecided(rule, "anchor:start-closure", c.P.Pos(a.owner.Pos()), "no call in the listenerSet owner to a function that returns error and listens")
		return nil
	}
	for _, s := range c.P.CallSitesOf(a.runCfg) {
		dup := false
		for _, f := range a.callers {
			if f == s.Fn {
				dup = true
			}
		}
		if !dup && !strings.HasSuffix(c.P.Fset.Position(s.Fn.Pos()).Filename, "_test.go") {
			a.callers = append(a.callers, s.Fn)
		}
	}
	if len(a.callers) == 0 {
		c.Undecided(rule, "anchor:reload-function", "-", "no caller of "+short(a.runCfg))
		return nil
	}
	// reload roots: climb to the function whose helper region contains the whole read/parse/validate/start/stop sequence
	hasValidate := func(f *ssa.Function) bool {
		reg := c.NewRegion(f, 3, func(h *ssa.Function) bool { return eng.PkgPathOf(h) != eng.Mod+"/"+mainPkg || h == a.runCfg })
		return len(reg.FindCalls(func(n string, _ *ssa.Call) bool { return n == mainM(c).name(mainM(c).validate) })) > 0
	}
	var roots []*ssa.Function
	for _, f := range a.callers {
		cur := f
		for i := 0; i < 3 && !hasValidate(cur); i++ {
			sites := c.P.CallSitesOf(cur)
			var ups []*ssa.Function
			seen := map[*ssa.Function]bool{}
			for _, s := range sites {
				if eng.PkgPathOf(s.Fn) == eng.Mod+"/"+mainPkg && !seen[s.Fn] {
					seen[s.Fn] = true
					ups = append(ups, s.Fn)
				}
			}
			if len(ups) != 1 {
				break
			}
			cur = ups[0]
		}
		dup := false
		for _, r := range roots {
			if r == cur {
				dup = true
			}
		}
		if !dup {
			roots = append(roots, cur)
		}
	}
	a.callers = roots
	return a
}

// returnsType: some result of f has the named (pointer-to) type.
func returnsType(f *ssa.Function, tn string) bool {
	rs := f.Signature.Results()
	for i := 0; i < rs.Len(); i++ {
		if eng.TypeName(rs.At(i).Type()) == tn {
			return true
		}
	}
	return false
}

// neverFails: every return of f carries, in its error slot, a nil constant or the error of a call all of whose resolved
// callees never fail (decided from the SSA on every run).
func neverFails(c *Ctx, f *ssa.Function, memo map[*ssa.Function]int) bool {
	if v, ok := memo[f]; ok {
		return v == 1
	}
	memo[f] = 0 // recursion: pessimistic
	ei := errorResultIndex(f.Signature)
	if ei < 0 || len(f.Blocks) == 0 {
		return false
	}
	for _, r := range eng.Returns(f) {
		if len(r.Results) <= ei {
			return false
		}
		v := r.Results[ei]
		if eng.IsZeroValue(v) {
			continue
		}
		var call *ssa.Call
		if ex, ok := v.(*ssa.Extract); ok {
			call, _ = ex.Tuple.(*ssa.Call)
			if call != nil && errorResultIndex(call.Call.Signature()) != ex.Index {
				call = nil
			}
		} else if cc, ok := v.(*ssa.Call); ok {
			call = cc
		}
		if call == nil {
			return false
		}
		callees := c.P.Callees(call)
		if len(callees) == 0 {
			return false
		}
		for _, g := range callees {
			if !neverFails(c, g, memo) {
				return false
			}
		}
	}
	memo[f] = 1
	return true
}

func (a *reloadAnchors) region(c *Ctx, root *ssa.Function) *Region {
	return c.NewRegion(root, 3, func(h *ssa.Function) bool { return eng.PkgPathOf(h) != eng.Mod+"/"+mainPkg || h == a.runCfg })
}

// stopSites: calls in fn that stop the running configuration: (*OutlineServer).Stop, or a dynamic call whose
// callee value is loaded from the stop-function field.
func stopSites(c *Ctx, fn *ssa.Function, stopField string) []ssa.CallInstruction {
	var out []ssa.CallInstruction
	for _, cl := range eng.Calls(fn) {
		n := eng.CalleeName(cl.Common())
		if n == "(*"+mainM(c).serverT+").Stop" {
			out = append(out, cl)
			continue
		}
		if cl.Common().IsInvoke() || cl.Common().StaticCallee() != nil {
			continue
		}
		if c.P.AnyFrom(cl.Common().Value, eng.Plain, func(v ssa.Value) bool { return eng.IsFieldLoad(v, mainM(c).serverT, stopField) }) {
			out = append(out, cl)
		}
	}
	return out
}

// stopFuncField finds the func-typed field of OutlineServer that receives result 0 of runConfig somewhere.
func stopFuncField(c *Ctx) string {
	for _, f := range c.P.StructFields(mainM(c).serverT) {
		if sig, ok := f.Type().Underlying().(*types.Signature); ok && sig.Params().Len() == 0 && errorResultIndex(sig) == 0 {
			return f.Name()
		}
	}
	return ""
}

func runC10(c *Ctx) {
	a := findReload(c, "ANCHOR")
	if a == nil {
		return
	}
	c.Note("anchors", map[string]string{"listenerSet_owner": short(a.owner), "start_function": short(a.startFn), "run_config": short(a.runCfg), "reload_functions": names(a.callers)})
	ruleValidate(c, a)
	ruleKeepOld(c, a, "KEEPOLD")
	ruleCommitAfterStart(c, a, "KEEPOLD")
	rulePropagate(c, a)
	ruleFresh(c, a)
	ruleRelease(c, a)
	ruleStopFn(c, a)
	// a failed bind must not leave a reference behind, or a later generation can never release the address
	for _, m := range findMultiListeners(c, "REFCOUNT") {
		ruleRefcount(c, m)
		// "removed keys stop authenticating": a handle of the stopped generation no longer competes for the shared socket
		ruleClosedGuard(c, m)
	}
	// "bad cipher in any service fails the reload": no key is skipped before it was validated unless it is a true duplicate
	ruleDedup(c, a)
	// "serves exactly the new configuration": each service of the new generation is built from its own entry's keys
	ruleBind(c, a)
	ruleManagerKeys(c, "MANAGERKEYS")
	ruleRegister(c, "REGISTER") // every listener of the stopped generation is closed: none was overwritten in the bookkeeping
	// a mutex of the listener bookkeeping left locked on an error path makes the cleanup of the failed generation — and with
	// it every later reload — hang
	ruleLockRelease(c, "UNLOCK", func(f *ssa.Function) bool {
		return strings.HasPrefix(eng.PkgPathOf(f), eng.Mod+"/cmd/") && !c.P.IsTestSupport(f)
	}, 3)
}

// C10.VALIDATE
func ruleValidate(c *Ctx, a *reloadAnchors) {
	p := c.P
	n := 0
	for _, lc := range a.callers {
		reg := a.region(c, lc)
		runCalls := reg.FindCalls(func(_ string, call *ssa.Call) bool { return callTo(c, call, a.runCfg) })
		type guard struct {
			name   string
			errIdx int
		}
		guards := []guard{{"os.ReadFile", 1}, {mainM(c).name(mainM(c).readCfg), 1}, {mainM(c).name(mainM(c).validate), 0}}
		deepIdx := eng.OriginOpts{ThroughConvert: true, ThroughIndex: true, Interproc: true}
		isParsed := func(v ssa.Value) bool {
			call, idx, ok := eng.AsResult(v)
			return ok && idx == 0 && eng.CalleeName(&call.Call) == mainM(c).name(mainM(c).readCfg)
		}
		for _, rc := range runCalls {
			for _, g := range guards {
				g := g
				found := len(reg.FindCalls(func(nm string, _ *ssa.Call) bool { return nm == g.name })) > 0
				if !found {
					c.CheckAt("VALIDATE", short(lc)+":"+g.name, rc, false, "the reload path starts a configuration without calling "+g.name)
					continue
				}
				gd := c.CallGuard(func(call *ssa.Call) (int, bool) { return g.errIdx, eng.CalleeName(&call.Call) == g.name })
				c.CheckAt("VALIDATE", short(lc)+":"+g.name, rc, reg.CutDeep(rc, gd), "start of the new configuration is reachable without the success edge of "+g.name)
				n++
			}
			// the configuration started is the one parsed and validated
			var cfgArg ssa.Value
			for _, ar := range rc.Call.Args {
				if strings.HasSuffix(eng.TypeName(ar.Type()), ".Config") {
					cfgArg = ar
				}
			}
			okSame := false
			if cfgArg != nil {
				if u, ok := cfgArg.(*ssa.UnOp); ok && u.Op == token.MUL {
					okSame, _ = p.AllFrom(u.X, deepIdx, isParsed)
				} else {
					okSame, _ = p.AllFrom(cfgArg, eng.OriginOpts{ThroughConvert: true, ThroughIndex: true, Interproc: true, ThroughFieldLoad: false}, func(v ssa.Value) bool {
						if isParsed(v) {
							return true
						}
						if u, ok := v.(*ssa.UnOp); ok && u.Op == token.MUL {
							g, _ := p.AllFrom(u.X, deepIdx, isParsed)
							return g
						}
						return false
					})
				}
			}
			c.CheckAt("VALIDATE", short(lc)+":started-config-is-parsed-config", rc, okSame, "the configuration passed to start does not derive (only) from the parse result")
			for _, vc := range reg.FindCalls(func(nm string, _ *ssa.Call) bool { return nm == mainM(c).name(mainM(c).validate) }) {
				okV, _ := p.AllFrom(vc.Call.Args[0], deepIdx, isParsed)
				c.CheckAt("VALIDATE", short(lc)+":validated-config-is-parsed-config", vc, okV, "Validate is called on something other than the parse result")
			}
		}
		c.Floor("VALIDATE", "start calls in the reload path of "+short(lc), len(runCalls), 1)
	}
	c.Floor("VALIDATE", "guard obligations", n, 3)
	ruleValidateAgrees(c, a)
}

// enumKeyOf: the (struct type, field) of the server command that value v carries — a load of that field, or a parameter
// (method receiver) that every call inside the region binds to such a load (`lnConfig.Type.supported()`).
func enumKeyOf(c *Ctx, reg *Region, v ssa.Value, depth int) (string, bool) {
	key := ""
	os := c.P.Origins(v, eng.OriginOpts{ThroughConvert: true})
	if len(os) == 0 {
		return "", false
	}
	for _, o := range os {
		t, f, _, ok := eng.FieldLoad(o)
		if !ok {
			if fl, isF := o.(*ssa.Field); isF {
				if st, isS := fl.X.Type().Underlying().(*types.Struct); isS {
					t, f, ok = eng.TypeName(fl.X.Type()), st.Field(fl.Field).Name(), true
				}
			}
		}
		k := ""
		if ok && strings.HasPrefix(t, mainPkg+".") {
			k = t + "." + f
		} else if pa, isP := o.(*ssa.Parameter); isP && depth < 2 && pa.Parent() != nil && reg.In[pa.Parent()] {
			idx := -1
			for i, q := range pa.Parent().Params {
				if q == pa {
					idx = i
				}
			}
			for _, s := range c.P.CallSitesOf(pa.Parent()) {
				if !reg.In[s.Fn] {
					continue
				}
				args := s.Ins.(ssa.CallInstruction).Common().Args
				if idx < 0 || idx >= len(args) {
					return "", false
				}
				kk, ok2 := enumKeyOf(c, reg, args[idx], depth+1)
				if !ok2 || (k != "" && k != kk) {
					return "", false
				}
				k = kk
			}
		}
		if k == "" || (key != "" && key != k) {
			return "", false
		}
		key = k
	}
	return key, key != ""
}

// enumSets: for every (struct type, field) of the server command whose loaded value is compared with constants in the region,
// the set of constants it is compared with (switch cases and if chains alike).
func enumSets(c *Ctx, reg *Region) map[string]map[string]bool {
	out := map[string]map[string]bool{}
	reg.Instrs(func(_ *ssa.Function, ins ssa.Instruction) {
		bo, ok := ins.(*ssa.BinOp)
		if !ok || (bo.Op != token.EQL && bo.Op != token.NEQ) {
			return
		}
		for _, pr := range [][2]ssa.Value{{bo.X, bo.Y}, {bo.Y, bo.X}} {
			cst, ok := pr[1].(*ssa.Const)
			if !ok || cst.Value == nil {
				continue
			}
			if k, ok := enumKeyOf(c, reg, pr[0], 0); ok {
				if out[k] == nil {
					out[k] = map[string]bool{}
				}
				out[k][cst.Value.ExactString()] = true
			}
		}
	})
	return out
}

// ruleValidateAgrees: what Validate accepts is what the start code acts on — (AGREE) for every enumerated configuration field
// that both test, the sets of values they distinguish are equal (a value Validate lets through but the start code's switch
// does not handle is silently skipped: the reload "succeeds" with that listener missing); (PURE) Validate tests the
// configuration itself, it does not first rewrite a local copy of a configuration entry (the start code would see the
// original value).
func ruleValidateAgrees(c *Ctx, a *reloadAnchors) {
	p := c.P
	val := mainM(c).validate
	if val == nil {
		c.Undecided("VALIDATE", "anchor:Validate", "-", "Config.Validate not found")
		return
	}
	inMain := func(h *ssa.Function) bool { return eng.PkgPathOf(h) != eng.Mod+"/"+mainPkg }
	vreg := c.NewRegion(val, 3, inMain)
	sreg := c.NewRegion(a.startFn, 4, inMain)
	vs, ss := enumSets(c, vreg), enumSets(c, sreg)
	lsT := "(*" + a.lsType + ")."
	isListen := isCall(lsT+"ListenStream", lsT+"ListenPacket")
	nAgree := 0
	for k, v := range vs {
		h, ok := ss[k]
		if !ok {
			continue
		}
		nAgree++
		// candidate values: every constant either side mentions, plus "anything else"
		cand := map[string]bool{"<any other value>": true}
		for x := range v {
			cand[x] = true
		}
		for x := range h {
			cand[x] = true
		}
		var bad []string
		for _, u := range keysOf(cand) {
			acc := enumWalk(c, vreg, k, u, func(ins ssa.Instruction) bool { return false })
			if !acc {
				continue // Validate rejects u
			}
			if enumWalk(c, sreg, k, u, sreg.May(isListen)) {
				bad = append(bad, u)
			}
		}
		c.Check("VALIDATE", "accepted-values-are-handled:"+k, p.Pos(val.Pos()), len(bad) == 0, fmt.Sprintf("Validate lets %s = %v through, but for that value the start code can finish the entry without listening: the reload succeeds with a listener silently missing", k, bad))
	}
	c.Floor("VALIDATE", "enumerated configuration fields tested by both Validate and the start code", nAgree, 1)
	pure := true
	var at ssa.Instruction
	vreg.Instrs(func(_ *ssa.Function, ins ssa.Instruction) {
		st, ok := ins.(*ssa.Store)
		if !ok {
			return
		}
		fa, ok := st.Addr.(*ssa.FieldAddr)
		if !ok {
			return
		}
		t, _, _, ok := eng.FieldOf(fa)
		if !ok || !strings.HasPrefix(t, mainPkg+".") {
			return
		}
		if al, isLocal := fa.X.(*ssa.Alloc); isLocal {
			// a local that holds a *copy* of something (it is also assigned as a whole: the range variable, `x := cfg.A[i]`);
			// a composite literal of a helper type (a map key, say) is only ever filled field by field and is no copy
			isCopy := false
			for _, r := range *al.Referrers() {
				if ws, isSt := r.(*ssa.Store); isSt && ws.Addr == ssa.Value(al) {
					if _, isConst := ws.Val.(*ssa.Const); !isConst {
						isCopy = true
					}
				}
			}
			if isCopy {
				pure, at = false, st
			}
		}
	})
	pos := p.Pos(val.Pos())
	if at != nil {
		pos = p.IPos(at)
	}
	c.Check("VALIDATE", short(val)+":tests-the-configuration-not-a-rewritten-copy", pos, pure, "Validate assigns to a field of a local copy of a configuration entry before testing it: it accepts the rewritten value while the start code sees the original one")
}

// enumWalk: with the configuration field k holding the value u, can control go from a test of k to the end of the entry's
// processing (next loop iteration, or a return without error) without passing an instruction matching hit? Branches that test
// k against constants are followed according to u; all other branches are explored both ways; error returns end a path.
func enumWalk(c *Ctx, reg *Region, k, u string, hit func(ssa.Instruction) bool) bool {
	isK := func(v ssa.Value) bool {
		kk, ok := enumKeyOf(c, reg, v, 0)
		return ok && kk == k
	}
	// known(cond): (value, known)
	var known func(v ssa.Value) (bool, bool)
	known = func(v ssa.Value) (bool, bool) {
		switch x := v.(type) {
		case *ssa.UnOp:
			if x.Op == token.NOT {
				b, ok := known(x.X)
				return !b, ok
			}
		case *ssa.Call:
			// a predicate of the field's type ((ListenerType).supported()): evaluate it for the assumed value
			h := x.Call.StaticCallee()
			if h == nil || !reg.In[h] || len(h.Blocks) == 0 || h.Signature.Results().Len() != 1 || h.Signature.Results().At(0).Type().String() != "bool" {
				return false, false
			}
			b := h.Blocks[0]
			for steps := 0; steps < 64; steps++ {
				last := b.Instrs[len(b.Instrs)-1]
				switch t := last.(type) {
				case *ssa.Return:
					if cst, ok := c.P.Resolve(retVal(c.P, t)).(*ssa.Const); ok && cst.Value != nil {
						return cst.Value.ExactString() == "true", true
					}
					return false, false
				case *ssa.If:
					v, kn := known(t.Cond)
					if !kn {
						return false, false
					}
					if v {
						b = b.Succs[0]
					} else {
						b = b.Succs[1]
					}
				case *ssa.Jump:
					b = b.Succs[0]
				default:
					return false, false
				}
			}
			return false, false
		case *ssa.BinOp:
			if x.Op != token.EQL && x.Op != token.NEQ {
				return false, false
			}
			for _, pr := range [][2]ssa.Value{{x.X, x.Y}, {x.Y, x.X}} {
				cst, ok := pr[1].(*ssa.Const)
				if !ok || cst.Value == nil || !isK(pr[0]) {
					continue
				}
				eq := cst.Value.ExactString() == u
				if x.Op == token.NEQ {
					eq = !eq
				}
				return eq, true
			}
		}
		return false, false
	}
	found := false
	for _, f := range reg.Fns {
		if rs := f.Signature.Results(); rs.Len() == 1 && rs.At(0).Type().String() == "bool" && len(c.P.CallSitesOf(f)) > 0 {
			continue // a predicate evaluated at its call sites (known), not a place where an entry is accepted or refused
		}
		ei := errorResultIndex(f.Signature)
		loops := eng.Loops(f)
		// entry blocks: blocks whose terminator tests k and that are not reachable from another such block first
		var tests []*ssa.BasicBlock
		for _, b := range f.Blocks {
			if iff, ok := b.Instrs[len(b.Instrs)-1].(*ssa.If); ok {
				if _, kn := known(iff.Cond); kn {
					tests = append(tests, b)
				}
			}
		}
		for _, tb := range tests {
			dominated := false
			for _, ob := range tests {
				if ob != tb && ob.Dominates(tb) {
					dominated = true
				}
			}
			if dominated {
				continue
			}
			lp := eng.InnermostLoop(loops, tb)
			seen := map[*ssa.BasicBlock]bool{}
			var walk func(b *ssa.BasicBlock, first bool) bool // true: an un-hit way to the end of the entry exists
			walk = func(b *ssa.BasicBlock, first bool) bool {
				if !first && lp != nil && b == lp.Header {
					return true // next iteration
				}
				if seen[b] {
					return false
				}
				seen[b] = true
				for _, ins := range b.Instrs {
					if hit(ins) {
						return false
					}
					if r, ok := ins.(*ssa.Return); ok {
						if ei >= 0 && ei < len(r.Results) && !eng.IsZeroValue(r.Results[ei]) {
							return false // loud failure
						}
						return true
					}
				}
				if iff, ok := b.Instrs[len(b.Instrs)-1].(*ssa.If); ok {
					if v, kn := known(iff.Cond); kn {
						if v {
							return walk(b.Succs[0], false)
						}
						return walk(b.Succs[1], false)
					}
				}
				for _, s := range b.Succs {
					if walk(s, false) {
						return true
					}
				}
				return false
			}
			if walk(tb, true) {
				found = true
			}
		}
	}
	return found
}

func keysOf(m map[string]bool) []string {
	var out []string
	for k := range m {
		out = append(out, k)
	}
	sort.Strings(out)
	return out
}

// C10.KEEPOLD (shared with C11.ORDER)
func ruleKeepOld(c *Ctx, a *reloadAnchors, rule string) {
	p := c.P
	field := stopFuncField(c)
	if field == "" {
		c.Undecided(rule, "anchor:stop-function-field", "-", "the server object has no func() error field")
		return
	}
	n := 0
	for _, lc := range a.callers {
		reg := a.region(c, lc)
		runCalls := reg.FindCalls(func(_ string, call *ssa.Call) bool { return callTo(c, call, a.runCfg) })
		gRun := c.CallGuard(func(call *ssa.Call) (int, bool) { return 1, callTo(c, call, a.runCfg) })
		tested := false
		for _, f := range reg.Fns {
			if len(gRun.Edges(f)) > 0 {
				tested = true
			}
		}
		if !tested {
			c.Check(rule, short(lc)+":start-error-tested", p.Pos(lc.Pos()), false, "the error result of starting the new configuration is never tested")
			continue
		}
		var stops []ssa.CallInstruction
		for _, f := range reg.Fns {
			stops = append(stops, stopSites(c, f, field)...)
		}
		for i, s := range stops {
			c.CheckAt(rule, fmt.Sprintf("%s:stop-old#%d", short(lc), i), s, reg.CutDeep(s, gRun), "the old configuration can be stopped on a path that has not passed the success edge of starting the new one")
			n++
		}
		c.Floor(rule, "stop-old sites in the reload path of "+short(lc), len(stops), 1)
		for _, st := range p.FieldStores(mainM(c).serverT, field) {
			if !reg.In[st.Fn] || st.Fresh {
				continue
			}
			okVal := false
			if st.Val != nil {
				okVal, _ = p.AllFrom(st.Val, deepF, func(v ssa.Value) bool { return inCalls(v, runCalls, 0) })
			}
			c.CheckAt(rule, short(lc)+":store-stop-function:on-success-edge", st.Ins, reg.CutDeep(st.Ins, gRun), "the stop-function field is overwritten on a path where starting the new configuration may have failed")
			c.CheckAt(rule, short(lc)+":store-stop-function:value", st.Ins, okVal, "the value stored into the stop-function field is not result 0 of the start call")
			n += 2
		}
	}
	// all other writers of the field: constructors only (fresh object)
	for _, st := range p.FieldStores(mainM(c).serverT, field) {
		inReload := false
		for _, lc := range a.callers {
			if a.region(c, lc).In[st.Fn] {
				inReload = true
			}
		}
		if inReload {
			continue
		}
		c.CheckAt(rule, short(st.Fn)+":store-stop-function-elsewhere", st.Ins, st.Fresh, "the stop-function field is written outside the reload path on an existing server object")
	}
	c.Floor(rule, "obligations", n, 3)
}

// C10.PROPAGATE
func rulePropagate(c *Ctx, a *reloadAnchors) {
	// scope: functions with an error result among the start closure and its transitive callees in package main
	scope := map[*ssa.Function]bool{}
	var add func(f *ssa.Function)
	add = func(f *ssa.Function) {
		if scope[f] || eng.PkgPathOf(f) != eng.Mod+"/"+mainPkg {
			return
		}
		scope[f] = true
		for _, cl := range eng.Calls(f) {
			if _, isGo := cl.(*ssa.Go); isGo {
				continue
			}
			for _, g := range c.L().SyncCallees(cl) {
				add(g)
			}
		}
	}
	add(a.startFn)
	n := 0
	nfMemo := map[*ssa.Function]int{}
	for _, f := range eng.SortedFns(scope) {
		ei := errorResultIndex(f.Signature)
		if ei < 0 {
			continue
		}
		for _, cl := range eng.Calls(f) {
			call, ok := cl.(*ssa.Call)
			if !ok {
				continue
			}
			sig := call.Call.Signature()
			ci := errorResultIndex(sig)
			if ci < 0 {
				continue
			}
			key := short(f) + ":" + eng.CalleeName(&call.Call)
			// exempt: every resolved callee returns a nil constant in the error slot on all returns
			callees := c.P.Callees(call)
			alwaysNil := len(callees) > 0
			for _, g := range callees {
				if !neverFails(c, g, nfMemo) {
					alwaysNil = false
				}
			}
			if alwaysNil {
				c.Exempt("PROPAGATE", eng.CalleeName(&call.Call), "every return of the callee carries a nil error constant, or the error of a callee of which the same holds (re-verified from its SSA on this run)")
				c.CheckAt("PROPAGATE", key, call, true, "callee cannot fail: all its returns carry a nil error||")
				n++
				continue
			}
			// the error value
			var errVal ssa.Value
			if sig.Results().Len() == 1 {
				errVal = call
			} else {
				for _, r := range *call.Referrers() {
					if e, ok := r.(*ssa.Extract); ok && e.Index == ci {
						errVal = e
					}
				}
			}
			if errVal == nil {
				c.CheckAt("PROPAGATE", key, call, false, "the error result is discarded")
				n++
				continue
			}
			ok2, why := errorHandled(c, f, errVal, ei)
			c.CheckAt("PROPAGATE", key, call, ok2, "error returned or tested with the failure edge returning a non-nil error||"+why)
			n++
		}
	}
	c.Floor("PROPAGATE", "fallible calls in the start code", n, 8)
}

// errorHandled: the error value is returned directly, or tested against nil with the non-nil edge leading only
// to returns that carry a non-nil error.
func errorHandled(c *Ctx, f *ssa.Function, errVal ssa.Value, ei int) (bool, string) {
	refs := errVal.Referrers()
	if refs == nil || len(*refs) == 0 {
		return false, "the error result is never used"
	}
	tested := false
	for _, r := range *refs {
		switch u := r.(type) {
		case *ssa.Return:
			if u.Results[ei] == errVal {
				tested = true
			}
		case *ssa.Send:
			tested = true // handed to the waiting parent
		case *ssa.Store:
			// stored into a cell (shared err variable): find tests of loads of that cell dominated by this store
			cell := eng.CellRoot(u.Addr)
			if cell == nil {
				continue
			}
			// result cell of a function with defers: stored, reloaded after rundefers and returned
			for _, ret := range eng.Returns(f) {
				if l, ok := ret.Results[ei].(*ssa.UnOp); ok && l.Op == token.MUL && eng.CellRoot(l.X) == cell {
					tested = true
				}
			}
			for _, b := range f.Blocks {
				iff, ok := b.Instrs[len(b.Instrs)-1].(*ssa.If)
				if !ok {
					continue
				}
				x, trueNonNil, ok := eng.NilCompare(iff.Cond)
				if !ok {
					continue
				}
				if rv := c.P.ReachingStore(x, iff); rv == errVal {
					fe := eng.Edge{From: b, To: b.Succs[0]}
					if !trueNonNil {
						fe = eng.Edge{From: b, To: b.Succs[1]}
					}
					if ok3, why := failureEdgeReturnsError(c, f, fe, ei); !ok3 {
						return false, why
					}
					tested = true
				}
			}
		case *ssa.BinOp:
			x, trueNonNil, ok := eng.NilCompare(u)
			if !ok || x != errVal {
				continue
			}
			for _, rr := range *u.Referrers() {
				iff, ok := rr.(*ssa.If)
				if !ok {
					continue
				}
				b := iff.Block()
				fe := eng.Edge{From: b, To: b.Succs[0]}
				if !trueNonNil {
					fe = eng.Edge{From: b, To: b.Succs[1]}
				}
				if ok3, why := failureEdgeReturnsError(c, f, fe, ei); !ok3 {
					return false, why
				}
				tested = true
			}
		}
	}
	if !tested {
		return false, "the error result is neither returned nor tested against nil"
	}
	return true, ""
}

func failureEdgeReturnsError(c *Ctx, f *ssa.Function, fe eng.Edge, ei int) (bool, string) {
	// from the failure edge, every reachable Return must carry a non-nil-constant error, and no path may loop back
	// into normal processing: we require that all reachable returns are error returns.
	bad := eng.ReachableInstrs(edgePoint(fe), func(ins ssa.Instruction) bool {
		r, ok := ins.(*ssa.Return)
		return ok && eng.IsZeroValue(r.Results[ei])
	}, nil)
	if len(bad) > 0 {
		return false, fmt.Sprintf("on the failure edge %s a return with a nil error is reachable (%s): the failure is skipped, not reported", fmtEdge(c.P, fe), c.P.IPos(bad[0]))
	}
	return true, ""
}

// C10.FRESH: a generation is built from the new configuration only. The start code does not write package-level variables
// or fields of the long-lived server object (nor mutate maps / sync containers held there): anything written there by one
// generation is read by the next, so keys, ciphers or listeners of an earlier — possibly failed — load would leak into a later
// one. (The replay history is shared on purpose: the start code only takes its address.)
func ruleFresh(c *Ctx, a *reloadAnchors) {
	p := c.P
	inMain := func(h *ssa.Function) bool { return eng.PkgPathOf(h) != eng.Mod+"/"+mainPkg }
	reg := c.NewRegion(a.startFn, 4, inMain)
	serverT := ""
	if r := a.runCfg.Signature.Recv(); r != nil {
		serverT = eng.TypeName(r.Type())
	}
	// rootOf: the global or server-object field an address / container value lives in
	var rootOf func(v ssa.Value, d int) string
	rootOf = func(v ssa.Value, d int) string {
		if v == nil || d > 10 {
			return ""
		}
		switch x := v.(type) {
		case *ssa.Global:
			if x.Pkg != nil && strings.HasPrefix(x.Pkg.Pkg.Path(), eng.Mod) {
				return "package variable " + x.Name()
			}
		case *ssa.FieldAddr:
			if t, f, _, ok := eng.FieldOf(x); ok && t == serverT {
				return "server field " + f
			}
			return rootOf(x.X, d+1)
		case *ssa.IndexAddr:
			return rootOf(x.X, d+1)
		case *ssa.UnOp:
			if x.Op == token.MUL {
				return rootOf(x.X, d+1)
			}
		case *ssa.ChangeType:
			return rootOf(x.X, d+1)
		case *ssa.MakeInterface:
			return rootOf(x.X, d+1)
		}
		return ""
	}
	mutating := map[string]bool{"Store": true, "LoadOrStore": true, "LoadAndDelete": true, "Delete": true, "Swap": true, "CompareAndSwap": true, "CompareAndDelete": true, "Clear": true, "Add": true, "Set": true, "Put": true, "PushBack": true, "PushFront": true, "Remove": true, "Init": true}
	n := 0
	var bad ssa.Instruction
	why := ""
	reg.Instrs(func(f *ssa.Function, ins ssa.Instruction) {
		n++
		switch x := ins.(type) {
		case *ssa.Store:
			if r := rootOf(x.Addr, 0); r != "" {
				bad, why = x, "writes "+r
			}
		case *ssa.MapUpdate:
			if r := rootOf(x.Map, 0); r != "" {
				bad, why = x, "updates the map in "+r
			}
		case *ssa.Call:
			if _, ok := isBuiltinCall(x, "delete"); ok {
				if r := rootOf(x.Call.Args[0], 0); r != "" {
					bad, why = x, "deletes from the map in "+r
				}
				return
			}
			if x.Call.IsInvoke() || len(x.Call.Args) == 0 {
				return
			}
			g := x.Call.StaticCallee()
			if g == nil || g.Signature.Recv() == nil || !mutating[g.Name()] {
				return
			}
			if pk := eng.PkgPathOf(g); pk != "sync" && pk != "sync/atomic" && pk != "container/list" {
				return
			}
			if r := rootOf(x.Call.Args[0], 0); r != "" {
				bad, why = x, "calls "+g.Name()+" on "+r
			}
		}
	})
	pos := p.Pos(a.startFn.Pos())
	if bad != nil {
		pos = p.IPos(bad)
	}
	c.Check("FRESH", short(a.startFn)+":no-state-carried-between-generations", pos, bad == nil, "the start code "+why+": state written while loading one configuration is read while loading the next, so what serves after a reload is not determined by the newly loaded configuration alone")
	c.Floor("FRESH", "instructions examined in the start code", n, 100)
}

// C10.RELEASE
func ruleRelease(c *Ctx, a *reloadAnchors) {
	g := a.owner
	key := short(g)
	closeName := "(*" + a.lsType + ").Close"
	closeQ := isCall(closeName)
	if !bodyHas(g, closeQ) && len(deferCallNamed(g, closeName)) == 0 {
		has := false
		for _, b := range g.Blocks {
			for _, ins := range b.Instrs {
				if d, ok := ins.(*ssa.Defer); ok && qDefer(d, closeQ) {
					has = true
				}
			}
		}
		if !has {
			c.Check("RELEASE", key, c.P.Pos(g.Pos()), false, "the goroutine that owns the listener set never closes it")
			return
		}
	}
	// the start result value and its nil test in g
	isStart := func(v ssa.Value) bool {
		call, _, ok := eng.AsResult(v)
		return ok && call == a.startC
	}
	_, nonNil := c.P.NilEdges(g, isStart)
	// multi-store cells (e.g. `err = start()`): use reaching stores
	if len(nonNil) == 0 {
		for _, b := range g.Blocks {
			iff, ok := b.Instrs[len(b.Instrs)-1].(*ssa.If)
			if !ok {
				continue
			}
			x, trueNonNil, ok := eng.NilCompare(iff.Cond)
			if ok {
				if rv := c.P.ReachingStore(x, iff); rv != nil && isStart(rv) {
					e := eng.Edge{From: b, To: b.Succs[0]}
					if !trueNonNil {
						e = eng.Edge{From: b, To: b.Succs[1]}
					}
					nonNil[e] = true
				}
			}
		}
	}
	recvs := 0
	for _, b := range g.Blocks {
		for _, ins := range b.Instrs {
			if isBlockingRecv(ins) {
				recvs++
			}
		}
	}
	if len(nonNil) > 0 {
		// form A: on the failure edge, Close happens before any blocking receive and before exit
		okAll := true
		why := ""
		for _, e := range sortedEdges(nonNil) {
			if ok, bad := eng.MustPassBefore(edgePoint(e), closeQ, isBlockingRecv); !ok {
				okAll = false
				why = fmt.Sprintf("on the start-failure edge %s a blocking receive at %s is reached before the listener set is closed", fmtEdge(c.P, e), c.P.IPos(bad))
			}
			q := orDeferred(g, nil, closeQ)
			if ok, bad := eng.MustPass(edgePoint(e), q); !ok {
				okAll = false
				why = fmt.Sprintf("on the start-failure edge %s the goroutine can exit at %s without closing the listener set", fmtEdge(c.P, e), c.P.IPos(bad))
			}
		}
		c.Check("RELEASE", key, c.P.IPos(a.startC), okAll, "form A (start result tested in the owner goroutine): "+why)
		// and the success side must not close before the stop signal: every Close on the success side is preceded by a blocking receive
		return
	}
	// form B: the parent's failure branch signals the goroutine
	okB := false
	for _, cl := range eng.Calls(a.runCfg) {
		_ = cl
	}
	parent := a.runCfg
	var recvStart []ssa.Value
	for _, b := range parent.Blocks {
		for _, ins := range b.Instrs {
			if u, ok := ins.(*ssa.UnOp); ok && u.Op == token.ARROW {
				recvStart = append(recvStart, u)
			}
		}
	}
	for _, rv := range recvStart {
		_, nn := c.P.NilEdges(parent, func(v ssa.Value) bool { return v == rv })
		for _, e := range sortedEdges(nn) {
			sig := func(ins ssa.Instruction) bool {
				switch v := ins.(type) {
				case *ssa.Send:
					return true
				case *ssa.Call:
					if b, ok := v.Call.Value.(*ssa.Builtin); ok && b.Name() == "close" {
						return true
					}
				}
				return false
			}
			if ok, _ := eng.MustPass(edgePoint(e), sig); ok {
				okB = true
			}
		}
	}
	c.Check("RELEASE", key, c.P.IPos(a.startC), okB, fmt.Sprintf(
		"the owner goroutine does not test the start result (%d blocking receive(s) follow unconditionally) and the parent's failure branch does not signal it: a failed start leaves its listeners open", recvs))
}

// C10.STOPFN: the stop function returned on success signals the owner goroutine and waits for the result of Close.
func ruleStopFn(c *Ctx, a *reloadAnchors) {
	p := c.P
	inMain := func(h *ssa.Function) bool { return eng.PkgPathOf(h) != eng.Mod+"/"+mainPkg }
	// the stop functions returned by runCfg on the success path: closures, or methods bound to the generation's handle object
	var stopFns []*ssa.Function
	for _, r := range eng.Returns(a.runCfg) {
		if len(r.Results) == 0 {
			continue
		}
		for _, o := range p.Origins(r.Results[0], eng.Plain) {
			mc, ok := o.(*ssa.MakeClosure)
			if !ok {
				continue
			}
			fn, ok := mc.Fn.(*ssa.Function)
			if !ok {
				continue
			}
			if strings.HasPrefix(fn.Synthetic, "bound method wrapper") {
				for _, cl := range eng.Calls(fn) {
					if g := cl.Common().StaticCallee(); g != nil && p.InRepo(g) {
						fn = g
					}
				}
			}
			stopFns = append(stopFns, fn)
		}
	}
	if !c.Floor("STOPFN", "stop functions returned by "+short(a.runCfg), len(stopFns), 1) {
		return
	}
	// identity of a channel value: the local variable it lives in, or the (construct-only) field of the handle object
	chanIDs := func(v ssa.Value) []string {
		var out []string
		if u, ok := v.(*ssa.UnOp); ok && u.Op == token.MUL {
			if cell := eng.CellRoot(u.X); cell != nil {
				out = append(out, fmt.Sprintf("cell:%p", cell))
			}
		}
		for _, o := range p.Origins(v, eng.Plain) {
			if t, f, _, ok := eng.FieldLoad(o); ok {
				out = append(out, "field:"+t+"."+f)
			}
			if mc, ok := o.(*ssa.MakeChan); ok {
				out = append(out, fmt.Sprintf("make:%p", mc))
			}
		}
		return out
	}
	oreg := c.NewRegion(a.owner, 2, inMain)
	ownerRecv := map[string]bool{}
	oreg.Instrs(func(_ *ssa.Function, ins ssa.Instruction) {
		if u, ok := ins.(*ssa.UnOp); ok && u.Op == token.ARROW {
			for _, id := range chanIDs(u.X) {
				ownerRecv[id] = true
			}
		}
	})
	for _, sf := range stopFns {
		sreg := c.NewRegion(sf, 2, inMain)
		sends, recvs := 0, 0
		signals := false
		sreg.Instrs(func(_ *ssa.Function, ins ssa.Instruction) {
			switch v := ins.(type) {
			case *ssa.Send:
				sends++
				for _, id := range chanIDs(v.Chan) {
					if ownerRecv[id] {
						signals = true
					}
				}
			case *ssa.Call:
				if bc, ok := isBuiltinCall(v, "close"); ok {
					sends++
					for _, id := range chanIDs(bc.Call.Args[0]) {
						if ownerRecv[id] {
							signals = true
						}
					}
				}
			case *ssa.UnOp:
				if v.Op == token.ARROW {
					recvs++
				}
			}
		})
		c.Check("STOPFN", short(sf)+":signals-owner", p.Pos(sf.Pos()), sends >= 1 && signals, fmt.Sprintf("stop function sends=%d; owner goroutine receives on the same channel=%v", sends, signals))
		c.Check("STOPFN", short(sf)+":awaits-close", p.Pos(sf.Pos()), recvs >= 1, "the stop function does not wait for the owner goroutine's close result")
	}
	// owner: after the blocking receive on the stop channel, the listener set is closed on every path to exit
	isClose := isCall("(*" + a.lsType + ").Close")
	nRecv := 0
	oreg.Instrs(func(f *ssa.Function, ins ssa.Instruction) {
		if !isBlockingRecv(ins) {
			return
		}
		nRecv++
		closeQ := orDeferred(f, nil, isClose)
		ok, bad := oreg.MustPassUp(eng.After(ins), closeQ)
		c.CheckAt("STOPFN", short(a.owner)+":close-after-stop-signal", ins, ok, fmt.Sprintf("after the stop signal the owner can exit at %s without closing the listener set", p.IPos(bad)))
	})
	c.Floor("STOPFN", "blocking receives in the owner goroutine", nRecv, 1)
}
