package rules

import (
	"golang.org/x/tools/go/ssa"

	"verif/internal/eng"
)

type eOW = eng.OrderWitness

func callsOf(f *ssa.Function) []ssa.CallInstruction { return eng.Calls(f) }

func returnsOf(f *ssa.Function) []*ssa.Return { return eng.Returns(f) }
