package rules

import (
	"fmt"
	"go/token"
	"go/types"
	"strings"

	"golang.org/x/tools/go/ssa"

	"verif/internal/eng"
)

func init() {
	register(&PropDef{ID: "C02", Level: "other", Run: runC02,
		Explanation: "End-of-stream choreography and plumbing of the TCP relay on all paths: (HALFCLOSE) each relay copy is followed on every path by CloseWrite of its own destination, CloseWrite is never applied to a connection in a function that does not hold the copy into it " +
			"(so a FIN is sent only after all data of that direction), the client-to-target direction drains before it closes on error, and the relay returns only after joining the other direction (JOIN) with the target closed by a deferred Close; (FIRSTBYTES) the reader handed to the " +
			"decrypting reader is io.MultiReader(bytes.NewReader(B), R) where B is the freshly allocated buffer io.ReadFull(R, B) filled from the same R — the bytes consumed for key search are replayed exactly once and cannot be reused by another connection; (DEADLINE) the handshake read deadline is " +
			"cleared on every path that reaches the relay; (PASSTHRU) every method of the measuring wrapper makes exactly one delegated call with its arguments forwarded unchanged, returns that call's results unchanged and only adds the returned count to its counter.",
		NotDecided: "byte equality, chunking and ordering inside the SDK reader/writer and io.Copy.",
	})
	register(&PropDef{ID: "C15", Level: "other", Run: runC15,
		Explanation: "Call discipline of TCP connection metrics on all paths: (ONCE) a connection is reported open at most once per HandleStream and exactly once when metrics are configured; AddClosed runs exactly once on every path of Handle, before the client connection is closed; " +
			"AddAuthenticated runs at most once, only on the authentication-success edge, on every path from that edge, before the relay; AddProbe runs exactly once in the drain helper, which is called only on the authentication-failure edge, with the client-to-proxy byte counter read after the drain; " +
			"(STATUS) the status given to AddClosed is \"OK\" or the Status of the returned error; (WIRING) the client connection is measured into ProxyClient/ClientProxy and the dialed connection into ProxyTarget/TargetProxy, and the Prometheus adapter maps the four counters to c>p, p>t, p<t, c<p; " +
			"(PASSTHRU) the measuring wrapper (found by shape; counter roles from MeasureConn's parameter order) counts exactly what the wrapped call returned; the per-connection goroutine of the serve loop owns its iteration's connection variable; (ARITY) every WithLabelValues has the arity of its vector. (HALFCLOSE/JOIN) a relay direction fails only by its own fault — the other direction never closes the connection it is still copying from — so ERR_RELAY_CLIENT / ERR_RELAY_TARGET name the side that failed.",
		NotDecided: "numeric equality of the counters with the bytes on the wire.",
	})
}

// measuredModel: the measuring wrapper found by shape — the struct in service/metrics that holds a transport.StreamConn and two
// *int64 counters; which counter counts writes / reads is given by MeasureConn's parameter order (conn, sent, received).
type measuredModel struct {
	T, conn, wr, rd string
	mc              *ssa.Function
}

func findMeasured(c *Ctx, rule string) *measuredModel {
	p := c.P
	pkg := p.AllPkgs[eng.Mod+"/service/metrics"]
	mc := p.Fn("service/metrics.MeasureConn")
	if pkg == nil || pkg.Types == nil || mc == nil {
		c.Undecided(rule, "anchor:MeasureConn", "-", "metrics.MeasureConn not found")
		return nil
	}
	var out *measuredModel
	sc := pkg.Types.Scope()
	for _, name := range sc.Names() {
		tn, ok := sc.Lookup(name).(*types.TypeName)
		if !ok {
			continue
		}
		st, ok := tn.Type().Underlying().(*types.Struct)
		if !ok {
			continue
		}
		m := &measuredModel{T: "service/metrics." + name, mc: mc}
		var ptrs []string
		for i := 0; i < st.NumFields(); i++ {
			f := st.Field(i)
			switch eng.Short(f.Type().String()) {
			case "sdk/transport.StreamConn":
				m.conn = f.Name()
			case "*int64":
				ptrs = append(ptrs, f.Name())
			}
		}
		if m.conn == "" || len(ptrs) != 2 {
			continue
		}
		for _, fld := range ptrs {
			for _, fs := range p.FieldStores(m.T, fld) {
				if fs.Fn != mc {
					continue
				}
				if g, _ := p.AllFrom(fs.Val, eng.Plain, func(v ssa.Value) bool { return eng.IsParam(v, mc, 1) }); g {
					m.wr = fld
				}
				if g, _ := p.AllFrom(fs.Val, eng.Plain, func(v ssa.Value) bool { return eng.IsParam(v, mc, 2) }); g {
					m.rd = fld
				}
			}
		}
		if m.wr != "" && m.rd != "" && m.wr != m.rd {
			out = m
		}
	}
	if out == nil {
		c.Check(rule, "MeasureConn:counters-wired", p.Pos(mc.Pos()), false, "MeasureConn does not build a wrapper whose two counters are its (sent → writes, received → reads) parameters")
	}
	return out
}

// relay is a function that runs two copy directions: one in a goroutine it starts, one synchronously.
type relay struct {
	root   *ssa.Function
	dirs   []*Region // one region per direction: rooted at the goroutine target(s) and at the relay function itself
	copies map[*Region][]*ssa.Call
}

func isRelayCopy(ins ssa.Instruction) (*ssa.Call, bool) {
	call, ok := ins.(*ssa.Call)
	if !ok || eng.CalleeName(&call.Call) != "io.Copy" || isDiscard(call.Call.Args[0]) {
		return nil, false
	}
	return call, true
}

func findRelays(c *Ctx) []*relay {
	var out []*relay
	stop := func(f *ssa.Function) bool { return eng.PkgPathOf(f) != eng.Mod+"/service" }
	for _, f := range c.P.FnsIn("service") {
		if f.Parent() != nil || c.P.IsTestSupport(f) {
			continue
		}
		var gos []*ssa.Go
		for _, cl := range eng.Calls(f) {
			if g, ok := cl.(*ssa.Go); ok {
				gos = append(gos, g)
			}
		}
		if len(gos) == 0 {
			continue
		}
		r := &relay{root: f, copies: map[*Region][]*ssa.Call{}}
		syncReg := c.NewRegion(f, 2, stop)
		collect := func(reg *Region) {
			for _, cl := range reg.Calls() {
				if call, ok := isRelayCopy(cl.(ssa.Instruction)); ok {
					r.copies[reg] = append(r.copies[reg], call)
				}
			}
		}
		collect(syncReg)
		async := 0
		for _, g := range gos {
			for _, t := range c.P.Callees(g) {
				if !c.P.InRepo(t) {
					continue
				}
				reg := c.NewRegion(t, 2, stop)
				collect(reg)
				if len(r.copies[reg]) > 0 {
					async++
					r.dirs = append(r.dirs, reg)
				}
			}
		}
		if async > 0 && len(r.copies[syncReg]) > 0 {
			r.dirs = append(r.dirs, syncReg)
			out = append(out, r)
		}
	}
	return out
}

func relayFns(c *Ctx) []*ssa.Function {
	var out []*ssa.Function
	for _, r := range findRelays(c) {
		out = append(out, r.root)
	}
	return out
}

func sameOrigin(c *Ctx, a, b ssa.Value) bool {
	for _, x := range c.P.Origins(a, deepF) {
		x = baseRoot(x)
		for _, y := range c.P.Origins(b, deepF) {
			if x == baseRoot(y) {
				return true
			}
		}
	}
	return false
}

func runC02(c *Ctx) {
	ruleHalfClose(c)
	ruleJoin(c, "HALFCLOSE")
	ruleFirstBytes(c)
	ruleClearDeadline(c)
	rulePassthru(c, "PASSTHRU")
	// "each connection's streams": the handler goroutine relays the connection accepted for it, not a later one
	ruleLoopVar(c, "OWNCONN", "service")
	// a connection closed with SO_LINGER 0 is reset: what was queued for the client but not yet sent is discarded
	ruleNoReset(c)
	// "for every authenticated connection": a relaying connection is not closed because the listener that accepted it was
	// closed (reload) — nothing in the per-connection code reacts to the serve context
	ruleSurvive(c)
	// a relay that stops on an error still drains what the client is sending before it closes (a close with unread data
	// resets the connection and discards the part of the answer not yet delivered)
	if a := findTCP(c, "ANCHOR"); a != nil {
		ruleDrain(c, a)
	}
}

// C02.HALFCLOSE
func ruleHalfClose(c *Ctx) {
	p := c.P
	rs := findRelays(c)
	if !c.Floor("HALFCLOSE", "relay functions (two copy directions)", len(rs), 1) {
		return
	}
	for _, r := range rs {
		nCopy := 0
		for _, reg := range r.dirs {
			copies := r.copies[reg]
			for _, cp := range copies {
				nCopy++
				dst, src := cp.Call.Args[0], cp.Call.Args[1]
				g := cp.Parent()
				isCW := func(ins ssa.Instruction) bool {
					cl, ok := ins.(*ssa.Call)
					return ok && eng.MethodName(&cl.Call) == "CloseWrite" && sameOrigin(c, eng.Receiver(&cl.Call), dst)
				}
				ok, bad := reg.MustPassUp(eng.After(cp), isCW)
				c.CheckAt("HALFCLOSE", short(g)+":copy-then-CloseWrite-of-its-destination", cp, ok, fmt.Sprintf("after this copy the direction can finish at %s without CloseWrite on the copy's destination: end-of-stream of this direction is not propagated", p.IPos(bad)))
				isCR := func(ins ssa.Instruction) bool {
					cl, ok := ins.(*ssa.Call)
					return ok && eng.MethodName(&cl.Call) == "CloseRead" && sameOrigin(c, eng.Receiver(&cl.Call), src)
				}
				ok2, _ := reg.MustPassUp(eng.After(cp), isCR)
				c.CheckAt("HALFCLOSE", short(g)+":copy-then-CloseRead-of-its-source", cp, ok2, "after this copy the read side of its source is not closed on every path")
				// ... and the end-of-stream is propagated at once: nothing waits for the other direction (channel operation,
				// WaitGroup/Cond wait) between the end of this copy and the CloseWrite of its destination
				isWait := func(ins ssa.Instruction) bool {
					switch x := ins.(type) {
					case *ssa.UnOp:
						return x.Op == token.ARROW
					case *ssa.Send:
						return true
					case *ssa.Select:
						return x.Blocking
					case *ssa.Call:
						n := eng.CalleeName(&x.Call)
						return n == "(*sync.WaitGroup).Wait" || n == "(*sync.Cond).Wait"
					}
					return false
				}
				if ok {
					ok3, bad3 := eng.MustPassBefore(eng.After(cp), reg.Must(isCW, nil), reg.May(isWait))
					c.CheckAt("HALFCLOSE", short(g)+":CloseWrite-does-not-wait-for-the-other-direction", cp, ok3, fmt.Sprintf("between the end of this copy and the CloseWrite of its destination the code waits for the other direction (%s): a peer that finishes first does not see end-of-stream until the other side finishes too", p.IPos(bad3)))
				}
			}
			// every CloseWrite / CloseRead in this direction is on the destination / source of a copy of the same direction that has completed
			for _, cl := range reg.Calls() {
				call, ok := cl.(*ssa.Call)
				if !ok {
					continue
				}
				m := eng.MethodName(&call.Call)
				if m != "CloseWrite" && m != "CloseRead" {
					continue
				}
				isOwnCopy := func(ins ssa.Instruction) bool {
					cp, ok := isRelayCopy(ins)
					if !ok {
						return false
					}
					side := cp.Call.Args[0]
					if m == "CloseRead" {
						side = cp.Call.Args[1]
					}
					return sameOrigin(c, eng.Receiver(&call.Call), side)
				}
				good, _ := reg.BeforeDeep(isOwnCopy, func(ins ssa.Instruction) bool { return ins == ssa.Instruction(call) })
				what := "destination"
				if m == "CloseRead" {
					what = "source"
				}
				c.CheckAt("HALFCLOSE", short(call.Parent())+":"+m+"-only-after-own-copy", call, good, m+" is applied to a connection that is not the "+what+" of a copy completed in this direction: the other direction, still flowing in the other goroutine, is cut (e.g. a FIN reaches the target before all client data)")
			}
		}
		c.Floor("HALFCLOSE", "relay copies in "+short(r.root), nCopy, 2)
	}
}

// C02.FIRSTBYTES
// keyFinder: the TCP key finder found by role — the function that takes the per-connection snapshot / marks the matched entry —
// with its helpers: where the first bytes are read, into what, and which call performs the trial decryption search.
type keyFinder struct {
	f      *ssa.Function
	reg    *Region
	rf     *ssa.Call   // io.ReadFull of the first bytes
	bufs   []ssa.Value // allocation(s) the bytes are read into
	search *ssa.Call   // the call of the search function (the one whose region decrypts with Unpack)
}

func findKeyFinders(c *Ctx) []*keyFinder {
	p := c.P
	var out []*keyFinder
	inSvc := func(h *ssa.Function) bool { return eng.PkgPathOf(h) != eng.Mod+"/service" }
	for _, f := range p.FnsIn("service") {
		if p.IsTestSupport(f) || f.Parent() != nil {
			continue
		}
		snap := false
		for _, cl := range eng.Calls(f) {
			if n := eng.MethodName(cl.Common()); n == "SnapshotForClientIP" || n == "MarkUsedByClientIP" {
				snap = true
			}
		}
		if !snap {
			continue
		}
		kf := &keyFinder{f: f, reg: c.NewRegion(f, 2, inSvc)}
		for _, call := range kf.reg.FindCalls(func(n string, _ *ssa.Call) bool { return n == "io.ReadFull" }) {
			kf.rf = call
		}
		if kf.rf == nil {
			continue
		}
		kf.bufs = p.Origins(kf.rf.Call.Args[1], deepF)
		// the search call: its callee holds (or reaches) a trial-decryption loop — a mere wrapper around one Unpack is not a search
		loopFns := map[*ssa.Function]bool{}
		for _, sl := range findSearchLoops(c) {
			loopFns[sl.fn] = true
		}
		for _, cl := range eng.Calls(f) {
			if call, ok := cl.(*ssa.Call); ok {
				if g := call.Call.StaticCallee(); g != nil && p.InRepo(g) {
					hit := loopFns[g]
					for _, h := range regionFns(c, g, nil, 2) {
						if loopFns[h] {
							hit = true
						}
					}
					if hit {
						kf.search = call
					}
				}
			}
		}
		out = append(out, kf)
	}
	return out
}

// sameBuf: v is (all of) the buffer the first bytes were read into.
func (kf *keyFinder) sameBuf(c *Ctx, v ssa.Value) bool {
	os := c.P.Origins(v, deepF)
	if len(os) == 0 {
		return false
	}
	for _, o := range os {
		hit := false
		for _, b := range kf.bufs {
			if o == b {
				hit = true
			}
		}
		if !hit {
			return false
		}
	}
	return true
}

func ruleFirstBytes(c *Ctx) {
	p := c.P
	n := 0
	for _, kf := range findKeyFinders(c) {
		f, rf := kf.f, kf.rf
		n++
		key := short(f)
		// fresh allocation by this call (in the finder or the helper that reads)
		fresh, bad := p.AllFrom(rf.Call.Args[1], eng.Deep, func(x ssa.Value) bool {
			switch y := x.(type) {
			case *ssa.MakeSlice:
				return kf.reg.In[y.Parent()]
			case *ssa.Alloc:
				return kf.reg.In[y.Parent()] && strings.HasPrefix(y.Type().String(), "*[")
			}
			return false
		})
		c.CheckAt("FIRSTBYTES", key+":buffer-freshly-allocated", rf, fresh, "the first-bytes buffer is not allocated by this call (e.g. taken from a pool and released on return): the replaying reader still points at it while another connection overwrites it ("+valsStr(p, bad)+")")
		mrs := kf.reg.FindCalls(func(n string, _ *ssa.Call) bool { return n == "io.MultiReader" })
		if len(mrs) == 0 {
			c.CheckAt("FIRSTBYTES", key+":replays-consumed-bytes", rf, false, "the bytes consumed for the key search are not replayed in front of the client stream (no io.MultiReader)")
			continue
		}
		mr := mrs[len(mrs)-1]
		// MultiReader(bytes.NewReader(buf), R) with R == ReadFull's reader
		var elems [2]ssa.Value
		cnt := 0
		if sl, ok := mr.Call.Args[0].(*ssa.Slice); ok {
			if al, ok := sl.X.(*ssa.Alloc); ok {
				for _, r := range *al.Referrers() {
					if ia, ok := r.(*ssa.IndexAddr); ok {
						k, _ := eng.ConstInt(ia.Index)
						for _, rr := range *ia.Referrers() {
							if st, ok := rr.(*ssa.Store); ok && k >= 0 && k < 2 {
								elems[k] = st.Val
								cnt++
							}
						}
					}
				}
			}
		}
		okFirst, okSecond := false, false
		if cnt == 2 {
			okFirst = p.AnyFrom(elems[0], eng.OriginOpts{ThroughConvert: true}, func(v ssa.Value) bool {
				cc, ok := v.(*ssa.Call)
				return ok && eng.CalleeName(&cc.Call) == "bytes.NewReader" && kf.sameBuf(c, cc.Call.Args[0])
			})
			okSecond = p.Resolve(elems[1]) == p.Resolve(rf.Call.Args[0]) || sameOrigin(c, elems[1], rf.Call.Args[0])
		}
		c.CheckAt("FIRSTBYTES", key+":replays-exactly-the-bytes-read-then-the-stream", mr, cnt == 2 && okFirst && okSecond, "the reader returned is not io.MultiReader(bytes.NewReader(<the buffer ReadFull filled, whole>), <the same reader>): consumed bytes are lost, duplicated or taken from elsewhere")
		// the MultiReader result is what is returned on success
		for _, r := range eng.Returns(f) {
			if len(r.Results) == 0 || !eng.IsZeroValue(r.Results[len(r.Results)-1]) {
				continue
			}
			for _, rv := range r.Results {
				if rv.Type().String() == "io.Reader" {
					g, _ := p.AllFrom(rv, deepF, func(v ssa.Value) bool { return v == ssa.Value(mr) })
					c.CheckAt("FIRSTBYTES", key+":returns-the-replaying-reader", r, g, "on success the key finder does not return the replaying reader")
				}
			}
		}
	}
	c.Floor("FIRSTBYTES", "key finders that read first bytes", n, 1)
}

// C02.DEADLINE: the relay call is dominated by a SetReadDeadline(zero) on the client connection.
func ruleClearDeadline(c *Ctx) {
	p := c.P
	a := findTCP(c, "DEADLINE")
	if a == nil {
		return
	}
	h := a.top
	rfs := relayFns(c)
	reg := c.NewRegion(h, 4, func(g *ssa.Function) bool { return eng.PkgPathOf(g) != eng.Mod+"/service" })
	isRelay := func(ins ssa.Instruction) bool {
		call, ok := ins.(*ssa.Call)
		if !ok {
			return false
		}
		for _, f := range repoCallees(c, call) {
			for _, rf := range rfs {
				if f == rf {
					return true
				}
			}
		}
		return false
	}
	// deadline calls on the client connection: kind "r"/"w", zero = clears
	deadlineCall := func(ins ssa.Instruction) (kinds string, zero, ok bool) {
		dc, isC := ins.(*ssa.Call)
		if !isC {
			return
		}
		switch eng.MethodName(&dc.Call) {
		case "SetReadDeadline":
			kinds = "r"
		case "SetWriteDeadline":
			kinds = "w"
		case "SetDeadline":
			kinds = "rw"
		default:
			return
		}
		if !a.sameConn(c, eng.Receiver(&dc.Call)) {
			return "", false, false
		}
		arg := eng.Arg(&dc.Call, 0)
		return kinds, eng.IsZeroValue(p.Resolve(arg)) || isZeroStructLoad(p, arg), true
	}
	clears := func(kind string) func(ssa.Instruction) bool {
		return func(ins ssa.Instruction) bool {
			k, zero, ok := deadlineCall(ins)
			return ok && zero && strings.Contains(k, kind)
		}
	}
	isClear := clears("r")
	n := 0
	for _, cl := range reg.Calls() {
		if isRelay(cl) {
			n++
		}
	}
	if c.Floor("DEADLINE", "relay calls in the handler's region", n, 1) {
		ok, bad := reg.BeforeDeep(isClear, isRelay)
		c.Check("DEADLINE", short(h)+":deadline-cleared-before-relay", p.Pos(h.Pos()), ok, fmt.Sprintf("the relay can start (%s) with the handshake read deadline still set on the client connection: long-lived connections are cut when it fires", p.IPos(bad)))
		// a write deadline armed for the handshake (SetDeadline arms both directions) must be cleared as well
		var armsWrite ssa.Instruction
		for _, cl := range reg.Calls() {
			if k, zero, ok := deadlineCall(cl); ok && !zero && strings.Contains(k, "w") {
				// only a handshake-relative deadline (derived from time.Now) is meant to end with the handshake; the
				// context's own deadline legitimately stays on the connection
				arg := eng.Arg(&cl.(*ssa.Call).Call, 0)
				if p.AnyFrom(arg, eng.OriginOpts{ThroughConvert: true, Interproc: true, ThroughCalls: func(cc *ssa.Call) []ssa.Value {
					if eng.CalleeName(&cc.Call) == "(time.Time).Add" {
						return cc.Call.Args
					}
					return nil
				}}, func(v ssa.Value) bool {
					cc, _, isR := eng.AsResult(v)
					return isR && eng.CalleeName(&cc.Call) == "time.Now"
				}) {
					armsWrite = cl
				}
			}
		}
		if armsWrite != nil {
			ok, bad := reg.BeforeDeep(clears("w"), isRelay)
			c.CheckAt("DEADLINE", short(h)+":write-deadline-cleared-before-relay", armsWrite, ok, fmt.Sprintf("the handshake arms a write deadline on the client connection that is still set when the relay starts (%s): the first write to the client after it fires fails and the target's stream is cut short", p.IPos(bad)))
		}
	}
}

// PASSTHRU (shared by C02 and C15): wrapper transparency of the measuring connection, over each method's helper region.
func rulePassthru(c *Ctx, rule string) {
	p := c.P
	mm := findMeasured(c, rule)
	if mm == nil {
		return
	}
	measuredT := mm.T
	want := map[string]string{"Read": mm.rd, "WriteTo": mm.rd, "Write": mm.wr, "ReadFrom": mm.wr}
	c.Check(rule, short(mm.mc)+":counters-wired", p.Pos(mm.mc.Pos()), true, "sent→"+mm.wr+", received→"+mm.rd+"||")
	n := 0
	// every delegated call of the four methods (used to accept shared counting helpers)
	var allDelegates []*ssa.Call
	for _, f := range p.FnsIn("service/metrics") {
		for _, cl := range eng.Calls(f) {
			call, ok := cl.(*ssa.Call)
			if !ok {
				continue
			}
			emb := func(v ssa.Value) bool {
				return p.AnyFrom(v, deepF, func(x ssa.Value) bool { return eng.IsFieldLoad(x, measuredT, mm.conn) })
			}
			if _, isM := want[eng.MethodName(&call.Call)]; isM && emb(eng.Receiver(&call.Call)) {
				allDelegates = append(allDelegates, call)
			}
			if eng.CalleeName(&call.Call) == "io.Copy" && (emb(call.Call.Args[0]) || emb(call.Call.Args[1])) {
				allDelegates = append(allDelegates, call)
			}
		}
	}
	for _, f := range p.FnsIn("service/metrics") {
		if f.Signature.Recv() == nil || eng.TypeName(f.Signature.Recv().Type()) != measuredT || f.Parent() != nil {
			continue
		}
		counter, ok := want[f.Name()]
		if !ok {
			continue
		}
		n++
		key := short(f)
		reg := c.NewRegion(f, 3, func(h *ssa.Function) bool { return eng.PkgPathOf(h) != eng.Mod+"/service/metrics" })
		isEmbedded := func(v ssa.Value) bool {
			return p.AnyFrom(v, deepF, func(x ssa.Value) bool { return eng.IsFieldLoad(x, measuredT, mm.conn) })
		}
		var delegates []*ssa.Call
		for _, cl := range reg.Calls() {
			call, ok := cl.(*ssa.Call)
			if !ok {
				continue
			}
			if eng.MethodName(&call.Call) == f.Name() && isEmbedded(eng.Receiver(&call.Call)) {
				delegates = append(delegates, call)
			}
			if eng.CalleeName(&call.Call) == "io.Copy" && (isEmbedded(call.Call.Args[0]) || isEmbedded(call.Call.Args[1])) {
				delegates = append(delegates, call)
			}
		}
		c.Check(rule, key+":delegates", p.Pos(f.Pos()), len(delegates) >= 1, "the wrapper method does not delegate to the wrapped connection")
		isD := func(ins ssa.Instruction) bool {
			for _, d := range delegates {
				if ins == ssa.Instruction(d) {
					return true
				}
			}
			return false
		}
		mn, _, _ := eng.CountOnPaths(eng.Point{B: f.Blocks[0]}, reg.Must(isD, nil), nil)
		_, mx, _ := eng.CountOnPaths(eng.Point{B: f.Blocks[0]}, reg.May(isD), nil)
		c.Check(rule, key+":exactly-one-delegated-call-per-path", p.Pos(f.Pos()), mn == 1 && mx == 1, fmt.Sprintf("the wrapped operation runs %d..%d times per call", mn, mx))
		fromD := func(idx int) func(ssa.Value) bool {
			return func(v ssa.Value) bool {
				for _, d := range delegates {
					if eng.ResultOf(v, d, idx) {
						return true
					}
				}
				return false
			}
		}
		for _, d := range delegates {
			for i, a := range d.Call.Args {
				if isEmbedded(a) {
					continue
				}
				if !d.Call.IsInvoke() && i == 0 && eng.MethodName(&d.Call) != "" {
					continue
				}
				g, bad := p.AllFrom(a, deepF, func(v ssa.Value) bool {
					pa, isP := v.(*ssa.Parameter)
					return isP && pa.Parent() == f
				})
				c.CheckAt(rule, fmt.Sprintf("%s:argument#%d-forwarded-unchanged", key, i), d, g, "the delegated call does not get the caller's argument unchanged: "+valsStr(p, bad))
			}
		}
		for i, r := range eng.Returns(f) {
			if r.Block().Comment == "recover" {
				continue
			}
			g0, _ := p.AllFrom(r.Results[0], deepF, fromD(0))
			g1, _ := p.AllFrom(r.Results[1], deepF, fromD(1))
			c.CheckAt(rule, fmt.Sprintf("%s:return#%d-is-the-delegate's-result", key, i), r, g0 && g1, "the wrapper returns something other than the wrapped call's (n, err)")
		}
		// counter updates anywhere in the region: *recv.<counter> += int64(n of delegate)
		ptrIs := func(v ssa.Value, fld string) bool {
			return p.AnyFrom(v, deepF, func(x ssa.Value) bool { return eng.IsFieldLoad(x, measuredT, fld) })
		}
		var updates []*ssa.Store
		reg.Instrs(func(g *ssa.Function, ins ssa.Instruction) {
			st, ok := ins.(*ssa.Store)
			if !ok {
				return
			}
			if !ptrIs(st.Addr, mm.rd) && !ptrIs(st.Addr, mm.wr) {
				if fa, isFA := st.Addr.(*ssa.FieldAddr); isFA {
					if t, _, _, ok := eng.FieldOf(fa); ok && t == measuredT {
						c.CheckAt(rule, key+":no-field-writes", st, false, "the wrapper method modifies the wrapper's fields")
					}
				}
				return
			}
			updates = append(updates, st)
			c.CheckAt(rule, key+":updates-its-own-counter", st, ptrIs(st.Addr, counter), "the method updates the wrong counter (reads counted as writes or vice versa)")
			bo, ok := st.Val.(*ssa.BinOp)
			good := false
			var bad []ssa.Value
			if ok && bo.Op == token.ADD {
				for _, pair := range [][2]ssa.Value{{bo.X, bo.Y}, {bo.Y, bo.X}} {
					if u, isU := pair[0].(*ssa.UnOp); isU && u.Op == token.MUL && (ptrIs(u.X, mm.rd) || ptrIs(u.X, mm.wr)) {
						good, bad = p.AllFrom(pair[1], deepF, func(v ssa.Value) bool { return inCalls(v, allDelegates, 0) })
						// and this method's own delegate is among the sources
						if good && !p.AnyFrom(pair[1], deepF, fromD(0)) {
							good = false
						}
					}
				}
			}
			c.CheckAt(rule, key+":counter-advances-by-the-returned-count", st, good, "the counter is not advanced by exactly the count the wrapped call returned (e.g. by the requested length, or before the call): partial reads/writes are over-counted ("+valsStr(p, bad)+")")
		})
		isU := func(ins ssa.Instruction) bool {
			for _, u := range updates {
				if ins == ssa.Instruction(u) {
					return true
				}
			}
			return false
		}
		mn2, _, _ := eng.CountOnPaths(eng.Point{B: f.Blocks[0]}, reg.Must(isU, nil), nil)
		_, mx2, _ := eng.CountOnPaths(eng.Point{B: f.Blocks[0]}, reg.May(isU), nil)
		c.Check(rule, key+":one-counter-update-per-call", p.Pos(f.Pos()), mn2 == 1 && mx2 == 1, fmt.Sprintf("%d..%d counter updates per call (expected exactly 1)", mn2, mx2))
	}
	c.Floor(rule, "measured-connection methods", n, 4)
}

// ---- C15 ----

func runC15(c *Ctx) {
	a := findTCP(c, "ANCHOR")
	if a == nil {
		return
	}
	ruleOnce(c, a, "ONCE")
	ruleStatus(c, a)
	ruleReplayKind(c, "STATUS")
	ruleRelayErrorKept(c, "STATUS")
	ruleAdapterStatus(c, "WIRING")
	ruleCountsOne(c, "WIRING")
	ruleWiring(c, a)
	rulePassthru(c, "PASSTHRU")
	ruleLoopVar(c, "ONCE", "service")
	// "one status that names its real outcome": a relay direction fails only by its own fault — the other direction never closes
	// the connection it is still copying from
	ruleHalfClose(c)
	ruleJoin(c, "HALFCLOSE")
	ruleArityAll(c, "ARITY")
	ruleDirWiring(c, "WIRING")
	ruleServiceOptions(c, "WIRING", "service.WithMetrics", "its connections are served but never reported (no open/close/status, no byte counts, no probe report)")
}

func methodQ(name string) func(ssa.Instruction) bool {
	return func(ins ssa.Instruction) bool {
		cl, ok := ins.(*ssa.Call)
		return ok && eng.MethodName(&cl.Call) == name
	}
}

// outer handler: the caller of the connection handler whose region reports AddClosed (streamHandler.Handle)
func outerHandler(c *Ctx, a *tcpAnchors) *ssa.Function {
	memo := map[*ssa.Function]int{}
	for _, s := range c.P.CallSitesOf(a.top) {
		if bodyHas(s.Fn, methodQ("AddClosed")) || reaches(c, s.Fn, methodQ("AddClosed"), memo) {
			return s.Fn
		}
	}
	return nil
}

func outerRegion(c *Ctx, a *tcpAnchors, oh *ssa.Function) *Region {
	return c.NewRegion(oh, 3, func(f *ssa.Function) bool { return eng.PkgPathOf(f) != eng.Mod+"/service" || f == a.top })
}

// C15.ONCE (AddAuthenticated part shared with C17)
func ruleOnce(c *Ctx, a *tcpAnchors, rule string) {
	p := c.P
	h := a.handler
	// AddAuthenticated
	auth := methodQ("AddAuthenticated")
	var authCalls []ssa.Instruction
	for _, b := range h.Blocks {
		for _, ins := range b.Instrs {
			if auth(ins) {
				authCalls = append(authCalls, ins)
			}
		}
	}
	c.Floor(rule, "AddAuthenticated call sites in the handler", len(authCalls), 1)
	for _, ac := range authCalls {
		c.CheckAt(rule, short(h)+":authenticated-only-on-success-edge", ac, eng.Cut(h, ac.Block(), a.succ), "AddAuthenticated is reachable without crossing the authentication-success edge (e.g. keyed on a non-empty id, which replays also carry): unauthenticated connections are reported authenticated and accrue tunnel time")
		// the id reported is the id the authenticator returned
		call := ac.(*ssa.Call)
		g, _ := p.AllFrom(eng.Arg(&call.Call, 0), eng.Plain, func(v ssa.Value) bool { return eng.ResultOf(v, a.authCall, 0) })
		c.CheckAt(rule, short(h)+":authenticated-with-the-authenticator's-id", ac, g, "the access key reported is not the id returned by the authenticator")
	}
	for _, e := range sortedEdges(a.succ) {
		_, mx, _ := eng.CountOnPaths(edgePoint(e), auth, nil)
		c.Check(rule, short(h)+":authenticated-at-most-once", blockPos(p, e.To), mx <= 1, fmt.Sprintf("AddAuthenticated can run %d times for one connection", mx))
		ok, bad := eng.MustPass(edgePoint(e), auth)
		c.Check(rule, short(h)+":every-authenticated-connection-is-reported", blockPos(p, e.To), ok, fmt.Sprintf("after successful authentication the handler can return at %s without AddAuthenticated (e.g. when reading the target address fails): the connection's authenticated lifetime is not attributed to its key", p.IPos(bad)))
		// before any blocking read of the target address / relay: AddAuthenticated precedes every other call on the success side except logging
		ok2, bad2 := eng.MustPassBefore(edgePoint(e), auth, func(ins ssa.Instruction) bool {
			cl, ok := ins.(*ssa.Call)
			if !ok || auth(ins) {
				return false
			}
			return len(repoCallees(c, cl)) > 0 || eng.CalleeName(&cl.Call) == "io.Copy"
		})
		c.Check(rule, short(h)+":authenticated-before-further-processing", blockPos(p, e.To), ok2, fmt.Sprintf("work on the authenticated connection starts at %s before AddAuthenticated", p.IPos(bad2)))
	}
	if rule != "ONCE" {
		return
	}
	// AddProbe: once in the drain helper, helper called only on the failure edge, byte counter read after the drain
	nProbe := 0
	for _, f := range p.FnsIn("service") {
		if !bodyHas(f, methodQ("AddProbe")) || strings.HasPrefix(f.Name(), "AddProbe") {
			continue
		}
		nProbe++
		mn, mx, _ := eng.CountOnPaths(eng.Point{B: f.Blocks[0]}, methodQ("AddProbe"), nil)
		c.Check(rule, short(f)+":probe-reported-exactly-once", p.Pos(f.Pos()), mn == 1 && mx == 1, fmt.Sprintf("AddProbe runs %d..%d times per failed authentication", mn, mx))
		for _, cl := range eng.Calls(f) {
			call, ok := cl.(*ssa.Call)
			if !ok || eng.MethodName(&call.Call) != "AddProbe" {
				continue
			}
			// third argument: load of ProxyMetrics.ClientProxy that happens after the drain
			arg := eng.Arg(&call.Call, 2)
			okF := eng.IsFieldLoad(p.Resolve(arg), "service/metrics.ProxyMetrics", "ClientProxy")
			if u, isU := p.Resolve(arg).(*ssa.UnOp); isU && !okF && u.Op == token.MUL {
				// a load through a pointer to that counter handed in by the caller (&proxyMetrics.ClientProxy)
				okF, _ = p.AllFrom(u.X, deepF, func(x ssa.Value) bool {
					fa, isFA := x.(*ssa.FieldAddr)
					if !isFA {
						return false
					}
					t, fl, _, ok := eng.FieldOf(fa)
					return ok && t == "service/metrics.ProxyMetrics" && fl == "ClientProxy"
				})
			}
			after := false
			if u, ok := p.Resolve(arg).(*ssa.UnOp); ok {
				anyDrain := liftMust(c, func(x ssa.Instruction) bool { _, isD := isDrainCall(x); return isD }, nil)
				for _, c2 := range eng.Calls(f) {
					if ci, isCall := c2.(*ssa.Call); isCall && anyDrain(ci) && eng.Dominates(ci, u) {
						after = true
					}
				}
			}
			c.CheckAt(rule, short(f)+":probe-carries-bytes-received-after-drain", call, okF && after, "AddProbe is not given the client-to-proxy byte counter as read after the drain completed")
			g, _ := p.AllFrom(eng.Arg(&call.Call, 0), eng.Plain, func(v ssa.Value) bool { _, isP := v.(*ssa.Parameter); return isP })
			c.CheckAt(rule, short(f)+":probe-status-is-the-failure-status", call, g, "the probe status is not the status passed in by the handler")
		}
		for _, s := range p.CallSitesOf(f) {
			if s.Fn != h {
				c.CheckAt(rule, "probe-helper-caller:"+short(s.Fn), s.Ins, false, "the probe drain helper is called from outside the stream handler")
				continue
			}
			c.CheckAt(rule, short(h)+":probe-only-on-auth-failure", s.Ins, eng.Cut(h, s.Ins.Block(), a.fail), "a probe is reported on a path that did not fail authentication")
			call := s.Ins.(*ssa.Call)
			okS := false
			for _, ar := range call.Call.Args {
				if t, fl, base, ok := eng.FieldLoad(p.Resolve(ar)); ok && t == "net.ConnectionError" && fl == "Status" && eng.ResultOf(p.Resolve(base), a.authCall, 2) {
					okS = true
				}
			}
			c.CheckAt(rule, short(h)+":probe-status-from-auth-error", s.Ins, okS, "the probe is not reported with the Status of the authentication error")
		}
	}
	for _, e := range sortedEdges(a.fail) {
		ok, _ := eng.MustPass(edgePoint(e), func(ins ssa.Instruction) bool {
			cl, ok := ins.(*ssa.Call)
			if !ok {
				return false
			}
			for _, f := range repoCallees(c, cl) {
				if bodyHas(f, methodQ("AddProbe")) {
					return true
				}
			}
			return methodQ("AddProbe")(ins)
		})
		c.Check(rule, short(h)+":every-auth-failure-reports-a-probe", blockPos(p, e.To), ok, "an authentication failure can end without a probe report")
	}
	c.Floor(rule, "functions reporting probes", nProbe, 1)

	// AddClosed in the outer handler
	oh := outerHandler(c, a)
	if oh == nil {
		c.Undecided(rule, "anchor:outer-handler", "-", "no caller of the connection handler reports AddClosed")
		return
	}
	oreg := outerRegion(c, a, oh)
	isClosed := methodQ("AddClosed")
	mn, _, _ := eng.CountOnPaths(eng.Point{B: oh.Blocks[0]}, liftMust(c, isClosed, nil), nil)
	_, mx, _ := eng.CountOnPaths(eng.Point{B: oh.Blocks[0]}, liftMay(c, isClosed), nil)
	nClosed := len(oreg.FindCalls(func(_ string, call *ssa.Call) bool { return eng.MethodName(&call.Call) == "AddClosed" }))
	c.Check(rule, short(oh)+":closed-reported-exactly-once", p.Pos(oh.Pos()), mn == 1 && mx == 1 && nClosed == 1, fmt.Sprintf("AddClosed runs %d..%d times per connection from %d call sites (must be exactly once, whatever the outcome)", mn, mx, nClosed))
	isClientClose := func(ins ssa.Instruction) bool {
		cl, ok := ins.(ssa.CallInstruction)
		return ok && eng.MethodName(cl.Common()) == "Close"
	}
	ok, bad := oreg.BeforeDeep(isClosed, isClientClose)
	c.Check(rule, short(oh)+":closed-reported-before-the-connection-is-closed", p.Pos(oh.Pos()), ok, fmt.Sprintf("the client connection is closed at %s before AddClosed", p.IPos(bad)))
	isHandle := func(ins ssa.Instruction) bool {
		cl, ok := ins.(*ssa.Call)
		return ok && callTo(c, cl, a.top)
	}
	ok3, bad3 := oreg.BeforeDeep(isHandle, isClosed)
	c.Check(rule, short(oh)+":closed-after-handling", p.Pos(oh.Pos()), ok3, fmt.Sprintf("AddClosed can run (%s) before the connection was handled", p.IPos(bad3)))
	// open: the service entry (the function that hands a connection to the stream handler) reports AddOpenTCPConnection at most
	// once, exactly once on the metrics != nil edge, for this connection, and passes the result on
	isOpen := methodQ("AddOpenTCPConnection")
	nEntry := 0
	for _, f := range p.FnsIn("service") {
		if f.Signature.Recv() == nil || f.Parent() != nil || p.IsTestSupport(f) {
			continue
		}
		var handles []*ssa.Call
		for _, cl := range eng.Calls(f) {
			if hc, ok := cl.(*ssa.Call); ok && hc.Call.IsInvoke() && hc.Call.Method.Name() == "Handle" {
				handles = append(handles, hc)
			}
		}
		if len(handles) == 0 {
			continue
		}
		reg := c.NewRegion(f, 2, func(h *ssa.Function) bool { return eng.PkgPathOf(h) != eng.Mod+"/service" })
		opens := reg.FindCalls(func(_ string, call *ssa.Call) bool { return isOpen(call) })
		if len(opens) == 0 {
			continue
		}
		nEntry++
		_, mx, _ := eng.CountOnPaths(eng.Point{B: f.Blocks[0]}, reg.May(isOpen), nil)
		c.Check(rule, short(f)+":open-reported-at-most-once", p.Pos(f.Pos()), mx == 1, fmt.Sprintf("AddOpenTCPConnection runs up to %d times per connection", mx))
		for _, call := range opens {
			g := call.Parent()
			// guarded only by metrics != nil
			recv := eng.Receiver(&call.Call)
			_, nn := p.NilEdges(g, func(v ssa.Value) bool { return sameOrigin(c, v, recv) || sameFieldLoad(p.Resolve(v), p.Resolve(recv)) })
			okG := len(nn) > 0
			for _, e := range sortedEdges(nn) {
				if ok, _ := eng.MustPass(edgePoint(e), func(ins ssa.Instruction) bool { return ins == ssa.Instruction(call) }); !ok {
					okG = false
				}
			}
			c.CheckAt(rule, short(f)+":open-reported-whenever-metrics-exist", call, okG, "with metrics configured a connection can be handled without being reported open")
			// the connection reported is the parameter connection and the metrics object flows to the handler
			okC, _ := p.AllFrom(eng.Arg(&call.Call, 0), deepF, func(v ssa.Value) bool { pa, isP := v.(*ssa.Parameter); return isP && pa.Parent() == f })
			c.CheckAt(rule, short(f)+":open-reported-for-this-connection", call, okC, "the connection reported open is not the connection being handled")
			flows := false
			for _, hc := range handles {
				for _, ar := range hc.Call.Args {
					if p.AnyFrom(ar, deepF, func(v ssa.Value) bool { return v == ssa.Value(call) }) {
						flows = true
					}
				}
			}
			c.CheckAt(rule, short(f)+":connection-metrics-handed-to-the-handler", call, flows, "the per-connection metrics object is not passed to the stream handler")
		}
	}
	c.Floor(rule, "service entry points that report a connection open and hand it to the stream handler", nEntry, 1)
}

// C15.STATUS
func ruleStatus(c *Ctx, a *tcpAnchors) {
	p := c.P
	oh := outerHandler(c, a)
	if oh == nil {
		return
	}
	oreg := outerRegion(c, a, oh)
	var hcall *ssa.Call
	for _, s := range p.CallSitesOf(a.top) {
		if s.Fn == oh {
			hcall, _ = s.Ins.(*ssa.Call)
		}
	}
	fromHandlerErr := func(v ssa.Value) bool {
		g, _ := p.AllFrom(v, deepF, func(x ssa.Value) bool { return hcall != nil && x == ssa.Value(hcall) })
		return g
	}
	// the error a connection ends with is that connection's own object: its fields are written only where it is built. An error
	// object shared between connections and patched per use (e.g. one "replay" error per authenticator whose Status is set on
	// each rejection) is read by the close report of one connection after another connection has rewritten it.
	nf := 0
	for _, fl := range p.StructFields("net.ConnectionError") {
		nf++
		for _, st := range p.FieldStores("net.ConnectionError", fl.Name()) {
			if st.Val == nil && st.Fresh {
				continue
			}
			c.CheckAt("STATUS", "connection-error-immutable:"+fl.Name()+":"+short(st.Fn), st.Ins, st.Fresh, "a field of an existing ConnectionError is overwritten: the error (and the status it carries to the close report) is shared state, not this connection's outcome")
		}
	}
	c.Floor("STATUS", "fields of the connection error type", nf, 2)
	for _, call := range oreg.FindCalls(func(_ string, call *ssa.Call) bool { return eng.MethodName(&call.Call) == "AddClosed" }) {
		st := eng.Arg(&call.Call, 0)
		good, bad := p.AllFrom(st, deepF, func(v ssa.Value) bool {
			if s, ok := eng.ConstString(v); ok {
				return s == "OK"
			}
			t, fl, base, ok := eng.FieldLoad(v)
			return ok && t == "net.ConnectionError" && fl == "Status" && fromHandlerErr(base)
		})
		c.CheckAt("STATUS", short(oh)+":status-is-OK-or-the-handler-error's-status", call, good, "the status given to AddClosed is neither \"OK\" nor the Status of the error the handler returned: "+valsStr(p, bad))
		// the byte counters passed are this connection's ProxyMetrics (the struct the connections were measured into)
		okD, _ := p.AllFrom(eng.Arg(&call.Call, 1), deepF, func(v ssa.Value) bool {
			u, ok := v.(*ssa.UnOp)
			if !ok || u.Op != token.MUL {
				return false
			}
			g, _ := p.AllFrom(u.X, deepF, func(y ssa.Value) bool {
				al, ok := baseRoot(y).(*ssa.Alloc)
				return ok && eng.TypeName(al.Type()) == "service/metrics.ProxyMetrics"
			})
			return g
		})
		c.CheckAt("STATUS", short(oh)+":closed-carries-this-connection's-counters", call, okD, "AddClosed is not given this connection's own byte counters")
	}
	// "OK" only on the nil edge: every place in the region where the constant "OK" is chosen for the status (a phi operand or a
	// returned constant of a status helper) lies behind the nil edge of a test on the handler's error
	n := 0
	statusFns := append([]*ssa.Function{}, oreg.Fns...)
	for _, f := range oreg.Fns {
		// status helpers outside the package (a StatusOrOK() method of the error type)
		for _, cl := range eng.Calls(f) {
			if h := cl.Common().StaticCallee(); h != nil && p.InRepo(h) && len(h.Blocks) > 0 && !oreg.In[h] && h.Signature.Results().Len() == 1 && h.Signature.Results().At(0).Type().String() == "string" {
				statusFns = append(statusFns, h)
			}
		}
	}
	for _, f := range statusFns {
		nilE, _ := p.NilEdges(f, fromHandlerErr)
		for _, b := range f.Blocks {
			for _, ins := range b.Instrs {
				switch v := ins.(type) {
				case *ssa.Phi:
					hasStatus := false
					for _, e := range v.Edges {
						if _, fl, _, ok := eng.FieldLoad(e); ok && fl == "Status" {
							hasStatus = true
						}
					}
					if !hasStatus {
						continue
					}
					for i, e := range v.Edges {
						if sv, ok := eng.ConstString(e); ok && sv == "OK" {
							n++
							pred := b.Preds[i]
							onNil := false
							for ne := range nilE {
								if (ne.From == pred && ne.To == b) || ne.To == pred || ne.To.Dominates(pred) {
									onNil = true
								}
							}
							c.CheckAt("STATUS", short(f)+":OK-only-when-no-error", v, onNil, "\"OK\" is reported on a path where the handler returned an error")
						}
					}
				case *ssa.Return:
					for _, rv := range v.Results {
						if sv, ok := eng.ConstString(rv); ok && sv == "OK" && f != oh {
							n++
							c.CheckAt("STATUS", short(f)+":OK-only-when-no-error", v, len(nilE) > 0 && eng.Cut(f, b, nilE), "\"OK\" is returned as status on a path where the error is not known to be nil")
						}
					}
				}
			}
		}
	}
	c.Floor("STATUS", "places where the OK status is chosen", n, 1)
}

// C15.WIRING
func ruleWiring(c *Ctx, a *tcpAnchors) {
	p := c.P
	n := 0
	for _, s := range p.CallSites(eng.Named("service/metrics.MeasureConn")) {
		if p.IsTestSupport(s.Fn) || !strings.HasPrefix(eng.PkgPathOf(s.Fn), eng.Mod+"/service") {
			continue
		}
		n++
		call := s.Ins.(*ssa.Call)
		fld := func(v ssa.Value) string {
			if fa, ok := v.(*ssa.FieldAddr); ok {
				if t, f, _, ok := eng.FieldOf(fa); ok && t == "service/metrics.ProxyMetrics" {
					return f
				}
			}
			return "?"
		}
		sent, recv := fld(call.Call.Args[1]), fld(call.Call.Args[2])
		// which connection: a dialed one (result of DialStream) or the client (parameter)
		dialed := p.AnyFrom(call.Call.Args[0], eng.Plain, func(v ssa.Value) bool {
			cc, idx, ok := eng.AsResult(v)
			return ok && idx == 0 && eng.MethodName(&cc.Call) == "DialStream"
		})
		want := [2]string{"ProxyClient", "ClientProxy"}
		who := "client"
		if dialed {
			want = [2]string{"ProxyTarget", "TargetProxy"}
			who = "target"
		}
		c.CheckAt("WIRING", fmt.Sprintf("%s:%s-connection-counters", short(s.Fn), who), call, sent == want[0] && recv == want[1], fmt.Sprintf("the %s connection is measured into sent=%s received=%s, expected sent=%s received=%s", who, sent, recv, want[0], want[1]))
		// both counters belong to the same ProxyMetrics value
		b1, b2 := ssa.Value(nil), ssa.Value(nil)
		if fa, ok := call.Call.Args[1].(*ssa.FieldAddr); ok {
			b1 = baseRoot(fa.X)
		}
		if fa, ok := call.Call.Args[2].(*ssa.FieldAddr); ok {
			b2 = baseRoot(fa.X)
		}
		c.CheckAt("WIRING", fmt.Sprintf("%s:%s-connection-counters-same-struct", short(s.Fn), who), call, b1 != nil && b2 != nil && (b1 == b2 || p.SameValue(b1, b2)), "sent and received counters belong to different ProxyMetrics values")
	}
	c.Floor("WIRING", "MeasureConn call sites in the service", n, 2)
	// the measured client connection is what the handler works on, and the measured target connection is what the relay uses
	oh := outerHandler(c, a)
	if oh != nil {
		for _, s := range p.CallSitesOf(a.top) {
			if s.Fn != oh {
				continue
			}
			call := s.Ins.(*ssa.Call)
			measured := false
			for _, ar := range call.Call.Args {
				if p.AnyFrom(ar, eng.Plain, func(v ssa.Value) bool {
					cc, _, ok := eng.AsResult(v)
					return ok && eng.CalleeName(&cc.Call) == "service/metrics.MeasureConn"
				}) {
					measured = true
				}
			}
			c.CheckAt("WIRING", short(oh)+":handler-works-on-the-measured-connection", call, measured, "the connection handler is given the raw connection, so its traffic is not counted")
		}
	}
}

// C15.STATUS, replay kinds: the two replay statuses name which test caught the connection. "ERR_REPLAY_SERVER" is chosen only
// on paths on which IsServerSalt answered true, "ERR_REPLAY_CLIENT" only on paths on which it answered false (the salt was
// not one of the server's own, so it was the replay cache that refused it).
func ruleReplayKind(c *Ctx, rule string) {
	p := c.P
	isSaltTest := func(v ssa.Value) bool {
		cl, ok := v.(*ssa.Call)
		return ok && eng.MethodName(&cl.Call) == "IsServerSalt"
	}
	isV := func(v ssa.Value) bool {
		o := eng.Deep
		o.Stop = isSaltTest
		os := p.Origins(v, o)
		if len(os) == 0 {
			return false
		}
		for _, o := range os {
			if !isSaltTest(o) {
				return false
			}
		}
		return true
	}
	want := map[string]bool{"ERR_REPLAY_SERVER": true, "ERR_REPLAY_CLIENT": false}
	seen := map[string]int{}
	for _, f := range p.FnsIn("service") {
		if p.IsTestSupport(f) || len(f.Blocks) == 0 {
			continue
		}
		var te, fe eng.EdgeSet
		for _, b := range f.Blocks {
			for _, ins := range b.Instrs {
				for i, op := range ins.Operands(nil) {
					if *op == nil {
						continue
					}
					s, ok := eng.ConstString(*op)
					if !ok {
						continue
					}
					onTrue, isStatus := want[s]
					if !isStatus {
						continue
					}
					if te == nil {
						te, fe = eng.BoolEdges(f, isV)
					}
					need := fe
					if onTrue {
						need = te
					}
					behind := false
					if ph, isPhi := ins.(*ssa.Phi); isPhi {
						pred := b.Preds[i]
						behind = need[eng.Edge{From: pred, To: b}] || eng.Cut(f, pred, need)
						_ = ph
					} else {
						behind = eng.Cut(f, b, need)
					}
					seen[s]++
					which := "false (the salt is not the server's own)"
					if onTrue {
						which = "true"
					}
					c.CheckAt(rule, fmt.Sprintf("replay-kind:%s:%s#%d", s, short(f), seen[s]), ins, len(need) > 0 && behind, "the status \""+s+"\" is chosen on a path on which IsServerSalt is not known to have answered "+which+": the reported replay kind does not name the test that refused the connection")
				}
			}
		}
	}
	c.Floor(rule, "places where ERR_REPLAY_SERVER is chosen", seen["ERR_REPLAY_SERVER"], 1)
	c.Floor(rule, "places where ERR_REPLAY_CLIENT is chosen", seen["ERR_REPLAY_CLIENT"], 1)
}
