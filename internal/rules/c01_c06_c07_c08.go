package rules

import (
	"fmt"
	"go/token"
	"go/types"
	"os"
	"strings"

	"golang.org/x/tools/go/ssa"

	"verif/internal/eng"
)

func init() {
	register(&PropDef{ID: "C01", Level: "other", Run: runC01,
		Explanation: "Soundness/completeness skeleton of TCP authentication on every path and for every list shape: (SILENT) no write, close, dial or listen is reachable before the authentication result is known — neither in the handler " +
			"nor anywhere in the authenticator's call region (effect model: every callee is effect-free by list, resolved into the repo, or reported) — and the failure edge drains the connection before anything else; (SEARCH) the trial-decryption loop " +
			"ranges over the whole snapshot and is left only when exhausted or on the success edge of Unpack, and the ciphertext prefix is sized with the salt/tag size of the very key being tried; (KEYBYTES) for every cipher spec of the SDK " +
			"salt+2+tag <= bytesForKeyFinding <= salt+2+2*tag; (COHERENT) the returned id, reader/writer keys, salt generator, replay-history key and usage mark all derive from the one matched entry; (UPDATE) a key-list update replaces " +
			"the list wholesale (snapshots of the old list stay detached); (SNAPSHOT) the per-connection snapshot walks the whole guarded list in every loop and, by case analysis over the branch predicates of those loops, places every key exactly once whatever the last-client-IP state, into slices that reach the result; " +
			"(RACEFREE) every field of the shared components the authentication region touches is immutable, guarded by one lock on all accesses, confined or write-once. (UPDATE, cont.) no method other than Update inserts into or removes from the live list (Move* only); (DEDUP) a configured key is left out of the list only when its (cipher, secret) pair is already in it.",
		NotDecided: "that AEAD trial decryption accepts exactly the right key (SDK + crypto), most-recently-used ordering effects on results, results of concurrent Update vs lookup (C19 covers the race part).",
	})
	register(&PropDef{ID: "C06", Level: "other", Run: runC06,
		Explanation: "Probe resistance as control-flow facts on all paths: (SILENT) nothing is written/closed/dialed before authentication and the failure edge drains first; (DRAIN) each of the three failure points — authentication failure (all statuses, " +
			"including both replay kinds), address-read failure, client-to-target copy error — drains the client connection itself (unbounded io.Copy to io.Discard) before any close; (DEADLINE) the only deadline set before authentication is computed from " +
			"time.Now, the handler's timeout and the context deadline (never client data), no deadline is touched on the failure path, and the deadline is cleared only after authentication; (NORESET) no SetLinger anywhere; (FIXEDREAD) the key finder reads " +
			"exactly bytesForKeyFinding bytes with io.ReadFull before deciding; (GATE) replayed and reflected handshakes take the same failure edge, unconditionally; (SELECT/CONSTRUCT) the reflected-salt test is armed for every cipher with a salt of at least 20 bytes: marking generator selected by the stated threshold, entries built at one site; " +
			"(RACEFREE) the shared state read before authentication (key list, entries, replay history) obeys its lock discipline — a race there panics the handler, whose recover frame closes the connection at once instead of absorbing it.",
		NotDecided: "that the close happens at the deadline within a time bound; FIN vs RST on the wire (kernel).",
	})
	register(&PropDef{ID: "C07", Level: "other", Run: runC07,
		Explanation: "Replay defence structure: (ONECACHE) exactly one replay history is created in the server, its field is never reassigned, and every service of every generation receives a pointer to that very field (not to a copy); (GATE) in the " +
			"authenticator every success return is cut by ReplayCache.Add(matched id, this handshake's salt) == true and no path from a successful key search to success bypasses it; a refused replay goes down the silent failure path (SILENT); " +
			"(ATOMIC) ReplayCache.Add performs lookup, rotation and insert inside one critical section with every field access under the mutex; " +
			"(HISTORY) remembered handshakes leave the history only by rotation: every store to a generation map outside construction either moves another generation there on an edge where len(that generation) was compared directly against the capacity and found full, " +
			"or empties a generation whose content was moved on, or lies on a capacity==0 / nil-cache edge; no delete/clear on a generation; Add consults every generation under the key it inserts, a hit in any of them makes it return false, the key covers id and salt, " +
			"and with the history enabled Add cannot answer without having inserted the handshake (refused replays are refreshed too).",
		NotDecided: "the counting argument itself (that active plus archive hold at least N recent handshakes given these conditions), the 32-bit collision rate.",
	})
	register(&PropDef{ID: "C08", Level: "other", Run: runC08,
		Explanation: "Server-salt marking structure: (SELECT) for the SDK's cipher specs the marking generator is selected exactly when saltSize - markLen >= minEntropy, i.e. saltSize >= 20; (KEYED) the marking generator is keyed by a constructor parameter that every construction site fills with the secret its encryption key was derived from; (CONSTRUCT) cipher entries are built only by MakeCipherEntry and their " +
			"ID/key/generator never change; (INSTALL) every success return of the authenticator has installed the matched entry's generator on the response writer the returned connection writes through; (GATE) success is cut by IsServerSalt == false, the test is " +
			"unconditional (not dependent on the replay cache) and precedes the replay history; (AGREE) GetSalt and IsServerSalt of the marking generator (found by role) go through one shared split helper and one shared tag helper, compare/copy exactly the first markLen bytes of the tag against the mark part, compute tags on per-call hash state, and salt randomness comes from crypto/rand.",
		NotDecided: "pairwise salt uniqueness, HMAC unforgeability.",
	})
}

func runC01(c *Ctx) {
	a := findTCP(c, "ANCHOR")
	if a != nil {
		ruleSilent(c, a)
		ruleCoherent(c, a)
	}
	ruleSaltSlice(c, "COHERENT")
	ruleSearch(c, "SEARCH", 2)
	ruleSearchReturnsTried(c, "SEARCH")
	ruleKeyBytes(c)
	ruleUpdate(c)
	ruleSnapshot(c)
	if a != nil {
		rulePreAuthRaceFree(c, a) // "all concurrent lookups and key-list replacements": the lookups see a consistent list
	}
	// completeness starts at the configuration: a configured (cipher, secret) is in the list unless it is a true duplicate
	if ra := findReload(c, "DEDUP"); ra != nil {
		// "for every key list": each listener authenticates against the key list its configuration entry gives it — a list
		// object shared between ports holds the keys of whichever port was configured last
		ruleBind(c, ra)
		ruleDedup(c, ra)
	}
}

// C01.UPDATE: every implementation of CipherList.Update stores its parameter into the list field and does not mutate the old list in place.
func ruleUpdate(c *Ctx) {
	p := c.P
	n := 0
	for _, f := range p.FnsIn("service") {
		if f.Name() != "Update" || f.Signature.Recv() == nil || f.Parent() != nil || p.IsTestSupport(f) {
			continue
		}
		T := eng.TypeName(f.Signature.Recv().Type())
		n++
		stored := false
		for _, b := range f.Blocks {
			for _, ins := range b.Instrs {
				if st, ok := ins.(*ssa.Store); ok {
					if fa, ok := st.Addr.(*ssa.FieldAddr); ok {
						if t, _, _, ok := eng.FieldOf(fa); ok && t == T {
							if g, _ := p.AllFrom(st.Val, eng.Plain, func(v ssa.Value) bool { return eng.IsParam(v, f, 1) }); g {
								stored = true
							}
						}
					}
				}
				if call, ok := ins.(*ssa.Call); ok {
					if cf := call.Call.StaticCallee(); cf != nil && cf.Pkg != nil && cf.Pkg.Pkg.Path() == "container/list" && len(call.Call.Args) > 0 {
						if p.AnyFrom(call.Call.Args[0], eng.Plain, func(v ssa.Value) bool { t, _, _, ok := eng.FieldLoad(v); return ok && t == T }) {
							switch cf.Name() {
							case "Init", "PushBack", "PushFront", "PushBackList", "PushFrontList", "Remove", "MoveToFront", "MoveToBack", "InsertBefore", "InsertAfter":
								c.CheckAt("UPDATE", short(f)+":no-in-place-mutation", call, false, "Update mutates the live list in place ("+cf.Name()+"): elements held by in-flight snapshots stay attached to the live list, so a later MarkUsedByClientIP splices revoked keys back in or corrupts the list")
							}
						}
					}
				}
			}
		}
		c.Check("UPDATE", short(f)+":replaces-list-wholesale", p.Pos(f.Pos()), stored, "Update does not store the new list into the list field (wholesale replacement)")
		// membership of the live list changes only by Update's wholesale replacement: every other method of the list type may
		// reorder it (Move*) but never insert into or remove from it. (Elements handed out in snapshots can belong to a list
		// that has been replaced since; Move* and Remove ignore foreign elements, an insertion does not — a revoked key's entry
		// pushed into the new list authenticates again.)
		nOps := 0
		for _, g := range p.FnsIn("service") {
			if g == f || p.IsTestSupport(g) || eng.Root(g) == f {
				continue
			}
			// methods of the list type and the plain functions they hand the guarded list to (the list then arrives as a parameter)
			for _, cl := range eng.Calls(g) {
				call, ok := cl.(*ssa.Call)
				if !ok {
					continue
				}
				cf := call.Call.StaticCallee()
				if cf == nil || cf.Pkg == nil || cf.Pkg.Pkg.Path() != "container/list" || len(call.Call.Args) == 0 {
					continue
				}
				if !p.AnyFrom(call.Call.Args[0], eng.Deep, func(v ssa.Value) bool { t, _, _, ok := eng.FieldLoad(v); return ok && t == T }) {
					continue
				}
				nOps++
				switch cf.Name() {
				case "Init", "PushBack", "PushFront", "PushBackList", "PushFrontList", "Remove", "InsertBefore", "InsertAfter":
					c.CheckAt("UPDATE", short(g)+":membership-changed-only-by-Update", call, false, "a method other than Update changes the membership of the live key list ("+cf.Name()+"): an element of a list that was replaced in the meantime (held by an in-flight snapshot) is spliced into the new list, so a removed key authenticates again")
				}
			}
		}
		c.Floor("UPDATE", "list operations in the other methods of "+T, nOps, 2)
	}
	c.Floor("UPDATE", "CipherList.Update implementations", n, 1)
}

// ---- C06 ----

func runC06(c *Ctx) {
	a := findTCP(c, "ANCHOR")
	if a == nil {
		return
	}
	ruleSilent(c, a)
	ruleDrain(c, a)
	ruleDeadline(c, a)
	ruleNoReset(c)
	ruleKeyBytes(c) // FIXEDREAD part
	ruleGates(c, a, "GATE7")
	ruleGates(c, a, "GATE8")
	rulePreAuthRaceFree(c, a)
	// "replays" are absorbed wherever and whenever they are presented: one history for the process, kept across reloads
	ruleOneCache(c)
	// "at the same deadline whatever ...": the handler does not end a drain when its context is cancelled (listener closed on reload)
	ruleSurvive(c)
	// every accepted connection is handled by its own goroutine: a probe whose handler was given a later connection is never
	// read, never timed out and never closed
	ruleLoopVar(c, "OWNCONN", "service")
	// concurrent copies of one handshake: the history lookup and insert are one critical section, so exactly one is served
	// and the others are absorbed
	ruleAtomic(c, "ATOMIC", map[string]bool{"(*service.ReplayCache).Add": true})
	// "replays" include the server's own output reflected back: the reflected-salt gate (GATE8) refuses it only for keys whose
	// entry carries the marking generator, so the selection threshold and the single construction site are obligations here too
	// (seed C06-u2: a raised entropy constant silently drops the 24-byte-salt ciphers out of the defence)
	ruleSelect(c)
	ruleConstruct(c)
	ruleSaltKeyed(c)
	// a panic before or at the authentication verdict is caught by the serve loop's recover frame, whose deferred Close ends the
	// probe's connection at once instead of absorbing it: no call through a field that is never given a value
	ruleNeverSetField(c, "NOPANIC")
}

// C06.RACEFREE: the shared components the authentication code touches (key list, key entries, replay history) obey their lock
// discipline. A race there corrupts the snapshot a probe is searched against (a nil slot, a torn list); the resulting panic is
// caught by the per-connection recover frame, whose deferred Close ends the connection at once — an immediate, content-
// dependent close instead of silent absorption until the timeout.
func rulePreAuthRaceFree(c *Ctx, a *tcpAnchors) {
	touched := map[string]bool{}
	for _, au := range a.auths {
		reg := c.NewRegion(au, 4, func(h *ssa.Function) bool { return eng.PkgPathOf(h) != eng.Mod+"/service" })
		reg.Instrs(func(_ *ssa.Function, ins ssa.Instruction) {
			if fa, ok := ins.(*ssa.FieldAddr); ok {
				if t, _, _, ok := eng.FieldOf(fa); ok {
					touched[t] = true
				}
			}
		})
	}
	var ts []string
	for _, T := range allSharedTypes(c) {
		if touched[T] {
			ts = append(ts, T)
		}
	}
	ruleGuardedTypes(c, "RACEFREE", ts, 3, 6)
}

// C06.DRAIN: address-read failure and relay copy error drain before closing.
func ruleDrain(c *Ctx, a *tcpAnchors) {
	p := c.P
	_ = a.handler
	isConn := func(v ssa.Value) bool { return a.sameConn(c, v) }
	drain := drainQ(c, isConn)
	isCloseLike := func(ins ssa.Instruction) bool {
		cl, ok := ins.(*ssa.Call)
		if !ok {
			return false
		}
		switch eng.MethodName(&cl.Call) {
		case "Close", "CloseRead", "CloseWrite", "SetLinger":
			return true
		}
		return false
	}
	// (2) address read: the post-auth call whose callee reaches socks.ReadAddr
	memo := map[*ssa.Function]int{}
	readAddr := isCall("ss2/socks.ReadAddr")
	n := 0
	seenFn := map[*ssa.Function]bool{}
	var visit func(g *ssa.Function, d int)
	visit = func(g *ssa.Function, d int) {
		if seenFn[g] || d > 3 {
			return
		}
		seenFn[g] = true
		for _, cl := range eng.Calls(g) {
			call, ok := cl.(*ssa.Call)
			if !ok {
				continue
			}
			hit := readAddr(call)
			var down []*ssa.Function
			for _, f := range repoCallees(c, call) {
				if reaches(c, f, readAddr, memo) {
					hit = true
					down = append(down, f)
				}
			}
			if !hit {
				continue
			}
			if errorResultIndex(call.Call.Signature()) < 0 {
				// a helper of the handler that reports failures in another form: the address is read further down
				for _, f := range down {
					if eng.PkgPathOf(f) == eng.Mod+"/service" {
						visit(f, d+1)
					}
				}
				continue
			}
			n++
			_, fail := p.SuccessEdges(g, []ssa.CallInstruction{call}, errorResultIndex(call.Call.Signature()))
			if len(fail) == 0 {
				c.CheckAt("DRAIN", short(g)+":address-read-error-tested", call, false, "the error of reading the target address is not tested")
				continue
			}
			for _, e := range sortedEdges(fail) {
				ok1, bad := eng.MustPass(edgePoint(e), drain)
				c.Check("DRAIN", short(g)+":address-read-failure-drains", blockPos(p, e.To), ok1, fmt.Sprintf("after an unparseable address header the handler can return at %s without draining the client connection", p.IPos(bad)))
				ok2, bad2 := eng.MustPassBefore(edgePoint(e), drain, isCloseLike)
				c.Check("DRAIN", short(g)+":address-read-failure-no-close-before-drain", blockPos(p, e.To), ok2, fmt.Sprintf("the connection is closed at %s before the drain", p.IPos(bad2)))
			}
		}
	}
	visit(a.top, 0)
	c.Floor("DRAIN", "address-read calls in the handler", n, 1)
	// (3) client->target copy error: the copy whose source is the authenticated client connection (result 1 of the authenticator),
	// wherever it lives; its failure edge must drain that source before any direction is closed
	m := 0
	for _, f := range p.FnsIn("service") {
		if p.IsTestSupport(f) {
			continue
		}
		for _, cl := range eng.Calls(f) {
			call, ok := cl.(*ssa.Call)
			if !ok || eng.CalleeName(&call.Call) != "io.Copy" || isDiscard(call.Call.Args[0]) {
				continue
			}
			src := call.Call.Args[1]
			if !p.AnyFrom(src, deepF, func(v ssa.Value) bool { return eng.ResultOf(v, a.authCall, 1) }) {
				continue
			}
			m++
			srcO := p.Origins(src, eng.Plain)
			isSrc := func(v ssa.Value) bool {
				for _, o := range p.Origins(v, eng.Plain) {
					for _, s2 := range srcO {
						if o == s2 || baseRoot(o) == baseRoot(s2) {
							return true
						}
					}
				}
				return false
			}
			dq := drainQ(c, isSrc)
			succ, fail := p.SuccessEdges(f, []ssa.CallInstruction{call}, 1)
			if len(fail) == 0 {
				// the test may live in a helper that is handed the error and the connection (drainOnRelayError(err, src)):
				// on its err != nil edge it drains that connection before closing anything, and it is called before any close
				okHelper := false
				var copyErr ssa.Value
				for _, r := range *call.Referrers() {
					if ex, isEx := r.(*ssa.Extract); isEx && ex.Index == 1 {
						copyErr = ex
					}
				}
				for _, cl2 := range eng.Calls(f) {
					hc, isCall := cl2.(*ssa.Call)
					if !isCall || copyErr == nil {
						continue
					}
					h := hc.Call.StaticCallee()
					if h == nil || !p.InRepo(h) || len(h.Blocks) == 0 {
						continue
					}
					ei, si := -1, -1
					for i, ar := range hc.Call.Args {
						if p.AnyFrom(ar, eng.Plain, func(v ssa.Value) bool { return v == copyErr }) {
							ei = i
						}
						if isSrc(ar) {
							si = i
						}
					}
					if ei < 0 || si < 0 || ei >= len(h.Params) || si >= len(h.Params) {
						continue
					}
					_, nonNil := p.NilEdges(h, func(v ssa.Value) bool { return v == ssa.Value(h.Params[ei]) })
					if len(nonNil) == 0 {
						continue
					}
					hq := drainQ(c, func(v ssa.Value) bool {
						return p.AnyFrom(v, eng.Plain, func(x ssa.Value) bool { return x == ssa.Value(h.Params[si]) })
					})
					all := true
					for _, e := range sortedEdges(nonNil) {
						if ok, _ := eng.MustPassBefore(edgePoint(e), hq, isCloseLike); !ok {
							all = false
						}
					}
					if !all {
						continue
					}
					if ok, _ := eng.MustPassBefore(eng.After(call), func(i ssa.Instruction) bool { return i == ssa.Instruction(hc) }, isCloseLike); ok {
						okHelper = true
					}
				}
				c.CheckAt("DRAIN", short(f)+":relay-copy-error-tested", call, okHelper, "the error of the client-to-target copy is not tested, so a stream that turns invalid is closed at once instead of drained")
				continue
			}
			// nothing is closed between the copy and the examination of its error either (a FIN sent to the target there
			// makes the target — and then the proxy — close towards the client while the invalid stream is still arriving)
			tested := eng.Union(succ, fail)
			var early ssa.Instruction
			seenB := map[*ssa.BasicBlock]bool{}
			var scan func(b *ssa.BasicBlock, from int)
			scan = func(b *ssa.BasicBlock, from int) {
				for _, ins := range b.Instrs[from:] {
					if isCloseLike(ins) && early == nil {
						early = ins
					}
				}
				for _, s := range b.Succs {
					if !tested[eng.Edge{From: b, To: s}] && !seenB[s] {
						seenB[s] = true
						scan(s, 0)
					}
				}
			}
			pt := eng.After(call)
			scan(pt.B, pt.Idx)
			c.CheckAt("DRAIN", short(f)+":nothing-closed-before-the-copy-error-is-examined", call, early == nil, fmt.Sprintf("a direction is closed at %s before the error of the client-to-target copy is examined: when the stream has turned invalid the peer sees the close before the drain", func() string {
				if early == nil {
					return "-"
				}
				return p.IPos(early)
			}()))
			for _, e := range sortedEdges(fail) {
				ok1, bad := eng.MustPassBefore(edgePoint(e), dq, isCloseLike)
				c.Check("DRAIN", short(f)+":relay-copy-error-drains-before-close", blockPos(p, e.To), ok1, fmt.Sprintf("after a client-to-target copy error (e.g. a chunk that fails authentication) %s closes a direction before the client connection has been drained", p.IPos(bad)))
			}
		}
	}
	c.Floor("DRAIN", "client-to-target relay copies", m, 1)
}

// C06.DEADLINE
func ruleDeadline(c *Ctx, a *tcpAnchors) {
	p := c.P
	h := a.handler
	both := eng.Union(a.succ, a.fail)
	pre := eng.ReachBlocks(h.Blocks[0], both)
	isAuth := map[*ssa.Function]bool{}
	for _, f := range a.auths {
		isAuth[f] = true
	}
	reg := c.NewRegion(a.top, 4, func(f *ssa.Function) bool { return eng.PkgPathOf(f) != eng.Mod+"/service" || isAuth[f] })
	gAuth := c.CallGuard(func(call *ssa.Call) (int, bool) { return 2, call == a.authCall })
	// isPre: the instruction runs before the authentication result is known (in the handler's pre-auth blocks, or in a helper
	// all of whose call chains start there)
	var isPre func(ins ssa.Instruction, d int) bool
	isPre = func(ins ssa.Instruction, d int) bool {
		f := ins.Parent()
		if inChain, isP := a.isPreChain(ins); inChain {
			return isP
		}
		if f == h {
			return pre[ins.Block()]
		}
		sites := reg.sitesOf[f]
		if len(sites) == 0 || d > 4 {
			return false
		}
		for _, s := range sites {
			if !isPre(s, d+1) {
				return false
			}
		}
		return true
	}
	n := 0
	// the authenticators themselves (and what they call in the package) run before the result is known
	inAuth := map[ssa.Instruction]bool{}
	calls := reg.Calls()
	for _, af := range a.auths {
		for _, f := range regionFns(c, af, nil, 3) {
			for _, cl := range eng.Calls(f) {
				if !inAuth[cl] {
					inAuth[cl] = true
					calls = append(calls, cl)
				}
			}
		}
	}
	for _, cl := range calls {
		call, ok := cl.(*ssa.Call)
		if !ok {
			continue
		}
		m := eng.MethodName(&call.Call)
		if m != "SetReadDeadline" && m != "SetDeadline" && m != "SetWriteDeadline" {
			continue
		}
		arg := eng.Arg(&call.Call, 0)
		zero := eng.IsZeroValue(p.Resolve(arg)) || isZeroStructLoad(p, arg)
		if inAuth[cl] || isPre(call, 0) {
			n++
			ok2, bad := p.AllFrom(arg, eng.OriginOpts{ThroughConvert: true, Interproc: true, ThroughCalls: func(cc *ssa.Call) []ssa.Value {
				switch eng.CalleeName(&cc.Call) {
				case "(time.Time).Add":
					return cc.Call.Args
				}
				return nil
			}}, func(v ssa.Value) bool {
				if cc, _, ok := eng.AsResult(v); ok {
					nm := eng.CalleeName(&cc.Call)
					return nm == "time.Now" || nm == "(context.Context).Deadline"
				}
				if t, _, _, ok := eng.FieldLoad(v); ok {
					return t == streamHandlerT(c)
				}
				_, isC := v.(*ssa.Const)
				return isC
			})
			c.CheckAt("DEADLINE", short(call.Parent())+":pre-auth-deadline-independent-of-client:"+m, call, ok2 && !zero, "the handshake deadline depends on something other than time.Now(), the handler's timeout and the context deadline (or is cleared before authentication): "+valsStr(p, bad))
			continue
		}
		if zero {
			c.CheckAt("DEADLINE", short(call.Parent())+":deadline-cleared-only-after-auth", call, reg.CutDeep(call, gAuth), "the read deadline is cleared on a path that has not authenticated: an unauthenticated connection is kept open past the timeout")
		}
	}
	c.Floor("DEADLINE", "deadline calls before authentication", n, 1)
	// no deadline call on the failure path (handler side and drain helpers)
	isSetDeadline := func(ins ssa.Instruction) bool {
		cl, ok := ins.(*ssa.Call)
		if !ok {
			return false
		}
		m := eng.MethodName(&cl.Call)
		return strings.HasPrefix(m, "Set") && strings.HasSuffix(m, "Deadline")
	}
	may := liftMay(c, isSetDeadline)
	for _, e := range sortedEdges(a.fail) {
		bad := eng.ReachableInstrs(edgePoint(e), may, nil)
		c.Check("DEADLINE", short(h)+":no-deadline-change-on-failure-path", blockPos(p, e.To), len(bad) == 0, "the failure path changes a deadline: the time at which a probe is closed would depend on its content")
	}
}

func isZeroStructLoad(p *eng.Prog, v ssa.Value) bool {
	// time.Time{} as a load from a fresh zeroed local
	u, ok := v.(*ssa.UnOp)
	if !ok || u.Op != token.MUL {
		return false
	}
	// ... or from a package-level variable that is only ever read (`var noDeadline time.Time`)
	if g, isG := u.X.(*ssa.Global); isG {
		return readOnlyGlobal(p, g)
	}
	a, ok := u.X.(*ssa.Alloc)
	if !ok {
		return false
	}
	for _, r := range *a.Referrers() {
		if _, isStore := r.(*ssa.Store); isStore {
			return false
		}
		if _, isFA := r.(*ssa.FieldAddr); isFA {
			return false
		}
	}
	return true
}

// readOnlyGlobal: the only uses of g in the whole program are loads: it keeps its zero value.
func readOnlyGlobal(p *eng.Prog, g *ssa.Global) bool {
	for f := range p.All {
		if f.Pkg != g.Pkg {
			continue
		}
		for _, b := range f.Blocks {
			for _, ins := range b.Instrs {
				for _, op := range ins.Operands(nil) {
					if *op != ssa.Value(g) {
						continue
					}
					if u, ok := ins.(*ssa.UnOp); ok && u.Op == token.MUL {
						continue
					}
					return false
				}
			}
		}
	}
	return !token.IsExported(g.Name())
}

// splitParts: the two complementary slices x[:e] and x[e:] of one byte slice, e = len(x) - K, cut in h.
func splitParts(p *eng.Prog, h *ssa.Function) (lo, hi *ssa.Slice) {
	if h == nil {
		return nil, nil
	}
	isCut := func(e ssa.Value, x ssa.Value) bool {
		bo, ok := p.Resolve(e).(*ssa.BinOp)
		if !ok || bo.Op != token.SUB {
			return false
		}
		if _, isK := eng.ConstInt(bo.Y); !isK {
			return false
		}
		call, ok := bo.X.(*ssa.Call)
		if !ok {
			return false
		}
		bi, ok := call.Call.Value.(*ssa.Builtin)
		return ok && bi.Name() == "len" && p.Resolve(call.Call.Args[0]) == p.Resolve(x)
	}
	for _, b := range h.Blocks {
		for _, ins := range b.Instrs {
			sl, ok := ins.(*ssa.Slice)
			if !ok {
				continue
			}
			switch {
			case sl.Low == nil && sl.High != nil && isCut(sl.High, sl.X):
				lo = sl
			case sl.Low != nil && sl.High == nil && isCut(sl.Low, sl.X):
				hi = sl
			}
		}
	}
	if lo != nil && hi != nil && p.Resolve(lo.X) == p.Resolve(hi.X) && p.Resolve(lo.High) == p.Resolve(hi.Low) {
		return lo, hi
	}
	return nil, nil
}

// C06.NORESET
func ruleNoReset(c *Ctx) {
	n, ctl := 0, 0
	for _, f := range c.P.Fns {
		for _, cl := range eng.Calls(f) {
			switch eng.MethodName(cl.Common()) {
			case "SetLinger":
				n++
				c.CheckAt("NORESET", short(f)+":SetLinger", cl, false, "SetLinger changes how the connection is closed (RST instead of FIN): a probe can distinguish it")
			case "SetReadDeadline":
				ctl++
			}
		}
	}
	c.Floor("NORESET", "method calls matched by the same matcher (positive control: SetReadDeadline)", ctl, 3)
	if n == 0 {
		c.Check("NORESET", "no-SetLinger", "-", true, "no SetLinger call in the module||")
	}
}

// ---- C07 ----

func runC07(c *Ctx) {
	a := findTCP(c, "ANCHOR")
	if a != nil {
		ruleSilent(c, a)
		ruleGates(c, a, "GATE7")
	}
	if a != nil {
		ruleDeadline(c, a) // "treated exactly like an invalid probe": a refused replay is closed at the same deadline
	}
	ruleOneCache(c)
	ruleSaltSlice(c, "GATE")
	ruleAtomic(c, "ATOMIC", map[string]bool{"(*service.ReplayCache).Add": true})
	ruleHistory(c)
	if f := c.P.Fn("(*service.ReplayCache).Add"); f == nil {
		c.Undecided("ATOMIC", "anchor:ReplayCache.Add", "-", "ReplayCache has no Add method")
	}
}

// C07.ONECACHE
func ruleOneCache(c *Ctx) {
	p := c.P
	var sites []eng.Site
	for _, s := range p.CallSites(eng.Named("service.NewReplayCache")) {
		if strings.HasPrefix(eng.PkgPathOf(s.Fn), eng.Mod+"/cmd/") {
			sites = append(sites, s)
		}
	}
	for _, s := range sites {
		arg := eng.Arg(s.Ins.(ssa.CallInstruction).Common(), 0)
		plain := true
		var walk func(v ssa.Value, d int)
		walk = func(v ssa.Value, d int) {
			if d > 12 {
				return
			}
			switch x := p.Resolve(v).(type) {
			case *ssa.BinOp:
				plain = false
			case *ssa.Convert:
				walk(x.X, d+1)
			case *ssa.Phi:
				for _, e := range x.Edges {
					walk(e, d+1)
				}
			}
		}
		walk(arg, 0)
		c.CheckAt("ONECACHE", "history-size-is-the-configured-size", s.Ins, plain, "the replay history is created with a size computed from the configured one (the cache only promises the most recent `capacity` handshakes, its archive is discarded at every rotation): fewer handshakes than configured are remembered")
	}
	c.Check("ONECACHE", "one-replay-history-per-process", "-", len(sites) == 1, fmt.Sprintf("%d NewReplayCache call sites in the server command (must be exactly 1: a second history would let a handshake be replayed on another listener, service or config generation)", len(sites)))
	// the field holding it
	field := ""
	for _, fl := range p.StructFields(mainM(c).serverT) {
		if eng.TypeName(fl.Type()) == "service.ReplayCache" {
			field = fl.Name()
		}
	}
	if field == "" {
		c.Check("ONECACHE", "history-lives-in-the-server-object", "-", false, "the long-lived server object holds no replay history: a history created anywhere else (per configuration, per service) does not survive a reload and is not shared by all listeners")
		return
	}
	for _, st := range p.FieldStores(mainM(c).serverT, field) {
		if st.Val == nil {
			continue // address taken (expected: &s.replayCache)
		}
		c.CheckAt("ONECACHE", "server-field-store:"+short(st.Fn), st.Ins, st.Fresh, "the server's replay history is replaced on an existing server (history lost across reloads)")
	}
	// inside the service: the history the authenticator consults is the one the service was given — it is not swapped for
	// "none" (or for a private one) on some condition evaluated when the service is built
	na := 0
	for _, s := range p.CallSites(eng.Named("(*service.ReplayCache).Add")) {
		if eng.PkgPathOf(s.Fn) != eng.Mod+"/service" || p.IsTestSupport(s.Fn) {
			continue
		}
		na++
		recv := eng.Receiver(s.Ins.(ssa.CallInstruction).Common())
		var bad []ssa.Value
		for _, o := range p.Origins(recv, eng.OriginOpts{ThroughConvert: true, Interproc: true}) {
			switch x := o.(type) {
			case *ssa.Const, *ssa.Alloc:
				bad = append(bad, x)
			case *ssa.Call:
				bad = append(bad, x)
			}
		}
		c.CheckAt("ONECACHE", "consulted-history-is-the-configured-one:"+short(s.Fn), s.Ins, len(bad) == 0, "the replay history consulted at authentication can be something other than the history the service was configured with ("+valsStr(p, bad)+"): handshakes checked by this service are then neither looked up in nor added to the shared history")
	}
	c.Floor("ONECACHE", "ReplayCache.Add calls in the service package", na, 1)
	// every NewShadowsocksService call gets WithReplayCache(&server.field)
	n := 0
	for _, s := range p.CallSites(eng.Named("service.NewShadowsocksService")) {
		if !strings.HasPrefix(eng.PkgPathOf(s.Fn), eng.Mod+"/cmd/") {
			continue
		}
		n++
		call := s.Ins.(ssa.CallInstruction).Common()
		// the WithReplayCache call among the options handed to this construction (through literals, append, list helpers)
		var wrc *ssa.Call
		if opts, _ := siteOptions(c, call); len(opts["service.WithReplayCache"]) > 0 {
			l := opts["service.WithReplayCache"]
			wrc = l[len(l)-1]
		}
		if wrc == nil {
			c.CheckAt("ONECACHE", fmt.Sprintf("service#%d:gets-replay-history", n), s.Ins, false, "a service is created without WithReplayCache: handshakes on its listeners are not checked against the history")
			continue
		}
		arg := wrc.Call.Args[0]
		okF := false
		isHist := func(v ssa.Value) bool {
			fa, ok := v.(*ssa.FieldAddr)
			if !ok {
				return false
			}
			t, f, _, ok := eng.FieldOf(fa)
			return ok && t == mainM(c).serverT && f == field
		}
		if isHist(arg) {
			okF = true
		} else {
			// carried in a settings struct filled from the server object: follow the pointer back through parameters and
			// through every store into the struct field it is read from
			okF = true
			seen := map[ssa.Value]bool{}
			work := []ssa.Value{arg}
			n := 0
			for len(work) > 0 && n < 64 {
				v := work[len(work)-1]
				work = work[:len(work)-1]
				if seen[v] {
					continue
				}
				seen[v] = true
				n++
				oo := eng.Deep
				oo.Stop = func(x ssa.Value) bool {
					if isHist(x) {
						return true
					}
					_, _, _, isFL := eng.FieldLoad(x)
					return isFL
				}
				for _, o := range p.Origins(v, oo) {
					if isHist(o) {
						continue
					}
					if t, f, _, isFL := eng.FieldLoad(o); isFL && strings.HasPrefix(t, mainPkg+".") {
						sts := p.FieldStores(t, f)
						if len(sts) == 0 {
							okF = false
						}
						for _, st := range sts {
							if st.Val == nil {
								okF = false
								continue
							}
							work = append(work, st.Val)
						}
						continue
					}
					okF = false
				}
			}
		}
		c.CheckAt("ONECACHE", fmt.Sprintf("service#%d:shares-the-server-history", n), wrc, okF, "the service receives a pointer to something other than the server's own replay-history field (e.g. a per-generation copy): handshakes recorded by one generation are forgotten by the next")
	}
	c.Floor("ONECACHE", "service constructions in the server command", n, 1)
}

// ---- C08 ----

func runC08(c *Ctx) {
	a := findTCP(c, "ANCHOR")
	if a != nil {
		ruleSilent(c, a)
		ruleGates(c, a, "GATE8")
		ruleGates(c, a, "INSTALL")
	}
	ruleSaltSlice(c, "GATE")
	if a != nil {
		ruleDeadline(c, a) // "handled like an invalid probe": a refused reflected replay is closed at the same deadline
	}
	ruleSelect(c)
	ruleConstruct(c)
	ruleSaltKeyed(c)
	ruleAgree(c)
	ruleGeneratorFixed(c, "AGREE")
}

// C08.SELECT
func ruleSelect(c *Ctx) {
	p := c.P
	specs := sdkCipherSpecs(c)
	c.Floor("SELECT", "cipher specs in the SDK", len(specs), 4)
	mk := p.Fn("service.MakeCipherEntry")
	if mk == nil {
		c.Undecided("SELECT", "anchor:MakeCipherEntry", "-", "MakeCipherEntry not found")
		return
	}
	// The decision table, by constant propagation: with the key's SaltSize() fixed to s, which of the two generator
	// events — the creation of a marking generator, the load of the plain random generator — can MakeCipherEntry reach?
	// Exactly the marking one for s >= 20 and exactly the plain one below, for every s a cipher could have (1..64) and in
	// particular for the SDK's specs. Independent of how the selection is written (a comparison, an enum, a switch …).
	reg := c.NewRegion(mk, 3, func(h *ssa.Function) bool { return eng.PkgPathOf(h) != eng.Mod+"/service" })
	type event struct {
		at     ssa.Instruction
		marked bool
	}
	var events []event
	for _, f := range reg.Fns {
		for _, b := range f.Blocks {
			for _, ins := range b.Instrs {
				switch x := ins.(type) {
				case *ssa.Call:
					if eng.CalleeName(&x.Call) == "service.NewServerSaltGenerator" {
						events = append(events, event{x, true})
					}
				case *ssa.UnOp:
					if g, ok := x.X.(*ssa.Global); ok && x.Op == token.MUL && g.Name() == "RandomServerSaltGenerator" {
						events = append(events, event{x, false})
					}
				}
			}
		}
	}
	nM, nR := 0, 0
	for _, e := range events {
		if e.marked {
			nM++
		} else {
			nR++
		}
	}
	if nM == 0 || nR == 0 {
		c.Check("SELECT", short(mk)+":selects-on-salt-size", p.Pos(mk.Pos()), false, "MakeCipherEntry does not choose between the marking generator and the plain random generator")
		return
	}
	// what the entry's generator field receives derives only from those two
	for _, st := range p.FieldStores("service.CipherEntry", "SaltGenerator") {
		if st.Fn != mk || st.Val == nil {
			continue
		}
		oo := deepF
		oo.Stop = func(v ssa.Value) bool {
			cc, _, ok := eng.AsResult(v)
			return ok && eng.CalleeName(&cc.Call) == "service.NewServerSaltGenerator"
		}
		okO, bad := p.AllFrom(st.Val, oo, func(o ssa.Value) bool {
			for _, e := range events {
				if v, isV := e.at.(ssa.Value); isV && v == o {
					return true
				}
			}
			return false
		})
		c.CheckAt("SELECT", short(mk)+":generator-is-one-of-the-two", st.Ins, okO, "the entry's salt generator can be something other than the marking generator or the plain random generator: "+valsStr(p, bad))
	}
	decide := func(s int64) (marked, plain bool) {
		ev := &constEval{p: p}
		ev.ext = func(call *ssa.Call) (cval, bool) {
			if eng.CalleeName(&call.Call) == "(*sdk/shadowsocks.EncryptionKey).SaltSize" {
				return cval{known: true, k: s}, true
			}
			return cval{}, false
		}
		reached := map[*ssa.BasicBlock]bool{}
		var run func(f *ssa.Function, env map[ssa.Value]cval, d int)
		run = func(f *ssa.Function, env map[ssa.Value]cval, d int) {
			r, _ := ev.walk(f, env)
			for b := range r {
				reached[b] = true
				if d >= 3 {
					continue
				}
				// helpers that hold an event (a chooseGenerator(saltSize, secret) function): follow them with the
				// constant arguments known at the call
				for _, ins := range b.Instrs {
					call, ok := ins.(*ssa.Call)
					if !ok {
						continue
					}
					h := call.Call.StaticCallee()
					if h == nil || !reg.In[h] || h == f {
						continue
					}
					henv := map[ssa.Value]cval{}
					for i, pa := range h.Params {
						if i < len(call.Call.Args) {
							if cv := ev.value(call.Call.Args[i], env, 0); cv.known {
								henv[pa] = cv
							}
						}
					}
					run(h, henv, d+1)
				}
			}
		}
		run(mk, map[ssa.Value]cval{}, 0)
		for _, e := range events {
			if reached[e.at.Block()] {
				if e.marked {
					marked = true
				} else {
					plain = true
				}
			}
		}
		return
	}
	thr := int64(-1)
	okTable, why := true, ""
	for s := int64(1); s <= 64; s++ {
		mkd, pln := decide(s)
		if mkd && thr < 0 {
			thr = s
		}
		want := s >= 20
		if mkd == pln {
			okTable, why = false, fmt.Sprintf("for a salt of %d bytes the choice is not decided by the salt size (marking reachable: %v, plain reachable: %v)", s, mkd, pln)
			break
		}
		if mkd != want {
			okTable, why = false, fmt.Sprintf("a salt of %d bytes gets marked=%v", s, mkd)
			break
		}
	}
	c.Check("SELECT", short(mk)+":marked-iff-salt-at-least-20", p.Pos(mk.Pos()), okTable, "the marking generator is not selected exactly for salt sizes >= 20: "+why)
	c.Check("SELECT", short(mk)+":threshold-is-20", p.Pos(mk.Pos()), thr == 20, fmt.Sprintf("the marking generator is selected for salt sizes >= %d, not >= 20", thr))
	for _, s := range specs {
		mkd, pln := decide(s.SaltSize)
		c.Check("SELECT", "spec:"+s.Name, s.Pos, mkd != pln && mkd == (s.SaltSize >= 20), fmt.Sprintf("salt=%d: marked=%v||the cipher spec %s (salt %d) gets marked=%v (plain=%v) but the property requires marking exactly for salts of at least 20 bytes", s.SaltSize, mkd, s.Name, s.SaltSize, mkd, pln))
	}
	// the marking generator is keyed by this entry's secret
	for _, call := range reg.FindCalls(func(n string, _ *ssa.Call) bool { return n == "service.NewServerSaltGenerator" }) {
		okS, _ := p.AllFrom(call.Call.Args[0], deepF, func(v ssa.Value) bool {
			pa, isP := v.(*ssa.Parameter)
			return isP && pa.Parent() == mk && pa.Type().String() == "string"
		})
		c.CheckAt("SELECT", short(mk)+":generator-keyed-by-secret", call, okS, "the marking generator is not keyed by the entry's secret parameter")
	}
}

// C08.CONSTRUCT
func ruleConstruct(c *Ctx) {
	p := c.P
	n := 0
	for _, a := range p.Allocs("service.CipherEntry") {
		if p.IsTestSupport(a.Fn) {
			continue
		}
		n++
		okA := short(a.Fn) == "service.MakeCipherEntry"
		if !okA {
			// a local that only ever receives whole values returned by MakeCipherEntry is a copy, not a construction
			okA = true
			for _, r := range *a.Ins.(*ssa.Alloc).Referrers() {
				if st, ok := r.(*ssa.Store); ok && st.Addr == ssa.Value(a.Ins.(*ssa.Alloc)) {
					g, _ := p.AllFrom(st.Val, eng.Plain, func(v ssa.Value) bool {
						cc, _, ok := eng.AsResult(v)
						return ok && eng.CalleeName(&cc.Call) == "service.MakeCipherEntry"
					})
					if !g {
						okA = false
					}
				}
			}
			hasWhole := false
			for _, r := range *a.Ins.(*ssa.Alloc).Referrers() {
				if st, ok := r.(*ssa.Store); ok && st.Addr == ssa.Value(a.Ins.(*ssa.Alloc)) {
					hasWhole = true
				}
			}
			okA = okA && hasWhole
		}
		c.CheckAt("CONSTRUCT", "alloc:"+short(a.Fn), a.Ins, okA, "a CipherEntry is built outside MakeCipherEntry (composite literal or zero value filled in by hand): its salt generator choice bypasses the marking rule")
	}
	c.Floor("CONSTRUCT", "CipherEntry construction sites", n, 1)
	for _, fld := range []string{"ID", "CryptoKey", "SaltGenerator"} {
		for _, st := range p.FieldStores("service.CipherEntry", fld) {
			if p.IsTestSupport(st.Fn) {
				continue
			}
			c.CheckAt("CONSTRUCT", "store:"+fld+":"+short(st.Fn), st.Ins, st.Fresh && short(st.Fn) == "service.MakeCipherEntry", "CipherEntry."+fld+" is written after construction")
		}
	}
}

// C08.AGREE
func ruleAgree(c *Ctx) {
	p := c.P
	var mark int64 = -1
	inSvc := func(h *ssa.Function) bool { return eng.PkgPathOf(h) != eng.Mod+"/service" }
	isCompare := func(n string) bool {
		return n == "bytes.Equal" || n == "crypto/hmac.Equal" || n == "crypto/subtle.ConstantTimeCompare"
	}
	// the marking generator, by role: the IsServerSalt implementation that compares bytes (the random generator's returns false)
	var get, is *ssa.Function
	var greg, ireg *Region
	for _, f := range p.FnsIn("service") {
		if f.Name() != "IsServerSalt" || f.Parent() != nil || f.Synthetic != "" || f.Signature.Recv() == nil {
			continue
		}
		r := c.NewRegion(f, 3, inSvc)
		if len(r.FindCalls(func(n string, _ *ssa.Call) bool { return isCompare(n) })) == 0 {
			continue
		}
		is, ireg = f, r
		get = fnByMethod(c, "service", eng.TypeName(f.Signature.Recv().Type()), "GetSalt")
	}
	if get == nil || is == nil {
		c.Undecided("AGREE", "anchor:marking-generator", "-", "no salt generator whose IsServerSalt compares bytes and that also has GetSalt")
		return
	}
	greg = c.NewRegion(get, 3, inSvc)
	// shared helpers, by role: the function that creates the MAC state (tag helper) and the one that returns two byte slices (split helper)
	var tagFn, splitFn *ssa.Function
	for _, h := range greg.Fns {
		if !ireg.In[h] || h == get || h == is {
			continue
		}
		if bodyHas(h, isCall("crypto/hmac.New")) {
			tagFn = h
		}
		// the split helper cuts a byte slice in two complementary parts at len(x) - K: x[:e] and x[e:]
		if lo, hi := splitParts(p, h); lo != nil && hi != nil {
			splitFn = h
		}
	}
	// ... or an index helper: handed len(salt), it returns where the mark starts (saltLen - K); the callers cut salt[:e] / salt[e:]
	indexMode := false
	if splitFn == nil {
		for _, h := range greg.Fns {
			if !ireg.In[h] || h == get || h == is || h == tagFn || h.Signature.Results().Len() == 0 || h.Signature.Results().At(0).Type().String() != "int" {
				continue
			}
			okIdx := false
			for _, r := range eng.Returns(h) {
				if bo, isB := p.Resolve(r.Results[0]).(*ssa.BinOp); isB && bo.Op == token.SUB {
					if pa, isP := bo.X.(*ssa.Parameter); isP && pa.Parent() == h {
						if k, isK := eng.ConstInt(bo.Y); isK && k > 0 {
							okIdx = true
						}
					}
				}
			}
			if okIdx {
				splitFn, indexMode = h, true
			}
		}
	}
	isCutIndex := func(v ssa.Value) bool {
		cc, idx, ok := eng.AsResult(p.Resolve(v))
		return ok && idx == 0 && callTo(c, cc, splitFn)
	}
	for _, f := range []*ssa.Function{get, is} {
		c.Check("AGREE", short(f)+":uses-shared-split-and-tag", p.Pos(f.Pos()), tagFn != nil && splitFn != nil, "GetSalt and IsServerSalt do not both go through one shared split helper and one shared tag helper: issued and recognised marks can disagree")
	}
	if tagFn == nil || splitFn == nil {
		return
	}
	if k, ok := saltMarkLen(c, splitFn); ok {
		mark = k
	}
	c.Check("AGREE", short(splitFn)+":mark-length-is-a-positive-constant", p.Pos(splitFn.Pos()), mark > 0, "the split helper does not split at len(salt) minus a constant mark length")
	// the two parts are recognised by shape — the slices cut in the split helper — however the helper hands them back
	// (two results, or the fields of a small struct)
	loPart, hiPart := splitParts(p, splitFn)
	isSplit := func(idx int) func(ssa.Value) bool {
		return func(v ssa.Value) bool {
			if indexMode {
				// salt[:e] (idx 0) / salt[e:] (idx 1) with e the index helper's answer and salt a parameter
				okAll, _ := p.AllFrom(v, eng.OriginOpts{ThroughConvert: true}, func(o ssa.Value) bool {
					sl, isS := o.(*ssa.Slice)
					if !isS {
						return false
					}
					if _, isP := p.Resolve(sl.X).(*ssa.Parameter); !isP {
						return false
					}
					if idx == 0 {
						return sl.Low == nil && sl.High != nil && isCutIndex(sl.High)
					}
					return sl.High == nil && sl.Low != nil && isCutIndex(sl.Low)
				})
				return okAll
			}
			if os.Getenv("VERIF_DEBUG") != "" {
				fmt.Fprintf(os.Stderr, "isSplit(%d) %s: lo=%v hi=%v origins=%s\n", idx, valStr(p, v), loPart, hiPart, valsStr(p, fsOrigins(c, v)))
			}
			return fsAll(c, v, func(o ssa.Value) bool {
				if idx == 0 {
					return o == ssa.Value(loPart)
				}
				return o == ssa.Value(hiPart)
			})
		}
	}
	isTag := func(v ssa.Value) bool {
		cc, _, ok := eng.AsResult(v)
		if !ok {
			return false
		}
		return callTo(c, cc, tagFn) || (cc.Call.IsInvoke() && cc.Call.Method.Name() == "Sum")
	}
	thru := eng.OriginOpts{ThroughConvert: true, ThroughSlice: true, Interproc: true}
	for _, pair := range []struct {
		f   *ssa.Function
		reg *Region
	}{{get, greg}, {is, ireg}} {
		f := pair.f
		for _, sc := range pair.reg.FindCalls(func(_ string, call *ssa.Call) bool { return callTo(c, call, splitFn) }) {
			okS, _ := p.AllFrom(sc.Call.Args[len(sc.Call.Args)-1], deepF, func(v ssa.Value) bool { return eng.IsParam(v, f, 1) })
			if indexMode {
				okS = false
				if lc, isC := p.Resolve(sc.Call.Args[len(sc.Call.Args)-1]).(*ssa.Call); isC {
					if bi, isB := lc.Call.Value.(*ssa.Builtin); isB && bi.Name() == "len" {
						okS, _ = p.AllFrom(lc.Call.Args[0], deepF, func(v ssa.Value) bool { return eng.IsParam(v, f, 1) })
					}
				}
			}
			c.CheckAt("AGREE", short(f)+":splits-the-given-salt", sc, okS, "the split helper is not applied to the salt passed in")
		}
		for _, tc := range pair.reg.FindCalls(func(_ string, call *ssa.Call) bool { return callTo(c, call, tagFn) }) {
			okT := isSplit(0)(tc.Call.Args[len(tc.Call.Args)-1])
			c.CheckAt("AGREE", short(f)+":split(salt)-then-tag(prefix)", tc, okT, "the tag is not computed over the prefix that the split helper returned for this salt")
		}
	}
	// the first markLen bytes of the tag, however they are cut out
	markOfTag := func(v ssa.Value) bool {
		ok, _ := p.AllFrom(v, deepF, func(x ssa.Value) bool {
			s, isS := x.(*ssa.Slice)
			if !isS || s.Low != nil || s.High == nil {
				return false
			}
			k, isK := eng.ConstInt(s.High)
			return isK && k == mark && p.AnyFrom(s.X, thru, isTag)
		})
		return ok
	}
	// ... or the tag helper already returns exactly the mark as a [markLen]byte array (filled from the start of the full tag);
	// then the whole array is "the first markLen bytes of the tag"
	tagArrayMark := func(v ssa.Value) bool {
		s, isS := v.(*ssa.Slice)
		if !isS || s.Low != nil || s.High != nil {
			return false
		}
		al, isA := s.X.(*ssa.Alloc)
		if !isA {
			return false
		}
		arr, isArr := al.Type().Underlying().(*types.Pointer).Elem().Underlying().(*types.Array)
		if !isArr || arr.Len() != mark {
			return false
		}
		fromTag := false
		for _, r := range *al.Referrers() {
			if st, ok := r.(*ssa.Store); ok && st.Addr == ssa.Value(al) && isTag(st.Val) {
				fromTag = true
			}
		}
		if !fromTag || tagFn == nil {
			return false
		}
		// inside the tag helper the returned array is filled by copy(arr[:], full[:…]) from the start of the full tag
		for _, cl := range eng.Calls(tagFn) {
			call, ok := cl.(*ssa.Call)
			if !ok {
				continue
			}
			if b, ok := call.Call.Value.(*ssa.Builtin); !ok || b.Name() != "copy" {
				continue
			}
			src, isSl := call.Call.Args[1].(*ssa.Slice)
			if isSl && src.Low == nil {
				return true
			}
		}
		return false
	}
	markOfTag0 := markOfTag
	markOfTag = func(v ssa.Value) bool { return markOfTag0(v) || tagArrayMark(v) }
	// IsServerSalt compares tag[:markLen] with the mark part
	okCmp := false
	for _, call := range ireg.FindCalls(func(n string, _ *ssa.Call) bool { return isCompare(n) }) {
		for i := 0; i < 2; i++ {
			other := isSplit(1)(call.Call.Args[1-i])
			if other && markOfTag(call.Call.Args[i]) {
				okCmp = true
			}
		}
	}
	c.Check("AGREE", short(is)+":compares-markLen-bytes-of-tag-with-mark", p.Pos(is.Pos()), okCmp, "IsServerSalt does not compare the first serverSaltMarkLen bytes of the tag with the mark part returned by the split helper")
	// GetSalt copies the tag into the mark part
	okCopy := false
	for _, cl := range greg.Calls() {
		if call, ok := cl.(*ssa.Call); ok {
			if b, ok := call.Call.Value.(*ssa.Builtin); ok && b.Name() == "copy" {
				d := isSplit(1)(call.Call.Args[0])
				s2 := p.AnyFrom(call.Call.Args[1], thru, isTag)
				s3, _ := p.AllFrom(call.Call.Args[1], thru, isTag)
				if tagArrayMark(call.Call.Args[1]) {
					s2, s3 = true, true
				}
				if d && s2 && s3 {
					okCopy = true
				}
			}
		}
	}
	c.Check("AGREE", short(get)+":writes-tag-into-mark", p.Pos(get.Pos()), okCopy, "GetSalt does not copy the tag into the mark part returned by the split helper")
	// the split helper splits at len(salt) - markLen
	okSp := false
	for _, b := range splitFn.Blocks {
		for _, ins := range b.Instrs {
			if bo, ok := ins.(*ssa.BinOp); ok && bo.Op == token.SUB {
				if k, ok := eng.ConstInt(bo.Y); ok && k == mark {
					if call, ok := bo.X.(*ssa.Call); ok {
						if bi, ok := call.Call.Value.(*ssa.Builtin); ok && bi.Name() == "len" {
							okSp = true
						}
					}
					if pa, ok := bo.X.(*ssa.Parameter); ok && indexMode && pa.Parent() == splitFn {
						okSp = true // handed len(salt) by its callers (checked at the call sites)
					}
				}
			}
		}
	}
	c.Check("AGREE", short(splitFn)+":splits-at-len-minus-markLen", p.Pos(splitFn.Pos()), okSp, "the split helper does not split at len(salt) - serverSaltMarkLen")
	// the tag is computed with hash state created in the same call: one generator is shared, without a lock, by all connections of a key
	{
		tg := tagFn
		nh := 0
		for _, cl := range eng.Calls(tg) {
			call, ok := cl.(*ssa.Call)
			if !ok || !call.Call.IsInvoke() {
				continue
			}
			switch call.Call.Method.Name() {
			case "Write", "Sum", "Reset":
				nh++
				fresh, bad := p.AllFrom(call.Call.Value, eng.Plain, func(v ssa.Value) bool {
					cc, _, ok := eng.AsResult(v)
					return ok && cc.Parent() == tg && (eng.CalleeName(&cc.Call) == "crypto/hmac.New" || strings.HasPrefix(eng.CalleeName(&cc.Call), "crypto/"))
				})
				c.CheckAt("AGREE", short(tg)+":fresh-hash-state:"+call.Call.Method.Name(), call, fresh, "the tag is computed on hash state that outlives the call (e.g. a field of the shared generator): concurrent connections of one key corrupt each other's tags, so issued salts are not recognised ("+valsStr(p, bad)+")")
			}
		}
		c.Floor("AGREE", "hash operations in the tag helper", nh, 2)
	}
	// randomness from crypto/rand in every GetSalt of the package
	n := 0
	for _, f := range p.FnsIn("service") {
		if f.Name() != "GetSalt" || f.Parent() != nil || f.Synthetic != "" {
			continue
		}
		n++
		okR := false
		for _, cl := range c.NewRegion(f, 3, inSvc).Calls() {
			if eng.CalleeName(cl.Common()) == "crypto/rand.Read" {
				// the random bytes are produced for this call: read straight into (a part of) the salt being filled, or into
				// a buffer of this call — not into storage that outlives the call (a pool hands the same bytes out again)
				perCall, bad := p.AllFrom(eng.Arg(cl.Common(), 0), eng.OriginOpts{ThroughSlice: true, ThroughConvert: true, Interproc: true}, func(v ssa.Value) bool {
					switch x := v.(type) {
					case *ssa.Parameter:
						return eng.Root(x.Parent()) == f
					case *ssa.Alloc:
						return true
					case *ssa.MakeSlice:
						return true
					}
					return false
				})
				c.CheckAt("AGREE", short(f)+":random-bytes-drawn-per-call", cl, perCall, "crypto/rand fills storage that outlives the GetSalt call ("+valsStr(p, bad)+"): salts are then cut from a buffer, and a buffer that is re-read without being refilled issues the same salt twice")
				okR = true
			}
			if strings.HasPrefix(eng.CalleeName(cl.Common()), "math/rand") {
				c.CheckAt("AGREE", short(f)+":no-math-rand", cl, false, "salt bytes come from math/rand: salts are predictable and can repeat")
			}
		}
		c.Check("AGREE", short(f)+":randomness-from-crypto/rand", p.Pos(f.Pos()), okR, "GetSalt does not fill the salt from crypto/rand.Read")
		// a failing random source must surface as an error: otherwise the (zeroed) buffer goes out as the salt, the same one
		// on every connection while the source is failing
		for _, cl := range c.NewRegion(f, 3, inSvc).Calls() {
			call, ok := cl.(*ssa.Call)
			if !ok || eng.CalleeName(&call.Call) != "crypto/rand.Read" {
				continue
			}
			g := call.Parent()
			ei := errorResultIndex(g.Signature)
			var errVal ssa.Value
			for _, r := range *call.Referrers() {
				if ex, ok := r.(*ssa.Extract); ok && ex.Index == 1 {
					errVal = ex
				}
			}
			okH, whyH := false, "the error of crypto/rand.Read is discarded"
			if errVal != nil && ei >= 0 {
				okH, whyH = errorHandled(c, g, errVal, ei)
			}
			c.CheckAt("AGREE", short(g)+":random-source-failure-is-reported", call, okH, "a failure of the random source is not reported by GetSalt ("+whyH+"): the response goes out with a predictable, repeated salt")
		}
	}
	c.Floor("AGREE", "GetSalt implementations", n, 2)
}

// C08.KEYED (seed C08-u1): "recognises as its own for that key" — the marking generator of an entry is keyed by the key's
// secret, the same secret its encryption key is derived from. Two cooperating sites: inside the constructor the generator's
// key argument is one of the constructor's parameters; at every construction site that parameter receives the very value the
// encryption key handed to the same call was derived from. A generator keyed by the entry's ID (or anything else) stops
// recognising salts issued for the same key under another ID — after a reload that renames it, or in a second service.
func ruleSaltKeyed(c *Ctx) {
	p := c.P
	mk := p.Fn("service.MakeCipherEntry")
	if mk == nil {
		c.Undecided("KEYED", "anchor:MakeCipherEntry", "-", "MakeCipherEntry not found")
		return
	}
	paramIdx := func(v ssa.Value) int {
		pa, isP := p.Resolve(v).(*ssa.Parameter)
		if !isP {
			return -1
		}
		for i, q := range mk.Params {
			if q == pa {
				return i
			}
		}
		return -1
	}
	kc := -1
	for i, q := range mk.Params {
		if strings.HasSuffix(q.Type().String(), "shadowsocks.EncryptionKey") {
			kc = i
		}
	}
	ks, nGen := -1, 0
	reg := c.NewRegion(mk, 2, func(h *ssa.Function) bool { return eng.PkgPathOf(h) != eng.Mod+"/service" })
	reg.Instrs(func(f *ssa.Function, ins ssa.Instruction) {
		call, ok := ins.(*ssa.Call)
		if !ok || eng.CalleeName(&call.Call) != "service.NewServerSaltGenerator" || len(call.Call.Args) != 1 {
			return
		}
		nGen++
		// the key is a parameter of the constructor — directly, or through the parameters of the helpers between the
		// constructor and this call (saltGeneratorForSaltSize(size, secret)), judged at every call site of each helper
		var toMk func(g *ssa.Function, v ssa.Value, d int) int
		toMk = func(g *ssa.Function, v ssa.Value, d int) int {
			if g == mk {
				return paramIdx(v)
			}
			pa, isP := p.Resolve(v).(*ssa.Parameter)
			if !isP || d > 3 {
				return -1
			}
			j := -1
			for k, q := range g.Params {
				if q == pa {
					j = k
				}
			}
			res := -2
			for _, s := range p.CallSitesOf(g) {
				if p.IsTestSupport(s.Fn) {
					continue
				}
				ci, isC := s.Ins.(ssa.CallInstruction)
				if !isC || ci.Common().IsInvoke() || j < 0 || j >= len(ci.Common().Args) {
					return -1
				}
				r := toMk(s.Fn, ci.Common().Args[j], d+1)
				if r < 0 || (res != -2 && res != r) {
					return -1
				}
				res = r
			}
			if res == -2 {
				return -1
			}
			return res
		}
		i := toMk(f, call.Call.Args[0], 0)
		c.CheckAt("KEYED", short(f)+":generator-key-is-a-constructor-parameter", call, i >= 0, "the marking generator is keyed by a value that is not a parameter of MakeCipherEntry ("+call.Call.Args[0].String()+")")
		if i >= 0 {
			ks = i
		}
	})
	c.Floor("KEYED", "marking-generator constructions in MakeCipherEntry", nGen, 1)
	if ks < 0 || kc < 0 {
		return
	}
	n := 0
	for _, s := range p.CallSitesOf(mk) {
		if p.IsTestSupport(s.Fn) {
			continue
		}
		args := s.Ins.(ssa.CallInstruction).Common().Args
		if ks >= len(args) || kc >= len(args) {
			continue
		}
		kcall, idx, ok := eng.AsResult(p.Resolve(args[kc]))
		if !ok || idx != 0 || !strings.HasSuffix(eng.CalleeName(&kcall.Call), "shadowsocks.NewEncryptionKey") || len(kcall.Call.Args) != 2 || kcall.Parent() != s.Fn {
			continue // the key was built elsewhere: nothing to compare at this site
		}
		n++
		c.CheckAt("KEYED", short(s.Fn)+":generator-keyed-by-the-secret-of-the-encryption-key", s.Ins, p.SameValue(p.Resolve(args[ks]), p.Resolve(kcall.Call.Args[1])), "the entry's marking generator is keyed by "+args[ks].String()+", not by the secret its encryption key was derived from: the same key configured under another ID (a renaming reload, a second service) no longer recognises the salts it issued, so its reflected output is accepted")
	}
	c.Floor("KEYED", "construction sites whose encryption key is derived next to the call", n, 1)
}
