package eng

import (
	"go/token"
	"go/types"
	"strings"

	"golang.org/x/tools/go/ssa"
)

// ---------------------------------------------------------------------------------------------
// A2: value provenance — backwards def-use to the values a use may derive from.
// ---------------------------------------------------------------------------------------------

// OriginOpts selects which value-preserving steps are looked through.
type OriginOpts struct {
	ThroughSlice     bool                          // x[a:b] derives from x
	ThroughFieldLoad bool                          // *(&x.f) and x.f derive from x (else the field load is a leaf)
	ThroughConvert   bool                          // Convert / MakeInterface / ChangeInterface / TypeAssert
	ThroughCalls     func(c *ssa.Call) []ssa.Value // if non-nil: for a call leaf, operands it derives from (e.g. bound-method / wrapper summaries)
	ThroughBinOp     bool                          // arithmetic: both operands
	ThroughIndex     bool                          // *(&x[i]) and x[i] derive from x
	// Interproc: a parameter derives from the arguments at every call site of its function (in the repo), and the result of
	// a call to a repo function with a single resolved callee derives from that callee's returned values. This makes
	// provenance rules insensitive to helper extraction / inlining.
	Interproc bool
	// Stop: values satisfying Stop are leaves (tested before descending); AllFrom/AnyFrom set it to their predicate.
	Stop func(ssa.Value) bool
	// At: the instruction at which the value is used. When set, operands of a phi that can only arrive over a predecessor whose
	// branch facts contradict those of At's block are not origins (two branches guarded by one flag are correlated).
	At ssa.Instruction
}

// Origins returns the leaf values v may derive from. Phi nodes contribute all their operands; loads of
// cells contribute every stored value of the cell (within the function family).
func (p *Prog) Origins(v ssa.Value, o OriginOpts) []ssa.Value {
	seen := map[ssa.Value]bool{}
	var leaves []ssa.Value
	var walk func(v ssa.Value, d int)
	leaf := func(v ssa.Value) {
		leaves = append(leaves, v)
	}
	walk = func(v ssa.Value, d int) {
		if v == nil || seen[v] {
			return
		}
		seen[v] = true
		if d > 64 {
			leaf(v)
			return
		}
		if o.Stop != nil && o.Stop(v) {
			leaf(v)
			return
		}
		if o.Interproc {
			switch x := v.(type) {
			case *ssa.Parameter:
				if args := p.paramArgs(x); len(args) > 0 {
					for _, a := range args {
						walk(a, d+1)
					}
					return
				}
			case *ssa.Call:
				if rs := p.callResults(x, 0); rs != nil && x.Call.Signature().Results().Len() == 1 {
					for _, r := range rs {
						walk(r, d+1)
					}
					return
				}
			case *ssa.Extract:
				if call, ok := x.Tuple.(*ssa.Call); ok {
					if rs := p.callResults(call, x.Index); rs != nil {
						for _, r := range rs {
							walk(r, d+1)
						}
						return
					}
				}
			case *ssa.UnOp:
				// a field that is only ever set while its object is constructed (parameter structs, immutable records)
				if fa, ok := x.X.(*ssa.FieldAddr); ok && x.Op == token.MUL {
					if t, f, _, ok := FieldOf(fa); ok {
						if vals, ok := p.ConstructOnly(t, f); ok {
							for _, sv := range vals {
								walk(sv, d+1)
							}
							return
						}
					}
				}
			}
		}
		switch x := v.(type) {
		case *ssa.Phi:
			for i, e := range x.Edges {
				if o.At != nil && o.At.Parent() == x.Parent() && i < len(x.Block().Preds) && x.Block().Dominates(o.At.Block()) && !isLoopHeader(x.Block()) &&
					p.Contradict(x.Block().Preds[i], o.At.Block()) {
					continue
				}
				walk(e, d+1)
			}
		case *ssa.ChangeType:
			walk(x.X, d+1)
		case *ssa.Convert:
			if o.ThroughConvert {
				walk(x.X, d+1)
			} else {
				leaf(v)
			}
		case *ssa.MakeInterface:
			if o.ThroughConvert {
				walk(x.X, d+1)
			} else {
				leaf(v)
			}
		case *ssa.ChangeInterface:
			if o.ThroughConvert {
				walk(x.X, d+1)
			} else {
				leaf(v)
			}
		case *ssa.TypeAssert:
			if o.ThroughConvert {
				walk(x.X, d+1)
			} else {
				leaf(v)
			}
		case *ssa.Slice:
			if o.ThroughSlice {
				walk(x.X, d+1)
			} else {
				leaf(v)
			}
		case *ssa.Extract:
			// (v, ok) forms of typeassert / lookup / recv are looked through for index 0
			switch t := x.Tuple.(type) {
			case *ssa.TypeAssert:
				if o.ThroughConvert && x.Index == 0 {
					walk(t.X, d+1)
					return
				}
			}
			leaf(v)
		case *ssa.UnOp:
			if x.Op == token.MUL {
				if cell := CellRoot(x.X); cell != nil {
					st := p.CellStores(cell)
					if len(st) == 0 {
						leaf(v)
						return
					}
					// only the stores that can be the last one before this load (CFG reaching definitions), when that is decidable
					// inside the loading function
					if len(st) > 1 {
						if rs, complete := p.ReachingStores(x); complete && len(rs) > 0 {
							for _, s := range rs {
								if o.At != nil && o.At.Parent() == s.Parent() && s.Block().Dominates(o.At.Block()) == false && p.Contradict(s.Block(), o.At.Block()) {
									continue
								}
								walk(s.Val, d+1)
							}
							return
						}
					}
					for _, s := range st {
						walk(s.Val, d+1)
					}
					return
				}
				switch a := x.X.(type) {
				case *ssa.FieldAddr:
					// per-datagram / per-connection state kept in a struct that is handed around by pointer: the field holds
					// what was last stored through that very pointer (decided without alias analysis, or not at all)
					if vals, complete := p.FieldReaching(x); complete && len(vals) > 0 {
						for _, sv := range vals {
							walk(sv, d+1)
						}
						return
					}
					if o.ThroughFieldLoad {
						walk(a.X, d+1)
						return
					}
				case *ssa.IndexAddr:
					if o.ThroughIndex {
						walk(a.X, d+1)
						return
					}
				}
				leaf(v)
				return
			}
			leaf(v)
		case *ssa.Field:
			if o.ThroughFieldLoad {
				walk(x.X, d+1)
			} else {
				leaf(v)
			}
		case *ssa.FreeVar:
			if b := FreeVarBinding(x); b != nil {
				walk(b, d+1)
			} else {
				leaf(v)
			}
		case *ssa.Alloc:
			// a local struct reached through one of its fields: it holds what was stored into it as a whole
			if o.ThroughFieldLoad && x.Referrers() != nil {
				n := 0
				for _, r := range *x.Referrers() {
					if st, ok := r.(*ssa.Store); ok && st.Addr == ssa.Value(x) {
						n++
						walk(st.Val, d+1)
					}
				}
				if n > 0 {
					return
				}
			}
			leaf(v)
		case *ssa.BinOp:
			if o.ThroughBinOp {
				walk(x.X, d+1)
				walk(x.Y, d+1)
			} else {
				leaf(v)
			}
		case *ssa.Call:
			if o.ThroughCalls != nil {
				if ops := o.ThroughCalls(x); ops != nil {
					for _, op := range ops {
						walk(op, d+1)
					}
					return
				}
			}
			leaf(v)
		default:
			leaf(v)
		}
	}
	walk(v, 0)
	return leaves
}

// isLoopHeader: some predecessor of b is dominated by b (a back edge enters it).
func isLoopHeader(b *ssa.BasicBlock) bool {
	for _, pb := range b.Preds {
		if b.Dominates(pb) {
			return true
		}
	}
	return false
}

// Plain looks through conversions, slices and cells only.
var Plain = OriginOpts{ThroughSlice: true, ThroughConvert: true}

// paramArgs: the arguments bound to parameter x at every call site of its function inside the repo (nil when the
// function has no repo call site, or is also called from outside the repo, or x is a closure's free variable).
func (p *Prog) paramArgs(x *ssa.Parameter) []ssa.Value {
	fn := x.Parent()
	if fn == nil || !p.InRepo(fn) {
		return nil
	}
	idx := -1
	for i, q := range fn.Params {
		if q == x {
			idx = i
		}
	}
	if idx < 0 {
		return nil
	}
	if n := p.CG.Nodes[fn]; n != nil {
		for _, in := range n.In {
			if !p.InRepo(in.Caller.Func) && !isWrapper(in.Caller.Func) {
				return nil
			}
		}
	}
	var out []ssa.Value
	for _, s := range p.CallSitesOf(fn) {
		cc := s.Ins.(ssa.CallInstruction).Common()
		if cc.IsInvoke() {
			if idx == 0 {
				out = append(out, cc.Value)
			} else if idx-1 < len(cc.Args) {
				out = append(out, cc.Args[idx-1])
			}
			continue
		}
		// bound-method closures and function values: argument positions may be shifted; only handle direct static calls
		if cc.StaticCallee() == nil {
			return nil
		}
		if idx < len(cc.Args) {
			out = append(out, cc.Args[idx])
		}
	}
	return out
}

// callResults: the values returned as result idx by the (single, repo) callee of call; nil if not applicable.
func (p *Prog) callResults(call *ssa.Call, idx int) []ssa.Value {
	// only statically bound calls (functions, concrete methods, immediately invoked closures): interface calls are not entered
	var callee *ssa.Function
	if f := call.Call.StaticCallee(); f != nil {
		callee = f
	} else if mc, ok := call.Call.Value.(*ssa.MakeClosure); ok {
		callee, _ = mc.Fn.(*ssa.Function)
	}
	if callee == nil || !p.InRepo(callee) || len(callee.Blocks) == 0 {
		return nil
	}
	sig := callee.Signature
	n := sig.Results().Len()
	errLike := false
	if n > 0 {
		t := sig.Results().At(n - 1).Type()
		if types.Identical(t, types.Universe.Lookup("error").Type()) {
			errLike = true
		} else if _, isPtr := t.(*types.Pointer); isPtr {
			ms := types.NewMethodSet(t)
			for i := 0; i < ms.Len(); i++ {
				if ms.At(i).Obj().Name() == "Error" {
					errLike = true
				}
			}
		}
	}
	var out []ssa.Value
	for _, r := range Returns(callee) {
		if r.Block().Comment == "recover" {
			continue
		}
		if idx >= len(r.Results) {
			continue
		}
		// values returned together with a definitely non-nil error are not used by callers that test the error first
		if errLike && idx != n-1 && p.definitelyNonNil(r.Results[n-1], r) {
			continue
		}
		out = append(out, r.Results[idx])
	}
	if len(out) == 0 {
		return nil
	}
	return out
}

// definitelyNonNil: v (an error-like value returned at r) is known non-nil: a constructor call, or r is only reachable
// through the non-nil edge of a nil test on v (or on the value v was loaded from).
// DefinitelyNonNil is exported for the rules.
func (p *Prog) DefinitelyNonNil(v ssa.Value, r *ssa.Return) bool { return p.definitelyNonNil(v, r) }

func (p *Prog) definitelyNonNil(v ssa.Value, r *ssa.Return) bool {
	if rv := p.ReachingStore(v, r); rv != nil {
		v = rv
	}
	switch x := v.(type) {
	case *ssa.Const:
		return false
	case *ssa.UnOp:
		// a sentinel: package-level error variable that only its package initialiser assigns, from a constructor
		if g, ok := x.X.(*ssa.Global); ok && x.Op == token.MUL && p.sentinelGlobal(g) {
			return true
		}
	case *ssa.Call:
		n := CalleeName(&x.Call)
		if n == "fmt.Errorf" || n == "errors.New" || n == "net.NewConnectionError" || strings.HasSuffix(n, ".NewConnectionError") || n == "errors.Join" {
			return true
		}
		// a repo constructor helper (newReplayError(status)): every one of its returns is definitely non-nil
		if h := x.Call.StaticCallee(); h != nil && p.InRepo(h) && len(h.Blocks) > 0 && !p.nonNilBusy[h] {
			if p.nonNilBusy == nil {
				p.nonNilBusy = map[*ssa.Function]bool{}
			}
			p.nonNilBusy[h] = true
			all, cnt := true, 0
			ri := -1
			if tup, ok := h.Signature.Results().At(0).Type(), true; ok && h.Signature.Results().Len() == 1 {
				_ = tup
				ri = 0
			}
			for _, hr := range Returns(h) {
				if ri < 0 || len(hr.Results) != 1 {
					all = false
					continue
				}
				cnt++
				if !p.definitelyNonNil(hr.Results[0], hr) {
					all = false
				}
			}
			delete(p.nonNilBusy, h)
			if all && cnt > 0 {
				return true
			}
		}
	case *ssa.MakeInterface:
		if _, isC := x.X.(*ssa.Const); !isC {
			return true
		}
	case *ssa.Alloc:
		return true
	}
	fn := r.Parent()
	_, nn := p.NilEdges(fn, func(y ssa.Value) bool { return y == v })
	if len(nn) > 0 && Cut(fn, r.Block(), nn) {
		return true
	}
	// error wrapping: v = wrap(e, ...) returned on the e != nil edge
	if call, ok := v.(*ssa.Call); ok {
		for _, a := range call.Call.Args {
			if !types.Identical(a.Type(), types.Universe.Lookup("error").Type()) {
				continue
			}
			_, nn := p.NilEdges(fn, func(y ssa.Value) bool { return y == a })
			if len(nn) > 0 && Cut(fn, r.Block(), nn) {
				return true
			}
		}
	}
	return false
}

// sentinelGlobal: every store to g is in a package initialiser and stores the result of an error constructor.
func (p *Prog) sentinelGlobal(g *ssa.Global) bool {
	n := 0
	for f := range p.All {
		if f.Pkg != g.Pkg {
			continue
		}
		for _, b := range f.Blocks {
			for _, ins := range b.Instrs {
				st, ok := ins.(*ssa.Store)
				if !ok || st.Addr != ssa.Value(g) {
					continue
				}
				if f.Name() != "init" && !strings.HasPrefix(f.Name(), "init#") {
					return false
				}
				call, ok := st.Val.(*ssa.Call)
				if !ok {
					if mi, isMI := st.Val.(*ssa.MakeInterface); isMI {
						if _, isC := mi.X.(*ssa.Const); !isC {
							n++
							continue
						}
					}
					return false
				}
				cn := CalleeName(&call.Call)
				if cn != "errors.New" && cn != "fmt.Errorf" && !strings.HasSuffix(cn, ".NewConnectionError") {
					return false
				}
				n++
			}
		}
	}
	return n > 0
}

// Deep is Plain plus interprocedural provenance.
var Deep = OriginOpts{ThroughSlice: true, ThroughConvert: true, Interproc: true}

// AllFrom reports whether every origin leaf of v satisfies pred (and there is at least one).
func (p *Prog) AllFrom(v ssa.Value, o OriginOpts, pred func(ssa.Value) bool) (bool, []ssa.Value) {
	if o.Stop == nil {
		o.Stop = pred
	}
	ls := p.Origins(v, o)
	if len(ls) == 0 {
		return false, nil
	}
	var bad []ssa.Value
	for _, l := range ls {
		if !pred(l) {
			bad = append(bad, l)
		}
	}
	return len(bad) == 0, bad
}

// AnyFrom reports whether some origin leaf satisfies pred.
func (p *Prog) AnyFrom(v ssa.Value, o OriginOpts, pred func(ssa.Value) bool) bool {
	if o.Stop == nil {
		o.Stop = pred
	}
	for _, l := range p.Origins(v, o) {
		if pred(l) {
			return true
		}
	}
	return false
}

// IsParam reports whether v is parameter idx of its function (receiver counts as index 0 for methods).
func IsParam(v ssa.Value, fn *ssa.Function, idx int) bool {
	pa, ok := v.(*ssa.Parameter)
	if !ok || pa.Parent() != fn {
		return false
	}
	return idx < len(fn.Params) && fn.Params[idx] == pa
}

// ParamNamed returns the parameter of fn with this source name, or nil. Used only for reporting.
func ParamNamed(fn *ssa.Function, name string) *ssa.Parameter {
	for _, pa := range fn.Params {
		if pa.Name() == name {
			return pa
		}
	}
	return nil
}

// FieldLoad decodes v as a load of struct field (type, field), returning the base value.
func FieldLoad(v ssa.Value) (typ, field string, base ssa.Value, ok bool) {
	switch x := v.(type) {
	case *ssa.UnOp:
		if x.Op == token.MUL {
			if fa, isFA := x.X.(*ssa.FieldAddr); isFA {
				t, f, _, ok2 := FieldOf(fa)
				return t, f, fa.X, ok2
			}
		}
	case *ssa.Field:
		t, f, _, ok2 := FieldOf(x)
		return t, f, x.X, ok2
	}
	return "", "", nil, false
}

// IsFieldLoad matches a load of the given struct field.
func IsFieldLoad(v ssa.Value, typ, field string) bool {
	t, f, _, ok := FieldLoad(v)
	return ok && t == typ && f == field
}

// ConstInt returns the integer value of a constant SSA value.
func ConstInt(v ssa.Value) (int64, bool) {
	c, ok := v.(*ssa.Const)
	if !ok || c.Value == nil {
		return 0, false
	}
	if b, ok := c.Type().Underlying().(*types.Basic); ok && b.Info()&types.IsInteger != 0 {
		return c.Int64(), true
	}
	return 0, false
}

// ConstString returns the string value of a constant SSA value.
func ConstString(v ssa.Value) (string, bool) {
	c, ok := v.(*ssa.Const)
	if !ok || c.Value == nil {
		return "", false
	}
	if b, ok := c.Type().Underlying().(*types.Basic); ok && b.Info()&types.IsString != 0 {
		s := c.Value.ExactString()
		// ExactString is quoted
		if len(s) >= 2 && s[0] == '"' {
			if u, err := unquote(s); err == nil {
				return u, true
			}
		}
		return s, true
	}
	return "", false
}

// IsZeroValue reports whether v is the zero value of its type (nil / 0 / "" / zero struct constant).
func IsZeroValue(v ssa.Value) bool {
	c, ok := v.(*ssa.Const)
	if !ok {
		return false
	}
	if c.Value == nil {
		return true
	}
	if n, ok := ConstInt(v); ok {
		return n == 0
	}
	if s, ok := ConstString(v); ok {
		return s == ""
	}
	return false
}
