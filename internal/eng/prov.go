package eng

import (
	"go/token"
	"go/types"

	"golang.org/x/tools/go/ssa"
)

// ---------------------------------------------------------------------------------------------
// A2: value provenance — backwards def-use to the values a use may derive from.
// ---------------------------------------------------------------------------------------------

// OriginOpts selects which value-preserving steps are looked through.
type OriginOpts struct {
	ThroughSlice     bool // x[a:b] derives from x
	ThroughFieldLoad bool // *(&x.f) and x.f derive from x (else the field load is a leaf)
	ThroughConvert   bool // Convert / MakeInterface / ChangeInterface / TypeAssert
	ThroughCalls     func(c *ssa.Call) []ssa.Value // if non-nil: for a call leaf, operands it derives from (e.g. bound-method / wrapper summaries)
	ThroughBinOp     bool // arithmetic: both operands
	ThroughIndex     bool // *(&x[i]) and x[i] derive from x
}

// Origins returns the leaf values v may derive from. Phi nodes contribute all their operands; loads of
// cells contribute every stored value of the cell (within the function family).
func (p *Prog) Origins(v ssa.Value, o OriginOpts) []ssa.Value {
	seen := map[ssa.Value]bool{}
	var leaves []ssa.Value
	var walk func(v ssa.Value, d int)
	leaf := func(v ssa.Value) {
		leaves = append(leaves, v)
	}
	walk = func(v ssa.Value, d int) {
		if v == nil || seen[v] {
			return
		}
		seen[v] = true
		if d > 64 {
			leaf(v)
			return
		}
		switch x := v.(type) {
		case *ssa.Phi:
			for _, e := range x.Edges {
				walk(e, d+1)
			}
		case *ssa.ChangeType:
			walk(x.X, d+1)
		case *ssa.Convert:
			if o.ThroughConvert {
				walk(x.X, d+1)
			} else {
				leaf(v)
			}
		case *ssa.MakeInterface:
			if o.ThroughConvert {
				walk(x.X, d+1)
			} else {
				leaf(v)
			}
		case *ssa.ChangeInterface:
			if o.ThroughConvert {
				walk(x.X, d+1)
			} else {
				leaf(v)
			}
		case *ssa.TypeAssert:
			if o.ThroughConvert {
				walk(x.X, d+1)
			} else {
				leaf(v)
			}
		case *ssa.Slice:
			if o.ThroughSlice {
				walk(x.X, d+1)
			} else {
				leaf(v)
			}
		case *ssa.Extract:
			// (v, ok) forms of typeassert / lookup / recv are looked through for index 0
			switch t := x.Tuple.(type) {
			case *ssa.TypeAssert:
				if o.ThroughConvert && x.Index == 0 {
					walk(t.X, d+1)
					return
				}
			}
			leaf(v)
		case *ssa.UnOp:
			if x.Op == token.MUL {
				if cell := CellRoot(x.X); cell != nil {
					st := p.CellStores(cell)
					if len(st) == 0 {
						leaf(v)
						return
					}
					for _, s := range st {
						walk(s.Val, d+1)
					}
					return
				}
				switch a := x.X.(type) {
				case *ssa.FieldAddr:
					if o.ThroughFieldLoad {
						walk(a.X, d+1)
						return
					}
				case *ssa.IndexAddr:
					if o.ThroughIndex {
						walk(a.X, d+1)
						return
					}
				}
				leaf(v)
				return
			}
			leaf(v)
		case *ssa.Field:
			if o.ThroughFieldLoad {
				walk(x.X, d+1)
			} else {
				leaf(v)
			}
		case *ssa.FreeVar:
			if b := FreeVarBinding(x); b != nil {
				walk(b, d+1)
			} else {
				leaf(v)
			}
		case *ssa.BinOp:
			if o.ThroughBinOp {
				walk(x.X, d+1)
				walk(x.Y, d+1)
			} else {
				leaf(v)
			}
		case *ssa.Call:
			if o.ThroughCalls != nil {
				if ops := o.ThroughCalls(x); ops != nil {
					for _, op := range ops {
						walk(op, d+1)
					}
					return
				}
			}
			leaf(v)
		default:
			leaf(v)
		}
	}
	walk(v, 0)
	return leaves
}

// Plain looks through conversions, slices and cells only.
var Plain = OriginOpts{ThroughSlice: true, ThroughConvert: true}

// AllFrom reports whether every origin leaf of v satisfies pred (and there is at least one).
func (p *Prog) AllFrom(v ssa.Value, o OriginOpts, pred func(ssa.Value) bool) (bool, []ssa.Value) {
	ls := p.Origins(v, o)
	if len(ls) == 0 {
		return false, nil
	}
	var bad []ssa.Value
	for _, l := range ls {
		if !pred(l) {
			bad = append(bad, l)
		}
	}
	return len(bad) == 0, bad
}

// AnyFrom reports whether some origin leaf satisfies pred.
func (p *Prog) AnyFrom(v ssa.Value, o OriginOpts, pred func(ssa.Value) bool) bool {
	for _, l := range p.Origins(v, o) {
		if pred(l) {
			return true
		}
	}
	return false
}

// IsParam reports whether v is parameter idx of its function (receiver counts as index 0 for methods).
func IsParam(v ssa.Value, fn *ssa.Function, idx int) bool {
	pa, ok := v.(*ssa.Parameter)
	if !ok || pa.Parent() != fn {
		return false
	}
	return idx < len(fn.Params) && fn.Params[idx] == pa
}

// ParamNamed returns the parameter of fn with this source name, or nil. Used only for reporting.
func ParamNamed(fn *ssa.Function, name string) *ssa.Parameter {
	for _, pa := range fn.Params {
		if pa.Name() == name {
			return pa
		}
	}
	return nil
}

// FieldLoad decodes v as a load of struct field (type, field), returning the base value.
func FieldLoad(v ssa.Value) (typ, field string, base ssa.Value, ok bool) {
	switch x := v.(type) {
	case *ssa.UnOp:
		if x.Op == token.MUL {
			if fa, isFA := x.X.(*ssa.FieldAddr); isFA {
				t, f, _, ok2 := FieldOf(fa)
				return t, f, fa.X, ok2
			}
		}
	case *ssa.Field:
		t, f, _, ok2 := FieldOf(x)
		return t, f, x.X, ok2
	}
	return "", "", nil, false
}

// IsFieldLoad matches a load of the given struct field.
func IsFieldLoad(v ssa.Value, typ, field string) bool {
	t, f, _, ok := FieldLoad(v)
	return ok && t == typ && f == field
}

// ConstInt returns the integer value of a constant SSA value.
func ConstInt(v ssa.Value) (int64, bool) {
	c, ok := v.(*ssa.Const)
	if !ok || c.Value == nil {
		return 0, false
	}
	if b, ok := c.Type().Underlying().(*types.Basic); ok && b.Info()&types.IsInteger != 0 {
		return c.Int64(), true
	}
	return 0, false
}

// ConstString returns the string value of a constant SSA value.
func ConstString(v ssa.Value) (string, bool) {
	c, ok := v.(*ssa.Const)
	if !ok || c.Value == nil {
		return "", false
	}
	if b, ok := c.Type().Underlying().(*types.Basic); ok && b.Info()&types.IsString != 0 {
		s := c.Value.ExactString()
		// ExactString is quoted
		if len(s) >= 2 && s[0] == '"' {
			if u, err := unquote(s); err == nil {
				return u, true
			}
		}
		return s, true
	}
	return "", false
}

// IsZeroValue reports whether v is the zero value of its type (nil / 0 / "" / zero struct constant).
func IsZeroValue(v ssa.Value) bool {
	c, ok := v.(*ssa.Const)
	if !ok {
		return false
	}
	if c.Value == nil {
		return true
	}
	if n, ok := ConstInt(v); ok {
		return n == 0
	}
	if s, ok := ConstString(v); ok {
		return s == ""
	}
	return false
}
