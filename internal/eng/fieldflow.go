package eng

import (
	"go/token"

	"golang.org/x/tools/go/ssa"
)

// FieldReaching: for a load `*(&P.f)` of a field of the struct that the pointer value P designates, the values that can
// be in the field at that point, when that is decidable without alias analysis:
//
//   - stores `P.f = x` in the loading function with the very same pointer value P are strong definitions;
//   - a call that is handed P (as an argument or receiver) is a weak definition: a repo callee with a body contributes the
//     values it stores into field f of the corresponding parameter (transitively, bounded); any other callee makes the
//     answer unknown;
//   - reaching the creation of the struct (P is an allocation of this function whose composite literal does not set f)
//     contributes nothing more (the zero value);
//   - reaching the function entry with P being a parameter / loaded pointer makes the answer unknown.
//
// The walk is backwards over the CFG from the load. complete == false means "treat the load as a leaf".
func (p *Prog) FieldReaching(load *ssa.UnOp) (vals []ssa.Value, complete bool) {
	if load.Op != token.MUL {
		return nil, false
	}
	fa, ok := load.X.(*ssa.FieldAddr)
	if !ok {
		return nil, false
	}
	base := fa.X
	fn := load.Parent()
	if fn == nil {
		return nil, false
	}
	sameBase := func(v ssa.Value) bool { return v == base }
	seenVal := map[ssa.Value]bool{}
	add := func(v ssa.Value) {
		if !seenVal[v] {
			seenVal[v] = true
			vals = append(vals, v)
		}
	}
	complete = true
	// the definitions an instruction makes: (strong store value) or (weak call values) or unknown
	type def struct {
		strong  ssa.Value
		weak    []ssa.Value
		unknown bool
		created bool // the struct itself is created here: nothing older
	}
	defOf := func(ins ssa.Instruction) *def {
		switch x := ins.(type) {
		case *ssa.Store:
			if sfa, ok := x.Addr.(*ssa.FieldAddr); ok && sfa.Field == fa.Field && sameBase(sfa.X) {
				return &def{strong: x.Val}
			}
			// a store of the whole struct through the pointer
			if sameBase(x.Addr) {
				return &def{unknown: true}
			}
		case *ssa.Alloc:
			if ssa.Value(x) == base {
				return &def{created: true}
			}
		case ssa.CallInstruction:
			cc := x.Common()
			args := cc.Args
			idx := -1
			for i, a := range args {
				if sameBase(a) {
					idx = i
				}
			}
			if idx < 0 {
				return nil
			}
			h := cc.StaticCallee()
			if h == nil || !p.InRepo(h) || len(h.Blocks) == 0 || idx >= len(h.Params) {
				return &def{unknown: true}
			}
			vs, ok := p.calleeFieldStores(h, idx, fa.Field, 0, map[*ssa.Function]bool{})
			if !ok {
				return &def{unknown: true}
			}
			return &def{weak: vs}
		}
		return nil
	}
	seenB := map[*ssa.BasicBlock]bool{}
	var back func(b *ssa.BasicBlock, from int)
	back = func(b *ssa.BasicBlock, from int) {
		for i := from; i >= 0; i-- {
			d := defOf(b.Instrs[i])
			if d == nil {
				continue
			}
			if d.unknown {
				complete = false
				return
			}
			if d.created {
				return
			}
			if d.strong != nil {
				add(d.strong)
				return
			}
			for _, w := range d.weak {
				add(w)
			}
		}
		if len(b.Preds) == 0 {
			// function entry: only fine when the struct is created in this function (then the Alloc would have been met) —
			// a parameter or loaded pointer comes with unknown contents
			if _, isAlloc := base.(*ssa.Alloc); !isAlloc {
				complete = false
			}
			return
		}
		for _, pb := range b.Preds {
			if seenB[pb] {
				continue
			}
			seenB[pb] = true
			back(pb, len(pb.Instrs)-1)
		}
	}
	blk := load.Block()
	start := -1
	for i, ins := range blk.Instrs {
		if ins == ssa.Instruction(load) {
			start = i - 1
		}
	}
	back(blk, start)
	if !complete {
		return nil, false
	}
	return vals, true
}

// calleeFieldStores: the values h (and the repo functions it hands the pointer on to) store into field f of its idx-th
// parameter; ok == false when the pointer escapes to something unknown.
func (p *Prog) calleeFieldStores(h *ssa.Function, idx, field, depth int, busy map[*ssa.Function]bool) ([]ssa.Value, bool) {
	if depth > 3 || busy[h] {
		return nil, depth <= 3
	}
	busy[h] = true
	defer delete(busy, h)
	pa := h.Params[idx]
	var out []ssa.Value
	ok := true
	for _, b := range h.Blocks {
		for _, ins := range b.Instrs {
			switch x := ins.(type) {
			case *ssa.Store:
				if sfa, isFA := x.Addr.(*ssa.FieldAddr); isFA && sfa.Field == field && sfa.X == ssa.Value(pa) {
					out = append(out, x.Val)
				}
				if x.Addr == ssa.Value(pa) {
					ok = false
				}
			case ssa.CallInstruction:
				cc := x.Common()
				for i, a := range cc.Args {
					if a != ssa.Value(pa) {
						continue
					}
					g := cc.StaticCallee()
					if g == nil || !p.InRepo(g) || len(g.Blocks) == 0 || i >= len(g.Params) {
						ok = false
						continue
					}
					vs, ok2 := p.calleeFieldStores(g, i, field, depth+1, busy)
					if !ok2 {
						ok = false
					}
					out = append(out, vs...)
				}
			}
		}
	}
	return out, ok
}
