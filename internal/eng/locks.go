package eng

import (
	"go/token"
	"go/types"
	"sort"
	"strings"

	"golang.org/x/tools/go/ssa"
)

// ---------------------------------------------------------------------------------------------
// A4: lock sets (must-hold), lock classes, lock-order graph, blocking-under-lock
// ---------------------------------------------------------------------------------------------

// LockSet maps lock class → mode ('W' exclusive, 'R' shared).
type LockSet map[string]byte

func (s LockSet) clone() LockSet {
	n := LockSet{}
	for k, v := range s {
		n[k] = v
	}
	return n
}

// Has reports whether class is held in any mode.
func (s LockSet) Has(class string) bool { _, ok := s[class]; return ok }

// HasW reports whether class is held exclusively.
func (s LockSet) HasW(class string) bool { return s[class] == 'W' }

func (s LockSet) String() string {
	var ks []string
	for k, m := range s {
		if m == 'R' {
			k += "(R)"
		}
		ks = append(ks, k)
	}
	sort.Strings(ks)
	return "{" + strings.Join(ks, ",") + "}"
}

func interLS(a, b LockSet) LockSet {
	n := LockSet{}
	for k, m := range a {
		if m2, ok := b[k]; ok {
			if m == 'R' || m2 == 'R' {
				n[k] = 'R'
			} else {
				n[k] = 'W'
			}
		}
	}
	return n
}

func eqLS(a, b LockSet) bool {
	if len(a) != len(b) {
		return false
	}
	for k, m := range a {
		if b[k] != m {
			return false
		}
	}
	return true
}

// LockOp is a recognised sync.Mutex / sync.RWMutex operation.
type LockOp struct {
	Class string
	Kind  string // Lock RLock Unlock RUnlock
}

// OrderWitness explains one lock-order edge.
type OrderWitness struct {
	Fn    *ssa.Function
	Site  ssa.Instruction
	Chain []string // call chain from the site to the acquisition
}

// BlockSite is a potentially blocking operation executed with a lock held.
type BlockSite struct {
	Fn   *ssa.Function
	Ins  ssa.Instruction
	What string
	Held LockSet
}

// Locks is the result of the lock analysis.
type Locks struct {
	syncCache map[ssa.CallInstruction][]*ssa.Function
	hoCache   map[*ssa.Function][]hoCall
	p         *Prog
	Classes   map[string]bool
	Unknown   []string                              // lock operands whose class could not be resolved
	held      map[ssa.Instruction]LockSet           // must-hold set before each instruction
	Entry     map[*ssa.Function]LockSet             // must-hold set on entry
	Acq       map[*ssa.Function]map[string][]string // classes a function may acquire transitively → one witness chain
	Order     map[[2]string][]OrderWitness
	Blocking  []BlockSite
	deferHeld map[*ssa.Defer]LockSet
	aliasMemo map[string]string
}

// Held returns the must-hold lock set immediately before ins.
func (l *Locks) Held(ins ssa.Instruction) LockSet {
	if d, ok := ins.(*ssa.Defer); ok {
		if h, ok := l.deferHeld[d]; ok {
			return h
		}
	}
	if h, ok := l.held[ins]; ok {
		return h
	}
	return LockSet{}
}

func isSyncLockType(t types.Type) bool {
	s := t.String()
	return s == "sync.Mutex" || s == "sync.RWMutex"
}

// lockClass resolves the receiver operand of a Lock/Unlock call to a lock class.
func (l *Locks) lockClass(v ssa.Value) string {
	switch a := v.(type) {
	case *ssa.FieldAddr:
		t, f, _, ok := FieldOf(a)
		if ok {
			return t + "." + f
		}
	case *ssa.UnOp:
		if a.Op == token.MUL {
			// pointer-typed mutex field: resolve through the values stored into that field anywhere
			if fa, ok := a.X.(*ssa.FieldAddr); ok {
				t, f, _, ok := FieldOf(fa)
				if ok {
					key := t + "." + f
					if c, ok := l.aliasMemo[key]; ok {
						return c
					}
					l.aliasMemo[key] = "*" + key // cycle guard
					targets := map[string]bool{}
					for _, st := range l.p.FieldStores(t, f) {
						if st.Val == nil {
							targets["?"] = true
							continue
						}
						for _, o := range l.p.Origins(st.Val, OriginOpts{ThroughConvert: true}) {
							targets[l.lockClass(o)] = true
						}
					}
					res := "*" + key
					if len(targets) == 1 {
						for k := range targets {
							if !strings.HasPrefix(k, "?") {
								res = k
							}
						}
					}
					if strings.HasPrefix(res, "*") {
						l.Unknown = append(l.Unknown, key+" (pointer-typed lock field with "+itoa(len(targets))+" targets)")
					}
					l.aliasMemo[key] = res
					return res
				}
			}
		}
	case *ssa.MakeInterface:
		return l.lockClass(a.X)
	case *ssa.Parameter:
		// a mutex handed to a helper (closeLocked(mu, …)): the class every call site passes, when they agree
		if c, ok := l.aliasMemo["param:"+a.Parent().String()+"."+a.Name()]; ok {
			return c
		}
		idx := -1
		for i, q := range a.Parent().Params {
			if q == a {
				idx = i
			}
		}
		sites := l.p.CallSitesOf(a.Parent())
		cls := map[string]bool{}
		for _, s := range sites {
			ci, isCall := s.Ins.(ssa.CallInstruction)
			if !isCall || ci.Common().IsInvoke() || idx < 0 || idx >= len(ci.Common().Args) {
				cls["?"] = true
				continue
			}
			cls[l.lockClass(ci.Common().Args[idx])] = true
		}
		if len(cls) == 1 && len(sites) > 0 {
			for k := range cls {
				if !strings.HasPrefix(k, "?") {
					l.aliasMemo["param:"+a.Parent().String()+"."+a.Name()] = k
					return k
				}
			}
		}
	case *ssa.Alloc:
		return "local:" + Short(a.Parent().String()) + "." + a.Comment
	case *ssa.Global:
		return "global:" + Short(a.String())
	case *ssa.FreeVar:
		if c := CellRoot(a); c != nil {
			return l.lockClass(c)
		}
		if b := FreeVarBinding(a); b != nil {
			return l.lockClass(b)
		}
	}
	s := "?" + v.Name() + "@" + Short(v.Parent().String())
	l.Unknown = append(l.Unknown, s)
	return s
}

func itoa(n int) string {
	if n == 0 {
		return "0"
	}
	s := ""
	for n > 0 {
		s = string(rune('0'+n%10)) + s
		n /= 10
	}
	return s
}

// AsLockOp decodes a call as a mutex operation.
func (l *Locks) AsLockOp(c *ssa.CallCommon) *LockOp {
	if c.IsInvoke() {
		// l.Lock() on a sync.Locker: the class of the mutex behind the interface value, when it resolves to one
		if c.Value.Type().String() != "sync.Locker" {
			return nil
		}
		switch c.Method.Name() {
		case "Lock", "Unlock":
			n0 := len(l.Unknown)
			cls := l.lockClass(c.Value)
			if strings.HasPrefix(cls, "?") || strings.HasPrefix(cls, "*") {
				l.Unknown = l.Unknown[:n0] // an unresolved Locker is treated as before: not a recognised lock operation
				return nil
			}
			return &LockOp{cls, c.Method.Name()}
		}
		return nil
	}
	f := c.StaticCallee()
	if f == nil || f.Pkg == nil || f.Pkg.Pkg.Path() != "sync" || f.Signature.Recv() == nil {
		return nil
	}
	rt := f.Signature.Recv().Type().String()
	if rt != "*sync.Mutex" && rt != "*sync.RWMutex" {
		return nil
	}
	switch f.Name() {
	case "Lock", "RLock", "Unlock", "RUnlock":
		return &LockOp{l.lockClass(c.Args[0]), f.Name()}
	}
	return nil
}

func applyOp(cur LockSet, op *LockOp) {
	switch op.Kind {
	case "Lock":
		cur[op.Class] = 'W'
	case "RLock":
		if cur[op.Class] != 'W' {
			cur[op.Class] = 'R'
		}
	case "Unlock", "RUnlock":
		delete(cur, op.Class)
	}
}

// flow computes the must-hold set before each instruction of f given the entry set.
func (l *Locks) flow(f *ssa.Function, entry LockSet, res map[ssa.Instruction]LockSet, deferHeld map[*ssa.Defer]LockSet) {
	if len(f.Blocks) == 0 {
		return
	}
	out := map[*ssa.BasicBlock]LockSet{}
	var defers []*ssa.Defer
	for _, b := range f.Blocks {
		for _, ins := range b.Instrs {
			if d, ok := ins.(*ssa.Defer); ok {
				defers = append(defers, d)
			}
		}
	}
	for changed := true; changed; {
		changed = false
		for _, b := range f.Blocks {
			var cur LockSet
			if b == f.Blocks[0] {
				cur = entry.clone()
			} else {
				first := true
				for _, pr := range b.Preds {
					o, ok := out[pr]
					if !ok {
						continue
					}
					if first {
						cur = o.clone()
						first = false
					} else {
						cur = interLS(cur, o)
					}
				}
				if first {
					continue
				}
			}
			for _, ins := range b.Instrs {
				res[ins] = cur.clone()
				switch v := ins.(type) {
				case *ssa.Call:
					if op := l.AsLockOp(&v.Call); op != nil {
						applyOp(cur, op)
					}
				case *ssa.RunDefers:
					// deferred calls run in reverse registration order; only those that dominate this point
					// are certain to have been registered, but an unlock that was not registered cannot be
					// applied either way: apply effects of all defers whose block dominates b.
					for i := len(defers) - 1; i >= 0; i-- {
						d := defers[i]
						if !(d.Block() == b || d.Block().Dominates(b)) {
							// conditionally registered defer: its held set is the meet over runs where it runs; keep conservative
							if h, ok := deferHeld[d]; ok {
								deferHeld[d] = interLS(h, cur)
							} else {
								deferHeld[d] = cur.clone()
							}
							continue
						}
						if h, ok := deferHeld[d]; ok {
							deferHeld[d] = interLS(h, cur)
						} else {
							deferHeld[d] = cur.clone()
						}
						if op := l.AsLockOp(&d.Call); op != nil {
							applyOp(cur, op)
						}
					}
				}
			}
			if o, ok := out[b]; !ok || !eqLS(o, cur) {
				out[b] = cur
				changed = true
			}
		}
	}
}

// funcArgs returns repo functions passed as function-valued arguments (closures, bound methods,
// function references) at a call: an external callee may invoke them synchronously (sync.Once.Do, sort.Slice …).
func (p *Prog) funcArgs(c ssa.CallInstruction) []*ssa.Function {
	var out []*ssa.Function
	for _, a := range c.Common().Args {
		switch x := a.(type) {
		case *ssa.MakeClosure:
			if fn, ok := x.Fn.(*ssa.Function); ok {
				out = append(out, fn)
			}
		case *ssa.Function:
			out = append(out, x)
		}
	}
	return out
}

// SyncCallees: repo functions that may run synchronously inside this call instruction: call-graph
// callees in the repo, plus repo functions handed as function arguments to external callees.
// `go` statements have none.
func (l *Locks) SyncCallees(c ssa.CallInstruction) []*ssa.Function {
	if _, isGo := c.(*ssa.Go); isGo {
		return nil
	}
	if r, ok := l.syncCache[c]; ok {
		return r
	}
	r := l.syncCallees(c)
	if l.syncCache == nil {
		l.syncCache = map[ssa.CallInstruction][]*ssa.Function{}
	}
	l.syncCache[c] = r
	return r
}

// hoCall is a call, inside a small higher-order helper, of a function value that the helper received as a parameter (directly or
// through a pointer, e.g. `fn := *p; *p = nil; fn()`).
type hoCall struct {
	call   ssa.CallInstruction
	param  int
	viaPtr bool
}

// higherOrder returns the parameter calls of g when g qualifies for per-call-site resolution: it takes no lock itself and every
// call of it in the repo is a static call (so that arguments line up with parameters). For such helpers the call graph's
// context-insensitive answer ("anything of that function type") is replaced, at each call site, by what that site passes in.
func (l *Locks) higherOrder(g *ssa.Function) []hoCall {
	if r, ok := l.hoCache[g]; ok {
		return r
	}
	if l.hoCache == nil {
		l.hoCache = map[*ssa.Function][]hoCall{}
	}
	l.hoCache[g] = nil
	p := l.p
	if !p.InRepo(g) || len(g.Blocks) == 0 || g.Parent() != nil {
		return nil
	}
	var out []hoCall
	for _, c := range Calls(g) {
		cc := c.Common()
		if l.AsLockOp(cc) != nil {
			return nil
		}
		if cc.IsInvoke() || cc.StaticCallee() != nil {
			continue
		}
		if _, isB := cc.Value.(*ssa.Builtin); isB {
			continue
		}
		v := cc.Value
		viaPtr := false
		if u, ok := v.(*ssa.UnOp); ok && u.Op == token.MUL {
			v, viaPtr = u.X, true
		}
		pa, ok := v.(*ssa.Parameter)
		if !ok || pa.Parent() != g {
			return nil // some other dynamic call: leave the helper to the ordinary treatment
		}
		for i, q := range g.Params {
			if q == pa {
				out = append(out, hoCall{c, i, viaPtr})
			}
		}
	}
	if len(out) == 0 {
		return nil
	}
	sites := p.CallSitesOf(g)
	if len(sites) == 0 {
		return nil
	}
	for _, s := range sites {
		if s.Ins.(ssa.CallInstruction).Common().StaticCallee() != g {
			return nil
		}
	}
	l.hoCache[g] = out
	return out
}

// funcTargets resolves a function-valued argument (or a pointer to a function-valued location) to the repo functions it can
// denote; ok is false when some origin is not a closure / function reference.
func (l *Locks) funcTargets(arg ssa.Value, viaPtr bool) (out []*ssa.Function, ok bool) {
	p := l.p
	var vals []ssa.Value
	if viaPtr {
		switch a := arg.(type) {
		case *ssa.FieldAddr:
			t, f, _, okF := FieldOf(a)
			if !okF {
				return nil, false
			}
			for _, st := range p.FieldStores(t, f) {
				if st.Val == nil {
					// the field's address is handed to a callee: what that callee stores through the pointer
					more, okE := p.escapedStores(st.Ins)
					if !okE {
						return nil, false
					}
					vals = append(vals, more...)
					continue
				}
				vals = append(vals, st.Val)
			}
		default:
			cell := CellRoot(arg)
			if cell == nil {
				return nil, false
			}
			for _, st := range p.CellStores(cell) {
				vals = append(vals, st.Val)
			}
		}
	} else {
		vals = []ssa.Value{arg}
	}
	seen := map[*ssa.Function]bool{}
	for _, v := range vals {
		for _, o := range p.Origins(v, Deep) {
			var fn *ssa.Function
			switch x := o.(type) {
			case *ssa.MakeClosure:
				fn, _ = x.Fn.(*ssa.Function)
			case *ssa.Function:
				fn = x
			case *ssa.Const:
				if x.IsNil() {
					continue
				}
			}
			if fn == nil {
				return nil, false
			}
			for _, g := range unwrap(p, fn) {
				if !seen[g] {
					seen[g] = true
					out = append(out, g)
				}
			}
		}
	}
	return out, true
}

// escapedStores: addr (a FieldAddr instruction) is used as an argument of static calls to repo functions only; returns the values
// those functions store through the corresponding pointer parameter. ok is false when the pointer goes anywhere else.
func (p *Prog) escapedStores(addr ssa.Instruction) ([]ssa.Value, bool) {
	av, ok := addr.(ssa.Value)
	if !ok || av.Referrers() == nil {
		return nil, false
	}
	var out []ssa.Value
	for _, r := range *av.Referrers() {
		switch u := r.(type) {
		case *ssa.UnOp, *ssa.DebugRef:
		case *ssa.Store:
			if u.Addr != av {
				return nil, false
			}
		case ssa.CallInstruction:
			g := u.Common().StaticCallee()
			if g == nil || !p.InRepo(g) || len(g.Blocks) == 0 {
				// sync primitives etc. are handled by their own rules; an unknown callee may store anything
				return nil, false
			}
			for i, a := range u.Common().Args {
				if a != av || i >= len(g.Params) {
					continue
				}
				pa := g.Params[i]
				if pa.Referrers() == nil {
					continue
				}
				for _, pr := range *pa.Referrers() {
					switch w := pr.(type) {
					case *ssa.Store:
						if w.Addr != ssa.Value(pa) {
							return nil, false
						}
						out = append(out, w.Val)
					case *ssa.UnOp, *ssa.DebugRef:
					default:
						return nil, false
					}
				}
			}
		default:
			return nil, false
		}
	}
	return out, true
}

func (l *Locks) syncCallees(c ssa.CallInstruction) []*ssa.Function {
	p := l.p
	var out []*ssa.Function
	seen := map[*ssa.Function]bool{}
	// a parameter call inside a higher-order helper is accounted for at the helper's call sites
	for _, hc := range l.higherOrder(c.Parent()) {
		if hc.call == c {
			return nil
		}
	}
	ext := false
	for _, f := range p.Callees(c) {
		if hos := l.higherOrder(f); len(hos) > 0 && c.Common().StaticCallee() == f {
			for _, hc := range hos {
				var tg []*ssa.Function
				okT := false
				if hc.param < len(c.Common().Args) {
					tg, okT = l.funcTargets(c.Common().Args[hc.param], hc.viaPtr)
				}
				if !okT {
					tg = p.Callees(hc.call)
				}
				for _, g := range tg {
					if p.InRepo(g) && len(g.Blocks) > 0 && !seen[g] {
						seen[g] = true
						out = append(out, g)
					}
				}
			}
		}
	}
	for _, f := range p.Callees(c) {
		if p.InRepo(f) && len(f.Blocks) > 0 {
			if !seen[f] {
				seen[f] = true
				out = append(out, f)
			}
		} else {
			ext = true
		}
	}
	if ext || len(p.Callees(c)) == 0 {
		for _, f := range p.funcArgs(c) {
			for _, g := range unwrap(p, f) {
				if p.InRepo(g) && len(g.Blocks) > 0 && !seen[g] {
					seen[g] = true
					out = append(out, g)
				}
			}
		}
	}
	return out
}

func unwrap(p *Prog, f *ssa.Function) []*ssa.Function {
	if !isWrapper(f) {
		return []*ssa.Function{f}
	}
	var out []*ssa.Function
	if n := p.CG.Nodes[f]; n != nil {
		for _, e := range n.Out {
			out = append(out, unwrap(p, e.Callee.Func)...)
		}
	}
	return out
}

// AnalyzeLocks runs the lock analysis over all repo functions.
func (p *Prog) AnalyzeLocks() *Locks {
	l := &Locks{p: p, Classes: map[string]bool{}, held: map[ssa.Instruction]LockSet{}, Entry: map[*ssa.Function]LockSet{},
		Acq: map[*ssa.Function]map[string][]string{}, Order: map[[2]string][]OrderWitness{}, deferHeld: map[*ssa.Defer]LockSet{}, aliasMemo: map[string]string{}}

	// entry lock sets: greatest fixpoint, entry(f) = ⋂ held at synchronous call sites; roots and go-targets get {}.
	var TOP LockSet // nil = ⊤ (not yet constrained)
	entry := map[*ssa.Function]LockSet{}
	for _, f := range p.Fns {
		entry[f] = TOP
	}
	for iter := 0; iter < 20; iter++ {
		next := map[*ssa.Function]LockSet{}
		seen := map[*ssa.Function]bool{}
		meet := func(c *ssa.Function, h LockSet) {
			if !seen[c] {
				next[c] = h.clone()
				seen[c] = true
			} else {
				next[c] = interLS(next[c], h)
			}
		}
		for _, f := range p.Fns {
			e := entry[f]
			if e == nil {
				e = LockSet{}
			}
			res := map[ssa.Instruction]LockSet{}
			dh := map[*ssa.Defer]LockSet{}
			l.flow(f, e, res, dh)
			for _, c := range Calls(f) {
				var h LockSet
				switch d := c.(type) {
				case *ssa.Go:
					for _, callee := range p.Callees(c) {
						if p.InRepo(callee) {
							meet(callee, LockSet{})
						}
					}
					continue
				case *ssa.Defer:
					h = dh[d]
					if h == nil {
						h = LockSet{}
					}
				default:
					h = res[c]
				}
				for _, callee := range l.SyncCallees(c) {
					meet(callee, h)
				}
			}
		}
		same := true
		for _, f := range p.Fns {
			if !seen[f] {
				next[f] = LockSet{}
			}
			if entry[f] == nil || !eqLS(entry[f], next[f]) {
				same = false
			}
		}
		entry = next
		if same {
			break
		}
	}
	// exported functions and methods, and functions whose address is taken by external code, can be called
	// from anywhere: any function reachable from outside the repo gets {} — we approximate "has an external
	// caller in the call graph" as an additional empty call site.
	for _, f := range p.Fns {
		if n := p.CG.Nodes[f]; n != nil {
			for _, in := range n.In {
				if !p.InRepo(in.Caller.Func) && !isWrapper(in.Caller.Func) {
					entry[f] = LockSet{}
				}
			}
		}
	}
	l.Entry = entry
	for _, f := range p.Fns {
		l.flow(f, entry[f], l.held, l.deferHeld)
	}

	// transitive acquisitions
	for _, f := range p.Fns {
		l.Acq[f] = map[string][]string{}
	}
	for ch := true; ch; {
		ch = false
		for _, f := range p.Fns {
			for _, c := range Calls(f) {
				if _, isGo := c.(*ssa.Go); isGo {
					continue
				}
				if op := l.AsLockOp(c.Common()); op != nil && (op.Kind == "Lock" || op.Kind == "RLock") {
					l.Classes[op.Class] = true
					if _, ok := l.Acq[f][op.Class]; !ok {
						l.Acq[f][op.Class] = []string{Short(f.String()) + "@" + p.IPos(c) + " " + op.Kind}
						ch = true
					}
				}
				for _, callee := range l.SyncCallees(c) {
					for k, chain := range l.Acq[callee] {
						if _, ok := l.Acq[f][k]; !ok {
							l.Acq[f][k] = append([]string{Short(f.String()) + "@" + p.IPos(c) + " calls " + Short(callee.String())}, chain...)
							ch = true
						}
					}
				}
			}
		}
	}

	// order edges and blocking operations
	for _, f := range p.Fns {
		for _, b := range f.Blocks {
			for _, ins := range b.Instrs {
				held := l.Held(ins)
				if len(held) > 0 {
					switch v := ins.(type) {
					case *ssa.Send:
						l.Blocking = append(l.Blocking, BlockSite{f, ins, "channel send", held})
					case *ssa.UnOp:
						if v.Op == token.ARROW {
							l.Blocking = append(l.Blocking, BlockSite{f, ins, "channel receive", held})
						}
					case *ssa.Select:
						if v.Blocking {
							l.Blocking = append(l.Blocking, BlockSite{f, ins, "blocking select", held})
						}
					}
				}
				c, ok := ins.(ssa.CallInstruction)
				if !ok {
					continue
				}
				if _, isGo := ins.(*ssa.Go); isGo {
					continue
				}
				if len(held) > 0 {
					n := CalleeName(c.Common())
					switch n {
					case "(*sync.WaitGroup).Wait", "(*sync.Cond).Wait", "time.Sleep":
						l.Blocking = append(l.Blocking, BlockSite{f, ins, n, held})
					}
				}
				if op := l.AsLockOp(c.Common()); op != nil && (op.Kind == "Lock" || op.Kind == "RLock") {
					for h := range held {
						k := [2]string{h, op.Class}
						l.Order[k] = append(l.Order[k], OrderWitness{f, ins, []string{Short(f.String()) + "@" + p.IPos(ins) + " " + op.Kind + " " + op.Class}})
					}
				}
				for _, callee := range l.SyncCallees(c) {
					for k2, chain := range l.Acq[callee] {
						for h := range held {
							k := [2]string{h, k2}
							l.Order[k] = append(l.Order[k], OrderWitness{f, ins, append([]string{Short(f.String()) + "@" + p.IPos(ins) + " (holding " + h + ") calls " + Short(callee.String())}, chain...)})
						}
					}
				}
			}
		}
	}
	sort.Strings(l.Unknown)
	return l
}

// Cycles returns the strongly connected components of the lock-order graph with more than one node,
// plus self-loops.
func (l *Locks) Cycles() [][]string {
	adj := map[string][]string{}
	nodes := map[string]bool{}
	for k := range l.Order {
		adj[k[0]] = append(adj[k[0]], k[1])
		nodes[k[0]] = true
		nodes[k[1]] = true
	}
	var names []string
	for n := range nodes {
		names = append(names, n)
	}
	sort.Strings(names)
	// Tarjan
	index := 0
	idx := map[string]int{}
	low := map[string]int{}
	on := map[string]bool{}
	var stack []string
	var out [][]string
	var strong func(v string)
	strong = func(v string) {
		idx[v] = index
		low[v] = index
		index++
		stack = append(stack, v)
		on[v] = true
		ws := adj[v]
		sort.Strings(ws)
		for _, w := range ws {
			if _, ok := idx[w]; !ok {
				strong(w)
				if low[w] < low[v] {
					low[v] = low[w]
				}
			} else if on[w] && idx[w] < low[v] {
				low[v] = idx[w]
			}
		}
		if low[v] == idx[v] {
			var comp []string
			for {
				w := stack[len(stack)-1]
				stack = stack[:len(stack)-1]
				on[w] = false
				comp = append(comp, w)
				if w == v {
					break
				}
			}
			sort.Strings(comp)
			if len(comp) > 1 {
				out = append(out, comp)
			} else if _, self := l.Order[[2]string{v, v}]; self {
				out = append(out, comp)
			}
		}
	}
	for _, n := range names {
		if _, ok := idx[n]; !ok {
			strong(n)
		}
	}
	sort.Slice(out, func(i, j int) bool { return strings.Join(out[i], ",") < strings.Join(out[j], ",") })
	return out
}
