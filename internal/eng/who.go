package eng

import (
	"go/token"
	"go/types"
	"strconv"

	"golang.org/x/tools/go/ssa"
)

func unquote(s string) (string, error) { return strconv.Unquote(s) }

// ---------------------------------------------------------------------------------------------
// A3: who-may queries over all repository functions
// ---------------------------------------------------------------------------------------------

// Site is an instruction in a function.
type Site struct {
	Fn  *ssa.Function
	Ins ssa.Instruction
}

// CallSites returns every call instruction in repo functions whose CalleeName satisfies pred.
func (p *Prog) CallSites(pred func(name string, c ssa.CallInstruction) bool) []Site {
	var out []Site
	for _, f := range p.Fns {
		for _, c := range Calls(f) {
			if pred(CalleeName(c.Common()), c) {
				out = append(out, Site{f, c})
			}
		}
	}
	return out
}

// CallSitesOf returns call sites in repo functions that may call target according to the call graph.
func (p *Prog) CallSitesOf(target *ssa.Function) []Site {
	var out []Site
	for _, f := range p.Fns {
		for _, c := range Calls(f) {
			for _, callee := range p.Callees(c) {
				if callee == target {
					out = append(out, Site{f, c})
					break
				}
			}
		}
	}
	return out
}

// FieldAccess is a read or write of a struct field.
type FieldAccess struct {
	Fn    *ssa.Function
	Ins   ssa.Instruction // the FieldAddr / Field instruction
	Write bool
	Fresh bool      // the base object is allocated in the same function (construction, not mutation)
	Val   ssa.Value // stored value for writes
	Base  ssa.Value
}

// isFresh: base derives only from Allocs (new T / local T) of this function that have not escaped before;
// approximated as "the base is an Alloc in the same function".
func isFresh(base ssa.Value) bool {
	switch b := base.(type) {
	case *ssa.Alloc:
		return true
	case *ssa.FieldAddr:
		return isFresh(b.X)
	}
	return false
}

// FieldAccesses lists every access to field `field` of struct type `typ` (short name) in repo functions.
// Loads through FieldAddr count as reads; a FieldAddr used as call argument or otherwise escaping counts
// as both read and write (Write=true, Val=nil).
func (p *Prog) FieldAccesses(typ, field string) []FieldAccess {
	var out []FieldAccess
	for _, f := range p.Fns {
		for _, b := range f.Blocks {
			for _, ins := range b.Instrs {
				switch v := ins.(type) {
				case *ssa.FieldAddr:
					t, fl, _, ok := FieldOf(v)
					if !ok || t != typ || fl != field {
						continue
					}
					refs := v.Referrers()
					if refs == nil {
						continue
					}
					for _, r := range *refs {
						switch u := r.(type) {
						case *ssa.Store:
							if u.Addr == ssa.Value(v) {
								out = append(out, FieldAccess{f, v, true, isFresh(v.X), u.Val, v.X})
							} else {
								out = append(out, FieldAccess{f, v, true, isFresh(v.X), nil, v.X}) // address stored somewhere: escapes
							}
						case *ssa.UnOp:
							if u.Op == token.MUL {
								// a load of a map/slice-typed field whose value is then mutated in place is a write to the shared structure
								out = append(out, FieldAccess{f, v, mutatesContainer(u), isFresh(v.X), nil, v.X})
							}
						case *ssa.FieldAddr, *ssa.IndexAddr:
							// nested access: a read of the outer field's storage location (no load of the outer value)
							out = append(out, FieldAccess{f, v, false, isFresh(v.X), nil, v.X})
						case ssa.CallInstruction:
							// address passed to a call, e.g. (*sync.Mutex).Lock(&x.mu): treat sync types separately by caller
							out = append(out, FieldAccess{f, v, true, isFresh(v.X), nil, v.X})
						case *ssa.DebugRef:
						default:
							out = append(out, FieldAccess{f, v, true, isFresh(v.X), nil, v.X})
						}
					}
				case *ssa.Field:
					t, fl, _, ok := FieldOf(v)
					if ok && t == typ && fl == field {
						out = append(out, FieldAccess{f, v, false, false, nil, v.X})
					}
				}
			}
		}
	}
	return out
}

// FieldStores returns only the writes with a known stored value.
func (p *Prog) FieldStores(typ, field string) []FieldAccess {
	var out []FieldAccess
	for _, a := range p.FieldAccesses(typ, field) {
		if a.Write {
			out = append(out, a)
		}
	}
	return out
}

// StructFields lists the field names of a named struct type looked up by short name ("service.natmap").
func (p *Prog) StructFields(typ string) []*types.Var {
	n := p.LookupType(typ)
	if n == nil {
		return nil
	}
	st, ok := n.Underlying().(*types.Struct)
	if !ok {
		return nil
	}
	var out []*types.Var
	for i := 0; i < st.NumFields(); i++ {
		out = append(out, st.Field(i))
	}
	return out
}

// LookupType finds a named type by short name "pkg.Name" where pkg is the repo-relative package path
// (e.g. "service.natmap", "cmd/outline-ss-server.listenerSet") or a full import path.
func (p *Prog) LookupType(short string) *types.Named {
	for path, pkg := range p.AllPkgs {
		if pkg.Types == nil {
			continue
		}
		prefix := Short(path + ".")
		if len(short) > len(prefix) && short[:len(prefix)] == prefix {
			if o := pkg.Types.Scope().Lookup(short[len(prefix):]); o != nil {
				if tn, ok := o.(*types.TypeName); ok {
					if n, ok := tn.Type().(*types.Named); ok {
						return n
					}
				}
			}
		}
	}
	return nil
}

// LookupConst returns the constant value of a package-level constant ("service.bytesForKeyFinding").
func (p *Prog) LookupConst(short string) (*types.Const, bool) {
	for path, pkg := range p.AllPkgs {
		if pkg.Types == nil {
			continue
		}
		prefix := Short(path + ".")
		if len(short) > len(prefix) && short[:len(prefix)] == prefix {
			if o := pkg.Types.Scope().Lookup(short[len(prefix):]); o != nil {
				if c, ok := o.(*types.Const); ok {
					return c, true
				}
			}
		}
	}
	return nil, false
}

// Allocs returns the allocation sites (new T / composite literals) of the named struct type in repo functions.
func (p *Prog) Allocs(typ string) []Site {
	var out []Site
	for _, f := range p.Fns {
		for _, b := range f.Blocks {
			for _, ins := range b.Instrs {
				if a, ok := ins.(*ssa.Alloc); ok {
					if pt, ok := a.Type().(*types.Pointer); ok && TypeName(pt.Elem()) == typ {
						if _, isNamed := pt.Elem().(*types.Named); isNamed {
							out = append(out, Site{f, a})
						}
					}
				}
			}
		}
	}
	return out
}

// Implements reports whether type t (or *t) implements the interface named by short name.
func (p *Prog) Implements(t types.Type, iface *types.Interface) bool {
	if iface == nil {
		return false
	}
	if types.Implements(t, iface) {
		return true
	}
	if _, isPtr := t.(*types.Pointer); !isPtr {
		return types.Implements(types.NewPointer(t), iface)
	}
	return false
}

// IfaceOf returns the interface type of a named interface in any loaded package ("io.Writer" → path "io").
func (p *Prog) Iface(path, name string) *types.Interface {
	pkg := p.AllPkgs[path]
	if pkg == nil || pkg.Types == nil {
		return nil
	}
	o := pkg.Types.Scope().Lookup(name)
	if o == nil {
		return nil
	}
	i, _ := o.Type().Underlying().(*types.Interface)
	return i
}

// mutatesContainer: the loaded map/slice value is updated in place (m[k] = v, delete(m, k), s[i] = v).
func mutatesContainer(load *ssa.UnOp) bool {
	refs := load.Referrers()
	if refs == nil {
		return false
	}
	for _, r := range *refs {
		switch u := r.(type) {
		case *ssa.MapUpdate:
			if u.Map == ssa.Value(load) {
				return true
			}
		case *ssa.Call:
			if b, ok := u.Call.Value.(*ssa.Builtin); ok && (b.Name() == "delete" || b.Name() == "clear") && len(u.Call.Args) > 0 && u.Call.Args[0] == ssa.Value(load) {
				return true
			}
			// mutating methods of container/list through the loaded *list.List
			if f := u.Call.StaticCallee(); f != nil && f.Pkg != nil && f.Pkg.Pkg.Path() == "container/list" && len(u.Call.Args) > 0 && u.Call.Args[0] == ssa.Value(load) {
				switch f.Name() {
				case "MoveToFront", "MoveToBack", "MoveBefore", "MoveAfter", "PushBack", "PushFront", "PushBackList", "PushFrontList", "Remove", "Init", "InsertBefore", "InsertAfter":
					return true
				}
			}
		case *ssa.IndexAddr:
			if u.X == ssa.Value(load) {
				if rr := u.Referrers(); rr != nil {
					for _, x := range *rr {
						if st, ok := x.(*ssa.Store); ok && st.Addr == ssa.Value(u) {
							return true
						}
					}
				}
			}
		}
	}
	return false
}
